/-
C09 helper lemmas, part D2: an input update keeps the caches coherent.
-/
import ParamVerif.Rx.Dep

namespace ParamVerif.Rx

section
variable {Val Err Op : Type}

theorem cohAt_congr {S : Sem Val Err Op} {env env' : PId → Val} {cells cells' : List (Option Val)}
    {nd : Node Val Err Op} (he : eval S env' nd.expr = eval S env nd.expr)
    (hc : cells'[nd.cell]? = cells[nd.cell]?) (h : CohAt S env cells nd) : CohAt S env' cells' nd :=
  ⟨fun a b => he ▸ h.val a b, fun e a => he ▸ h.err e a, fun a b v hv => he ▸ h.cell a b v (hc ▸ hv)⟩

def All : NId → Prop := fun _ => True

/-- the world after `vals[p] := v` -/
def World.setVal (w : World Val Err Op) (p : PId) (v : Val) : World Val Err Op :=
  { w with vals := fun q => if q = p then v else w.vals q }

theorem argExpr_setVal (w : World Val Err Op) (p : PId) (v : Val) (a : Arg Val) :
    argExpr (w.setVal p v) a = argExpr w a := by cases a <;> rfl

theorem argExprs_setVal (w : World Val Err Op) (p : PId) (v : Val) :
    ∀ as : List (Arg Val), argExprs (w.setVal p v) as = argExprs w as
  | [] => rfl
  | a :: as => by simp [argExprs, argExpr_setVal, argExprs_setVal w p v as]

theorem fnExprOf_setVal (w : World Val Err Op) (p : PId) (v : Val) (f : Fn Val Op) :
    fnExprOf (w.setVal p v) f = fnExprOf w f := by
  cases f <;> simp [fnExprOf, argExprs_setVal, argExpr_setVal]

theorem refs_setVal (w : World Val Err Op) (p : PId) (v : Val) (a : Arg Val) :
    refs (w.setVal p v) a = refs w a := by cases a <;> rfl

theorem refsAll_setVal (w : World Val Err Op) (p : PId) (v : Val) :
    ∀ as : List (Arg Val), refsAll (w.setVal p v) as = refsAll w as
  | [] => rfl
  | a :: as => by simp [refsAll, refs_setVal, refsAll_setVal w p v as]

theorem fnParamsOf_setVal (w : World Val Err Op) (p : PId) (v : Val) (f : Fn Val Op) :
    fnParamsOf (w.setVal p v) f = fnParamsOf w f := by
  cases f <;> simp [fnParamsOf, refsAll_setVal, refs_setVal]

theorem wf_setVal {w : World Val Err Op} (p : PId) (v : Val) (h : WF w) : WF (w.setVal p v) := by
  constructor
  · intro i nd hn
    have := h.node i nd hn
    refine ⟨this.root, this.rootSelf, this.cell, ?_, ?_, this.fnSub, by rw [fnParamsOf_setVal]; exact this.fp⟩
    · intro hp; rw [fnExprOf_setVal]; exact this.isRoot hp
    · intro q hq
      obtain ⟨pd, o, es, h1, h2, h3, h4, h5⟩ := this.derived q hq
      exact ⟨pd, o, es, h1, h2, h3, by rw [argExprs_setVal]; exact h4, h5⟩
  · exact h.cellFn

theorem isW_of_fn {a b : NStat Val Op} (h : a.fn = b.fn) : a.isW = b.isW := by
  simp only [NStat.isW, h]

theorem dep_setVal {w : World Val Err Op} (p : PId) (v : Val) (h : Dep w) : Dep (w.setVal p v) := h

/-- U1: after storing the new value and running the invalidation watchers, every node whose
pipeline does not start at a `where` is coherent for the new inputs -/
theorem cohOn_clean_after_invalidate {S : Sem Val Err Op} {w : World Val Err Op} (hwf : WF w) (hd : Dep w)
    (hc : CohOn S All w) (p : PId) (v : Val) :
    CohOn S (CleanP (w.setVal p v)) (invalidate (w.setVal p v) p) := by
  intro i nd' hp hi
  rw [invalidate_get] at hi
  have hwf1 := wf_setVal p v hwf
  cases hn : (w.setVal p v).nodes[i]? with
  | none => simp [hn] at hi
  | some nd =>
    simp only [hn, Option.map_some, Option.some.injEq] at hi
    subst hi
    have hn0 : w.nodes[i]? = some nd := hn
    have hclean : nd.toNStat.isW = false := hp nd hn
    have ndep := hd.node i nd.toNStat (stat_node hn0)
    have nwf := hwf.node i nd hn0
    by_cases hq : p ∈ supp nd.expr
    · have h1 := params_supset_support ndep hclean p hq
      have h2 := ndep.sub p h1
      exact cohAt_of_invalidated (invNode_invalidated hwf1 hn h2 (fun hprev => ndep.rootIp hprev p h2))
    · apply cohAt_invNode _ _ _ _ nwf.fnSub
      refine cohAt_congr ?_ rfl (hc i nd trivial hn0)
      apply eval_congr
      intro q hq'
      have : q ≠ p := fun h => hq (h ▸ hq')
      simp [invalidate, World.setVal, this]

/-! ### the consumers loop -/

def MustX (S : Sem Val Err Op) (s : WStat Val Op) (env' : PId → Val) (p : PId) (nd : NStat Val Op) : Prop :=
  ∃ c t x y ce xe cv, nd.fn = .ternary c t x y ∧ sArgExpr s c = some ce ∧ sArgExpr s x = some xe ∧
    p ∈ supp xe ∧ eval S env' ce = .ok cv ∧ S.truthy cv = true

def MustY (S : Sem Val Err Op) (s : WStat Val Op) (env' : PId → Val) (p : PId) (nd : NStat Val Op) : Prop :=
  ∃ c t x y ce ye cv, nd.fn = .ternary c t x y ∧ sArgExpr s c = some ce ∧ sArgExpr s y = some ye ∧
    p ∈ supp ye ∧ eval S env' ce = .ok cv ∧ S.truthy cv = false

def NeedX (cs : List (Consumer Val)) (nd : NStat Val Op) : Prop :=
  ∃ c t x y xr, nd.fn = .ternary c t x y ∧ Consumer.trigX c t xr ∈ cs

def NeedY (cs : List (Consumer Val)) (nd : NStat Val Op) : Prop :=
  ∃ c t x y yr, nd.fn = .ternary c t x y ∧ Consumer.trigY c t yr ∈ cs

/-- the state in the middle of the dispatch of an update of `p`: `w1` is the world right after
the store (new inputs), `env` the inputs before the update, `cs` the consumers still to run -/
structure Mid (S : Sem Val Err Op) (w1 : World Val Err Op) (env : PId → Val) (p : PId)
    (cs : List (Consumer Val)) (wc : World Val Err Op) : Prop where
  stat : StaticEq w1 wc
  cohP : CohOn S (CleanP w1) wc
  old : ∀ (i : Nat) (nd : Node Val Err Op), ¬ CleanP w1 i → wc.nodes[i]? = some nd → CohAt S env wc.cells nd
  invI : ∀ (i : Nat) (nd : Node Val Err Op), ¬ CleanP w1 i → wc.nodes[i]? = some nd → p ∈ nd.iparams → Invalidated nd
  invX : ∀ (i : Nat) (nd : Node Val Err Op), ¬ CleanP w1 i → wc.nodes[i]? = some nd →
    MustX S w1.stat w1.vals p nd.toNStat → Invalidated nd ∨ NeedX cs nd.toNStat
  invY : ∀ (i : Nat) (nd : Node Val Err Op), ¬ CleanP w1 i → wc.nodes[i]? = some nd →
    MustY S w1.stat w1.vals p nd.toNStat → Invalidated nd ∨ NeedY cs nd.toNStat

/-- M1: a read of clean nodes keeps the mid-dispatch state -/
theorem Mid.read {S : Sem Val Err Op} {w1 : World Val Err Op} {env : PId → Val} {p : PId}
    {cs : List (Consumer Val)} {wc wc' : World Val Err Op} (hwf1 : WF w1) (m : Mid S w1 env p cs wc)
    {call : Call Val Op} {r : Res Err Val} (post : Post S (CleanP w1) wc call r wc') : Mid S w1 env p cs wc' := by
  have hwfc := hwf1.of_staticEq m.stat
  have keep : ∀ (i : Nat) (nd : Node Val Err Op), ¬ CleanP w1 i → wc'.nodes[i]? = some nd → wc.nodes[i]? = some nd :=
    fun i nd hi hn => by rw [← post.frame.nodes i hi]; exact hn
  refine ⟨m.stat.trans post.stat, post.coh, ?_, fun i nd hi hn => m.invI i nd hi (keep i nd hi hn),
    fun i nd hi hn => m.invX i nd hi (keep i nd hi hn), fun i nd hi hn => m.invY i nd hi (keep i nd hi hn)⟩
  intro i nd hi hn
  have hn0 := keep i nd hi hn
  refine cohAt_congr rfl ?_ (m.old i nd hi hn0)
  apply post.frame.cells
  intro j ndj hpj hj hcell
  -- a clean node sharing the cell would have the same root function
  have hfn := hwfc.cellFn j i ndj nd hj hn0 hcell
  apply hi
  intro nd1 hn1
  have g2 : nd.toNStat = nd1.toNStat := stat_field m.stat hn1 hn0
  obtain ⟨ndj1, k1, k2⟩ := m.stat.node' hj
  have cj : ndj1.toNStat.isW = false := hpj ndj1 k1
  rw [← g2, ← isW_of_fn (a := ndj.toNStat) (b := nd.toNStat) hfn, k2]; exact cj

/-- M2: firing a trigger keeps the mid-dispatch state -/
theorem Mid.inval {S : Sem Val Err Op} {w1 : World Val Err Op} {env : PId → Val} {p : PId}
    {cs : List (Consumer Val)} {wc : World Val Err Op} (hwf1 : WF w1) (m : Mid S w1 env p cs wc) (t : PId) :
    Mid S w1 env p cs (invalidate wc t) := by
  have hwfc := hwf1.of_staticEq m.stat
  have get : ∀ (i : Nat) (nd' : Node Val Err Op), (invalidate wc t).nodes[i]? = some nd' →
      ∃ nd, wc.nodes[i]? = some nd ∧ nd' = invNode wc t nd i := by
    intro i nd' h
    rw [invalidate_get] at h
    cases hn : wc.nodes[i]? with
    | none => simp [hn] at h
    | some nd => exact ⟨nd, rfl, by simpa [hn] using h.symm⟩
  refine ⟨m.stat.trans (staticEq_invalidate _ _), ?_, ?_, ?_, ?_, ?_⟩
  · intro i nd' hp hn'
    obtain ⟨nd, hn, rfl⟩ := get i nd' hn'
    exact cohAt_invNode _ _ _ _ (hwfc.node i nd hn).fnSub (m.cohP i nd hp hn)
  · intro i nd' hp hn'
    obtain ⟨nd, hn, rfl⟩ := get i nd' hn'
    exact cohAt_invNode _ _ _ _ (hwfc.node i nd hn).fnSub (m.old i nd hp hn)
  · intro i nd' hp hn' hq
    obtain ⟨nd, hn, rfl⟩ := get i nd' hn'
    have : (invNode wc t nd i).iparams = nd.iparams := by
      rw [show (invNode wc t nd i).iparams = (invNode wc t nd i).toNStat.iparams from rfl, invNode_stat]
    exact invalidated_invNode _ _ _ _ (m.invI i nd hp hn (this ▸ hq))
  · intro i nd' hp hn' hm
    obtain ⟨nd, hn, rfl⟩ := get i nd' hn'
    rw [invNode_stat] at hm ⊢
    rcases m.invX i nd hp hn hm with h | h
    · exact Or.inl (invalidated_invNode _ _ _ _ h)
    · exact Or.inr h
  · intro i nd' hp hn' hm
    obtain ⟨nd, hn, rfl⟩ := get i nd' hn'
    rw [invNode_stat] at hm ⊢
    rcases m.invY i nd hp hn hm with h | h
    · exact Or.inl (invalidated_invNode _ _ _ _ h)
    · exact Or.inr h

/-- M2': the invalidators registered after a `_sync_refs` watcher keep the mid-dispatch state -/
theorem Mid.invalFrom {S : Sem Val Err Op} {w1 : World Val Err Op} {env : PId → Val} {p : PId}
    {cs : List (Consumer Val)} {wc : World Val Err Op} (hwf1 : WF w1) (m : Mid S w1 env p cs wc) (t : PId) (k : Nat) :
    Mid S w1 env p cs (invalidateFrom wc t k) := by
  have hwfc := hwf1.of_staticEq m.stat
  have get : ∀ (i : Nat) (nd' : Node Val Err Op), (invalidateFrom wc t k).nodes[i]? = some nd' →
      ∃ nd, wc.nodes[i]? = some nd ∧ nd' = invNodeFrom wc t k nd i := by
    intro i nd' h
    rw [invalidateFrom_get] at h
    cases hn : wc.nodes[i]? with
    | none => simp [hn] at h
    | some nd => exact ⟨nd, rfl, by simpa [hn] using h.symm⟩
  refine ⟨m.stat.trans (staticEq_invalidateFrom _ _ _), ?_, ?_, ?_, ?_, ?_⟩
  · intro i nd' hp hn'
    obtain ⟨nd, hn, rfl⟩ := get i nd' hn'
    exact cohAt_invNodeFrom _ _ _ _ _ (hwfc.node i nd hn).fnSub (m.cohP i nd hp hn)
  · intro i nd' hp hn'
    obtain ⟨nd, hn, rfl⟩ := get i nd' hn'
    exact cohAt_invNodeFrom _ _ _ _ _ (hwfc.node i nd hn).fnSub (m.old i nd hp hn)
  · intro i nd' hp hn' hq
    obtain ⟨nd, hn, rfl⟩ := get i nd' hn'
    have : (invNodeFrom wc t k nd i).iparams = nd.iparams := by
      rw [show (invNodeFrom wc t k nd i).iparams = (invNodeFrom wc t k nd i).toNStat.iparams from rfl, invNodeFrom_stat]
    exact invalidated_invNodeFrom _ _ _ _ _ (m.invI i nd hp hn (this ▸ hq))
  · intro i nd' hp hn' hm
    obtain ⟨nd, hn, rfl⟩ := get i nd' hn'
    rw [invNodeFrom_stat] at hm ⊢
    rcases m.invX i nd hp hn hm with h | h
    · exact Or.inl (invalidated_invNodeFrom _ _ _ _ _ h)
    · exact Or.inr h
  · intro i nd' hp hn' hm
    obtain ⟨nd, hn, rfl⟩ := get i nd' hn'
    rw [invNodeFrom_stat] at hm ⊢
    rcases m.invY i nd hp hn hm with h | h
    · exact Or.inl (invalidated_invNodeFrom _ _ _ _ _ h)
    · exact Or.inr h

theorem Mid.drop {S : Sem Val Err Op} {w1 : World Val Err Op} {env : PId → Val} {p : PId}
    {c0 : Consumer Val} {cs : List (Consumer Val)} {wc : World Val Err Op} (m : Mid S w1 env p (c0 :: cs) wc)
    (hx : ∀ (i : Nat) (nd : Node Val Err Op), ¬ CleanP w1 i → wc.nodes[i]? = some nd →
      MustX S w1.stat w1.vals p nd.toNStat →
      (∃ c t x y xr, nd.fn = .ternary c t x y ∧ c0 = .trigX c t xr) → Invalidated nd)
    (hy : ∀ (i : Nat) (nd : Node Val Err Op), ¬ CleanP w1 i → wc.nodes[i]? = some nd →
      MustY S w1.stat w1.vals p nd.toNStat →
      (∃ c t x y yr, nd.fn = .ternary c t x y ∧ c0 = .trigY c t yr) → Invalidated nd) :
    Mid S w1 env p cs wc := by
  refine ⟨m.stat, m.cohP, m.old, m.invI, ?_, ?_⟩
  · intro i nd hi hn hm
    rcases m.invX i nd hi hn hm with h | ⟨c, t, x, y, xr, hf, hmem⟩
    · exact Or.inl h
    · rcases List.mem_cons.1 hmem with h | h
      · exact Or.inl (hx i nd hi hn hm ⟨c, t, x, y, xr, hf, h.symm⟩)
      · exact Or.inr ⟨c, t, x, y, xr, hf, h⟩
  · intro i nd hi hn hm
    rcases m.invY i nd hi hn hm with h | ⟨c, t, x, y, yr, hf, hmem⟩
    · exact Or.inl h
    · rcases List.mem_cons.1 hmem with h | h
      · exact Or.inl (hy i nd hi hn hm ⟨c, t, x, y, yr, hf, h.symm⟩)
      · exact Or.inr ⟨c, t, x, y, yr, hf, h⟩

theorem cleanP_of_argClean {w1 : World Val Err Op} {a : Arg Val} (h : ArgClean w1.stat a) :
    ∀ m, a = .node m → CleanP w1 m := by
  intro m hm nd hn
  obtain ⟨md, g1, g2⟩ := h m hm
  rw [stat_node hn] at g1; cases g1; exact g2

/-- reading the condition of a `where` in the middle of a dispatch -/
theorem Mid.readCond {S : Sem Val Err Op} {w1 : World Val Err Op} {env : PId → Val} {p : PId}
    {cs : List (Consumer Val)} {wc wr : World Val Err Op} (hwf1 : WF w1) (hd1 : Dep w1)
    (m : Mid S w1 env p cs wc) {fuel : Nat} {cnd : Arg Val} {ce : Expr Val Op} {r : Res Err Val}
    (hclean : ArgClean w1.stat cnd) (hce : sArgExpr w1.stat cnd = some ce)
    (h : run S fuel (.arg cnd) wc = (r, wr)) (hr : r ≠ .error .fuel) :
    Mid S w1 env p cs wr ∧ r = liftPy (eval S w1.vals ce) := by
  have hwfc := hwf1.of_staticEq m.stat
  have hclosed : Closed (CleanP w1) wc := (closed_cleanP hwf1 hd1).of_staticEq m.stat
  have hexpr : argExpr wc cnd = some ce := by rw [argExpr_staticEq m.stat, argExpr_eq]; exact hce
  have post := run_correct S (CleanP w1) fuel (.arg cnd) wc r wr hwfc hclosed m.cohP
    ⟨cleanP_of_argClean hclean, ce, hexpr⟩ h hr
  obtain ⟨e, he, hv⟩ := post.val
  rw [show callExpr wc (.arg cnd) = argExpr wc cnd from rfl, hexpr] at he; cases he
  rw [m.stat.vals] at hv
  exact ⟨m.read hwf1 post, hv⟩

/-- after the trigger of a `where` has fired, every node of that `where`'s pipeline is invalidated -/
theorem fired_invalidated {w1 wr : World Val Err Op} (hwf1 : WF w1) (hd1 : Dep w1) (hs : StaticEq w1 wr)
    {i : Nat} {nd' : Node Val Err Op} {c : Arg Val} {t : PId} {x y : Arg Val}
    (hn' : (invalidate wr t).nodes[i]? = some nd') (hf : nd'.fn = .ternary c t x y) : Invalidated nd' := by
  have hwfr := hwf1.of_staticEq hs
  have hdr := hd1.of_staticEq hs
  rw [invalidate_get] at hn'
  cases hn : wr.nodes[i]? with
  | none => simp [hn] at hn'
  | some nd =>
    simp only [hn, Option.map_some, Option.some.injEq] at hn'
    subst hn'
    have hf0 : nd.fn = .ternary c t x y := by
      rw [← hf, show (invNode wr t nd i).fn = (invNode wr t nd i).toNStat.fn from rfl, invNode_stat]
    have ndep := hdr.node i nd.toNStat (stat_node hn)
    have ht := (ndep.whereOK c t x y hf0).1
    exact invNode_invalidated hwfr hn ((hwfr.node i nd hn).fnSub t ht) (fun _ => ht)

theorem Mid.stepX {S : Sem Val Err Op} {w1 : World Val Err Op} {env : PId → Val} {p : PId}
    {cs : List (Consumer Val)} {wc wr : World Val Err Op} (hwf1 : WF w1) (hd1 : Dep w1) {fuel : Nat}
    {cnd : Arg Val} {t : PId} {deps : List PId} {cv : Val}
    (m : Mid S w1 env p (.trigX cnd t deps :: cs) wc) (hmem : Consumer.trigX cnd t deps ∈ w1.consumers)
    (h : run S fuel (.arg cnd) wc = (.ok cv, wr)) :
    Mid S w1 env p cs (if S.truthy cv then invalidate wr t else wr) := by
  obtain ⟨hclean, ce, hce⟩ := hd1.trigX cnd t deps hmem
  obtain ⟨m1, hv⟩ := m.readCond hwf1 hd1 hclean hce h (by simp)
  have hcv := liftPy_ok_inv hv
  by_cases ht : S.truthy cv = true
  · simp only [ht, if_true]
    apply (m1.inval hwf1 t).drop
    · intro i nd hi hn _ ⟨c, t', x, y, xr, hf, hc0⟩
      cases hc0
      exact fired_invalidated hwf1 hd1 m1.stat hn hf
    · intro i nd hi hn _ ⟨c, t', x, y, yr, hf, hc0⟩
      cases hc0
  · simp only [ht]
    apply m1.drop
    · intro i nd hi hn ⟨c, t1, x, y, ce', xe, cv', hf, hce', _, _, hev, htr⟩ ⟨c2, t2, x2, y2, xr, hf2, hc0⟩
      cases hc0
      have : nd.toNStat.fn = nd.fn := rfl
      rw [this, hf2] at hf
      cases hf
      rw [hce] at hce'; cases hce'
      rw [hcv] at hev; cases hev
      exact absurd htr ht
    · intro i nd hi hn _ ⟨c, t', x, y, yr, hf, hc0⟩
      cases hc0

theorem Mid.stepY {S : Sem Val Err Op} {w1 : World Val Err Op} {env : PId → Val} {p : PId}
    {cs : List (Consumer Val)} {wc wr : World Val Err Op} (hwf1 : WF w1) (hd1 : Dep w1) {fuel : Nat}
    {cnd : Arg Val} {t : PId} {deps : List PId} {cv : Val}
    (m : Mid S w1 env p (.trigY cnd t deps :: cs) wc) (hmem : Consumer.trigY cnd t deps ∈ w1.consumers)
    (h : run S fuel (.arg cnd) wc = (.ok cv, wr)) :
    Mid S w1 env p cs (if S.truthy cv then wr else invalidate wr t) := by
  obtain ⟨hclean, ce, hce⟩ := hd1.trigY cnd t deps hmem
  obtain ⟨m1, hv⟩ := m.readCond hwf1 hd1 hclean hce h (by simp)
  have hcv := liftPy_ok_inv hv
  by_cases ht : S.truthy cv = true
  · simp only [ht, if_true]
    apply m1.drop
    · intro i nd hi hn _ ⟨c, t', x, y, xr, hf, hc0⟩
      cases hc0
    · intro i nd hi hn ⟨c, t1, x, y, ce', ye, cv', hf, hce', _, _, hev, htr⟩ ⟨c2, t2, x2, y2, yr, hf2, hc0⟩
      cases hc0
      have : nd.toNStat.fn = nd.fn := rfl
      rw [this, hf2] at hf
      cases hf
      rw [hce] at hce'; cases hce'
      rw [hcv] at hev; cases hev
      rw [ht] at htr; cases htr
  · simp only [ht]
    apply (m1.inval hwf1 t).drop
    · intro i nd hi hn _ ⟨c, t', x, y, xr, hf, hc0⟩
      cases hc0
    · intro i nd hi hn _ ⟨c, t', x, y, yr, hf, hc0⟩
      cases hc0
      exact fired_invalidated hwf1 hd1 m1.stat hn hf

theorem Mid.stepW {S : Sem Val Err Op} {w1 : World Val Err Op} {env : PId → Val} {p : PId}
    {cs : List (Consumer Val)} {wc wr : World Val Err Op} (hwf1 : WF w1) (hd1 : Dep w1) {fuel : Nat}
    {k : Nat} {n : NId} {deps : List PId} {v : Val}
    (m : Mid S w1 env p (.watch k n deps :: cs) wc) (hmem : Consumer.watch k n deps ∈ w1.consumers)
    (h : run S fuel (.resolve n) wc = (.ok v, wr)) :
    Mid S w1 env p cs wr ∧ ∃ nd, w1.nodes[n]? = some nd ∧ eval S w1.vals nd.expr = .ok v := by
  obtain ⟨ns, hns, hclean, _⟩ := hd1.watch k n deps hmem
  obtain ⟨nd, hn, rfl⟩ := stat_node' hns
  have hwfc := hwf1.of_staticEq m.stat
  have hclosed : Closed (CleanP w1) wc := (closed_cleanP hwf1 hd1).of_staticEq m.stat
  obtain ⟨ndc, g1, g2⟩ := m.stat.node hn
  have hP : CleanP w1 n := fun nd' hn' => by rw [hn] at hn'; cases hn'; exact hclean
  have post := run_correct S (CleanP w1) fuel (.resolve n) wc _ wr hwfc hclosed m.cohP ⟨hP, ndc, g1⟩ h (by simp)
  obtain ⟨e, he, hv⟩ := post.val
  simp only [callExpr, g1, Option.map_some, Option.some.injEq] at he
  subst he
  rw [m.stat.vals, show ndc.expr = ndc.toNStat.expr from rfl, g2] at hv
  refine ⟨(m.read hwf1 post).drop ?_ ?_, nd, hn, liftPy_ok_inv hv⟩
  · intro i nd hi hn _ ⟨c, t', x, y, xr, hf, hc0⟩
    cases hc0
  · intro i nd hi hn _ ⟨c, t', x, y, yr, hf, hc0⟩
    cases hc0

theorem Mid.setHolders {S : Sem Val Err Op} {w1 : World Val Err Op} {env : PId → Val} {p : PId}
    {cs : List (Consumer Val)} {wc : World Val Err Op} (m : Mid S w1 env p cs wc) (hs : List Val) :
    Mid S w1 env p cs { wc with holders := hs } :=
  ⟨⟨m.stat.vals, m.stat.nparams, m.stat.inputs, m.stat.trigs, m.stat.consumers, m.stat.nwatch, m.stat.cellsLen,
     m.stat.stat⟩, m.cohP, m.old, m.invI, m.invX, m.invY⟩

theorem Mid.stepS {S : Sem Val Err Op} {w1 : World Val Err Op} {env : PId → Val} {p : PId}
    {cs : List (Consumer Val)} {wc wr : World Val Err Op} (hwf1 : WF w1) (hd1 : Dep w1) {fuel : Nat}
    {k : Nat} {n : NId} {deps : List PId} {v : Val}
    {a : Nat} (m : Mid S w1 env p (.sync k n deps a :: cs) wc) (hmem : Consumer.sync k n deps a ∈ w1.consumers)
    (h : run S fuel (.resolve n) wc = (.ok v, wr)) :
    Mid S w1 env p cs wr ∧ ∃ nd, w1.nodes[n]? = some nd ∧ eval S w1.vals nd.expr = .ok v := by
  obtain ⟨ns, hns, hclean, _⟩ := hd1.sync k n deps a hmem
  obtain ⟨nd, hn, rfl⟩ := stat_node' hns
  have hwfc := hwf1.of_staticEq m.stat
  have hclosed : Closed (CleanP w1) wc := (closed_cleanP hwf1 hd1).of_staticEq m.stat
  obtain ⟨ndc, g1, g2⟩ := m.stat.node hn
  have hP : CleanP w1 n := fun nd' hn' => by rw [hn] at hn'; cases hn'; exact hclean
  have post := run_correct S (CleanP w1) fuel (.resolve n) wc _ wr hwfc hclosed m.cohP ⟨hP, ndc, g1⟩ h (by simp)
  obtain ⟨e, he, hv⟩ := post.val
  simp only [callExpr, g1, Option.map_some, Option.some.injEq] at he
  subst he
  rw [m.stat.vals, show ndc.expr = ndc.toNStat.expr from rfl, g2] at hv
  refine ⟨(m.read hwf1 post).drop ?_ ?_, nd, hn, liftPy_ok_inv hv⟩
  · intro i nd hi hn _ ⟨c, t', x, y, xr, hf, hc0⟩
    cases hc0
  · intro i nd hi hn _ ⟨c, t', x, y, yr, hf, hc0⟩
    cases hc0

/-- U3: the precedence-0 watchers of an update run to completion -/
theorem runConsumers_mid {S : Sem Val Err Op} {w1 : World Val Err Op} {env : PId → Val} {p : PId}
    (hwf1 : WF w1) (hd1 : Dep w1) (fuel : Nat) :
    ∀ (cs : List (Consumer Val)) (wc : World Val Err Op) (log calls : List (Nat × Val)) (w' : World Val Err Op),
      (∀ c ∈ cs, c ∈ w1.consumers) → Mid S w1 env p cs wc →
      runConsumers S fuel p cs wc log = (.set calls none, w') →
      Mid S w1 env p [] w' ∧
      (∃ extra, calls = log ++ extra ∧ ∀ kv ∈ extra, ∃ n deps nd, Consumer.watch kv.1 n deps ∈ cs ∧
          w1.nodes[n]? = some nd ∧ eval S w1.vals nd.expr = .ok kv.2) ∧
      (∀ k n deps, Consumer.watch k n deps ∈ cs → ∃ nd v, w1.nodes[n]? = some nd ∧
          eval S w1.vals nd.expr = .ok v ∧ (k, v) ∈ calls)
  | [], wc, log, calls, w', _, m, h => by
    simp only [runConsumers, Prod.mk.injEq, Outcome.set.injEq, and_true] at h
    obtain ⟨rfl, rfl⟩ := h
    exact ⟨m, ⟨[], by simp, by simp⟩, by simp⟩
  | c0 :: cs, wc, log, calls, w', hsub, m, h => by
    have hsub' : ∀ c ∈ cs, c ∈ w1.consumers := fun c hc => hsub c (by simp [hc])
    have hmem : c0 ∈ w1.consumers := hsub c0 (by simp)
    cases c0 with
    | trigX cnd t deps =>
      simp only [runConsumers] at h
      cases h1 : run S fuel (.arg cnd) wc with
      | mk r wr =>
        simp only [h1] at h
        cases r with
        | error x => cases x <;> simp at h
        | ok cv =>
          simp only at h
          obtain ⟨mf, ⟨extra, he1, he2⟩, hw⟩ := runConsumers_mid hwf1 hd1 fuel cs _ log calls w' hsub'
            (m.stepX hwf1 hd1 hmem h1) h
          refine ⟨mf, ⟨extra, he1, fun kv hkv => ?_⟩, fun k n deps' hk => ?_⟩
          · obtain ⟨n, d, nd, a1, a2, a3⟩ := he2 kv hkv
            exact ⟨n, d, nd, by simp [a1], a2, a3⟩
          · simp only [List.mem_cons, reduceCtorEq, false_or] at hk
            exact hw k n deps' hk
    | trigY cnd t deps =>
      simp only [runConsumers] at h
      cases h1 : run S fuel (.arg cnd) wc with
      | mk r wr =>
        simp only [h1] at h
        cases r with
        | error x => cases x <;> simp at h
        | ok cv =>
          simp only at h
          obtain ⟨mf, ⟨extra, he1, he2⟩, hw⟩ := runConsumers_mid hwf1 hd1 fuel cs _ log calls w' hsub'
            (m.stepY hwf1 hd1 hmem h1) h
          refine ⟨mf, ⟨extra, he1, fun kv hkv => ?_⟩, fun k n deps' hk => ?_⟩
          · obtain ⟨n, d, nd, a1, a2, a3⟩ := he2 kv hkv
            exact ⟨n, d, nd, by simp [a1], a2, a3⟩
          · simp only [List.mem_cons, reduceCtorEq, false_or] at hk
            exact hw k n deps' hk
    | watch k0 n0 deps0 =>
      simp only [runConsumers] at h
      cases h1 : run S fuel (.resolve n0) wc with
      | mk r wr =>
        simp only [h1] at h
        cases r with
        | error x => cases x <;> simp at h
        | ok v =>
          simp only at h
          obtain ⟨m1, nd0, hn0, hv0⟩ := m.stepW hwf1 hd1 hmem h1
          obtain ⟨mf, ⟨extra, he1, he2⟩, hw⟩ := runConsumers_mid hwf1 hd1 fuel cs _ _ calls w' hsub' m1 h
          refine ⟨mf, ⟨(k0, v) :: extra, by simp [he1], fun kv hkv => ?_⟩, fun k n deps' hk => ?_⟩
          · rcases List.mem_cons.1 hkv with rfl | hkv
            · exact ⟨n0, deps0, nd0, by simp, hn0, hv0⟩
            · obtain ⟨n, d, nd, a1, a2, a3⟩ := he2 kv hkv
              exact ⟨n, d, nd, by simp [a1], a2, a3⟩
          · rcases List.mem_cons.1 hk with hk | hk
            · cases hk
              exact ⟨nd0, v, hn0, hv0, by simp [he1]⟩
            · exact hw k n deps' hk
    | sync h0 n0 deps0 a0 =>
      simp only [runConsumers] at h
      cases h1 : run S fuel (.resolve n0) wc with
      | mk r wr =>
        simp only [h1] at h
        cases r with
        | error x => cases x <;> simp at h
        | ok v =>
          simp only at h
          obtain ⟨m1, _, _, _⟩ := m.stepS hwf1 hd1 hmem h1
          obtain ⟨mf, ⟨extra, he1, he2⟩, hw⟩ := runConsumers_mid hwf1 hd1 fuel cs _ log calls w' hsub'
            ((m1.setHolders _).invalFrom hwf1 p a0) h
          refine ⟨mf, ⟨extra, he1, fun kv hkv => ?_⟩, fun k n deps' hk => ?_⟩
          · obtain ⟨n, d, nd, a1, a2, a3⟩ := he2 kv hkv
            exact ⟨n, d, nd, by simp [a1], a2, a3⟩
          · simp only [List.mem_cons, reduceCtorEq, false_or] at hk
            exact hw k n deps' hk

theorem suppS_spine : ∀ (e : Expr Val Op) (q : PId), q ∈ suppS (spine e) → q ∈ suppS e
  | .lit _, _, h => h
  | .input _, _, h => h
  | .call _ _, _, h => h
  | .ite _ _ _, _, h => h
  | .app _ _ e args, q, h => by
    simp only [spine] at h
    simp only [suppS, List.mem_append]
    exact Or.inl (suppS_spine e q h)

/-- when every consumer has run, all nodes are coherent for the new inputs -/
theorem Mid.finish {S : Sem Val Err Op} {w1 : World Val Err Op} {env : PId → Val} {p : PId}
    {w' : World Val Err Op} (hd1 : Dep w1) (m : Mid S w1 env p [] w')
    (henv : ∀ q, q ≠ p → w1.vals q = env q) : CohOn S All w' := by
  intro i nd _ hn
  by_cases hP : CleanP w1 i
  · exact m.cohP i nd hP hn
  · by_cases hinv : Invalidated nd
    · exact cohAt_of_invalidated hinv
    · have hold := m.old i nd hP hn
      obtain ⟨nd1, g1, g2⟩ := m.stat.node' hn
      have ndep := hd1.node i nd1.toNStat (stat_node g1)
      rw [← g2] at ndep
      have hW : nd.toNStat.isW = true := by
        cases hh : nd.toNStat.isW with
        | true => rfl
        | false =>
          exfalso; apply hP
          intro x hx; rw [g1] at hx; cases hx; rw [← g2]; exact hh
      refine cohAt_congr ?_ rfl hold
      rw [m.stat.vals]
      symm
      apply eval_congr_dyn
      intro q hq
      by_cases hqp : q = p
      · subst hqp
        exfalso
        rcases mem_dsupp S env nd.expr q hq with h | ⟨c, x, y, hs, h⟩
        · exact hinv (m.invI i nd hP hn (ndep.suppS q h))
        · -- the node belongs to a `where`
          have hfn : ∃ c0 t x0 y0, nd.toNStat.fn = .ternary c0 t x0 y0 := by
            simp only [NStat.isW] at hW
            split at hW
            · rename_i c0 t x0 y0 heq; exact ⟨c0, t, x0, y0, heq⟩
            · cases hW
          obtain ⟨c0, t, x0, y0, hf⟩ := hfn
          obtain ⟨ce, xe, ye, a1, a2, a3, a4⟩ := ndep.spineW c0 t x0 y0 hf
          rw [show nd.toNStat.expr = nd.expr from rfl, hs] at a4
          cases a4
          have hce : eval S w1.vals c = eval S env c := by
            apply eval_congr
            intro q' hq'
            by_cases h' : q' = q
            · subst h'
              exfalso
              apply hinv
              apply m.invI i nd hP hn
              apply ndep.suppS
              apply suppS_spine
              rw [show nd.toNStat.expr = nd.expr from rfl, hs]
              simpa [suppS] using hq'
            · exact henv q' h'
          rcases h with ⟨cv, e1, e2, e3⟩ | ⟨cv, e1, e2, e3⟩
          · rcases m.invX i nd hP hn ⟨c0, t, x0, y0, c, x, cv, hf, a1, a2, e3, by rw [hce]; exact e1, e2⟩ with h | h
            · exact hinv h
            · obtain ⟨_, _, _, _, _, _, hmem⟩ := h; simp at hmem
          · rcases m.invY i nd hP hn ⟨c0, t, x0, y0, c, y, cv, hf, a1, a3, e3, by rw [hce]; exact e1, e2⟩ with h | h
            · exact hinv h
            · obtain ⟨_, _, _, _, _, _, hmem⟩ := h; simp at hmem
      · exact (henv q hqp).symm

theorem mem_consumersOf {w : World Val Err Op} {q : PId} {c : Consumer Val} :
    c ∈ consumersOf w q ↔ c ∈ w.consumers ∧ q ∈ c.deps := by
  simp [consumersOf, List.mem_filter]

theorem mem_dispatchOrder {w : World Val Err Op} {q : PId} {c : Consumer Val} :
    c ∈ dispatchOrder w q ↔ c ∈ consumersOf w q := by
  simp only [dispatchOrder, List.mem_append, List.mem_filter]
  constructor
  · rintro (h | h) <;> exact h.1
  · intro h
    by_cases hs : c.isSync = true
    · exact Or.inl ⟨h, hs⟩
    · exact Or.inr ⟨h, by simpa using hs⟩

/-- **the update step**: storing a new input value, running the invalidation watchers and then the
where-triggers / watch callbacks (none of which raised) re-establishes coherence for the new inputs -/
theorem set_step {S : Sem Val Err Op} {w : World Val Err Op}
    (hwf : WF w) (hd : Dep w) (hc : CohOn S All w) {fuel : Nat} {p : PId} {v : Val}
    (hEq : S.isEqual (w.vals p) v = true → w.vals p = v)
    {calls : List (Nat × Val)} {w' : World Val Err Op}
    (h : step S fuel w (.set p v) = (.set calls none, w')) :
    StaticEq (w.setVal p v) w' ∧ CohOn S All w' ∧
    (∀ kv ∈ calls, ∃ n deps nd, Consumer.watch kv.1 n deps ∈ w.consumers ∧ w.nodes[n]? = some nd ∧
        eval S w'.vals nd.expr = .ok kv.2) ∧
    (∀ k n deps nd, Consumer.watch k n deps ∈ w.consumers → w.nodes[n]? = some nd →
        eval S w.vals nd.expr ≠ eval S w'.vals nd.expr →
        ∃ v', eval S w'.vals nd.expr = .ok v' ∧ (k, v') ∈ calls) := by
  simp only [step] at h
  split at h
  · simp at h
  · split at h
    · -- equal value: nothing is invalidated
      rename_i heq
      have hv : w.vals p = v := hEq heq
      simp only [Prod.mk.injEq, Outcome.set.injEq, and_true] at h
      obtain ⟨rfl, rfl⟩ := h
      have hvals : (fun q => if q = p then v else w.vals q) = w.vals := by
        funext q; by_cases hq : q = p <;> simp [hq, hv]
      refine ⟨StaticEq.refl _, ?_, by simp, ?_⟩
      · intro i nd hp hn
        have := hc i nd hp hn
        exact cohAt_congr (by simp only [hvals]) rfl this
      · intro k n deps nd _ _ hne
        exact absurd (by simp only [hvals]) hne
    · have hwf1 := wf_setVal p v hwf
      have hd1 := dep_setVal p v hd
      have m0 : Mid S (w.setVal p v) w.vals p (dispatchOrder (w.setVal p v) p) (invalidate (w.setVal p v) p) := by
        refine ⟨staticEq_invalidate _ _, cohOn_clean_after_invalidate hwf hd hc p v, ?_, ?_, ?_, ?_⟩
        · intro i nd' _ hn'
          rw [invalidate_get] at hn'
          cases hn : (w.setVal p v).nodes[i]? with
          | none => simp [hn] at hn'
          | some nd =>
            simp only [hn, Option.map_some, Option.some.injEq] at hn'
            subst hn'
            exact cohAt_invNode _ _ _ _ (hwf.node i nd hn).fnSub (hc i nd trivial hn)
        · intro i nd' _ hn' hq
          rw [invalidate_get] at hn'
          cases hn : (w.setVal p v).nodes[i]? with
          | none => simp [hn] at hn'
          | some nd =>
            simp only [hn, Option.map_some, Option.some.injEq] at hn'
            subst hn'
            have hq0 : p ∈ nd.iparams := by
              rw [show (invNode (w.setVal p v) p nd i).iparams = (invNode (w.setVal p v) p nd i).toNStat.iparams from rfl,
                invNode_stat] at hq
              exact hq
            have ndep := hd.node i nd.toNStat (stat_node (w := w) hn)
            exact invNode_invalidated hwf1 hn hq0 (fun hprev => ndep.rootIp hprev p hq0)
        · intro i nd' _ hn' ⟨c, t, x, y, ce, xe, cv, hf, a1, a2, a3, a4, a5⟩
          rw [invalidate_get] at hn'
          cases hn : (w.setVal p v).nodes[i]? with
          | none => simp [hn] at hn'
          | some nd =>
            simp only [hn, Option.map_some, Option.some.injEq] at hn'
            subst hn'
            rw [invNode_stat] at hf ⊢
            have ndep := hd.node i nd.toNStat (stat_node (w := w) hn)
            obtain ⟨_, _, hx, _⟩ := ndep.whereOK c t x y hf
            obtain ⟨xr, m1, m2⟩ := hx xe a2 (List.ne_nil_of_mem a3)
            exact Or.inr ⟨c, t, x, y, xr, hf, mem_dispatchOrder.2 (mem_consumersOf.2 ⟨m1, m2 p a3⟩)⟩
        · intro i nd' _ hn' ⟨c, t, x, y, ce, ye, cv, hf, a1, a2, a3, a4, a5⟩
          rw [invalidate_get] at hn'
          cases hn : (w.setVal p v).nodes[i]? with
          | none => simp [hn] at hn'
          | some nd =>
            simp only [hn, Option.map_some, Option.some.injEq] at hn'
            subst hn'
            rw [invNode_stat] at hf ⊢
            have ndep := hd.node i nd.toNStat (stat_node (w := w) hn)
            obtain ⟨_, _, _, hy⟩ := ndep.whereOK c t x y hf
            obtain ⟨yr, m1, m2⟩ := hy ye a2 (List.ne_nil_of_mem a3)
            exact Or.inr ⟨c, t, x, y, yr, hf, mem_dispatchOrder.2 (mem_consumersOf.2 ⟨m1, m2 p a3⟩)⟩
      obtain ⟨mf, ⟨extra, he1, he2⟩, hw⟩ := runConsumers_mid hwf1 hd1 fuel _ _ [] calls w'
        (fun c hc => (mem_consumersOf.1 (mem_dispatchOrder.1 hc)).1) m0 h
      have hvals' : w'.vals = (w.setVal p v).vals := mf.stat.vals
      refine ⟨mf.stat, mf.finish hd1 (fun q hq => by simp [World.setVal, hq]), ?_, ?_⟩
      · intro kv hkv
        rw [he1, List.nil_append] at hkv
        obtain ⟨n, deps, nd, a1, a2, a3⟩ := he2 kv hkv
        exact ⟨n, deps, nd, (mem_consumersOf.1 (mem_dispatchOrder.1 a1)).1, a2, by rw [hvals']; exact a3⟩
      · intro k n deps nd hk hn hne
        have hdw := hd.watch k n deps hk
        obtain ⟨ns, g1, g2, g3⟩ := hdw
        rw [stat_node hn] at g1; cases g1
        have ndep := hd.node n nd.toNStat (stat_node hn)
        have hp : p ∈ supp nd.expr := by
          apply Classical.byContradiction
          intro hnot
          apply hne
          rw [hvals']
          apply eval_congr
          intro q hq
          have : q ≠ p := fun h => hnot (h ▸ hq)
          simp [World.setVal, this]
        have hdeps : p ∈ deps := by rw [g3]; exact params_supset_support ndep g2 p hp
        obtain ⟨nd', v', b1, b2, b3⟩ := hw k n deps (mem_dispatchOrder.2 (mem_consumersOf.2 ⟨hk, hdeps⟩))
        rw [show (w.setVal p v).nodes[n]? = w.nodes[n]? from rfl, hn] at b1; cases b1
        exact ⟨v', by rw [hvals']; exact b2, b3⟩

end
end ParamVerif.Rx
