/-
C09 model: `param.rx` reactive expressions (param/reactive.py) as a state machine.

A *program* is a list of statements that create expression nodes on inputs
(`rx(v)` literal roots, Parameters, bound functions, `where`), register
`.rx.watch` callbacks, update inputs and read `.rx.value`.  The model mirrors
the code as written:

* every operator application first makes a *copy* of the node it is applied to
  (`_resolve_accessor` → `_clone(copy=True)`, which reads `self._current`) and
  then chains the derived node on that copy (`_clone(operation)`);
* each node carries `(_current_, _dirty, _error_state)`, each root `_dirty_obj`,
  and a pipeline family shares one `_shared_obj` cell;
* `_fn_params`, `_internal_params` and the filtered `_params` are computed per
  node exactly as `_compute_fn_params` / `_compute_params` / `rx.__init__` do,
  including the filter that hides a `where`'s Trigger from consumers;
* an input update stores the value and, unless `Comparator.is_equal(old, new)`,
  runs the precedence −1 invalidation watchers of every node and then the
  precedence 0 consumers (`where` triggers, `.rx.watch` callbacks) in
  registration order, stopping at the first one that raises;
* a Parameter that holds an expression as a reference (`Stmt.ref`) is a holder whose `_sync_refs`
  watcher (precedence −1, registered after the invalidators of every node the expression reads)
  re-reads the expression before the precedence-0 consumers run;
* `run` is `_resolve` / `_obj` / `eval_function_with_deps` / `resolve_value`.

Values, exception classes and operator names are abstract; their semantics is
the parameter `Sem` (the driver instantiates it with Python's arithmetic).
No imports: the driver loads this file.
-/

namespace ParamVerif.Rx

abbrev PId := Nat   -- parameters: inputs (Wrapper.object, user Parameters) and Trigger events
abbrev NId := Nat   -- rx nodes, by creation index

/-- semantics of the opaque parts -/
structure Sem (Val Err Op : Type) where
  apply : Op → List Val → Except Err Val   -- fn(*values): operators, methods, user functions
  truthy : Val → Bool                      -- `if value:`
  isEqual : Val → Val → Bool               -- Comparator.is_equal(old, new)
  none : Val                               -- Python None (initial `_current_`)
  isNone : Val → Bool                      -- `value is None`
  hasAttr : Val → Op → Bool                -- `name in dir(value)` for a method call
  attrErr : Err                            -- AttributeError
  iterLen : Val → Option Nat               -- `len(value)` of an iterable value (kept for the harness semantics; unused by the model)
  typeErr : Err                            -- TypeError
  ofBool : Bool → Val                      -- a plain Python bool

/-- an operand of an operation / bound function / `where` -/
inductive Arg (Val : Type) where
  | lit (v : Val)
  | node (n : NId)       -- an rx expression (seen through `_rx_transform`)
  | param (p : PId)      -- a Parameter object
  deriving Repr, DecidableEq

/-- the expression tree a node denotes (what the user wrote) -/
inductive Expr (Val Op : Type) where
  | lit (v : Val)
  | input (p : PId)
  | app (o : Op) (rev : Bool) (e : Expr Val Op) (args : List (Expr Val Op))
  | call (g : Op) (args : List (Expr Val Op))
  | ite (c x y : Expr Val Op)

/-- src: reactive.py rx._apply_operator — the recorded operation -/
structure Operation (Val Op : Type) where
  op : Op
  args : List (Arg Val)
  reverse : Bool

/-- the function `_fn` feeding a pipeline -/
inductive Fn (Val Op : Type) where
  | ident (p : PId)                                  -- bind(lambda obj: obj, parameter)
  | bound (g : Op) (args : List (Arg Val))           -- bind(g, *args)
  | ternary (c : Arg Val) (t : PId) (x y : Arg Val)  -- reactive_ops.where

/-- what is fixed when a node is created -/
structure NStat (Val Op : Type) where
  prev : Option NId
  root : NId
  cell : Nat                       -- index of the shared `_shared_obj` list
  fn : Fn Val Op
  op : Option (Operation Val Op)
  fnParams : List PId              -- _fn_params
  iparams : List PId               -- _internal_params
  params : List PId                -- _params (what consumers see)
  expr : Expr Val Op               -- ghost: the expression this node stands for

structure Node (Val Err Op : Type) extends NStat Val Op where
  current : Val                    -- _current_
  dirty : Bool                     -- _dirty
  dirtyObj : Bool                  -- _dirty_obj (meaningful on roots)
  error : Option Err               -- _error_state

/-- precedence-0 watchers, in registration order -/
inductive Consumer (Val : Type) where
  | trigX (c : Arg Val) (t : PId) (deps : List PId)   -- where: `if self.value: trigger`
  | trigY (c : Arg Val) (t : PId) (deps : List PId)   -- where: `if not self.value: trigger`
  | watch (k : Nat) (n : NId) (deps : List PId)       -- .rx.watch callback number k on node n
  | sync (h : Nat) (n : NId) (deps : List PId) (at_ : Nat)
      -- `_sync_refs` of holder h: a Parameter that holds node n as a reference (precedence −1, registered when
      -- `at_` nodes existed: after their invalidators — which cover everything n reads — and before those of later nodes)

def Consumer.deps {Val} : Consumer Val → List PId
  | .trigX _ _ d => d | .trigY _ _ d => d | .watch _ _ d => d | .sync _ _ d _ => d

def Consumer.isSync {Val} : Consumer Val → Bool
  | .sync .. => true
  | _ => false

structure World (Val Err Op : Type) where
  vals : PId → Val                        -- current value of every parameter
  nparams : Nat
  inputs : List PId                       -- parameters a user can set (not Trigger events)
  nodes : List (Node Val Err Op)
  cells : List (Option Val)               -- `none` = `_shared_obj is None`
  trigs : List (PId × List PId)           -- Trigger event ↦ Trigger.parameters
  consumers : List (Consumer Val)
  nwatch : Nat
  holders : List Val := []                -- value of every Parameter that holds an expression as a reference

inductive Exn (Err : Type) where
  | py (e : Err)      -- a Python exception
  | fuel              -- interpreter out of fuel (never a verdict)
  | bad               -- dangling reference: the statement is rejected
  deriving Repr, DecidableEq

abbrev Res (Err α : Type) := Except (Exn Err) α

inductive Call (Val Op : Type) where
  | resolve (n : NId)        -- rx._resolve
  | obj (n : NId)            -- rx._obj getter
  | fn (f : Fn Val Op)       -- eval_function_with_deps(bound function)
  | arg (a : Arg Val)        -- resolve_value(arg)

section
variable {Val Err Op : Type}

def World.empty (S : Sem Val Err Op) : World Val Err Op :=
  { vals := fun _ => S.none, nparams := 0, inputs := [], nodes := [], cells := [], trigs := [],
    consumers := [], nwatch := 0, holders := [] }

def World.modNode (w : World Val Err Op) (n : NId) (f : Node Val Err Op → Node Val Err Op) : World Val Err Op :=
  { w with nodes := w.nodes.modify n f }

/-- `self._current_ = obj; self._dirty = False` -/
def World.store (w : World Val Err Op) (n : NId) (v : Val) : World Val Err Op :=
  w.modNode n fun nd => { nd with current := v, dirty := false }

/-- `self._error_state = e` -/
def World.setError (w : World Val Err Op) (n : NId) (e : Err) : World Val Err Op :=
  w.modNode n fun nd => { nd with error := some e }

def World.setCell (w : World Val Err Op) (c : Nat) (v : Val) : World Val Err Op :=
  { w with cells := w.cells.set c (some v) }

def liftPy {α} : Except Err α → Res Err α
  | .ok a => .ok a
  | .error e => .error (.py e)

/-- src: rx._eval_operation — position of the pipeline object among the operands -/
def arrange (rev : Bool) (obj : Val) (vs : List Val) : List Val :=
  if rev then
    match vs with
    | a :: rest => a :: obj :: rest
    | [] => [obj]          -- unreachable: a reversed operation without operand is rejected at creation
  else obj :: vs

/-- evaluate operands left to right, threading the state; stop at the first failure -/
def argsWith (ev : Arg Val → World Val Err Op → Res Err Val × World Val Err Op) :
    List (Arg Val) → World Val Err Op → Res Err (List Val) × World Val Err Op
  | [], w => (.ok [], w)
  | a :: as, w =>
    match ev a w with
    | (.ok v, w1) =>
      match argsWith ev as w1 with
      | (.ok vs, w2) => (.ok (v :: vs), w2)
      | (.error x, w2) => (.error x, w2)
    | (.error x, w1) => (.error x, w1)

/-- The lazy evaluator.
src: reactive.py rx._resolve, rx._obj, rx._eval_operation, bind.<locals>.wrapped,
     reactive_ops.where.<locals>.ternary; parameterized.py resolve_value, eval_function_with_deps -/
def run (S : Sem Val Err Op) : Nat → Call Val Op → World Val Err Op → Res Err Val × World Val Err Op
  | 0, _, w => (.error .fuel, w)
  | f + 1, .arg a, w =>
    match a with
    | .lit v => (.ok v, w)
    | .param p => (.ok (w.vals p), w)                 -- getattr(p.owner, p.name)
    | .node n => run S f (.resolve n) w               -- the transformed rx: `obj.rx.value`
  | f + 1, .fn fnc, w =>
    match fnc with
    | .ident p => (.ok (w.vals p), w)
    | .bound g args =>
      match argsWith (fun a => run S f (.arg a)) args w with
      | (.ok vs, w1) => (liftPy (S.apply g vs), w1)
      | (.error x, w1) => (.error x, w1)
    | .ternary c _ x y =>
      match run S f (.arg c) w with
      | (.ok cv, w1) => if S.truthy cv then run S f (.arg x) w1 else run S f (.arg y) w1
      | (.error x, w1) => (.error x, w1)
  | f + 1, .obj n, w =>
    match w.nodes[n]? with
    | none => (.error .bad, w)
    | some nd =>
      match w.cells[nd.cell]? with
      | none => (.error .bad, w)
      | some none =>                                   -- `if self._shared_obj is None:`
        match run S f (.fn nd.fn) w with
        | (.ok v, w1) => (.ok v, w1.setCell nd.cell v)
        | (.error x, w1) => (.error x, w1)
      | some (some v) =>
        match w.nodes[nd.root]? with
        | none => (.error .bad, w)
        | some rt =>
          if rt.dirtyObj then                          -- `elif self._root._dirty_obj:`
            match run S f (.fn rt.fn) w with
            | (.ok v', w1) =>
              (.ok v', (w1.setCell rt.cell v').modNode nd.root fun r => { r with dirtyObj := false })
            | (.error x, w1) => (.error x, w1)
          else (.ok v, w)
  | f + 1, .resolve n, w =>
    match w.nodes[n]? with
    | none => (.error .bad, w)
    | some nd =>
      match nd.error with
      | some e => (.error (.py e), w)                  -- `if self._error_state: raise`
      | none =>
        match w.nodes[nd.root]? with
        | none => (.error .bad, w)
        | some rt =>
          if nd.dirty || rt.dirtyObj then
            let r := match nd.prev with
              | none => run S f (.obj n) w
              | some p => run S f (.resolve p) w
            match r with
            | (.ok obj, w1) =>
              match nd.op with
              | none => (.ok obj, w1.store n obj)
              | some o =>
                match argsWith (fun a => run S f (.arg a)) o.args w1 with
                | (.ok vs, w2) =>
                  match S.apply o.op (arrange o.reverse obj vs) with
                  | .ok v => (.ok v, w2.store n v)
                  | .error e => (.error (.py e), w2.setError n e)
                | (.error (.py e), w2) => (.error (.py e), w2.setError n e)
                | (.error x, w2) => (.error x, w2)
            | (.error (.py e), w1) => (.error (.py e), w1.setError n e)   -- `except Exception as e:`
            | (.error x, w1) => (.error x, w1)
          else (.ok nd.current, w)

/-! ### Dependency collection -/

def addAbsent (ps : List PId) (qs : List PId) : List PId :=
  qs.foldl (fun acc q => if acc.contains q then acc else acc ++ [q]) ps

/-- parameters a reference resolves to: `resolve_ref(arg)`; an rx shows its filtered `_params` -/
def refs (w : World Val Err Op) : Arg Val → Option (List PId)
  | .lit _ => some []
  | .param p => if w.inputs.contains p then some [p] else none
  | .node n => (w.nodes[n]?).map (·.params)

def refsAll (w : World Val Err Op) : List (Arg Val) → Option (List (List PId))
  | [] => some []
  | a :: as => do
    let r ← refs w a
    let rs ← refsAll w as
    pure (r :: rs)

/-- src: rx._compute_fn_params (the `_dinfo` of the bound function) -/
def fnParamsOf (w : World Val Err Op) : Fn Val Op → Option (List PId)
  | .ident p => some [p]
  | .bound _ args => (refsAll w args).map List.flatten
  | .ternary c t _ _ => (refs w c).map (· ++ [t])

/-- `while prev is not None: for p in prev._params: …` -/
def chainParams (w : World Val Err Op) : Nat → Option NId → List PId → Option (List PId)
  | _, none, ps => some ps
  | 0, some _, _ => none
  | k + 1, some p, ps =>
    match w.nodes[p]? with
    | none => none
    | some nd => chainParams w k nd.prev (addAbsent ps nd.params)

/-- src: rx._compute_params -/
def computeParams (w : World Val Err Op) (fnParams : List PId) (prev : Option NId)
    (op : Option (Operation Val Op)) : Option (List PId) := do
  let ps ← chainParams w w.nodes.length prev fnParams
  match op with
  | none => pure ps
  | some o =>
    let rs ← refsAll w o.args
    pure (rs.foldl addAbsent ps)

/-- src: rx.__init__ — the filter defining `_params`: a non-internal Trigger's event is hidden
unless one of the Trigger's `parameters` is missing from `_internal_params` -/
def filterParams (w : World Val Err Op) (ips : List PId) : List PId :=
  ips.filter fun p =>
    match w.trigs.lookup p with
    | none => true
    | some tps => tps.any fun q => !ips.contains q

def argExpr (w : World Val Err Op) : Arg Val → Option (Expr Val Op)
  | .lit v => some (.lit v)
  | .param p => if w.inputs.contains p then some (.input p) else none
  | .node n => (w.nodes[n]?).map (·.expr)

def argExprs (w : World Val Err Op) : List (Arg Val) → Option (List (Expr Val Op))
  | [] => some []
  | a :: as => do
    let e ← argExpr w a
    let es ← argExprs w as
    pure (e :: es)

/-- src: rx.__new__ / rx.__init__ — build and append one node -/
def mkNode (S : Sem Val Err Op) (w : World Val Err Op) (prev : Option NId) (root : Option NId) (cell : Nat)
    (fn : Fn Val Op) (op : Option (Operation Val Op)) (expr : Expr Val Op) (current : Option Val) :
    Option (World Val Err Op) := do
  let fps ← fnParamsOf w fn
  let ips ← computeParams w fps prev op
  let id := w.nodes.length
  let nd : Node Val Err Op :=
    { prev := prev, root := root.getD id, cell := cell, fn := fn, op := op, fnParams := fps, iparams := ips,
      params := filterParams w ips, expr := expr,
      current := current.getD S.none,
      dirty := match current with | none => true | some v => S.isNone v,    -- `_dirty = _current is None`
      dirtyObj := false, error := none }
  pure { w with nodes := w.nodes ++ [nd] }

/-! ### Statements -/

inductive Stmt (Val Op : Type) where
  | lit (v : Val)                                           -- rx(v)
  | obj (vs : List Val)                                     -- a Parameterized instance with these parameter values
  | rootp (p : PId)                                         -- rx(obj.param.p)
  | op (n : NId) (o : Op) (rev : Bool) (args : List (Arg Val))  -- operator / helper applied to node n
  | meth (n : NId) (o : Op) (args : List (Arg Val))         -- n.method(*args)
  | meth2 (n : NId) (o : Op) (args args2 : List (Arg Val))  -- acc = n.method; acc(*args); acc(*args2)
  | bind (g : Op) (args : List (Arg Val))                   -- rx(bind(g, *args))
  | where_ (c x y : Arg Val)                                -- rx(c.rx.where(x, y))
  | watch (n : NId)                                         -- n.rx.watch(cb)
  | set (p : PId) (v : Val)                                 -- root.rx.value = v / obj.p = v
  | read (n : NId)                                          -- n.rx.value
  | ref (n : NId)                                           -- H(v=n) with `v = Parameter(allow_refs=True)`
  | isin (n : NId) (cop : Op) (x : Val)                     -- the Python expression `x in n` (`cop` = operator.contains, for the spec)
  | readref (h : Nat)                                       -- holder h: `h.v`

inductive Outcome (Val Err : Type) where
  | created
  | createErr (e : Err)
  | watching
  | read (v : Val)
  | readErr (e : Err)
  | set (calls : List (Nat × Val)) (err : Option Err)   -- callbacks run (watch number, value); exception escaping the assignment
  | bad                                                  -- statement rejected (dangling reference)
  | fuel
  deriving Repr, DecidableEq

/-- `_invalidate_obj` of node `nd` is registered on `q`: q ∈ _fn_params ∩ _root._fn_params -/
def hitObj (w : World Val Err Op) (q : PId) (nd : Node Val Err Op) : Bool :=
  nd.fnParams.contains q && (match w.nodes[nd.root]? with | some rt => rt.fnParams.contains q | none => false)

/-- the roots whose `_dirty_obj` some node's `_invalidate_obj` sets -/
def rootsHit (w : World Val Err Op) (q : PId) : List NId :=
  (w.nodes.filter (hitObj w q)).map (·.root)

def invNode (w : World Val Err Op) (q : PId) (nd : Node Val Err Op) (i : NId) : Node Val Err Op :=
  let nd := if hitObj w q nd then { nd with error := none } else nd                        -- _invalidate_obj
  let nd := if nd.iparams.contains q then { nd with dirty := true, error := none } else nd  -- _invalidate_current
  if (rootsHit w q).contains i then { nd with dirtyObj := true } else nd                    -- `self._root._dirty_obj = True`

/-- src: rx._invalidate_current / rx._invalidate_obj installed by rx._setup_invalidations:
what the precedence −1 watchers of all nodes do when parameter `q` changes -/
def invalidate (w : World Val Err Op) (q : PId) : World Val Err Op :=
  { w with nodes := w.nodes.zipIdx.map fun (nd, i) => invNode w q nd i }

/-- the invalidation watchers of the nodes created at position `k` or later (they are registered after a
`_sync_refs` watcher installed when `k` nodes existed, so they run after it) -/
def rootsHitFrom (w : World Val Err Op) (q : PId) (k : Nat) : List NId :=
  (w.nodes.zipIdx.filter fun (nd, j) => decide (k ≤ j) && hitObj w q nd).map (·.1.root)

def invNodeFrom (w : World Val Err Op) (q : PId) (k : Nat) (nd : Node Val Err Op) (i : NId) : Node Val Err Op :=
  let nd := if decide (k ≤ i) && hitObj w q nd then { nd with error := none } else nd
  let nd := if decide (k ≤ i) && nd.iparams.contains q then { nd with dirty := true, error := none } else nd
  if (rootsHitFrom w q k).contains i then { nd with dirtyObj := true } else nd

def invalidateFrom (w : World Val Err Op) (q : PId) (k : Nat) : World Val Err Op :=
  { w with nodes := w.nodes.zipIdx.map fun (nd, i) => invNodeFrom w q k nd i }

/-- the precedence-0 watchers of parameter `q`, in registration order.
src: depends.py depends — the function form registers `list(dict.fromkeys(names))` per owner, so a
consumer that depends on `q` several times is still registered (and called) once -/
def consumersOf (w : World Val Err Op) (q : PId) : List (Consumer Val) :=
  w.consumers.filter fun c => c.deps.contains q

/-- `sorted(watchers, key=precedence)` (stable): the `_sync_refs` watchers (−1) before the precedence-0 ones.
All invalidation watchers are run before; those registered after a `_sync_refs` watcher run again after it
(`invalidateFrom`), which is where they sit in the real order (the two orders differ only in `_dirty_obj`
of roots that the sync's read has cleared; checked by the comparison of internal flags). -/
def dispatchOrder (w : World Val Err Op) (q : PId) : List (Consumer Val) :=
  (consumersOf w q).filter (·.isSync) ++ (consumersOf w q).filter (fun c => !c.isSync)

/-- run the remaining watchers in order; the first exception aborts the dispatch -/
def runConsumers (S : Sem Val Err Op) (fuel : Nat) (q : PId) :
    List (Consumer Val) → World Val Err Op → List (Nat × Val) → Outcome Val Err × World Val Err Op
  | [], w, log => (.set log none, w)
  | c :: cs, w, log =>
    match c with
    | .trigX cnd t _ =>
      match run S fuel (.arg cnd) w with
      | (.ok cv, w1) => runConsumers S fuel q cs (if S.truthy cv then invalidate w1 t else w1) log
      | (.error (.py e), w1) => (.set log (some e), w1)
      | (.error .fuel, w1) => (.fuel, w1)
      | (.error .bad, w1) => (.bad, w1)
    | .trigY cnd t _ =>
      match run S fuel (.arg cnd) w with
      | (.ok cv, w1) => runConsumers S fuel q cs (if S.truthy cv then w1 else invalidate w1 t) log
      | (.error (.py e), w1) => (.set log (some e), w1)
      | (.error .fuel, w1) => (.fuel, w1)
      | (.error .bad, w1) => (.bad, w1)
    | .watch k n _ =>
      match run S fuel (.resolve n) w with
      | (.ok v, w1) => runConsumers S fuel q cs w1 (log ++ [(k, v)])
      | (.error (.py e), w1) => (.set log (some e), w1)
      | (.error .fuel, w1) => (.fuel, w1)
      | (.error .bad, w1) => (.bad, w1)
    | .sync h n _ k =>
      -- src: parameterized.py Parameters._sync_refs — resolve_value(ref), then update the holder;
      -- then the invalidation watchers of the nodes created after the holder
      match run S fuel (.resolve n) w with
      | (.ok v, w1) => runConsumers S fuel q cs (invalidateFrom { w1 with holders := w1.holders.set h v } q k) log
      | (.error (.py e), w1) => (.set log (some e), w1)
      | (.error .fuel, w1) => (.fuel, w1)
      | (.error .bad, w1) => (.bad, w1)

def outOfExn : Exn Err → Outcome Val Err
  | .py e => .createErr e
  | .fuel => .fuel
  | .bad => .bad

/-- src: rx._clone(copy=True) via rx._resolve_accessor: read `self._current`, then `self._obj`,
then construct a node with the same `prev`, operation and function -/
def copyNode (S : Sem Val Err Op) (fuel : Nat) (n : NId) (w : World Val Err Op) :
    Res Err NId × World Val Err Op :=
  match run S fuel (.resolve n) w with
  | (.error x, w1) => (.error x, w1)
  | (.ok v, w1) =>
    match run S fuel (.obj n) w1 with
    | (.error x, w2) => (.error x, w2)
    | (.ok _, w2) =>
      match w2.nodes[n]? with
      | none => (.error .bad, w2)
      | some nd =>
        match mkNode S w2 nd.prev (match nd.prev with | none => none | some _ => some nd.root) nd.cell nd.fn nd.op
            nd.expr (some v) with
        | none => (.error .bad, w2)
        | some w3 => (.ok w2.nodes.length, w3)

/-- src: rx._clone(operation): `self._obj`, then a node chained on `self` -/
def deriveNode (S : Sem Val Err Op) (fuel : Nat) (c : NId) (o : Operation Val Op) (w : World Val Err Op) :
    Res Err NId × World Val Err Op :=
  match run S fuel (.obj c) w with
  | (.error x, w1) => (.error x, w1)
  | (.ok _, w1) =>
    match w1.nodes[c]?, argExprs w1 o.args with
    | some nd, some es =>
      match mkNode S w1 (some c) (some nd.root) nd.cell nd.fn (some o) (.app o.op o.reverse nd.expr es) none with
      | none => (.error .bad, w1)
      | some w2 => (.ok w1.nodes.length, w2)
    | _, _ => (.error .bad, w1)

/-- src: rx.__call__ on an accessor node (`acc = expr.method; acc(*args)`): a private copy of the accessor
(`self._clone(copy=True)`, whose `_method` is consumed) and the call operation chained on that copy;
the accessor itself keeps its pending method name and can be called again -/
def callAcc (S : Sem Val Err Op) (fuel : Nat) (c1 : NId) (o : Op) (args : List (Arg Val)) (w : World Val Err Op) :
    Res Err NId × World Val Err Op :=
  match copyNode S fuel c1 w with
  | (.error x, w2) => (.error x, w2)
  | (.ok c2, w2) => deriveNode S fuel c2 { op := o, args := args, reverse := false } w2

def allocParam (w : World Val Err Op) (v : Val) (input : Bool) : World Val Err Op :=
  { w with vals := fun q => if q = w.nparams then v else w.vals q, nparams := w.nparams + 1,
           inputs := if input then w.inputs ++ [w.nparams] else w.inputs }

/-- src: rx.__new__ for a Parameter / literal: `_shared_obj = None if obj is None else [obj]` -/
def newRootIdent (S : Sem Val Err Op) (w : World Val Err Op) (p : PId) : Option (World Val Err Op) :=
  let v := w.vals p
  let w1 := { w with cells := w.cells ++ [if S.isNone v then none else some v] }
  mkNode S w1 none none w.cells.length (.ident p) none (.input p) none

def newRootFn (S : Sem Val Err Op) (w : World Val Err Op) (fn : Fn Val Op) (e : Expr Val Op) :
    Option (World Val Err Op) :=
  let w1 := { w with cells := w.cells ++ [none] }
  mkNode S w1 none none w.cells.length fn none e none

def step (S : Sem Val Err Op) (fuel : Nat) (w : World Val Err Op) : Stmt Val Op → Outcome Val Err × World Val Err Op
  | .lit v =>
    let p := w.nparams
    match newRootIdent S (allocParam w v true) p with
    | some w1 => (.created, w1)
    | none => (.bad, w)
  | .obj vs => (.created, vs.foldl (fun w v => allocParam w v true) w)
  | .rootp p =>
    if w.inputs.contains p then
      match newRootIdent S w p with
      | some w1 => (.created, w1)
      | none => (.bad, w)
    else (.bad, w)
  | .op n o rev args =>
    if (rev && args.isEmpty) || (refsAll w args).isNone || (argExprs w args).isNone then (.bad, w) else
    match copyNode S fuel n w with
    | (.error x, w1) => (outOfExn x, w1)
    | (.ok c, w1) =>
      match deriveNode S fuel c { op := o, args := args, reverse := rev } w1 with
      | (.error x, w2) => (outOfExn x, w2)
      | (.ok _, w2) => (.created, w2)
  | .meth n o args =>
    if (refsAll w args).isNone || (argExprs w args).isNone then (.bad, w) else
    match w.nodes[n]? with
    | none => (.bad, w)
    | some nd =>
      -- rx.__getattribute__: `if dirty: self._resolve()`, then `name in dir(current)`
      let r := if nd.dirty then run S fuel (.resolve n) w else (.ok nd.current, w)
      match r with
      | (.error x, w1) => (outOfExn x, w1)
      | (.ok cur, w1) =>
        if !S.hasAttr cur o then (.createErr S.attrErr, w1) else
        match copyNode S fuel n w1 with                 -- _resolve_accessor(); new._method = name
        | (.error x, w2) => (outOfExn x, w2)
        | (.ok c1, w2) =>
          match callAcc S fuel c1 o args w2 with          -- rx.__call__
          | (.error x, w4) => (outOfExn x, w4)
          | (.ok _, w4) => (.created, w4)
  | .meth2 n o args args2 =>
    if (refsAll w args).isNone || (argExprs w args).isNone || (refsAll w args2).isNone || (argExprs w args2).isNone
    then (.bad, w) else
    match w.nodes[n]? with
    | none => (.bad, w)
    | some nd =>
      let r := if nd.dirty then run S fuel (.resolve n) w else (.ok nd.current, w)
      match r with
      | (.error x, w1) => (outOfExn x, w1)
      | (.ok cur, w1) =>
        if !S.hasAttr cur o then (.createErr S.attrErr, w1) else
        match copyNode S fuel n w1 with                 -- acc = n.method
        | (.error x, w2) => (outOfExn x, w2)
        | (.ok c1, w2) =>
          match callAcc S fuel c1 o args w2 with          -- acc(*args)
          | (.error x, w4) => (outOfExn x, w4)
          | (.ok _, w4) =>
            match callAcc S fuel c1 o args2 w4 with       -- acc(*args2): the same accessor object again
            | (.error x, w6) => (outOfExn x, w6)
            | (.ok _, w6) => (.created, w6)
  | .bind g args =>
    match argExprs w args with
    | none => (.bad, w)
    | some es =>
      match newRootFn S w (.bound g args) (.call g es) with
      | some w1 => (.created, w1)
      | none => (.bad, w)
  | .where_ c x y =>
    match c, refs w c, refs w x, refs w y, argExpr w c, argExpr w x, argExpr w y with
    | .lit _, _, _, _, _, _, _ => (.bad, w)
    | _, some cps, some xr, some yr, some ce, some xe, some ye =>
      let t := w.nparams
      let w1 := allocParam w S.none false
      let w2 := { w1 with trigs := w1.trigs ++ [(t, cps)],
                          consumers := w1.consumers ++ (if xr.isEmpty then [] else [Consumer.trigX c t xr])
                                                   ++ (if yr.isEmpty then [] else [Consumer.trigY c t yr]) }
      match newRootFn S w2 (.ternary c t x y) (.ite ce xe ye) with
      | some w3 => (.created, w3)
      | none => (.bad, w)
    | _, _, _, _, _, _, _ => (.bad, w)
  | .watch n =>
    match w.nodes[n]? with
    | none => (.bad, w)
    | some nd => (.watching, { w with consumers := w.consumers ++ [.watch w.nwatch n nd.params], nwatch := w.nwatch + 1 })
  | .set p v =>
    if !w.inputs.contains p then (.bad, w) else
    let old := w.vals p
    let w1 := { w with vals := fun q => if q = p then v else w.vals q }
    if S.isEqual old v then (.set [] none, w1)            -- onlychanged watchers are not called
    else runConsumers S fuel p (dispatchOrder w1 p) (invalidate w1 p) []
  | .read n =>
    match run S fuel (.resolve n) w with
    | (.ok v, w1) => (.read v, w1)
    | (.error (.py e), w1) => (.readErr e, w1)
    | (.error .fuel, w1) => (.fuel, w1)
    | (.error .bad, w1) => (.bad, w1)
  | .ref n =>
    -- src: Parameters._setup_params / _resolve_ref / _setup_refs: deps = resolve_ref(value); a value without
    -- dependencies is not a reference; resolve_value(value) (a read); then the `_sync_refs` watcher
    match w.nodes[n]? with
    | none => (.bad, w)
    | some nd =>
      if nd.params.isEmpty then (.bad, w) else
      match run S fuel (.resolve n) w with
      | (.ok v, w1) =>
        (.created, { w1 with consumers := w1.consumers ++ [.sync w1.holders.length n nd.params w1.nodes.length],
                             holders := w1.holders ++ [v] })
      | (.error (.py e), w1) => (.createErr e, w1)
      | (.error .fuel, w1) => (.fuel, w1)
      | (.error .bad, w1) => (.bad, w1)
  | .isin n _ _ =>
    -- src: rx.__contains__ — Python coerces the result of `__contains__` to bool, so `x in expr` can never be
    -- an expression: the method refuses with TypeError (like `len(expr)`), before anything is read
    match w.nodes[n]? with
    | none => (.bad, w)
    | some _ => (.readErr S.typeErr, w)
  | .readref h =>
    match w.holders[h]? with
    | some v => (.read v, w)
    | none => (.bad, w)

/-- replay a program; creation failing ends the program (later statements would dangle) -/
def runProg (S : Sem Val Err Op) (fuel : Nat) : World Val Err Op → List (Stmt Val Op) → List (Outcome Val Err)
  | _, [] => []
  | w, s :: ss =>
    match step S fuel w s with
    | (.createErr e, _) => [.createErr e]
    | (.bad, _) => [.bad]
    | (.fuel, _) => [.fuel]
    | (o, w1) => o :: runProg S fuel w1 ss

end
end ParamVerif.Rx
