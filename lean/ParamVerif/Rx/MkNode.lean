/-
C09 helper lemmas, part E3: appending a node (`rx.__new__` / `rx.__init__`) keeps the invariants.
-/
import ParamVerif.Rx.ParamLemmas

namespace ParamVerif.Rx

section
variable {Val Err Op : Type}

/-- everything the proofs maintain -/
structure Good (S : Sem Val Err Op) (w : World Val Err Op) : Prop where
  wf : WF w
  dep : Dep w
  coh : CohOn S All w
  inLt : ∀ q ∈ w.inputs, q < w.nparams
  trOK : ∀ q ∈ w.inputs, w.trigs.lookup q = none
  trLt : ∀ t tp, (t, tp) ∈ w.trigs → t < w.nparams

theorem Good.ext {S : Sem Val Err Op} {w w' : World Val Err Op} (g : Good S w) (e : Ext w w')
    (hnew : ∀ (i : Nat) (nd : Node Val Err Op), w'.nodes[i]? = some nd → w.nodes.length ≤ i →
      NodeWF w' i nd ∧ NodeDep w'.stat nd.toNStat ∧ CohAt S w'.vals w'.cells nd)
    (hcf : ∀ (i j : Nat) (ndi ndj : Node Val Err Op), w'.nodes[i]? = some ndi → w'.nodes[j]? = some ndj →
      w.nodes.length ≤ i → ndi.cell = ndj.cell → ndi.fn = ndj.fn)
    (hcons : ∀ c ∈ w'.consumers, c ∉ w.consumers → ConsOK w'.stat c)
    (h1 : ∀ q ∈ w'.inputs, q < w'.nparams) (h2 : ∀ q ∈ w'.inputs, w'.trigs.lookup q = none)
    (h3 : ∀ t tp, (t, tp) ∈ w'.trigs → t < w'.nparams) : Good S w' := by
  have old : ∀ (i : Nat) (nd : Node Val Err Op), w'.nodes[i]? = some nd → i < w.nodes.length →
      w.nodes[i]? = some nd := by
    intro i nd hn hi
    obtain ⟨l, hl⟩ := e.nodes
    rw [hl, List.getElem?_append_left hi] at hn; exact hn
  refine ⟨⟨?_, ?_⟩, ⟨?_, ?_⟩, ?_, h1, h2, h3⟩
  · intro i nd hn
    by_cases hi : i < w.nodes.length
    · exact e.nodeWF (g.wf.node i nd (old i nd hn hi))
    · exact (hnew i nd hn (Nat.le_of_not_lt hi)).1
  · intro i j ndi ndj hi hj hc
    by_cases hi' : i < w.nodes.length
    · by_cases hj' : j < w.nodes.length
      · exact g.wf.cellFn i j ndi ndj (old i ndi hi hi') (old j ndj hj hj') hc
      · exact (hcf j i ndj ndi hj hi (Nat.le_of_not_lt hj') hc.symm).symm
    · exact hcf i j ndi ndj hi hj (Nat.le_of_not_lt hi') hc
  · intro i ns hs
    obtain ⟨nd, hn, rfl⟩ := stat_node' hs
    by_cases hi : i < w.nodes.length
    · exact e.nodeDep (g.dep.node i nd.toNStat (stat_node (old i nd hn hi)))
    · exact (hnew i nd hn (Nat.le_of_not_lt hi)).2.1
  · intro c hc
    by_cases hc' : c ∈ w.consumers
    · exact e.consOK (g.dep.cons c hc')
    · exact hcons c hc hc'
  · intro i nd _ hn
    by_cases hi : i < w.nodes.length
    · have hn0 := old i nd hn hi
      exact e.cohAt (g.dep.node i nd.toNStat (stat_node hn0)).inp (g.wf.node i nd hn0).cell (g.coh i nd trivial hn0)
    · exact (hnew i nd hn (Nat.le_of_not_lt hi)).2.2

/-- a world change that keeps every static field keeps `Good` as soon as coherence is kept -/
theorem Good.of_staticEq {S : Sem Val Err Op} {w w' : World Val Err Op} (g : Good S w) (h : StaticEq w w')
    (hc : CohOn S All w') : Good S w' :=
  ⟨g.wf.of_staticEq h, g.dep.of_staticEq h, hc, by rw [h.inputs, h.nparams]; exact g.inLt,
   by rw [h.inputs, h.trigs]; exact g.trOK, by rw [h.trigs, h.nparams]; exact g.trLt⟩

/-! ### `mkNode` -/

def newNode (S : Sem Val Err Op) (w : World Val Err Op) (prev : Option NId) (root : Option NId) (cell : Nat)
    (fn : Fn Val Op) (op : Option (Operation Val Op)) (expr : Expr Val Op) (cur : Option Val)
    (fps ips : List PId) : Node Val Err Op :=
  { prev := prev, root := root.getD w.nodes.length, cell := cell, fn := fn, op := op, fnParams := fps, iparams := ips,
    params := filterParams w ips, expr := expr, current := cur.getD S.none,
    dirty := match cur with | none => true | some v => S.isNone v,
    dirtyObj := false, error := none }

theorem mkNode_spec {S : Sem Val Err Op} {w w' : World Val Err Op} {prev root : Option NId} {cell : Nat}
    {fn : Fn Val Op} {op : Option (Operation Val Op)} {expr : Expr Val Op} {cur : Option Val}
    (h : mkNode S w prev root cell fn op expr cur = some w') :
    ∃ fps ips, fnParamsOf w fn = some fps ∧ computeParams w fps prev op = some ips ∧
      w' = { w with nodes := w.nodes ++ [newNode S w prev root cell fn op expr cur fps ips] } := by
  simp only [mkNode, Option.bind_eq_bind] at h
  cases h1 : fnParamsOf w fn with
  | none => simp [h1] at h
  | some fps =>
    cases h2 : computeParams w fps prev op with
    | none => simp [h1, h2] at h
    | some ips =>
      simp only [h1, h2, Option.bind_some, Option.pure_def, Option.some.injEq] at h
      exact ⟨fps, ips, rfl, h2, h.symm⟩

theorem computeParams_root (w : World Val Err Op) (fps : List PId) : computeParams w fps none none = some fps := by
  simp [computeParams, chainParams]

theorem computeParams_sup {w : World Val Err Op} {fps ips : List PId} {prev : Option NId}
    {op : Option (Operation Val Op)} (h : computeParams w fps prev op = some ips) : ∀ q ∈ fps, q ∈ ips := by
  simp only [computeParams, Option.bind_eq_bind] at h
  cases h1 : chainParams w w.nodes.length prev fps with
  | none => simp [h1] at h
  | some ps =>
    have hs := chainParams_sup w _ prev fps ps h1
    simp only [h1, Option.bind_some] at h
    cases op with
    | none => simp at h; subst h; exact hs
    | some o =>
      simp only at h
      cases h2 : refsAll w o.args with
      | none => simp [h2] at h
      | some rs =>
        simp [h2] at h; subst h
        exact fun q hq => mem_foldl_addAbsent_left (hs q hq)

theorem computeParams_prev {w : World Val Err Op} {fps ips : List PId} {p : NId} {pd : Node Val Err Op}
    {op : Option (Operation Val Op)} (h : computeParams w fps (some p) op = some ips)
    (hp : w.nodes[p]? = some pd) : ∀ q ∈ pd.params, q ∈ ips := by
  simp only [computeParams, Option.bind_eq_bind] at h
  cases h1 : chainParams w w.nodes.length (some p) fps with
  | none => simp [h1] at h
  | some ps =>
    have hs := chainParams_prev w hp h1
    simp only [h1, Option.bind_some] at h
    cases op with
    | none => simp at h; subst h; exact hs
    | some o =>
      simp only at h
      cases h2 : refsAll w o.args with
      | none => simp [h2] at h
      | some rs =>
        simp [h2] at h; subst h
        exact fun q hq => mem_foldl_addAbsent_left (hs q hq)

theorem computeParams_args {w : World Val Err Op} {fps ips : List PId} {prev : Option NId}
    {o : Operation Val Op} {rs : List (List PId)} (h : computeParams w fps prev (some o) = some ips)
    (hr : refsAll w o.args = some rs) : ∀ r ∈ rs, ∀ q ∈ r, q ∈ ips := by
  simp only [computeParams, Option.bind_eq_bind] at h
  cases h1 : chainParams w w.nodes.length prev fps with
  | none => simp [h1] at h
  | some ps =>
    simp [h1, hr] at h; subst h
    exact fun r hr' q hq => mem_foldl_addAbsent_right hr' hq

/-- the dependency facts of a freshly built root node -/
theorem nodeDep_root {S : Sem Val Err Op} {w : World Val Err Op} (g : Good S w) {root : NId} {cell : Nat}
    {fn : Fn Val Op} {expr : Expr Val Op} {fps : List PId}
    (hfe : fnExprOf w fn = some expr) (hfp : fnParamsOf w fn = some fps)
    (hargs : ∀ a ∈ fnArgs fn, ArgClean w.stat a)
    (hident : ∀ p, fn = .ident p → p ∈ w.inputs)
    (hwhere : ∀ c t x y, fn = .ternary c t x y → ∀ xe ye, argExpr w x = some xe → argExpr w y = some ye →
      (supp xe ≠ [] → ∃ xr, Consumer.trigX c t xr ∈ w.consumers ∧ ∀ q ∈ supp xe, q ∈ xr) ∧
      (supp ye ≠ [] → ∃ yr, Consumer.trigY c t yr ∈ w.consumers ∧ ∀ q ∈ supp ye, q ∈ yr)) :
    NodeDep w.stat ⟨none, root, cell, fn, none, fps, fps, filterParams w fps, expr⟩ := by
  -- the three shapes of a root function
  have key : (∀ q ∈ supp expr, q ∈ w.inputs) ∧ (∀ q ∈ suppS expr, q ∈ fps) := by
    cases fn with
    | ident p =>
      simp only [fnExprOf, Option.some.injEq] at hfe; subst hfe
      simp only [fnParamsOf, Option.some.injEq] at hfp; subst hfp
      exact ⟨by simpa [supp] using hident p rfl, by simp [suppS, supp]⟩
    | bound gg args =>
      simp only [fnExprOf] at hfe
      cases h1 : argExprs w args with
      | none => simp [h1] at hfe
      | some es =>
        simp [h1] at hfe; subst hfe
        simp only [fnParamsOf] at hfp
        cases h2 : refsAll w args with
        | none => simp [h2] at hfp
        | some rs =>
          simp [h2] at hfp; subst hfp
          refine ⟨by simpa [supp] using suppList_inputs g.dep h1, ?_⟩
          intro q hq
          simp only [suppS, supp] at hq
          obtain ⟨r, m1, m2⟩ := suppList_sub_refsAll g.dep (fun a ha => hargs a (by simpa [fnArgs] using ha)) h1 h2 q hq
          exact List.mem_flatten.2 ⟨r, m1, m2⟩
    | ternary c t x y =>
      simp only [fnExprOf] at hfe
      cases h1 : argExpr w c with
      | none => simp [h1] at hfe
      | some ce =>
      cases h2 : argExpr w x with
      | none => simp [h1, h2] at hfe
      | some xe =>
      cases h3 : argExpr w y with
      | none => simp [h1, h2, h3] at hfe
      | some ye =>
        simp [h1, h2, h3] at hfe; subst hfe
        simp only [fnParamsOf] at hfp
        cases h4 : refs w c with
        | none => simp [h4] at hfp
        | some r =>
          simp [h4] at hfp; subst hfp
          refine ⟨?_, ?_⟩
          · intro q hq
            simp only [supp, List.mem_append] at hq
            rcases hq with hq | hq | hq
            · exact supp_arg_inputs g.dep h1 q hq
            · exact supp_arg_inputs g.dep h2 q hq
            · exact supp_arg_inputs g.dep h3 q hq
          · intro q hq
            simp only [suppS] at hq
            have := supp_sub_refs g.dep (hargs c (by simp [fnArgs])) h1 h4 q hq
            simp [this]
  obtain ⟨kinp, kS⟩ := key
  refine ⟨kinp, ?_, fun q hq => filterParams_sub hq, kS, ?_, ?_, fun _ q hq => hq, fun o ho => (by cases ho), hargs, ?_⟩
  · intro q hq
    exact mem_filterParams (kS q hq) (g.trOK q (kinp q (suppS_subset_supp _ q hq)))
  · intro c t x y hf
    simp only at hf; subst hf
    simp only [fnExprOf] at hfe
    cases h1 : argExpr w c with
    | none => simp [h1] at hfe
    | some ce =>
    cases h2 : argExpr w x with
    | none => simp [h1, h2] at hfe
    | some xe =>
    cases h3 : argExpr w y with
    | none => simp [h1, h2, h3] at hfe
    | some ye =>
      simp [h1, h2, h3] at hfe; subst hfe
      exact ⟨ce, xe, ye, by rw [← argExpr_eq]; exact h1, by rw [← argExpr_eq]; exact h2,
        by rw [← argExpr_eq]; exact h3, rfl⟩
  · intro hw c x y
    cases fn with
    | ident p => simp only [fnExprOf, Option.some.injEq] at hfe; subst hfe; simp [spine]
    | bound gg args =>
      simp only [fnExprOf] at hfe
      cases h1 : argExprs w args with
      | none => simp [h1] at hfe
      | some es => simp [h1] at hfe; subst hfe; simp [spine]
    | ternary c t x y => simp [NStat.isW] at hw
  · intro c t x y hf
    simp only at hf; subst hf
    simp only [fnParamsOf] at hfp
    cases h4 : refs w c with
    | none => simp [h4] at hfp
    | some r =>
      simp [h4] at hfp; subst hfp
      refine ⟨by simp, ?_, ?_, ?_⟩
      · intro ce hce q hq
        rw [← argExpr_eq] at hce
        have := supp_sub_refs g.dep (hargs c (by simp [fnArgs])) hce h4 q hq
        simp [this]
      · intro xe hxe hne
        rw [← argExpr_eq] at hxe
        simp only [fnExprOf] at hfe
        cases h3 : argExpr w y with
        | none => cases h1 : argExpr w c <;> simp [h1, hxe, h3] at hfe
        | some ye => exact (hwhere c t x y rfl xe ye hxe h3).1 hne
      · intro ye hye hne
        rw [← argExpr_eq] at hye
        simp only [fnExprOf] at hfe
        cases h2 : argExpr w x with
        | none => cases h1 : argExpr w c <;> simp [h1, h2] at hfe
        | some xe => exact (hwhere c t x y rfl xe ye h2 hye).2 hne

/-- the dependency facts of a node chained on node `p` -/
theorem nodeDep_derived {S : Sem Val Err Op} {w : World Val Err Op} (g : Good S w) {p root : NId} {cell : Nat}
    {pd : Node Val Err Op} {o : Operation Val Op} {es : List (Expr Val Op)} {ips : List PId}
    (hp : w.nodes[p]? = some pd) (hes : argExprs w o.args = some es)
    (hclean : ∀ a ∈ o.args, ArgClean w.stat a)
    (hips : computeParams w pd.fnParams (some p) (some o) = some ips) :
    NodeDep w.stat ⟨some p, root, cell, pd.fn, some o, pd.fnParams, ips, filterParams w ips,
      .app o.op o.reverse pd.expr es⟩ := by
  have pdep := g.dep.node p pd.toNStat (stat_node hp)
  obtain ⟨rs, hrs⟩ := refsAll_some_of hes
  have kinp : ∀ q ∈ supp (Expr.app o.op o.reverse pd.expr es), q ∈ w.inputs := by
    intro q hq
    simp only [supp, List.mem_append] at hq
    rcases hq with hq | hq
    · exact pdep.inp q hq
    · exact suppList_inputs g.dep hes q hq
  have kS : ∀ q ∈ suppS (Expr.app o.op o.reverse pd.expr es), q ∈ ips := by
    intro q hq
    simp only [suppS, List.mem_append] at hq
    rcases hq with hq | hq
    · exact computeParams_prev hips hp q (pdep.keepS q hq)
    · obtain ⟨r, m1, m2⟩ := suppList_sub_refsAll g.dep hclean hes hrs q hq
      exact computeParams_args hips hrs r m1 q m2
  refine ⟨kinp, ?_, fun q hq => filterParams_sub hq, kS, ?_, ?_, fun h => (by cases h), ?_, pdep.fnArgs, pdep.whereOK⟩
  · intro q hq
    exact mem_filterParams (kS q hq) (g.trOK q (kinp q (suppS_subset_supp _ q hq)))
  · intro c t x y hf
    obtain ⟨ce, xe, ye, a1, a2, a3, a4⟩ := pdep.spineW c t x y hf
    exact ⟨ce, xe, ye, a1, a2, a3, by simpa [spine] using a4⟩
  · intro hw c x y
    have := pdep.spineC hw c x y
    simpa [spine] using this
  · intro o' ho' a ha
    simp only [Option.some.injEq] at ho'; subst ho'
    exact hclean a ha

theorem ext_appendNode (w : World Val Err Op) (nd : Node Val Err Op) :
    Ext w { w with nodes := w.nodes ++ [nd] } :=
  ⟨⟨[nd], rfl⟩, ⟨[], by simp⟩, ⟨[], by simp⟩, ⟨[], by simp⟩, fun _ _ => rfl⟩

theorem appendNode_get {w : World Val Err Op} {nd x : Node Val Err Op} {i : Nat}
    (h : ({ w with nodes := w.nodes ++ [nd] } : World Val Err Op).nodes[i]? = some x) (hi : w.nodes.length ≤ i) :
    i = w.nodes.length ∧ x = nd := by
  simp only [List.getElem?_append_right hi] at h
  cases hk : i - w.nodes.length with
  | zero =>
    simp [hk] at h
    exact ⟨by omega, h.symm⟩
  | succ k => simp [hk] at h

theorem good_mkDerived {S : Sem Val Err Op} {w w' : World Val Err Op} (g : Good S w) {p : NId}
    {pd : Node Val Err Op} {o : Operation Val Op} {es : List (Expr Val Op)} {cur : Option Val}
    (hp : w.nodes[p]? = some pd) (hes : argExprs w o.args = some es)
    (hclean : ∀ a ∈ o.args, ArgClean w.stat a)
    (hcur : ∀ v, cur = some v → S.isNone v = false → eval S w.vals (.app o.op o.reverse pd.expr es) = .ok v)
    (hmk : mkNode S w (some p) (some pd.root) pd.cell pd.fn (some o) (.app o.op o.reverse pd.expr es) cur = some w') :
    Good S w' ∧ Ext w w' ∧ w'.nodes.length = w.nodes.length + 1 := by
  obtain ⟨fps, ips, h1, h2, rfl⟩ := mkNode_spec hmk
  have pwf := g.wf.node p pd hp
  rw [pwf.fp] at h1; cases h1
  have e := ext_appendNode w (newNode S w (some p) (some pd.root) pd.cell pd.fn (some o)
    (.app o.op o.reverse pd.expr es) cur pd.fnParams ips)
  refine ⟨g.ext e ?_ ?_ (fun c hc hc' => absurd hc hc') g.inLt g.trOK g.trLt, e, by simp⟩
  · intro i x hx hi
    obtain ⟨rfl, rfl⟩ := appendNode_get hx hi
    refine ⟨?_, e.nodeDep (nodeDep_derived g hp hes hclean h2), ?_⟩
    · obtain ⟨rt, r1, r2, r3, r4, r5, r6⟩ := pwf.root
      refine ⟨⟨rt, e.node r1, r2, r3, r4, r5, r6⟩, fun h => (by cases h), pwf.cell, fun h => (by cases h), ?_,
        computeParams_sup h2, e.fnParamsOf pwf.fp⟩
      intro q hq
      simp only [newNode, Option.some.injEq] at hq; subst hq
      exact ⟨pd, o, es, e.node hp, rfl, rfl, e.argExprs hes, rfl⟩
    · refine ⟨?_, fun e' he' => (by cases he'), fun h => (by cases h)⟩
      intro _ hd
      cases cur with
      | none => simp [newNode] at hd
      | some v => exact hcur v rfl hd
  · intro i j ndi ndj hi hj hle hc
    obtain ⟨rfl, rfl⟩ := appendNode_get hi hle
    by_cases hj' : j < w.nodes.length
    · have hj0 : w.nodes[j]? = some ndj := by
        simp only [List.getElem?_append_left hj'] at hj; exact hj
      exact (g.wf.cellFn j p ndj pd hj0 hp hc.symm).symm
    · obtain ⟨_, rfl⟩ := appendNode_get hj (Nat.le_of_not_lt hj')
      rfl

theorem good_mkRoot {S : Sem Val Err Op} {w w' : World Val Err Op} (g : Good S w) {cell : Nat}
    {fn : Fn Val Op} {expr : Expr Val Op} {cur : Option Val}
    (hc : cell < w.cells.length)
    (hcfn : ∀ (j : Nat) (ndj : Node Val Err Op), w.nodes[j]? = some ndj → ndj.cell = cell → ndj.fn = fn)
    (hfe : fnExprOf w fn = some expr)
    (hargs : ∀ a ∈ fnArgs fn, ArgClean w.stat a)
    (hident : ∀ p, fn = .ident p → p ∈ w.inputs)
    (hwhere : ∀ c t x y, fn = .ternary c t x y → ∀ xe ye, argExpr w x = some xe → argExpr w y = some ye →
      (supp xe ≠ [] → ∃ xr, Consumer.trigX c t xr ∈ w.consumers ∧ ∀ q ∈ supp xe, q ∈ xr) ∧
      (supp ye ≠ [] → ∃ yr, Consumer.trigY c t yr ∈ w.consumers ∧ ∀ q ∈ supp ye, q ∈ yr))
    (hcur : ∀ v, cur = some v → S.isNone v = false → eval S w.vals expr = .ok v)
    (hcellv : ∀ v, w.cells[cell]? = some (some v) → eval S w.vals expr = .ok v)
    (hmk : mkNode S w none none cell fn none expr cur = some w') :
    Good S w' ∧ Ext w w' ∧ w'.nodes.length = w.nodes.length + 1 := by
  obtain ⟨fps, ips, h1, h2, rfl⟩ := mkNode_spec hmk
  rw [computeParams_root] at h2; cases h2
  have e := ext_appendNode w (newNode S w none none cell fn none expr cur fps fps)
  refine ⟨g.ext e ?_ ?_ (fun c hc hc' => absurd hc hc') g.inLt g.trOK g.trLt, e, by simp⟩
  · intro i x hx hi
    obtain ⟨rfl, rfl⟩ := appendNode_get hx hi
    refine ⟨?_, e.nodeDep (nodeDep_root g hfe h1 hargs hident hwhere), ?_⟩
    · refine ⟨⟨_, hx, rfl, rfl, rfl, rfl, rfl⟩, fun _ => rfl, hc, fun _ => ⟨rfl, e.fnExprOf hfe⟩,
        fun q hq => (by cases hq), fun q hq => hq, e.fnParamsOf h1⟩
    · refine ⟨?_, fun e' he' => (by cases he'), fun _ _ v hv => hcellv v hv⟩
      intro _ hd
      cases cur with
      | none => simp [newNode] at hd
      | some v => exact hcur v rfl hd
  · intro i j ndi ndj hi hj hle hcell
    obtain ⟨rfl, rfl⟩ := appendNode_get hi hle
    by_cases hj' : j < w.nodes.length
    · have hj0 : w.nodes[j]? = some ndj := by
        simp only [List.getElem?_append_left hj'] at hj; exact hj
      exact (hcfn j ndj hj0 hcell.symm).symm
    · obtain ⟨_, rfl⟩ := appendNode_get hj (Nat.le_of_not_lt hj')
      rfl

end
end ParamVerif.Rx
