/-
C09 helper lemmas, part D1: the dependency invariant (static).

`Dep w` says, for every node, how the dependency lists computed by
`_compute_params` and the `_params` filter relate to the support of the
expression: `_internal_params` covers everything outside the branches of a
`where`; `_params` keeps every input; for a node whose pipeline does not start
at a `where`, `_params ⊇ support` — the key lemma of the coherence proof.
It holds as long as no where-rooted expression is handed to a consumer.
-/
import ParamVerif.Rx.InvalLemmas

namespace ParamVerif.Rx

section
variable {Val Err Op : Type}

structure WStat (Val Op : Type) where
  nodes : List (NStat Val Op)
  inputs : List PId
  trigs : List (PId × List PId)
  consumers : List (Consumer Val)

def World.stat (w : World Val Err Op) : WStat Val Op :=
  ⟨w.nodes.map (fun nd => nd.toNStat), w.inputs, w.trigs, w.consumers⟩

theorem stat_eq_of_staticEq {w w' : World Val Err Op} (h : StaticEq w w') : w'.stat = w.stat := by
  simp only [World.stat, h.inputs, h.trigs, h.consumers]
  congr 1
  apply List.ext_getElem?
  intro i
  simp only [List.getElem?_map]
  exact h.stat i

theorem stat_node {w : World Val Err Op} {i : Nat} {nd : Node Val Err Op} (h : w.nodes[i]? = some nd) :
    w.stat.nodes[i]? = some nd.toNStat := by
  simp [World.stat, List.getElem?_map, h]

theorem stat_node' {w : World Val Err Op} {i : Nat} {ns : NStat Val Op} (h : w.stat.nodes[i]? = some ns) :
    ∃ nd, w.nodes[i]? = some nd ∧ nd.toNStat = ns := by
  simp only [World.stat, List.getElem?_map] at h
  cases h1 : w.nodes[i]? with
  | none => simp [h1] at h
  | some nd => exact ⟨nd, rfl, by simpa [h1] using h⟩

def sArgExpr (s : WStat Val Op) : Arg Val → Option (Expr Val Op)
  | .lit v => some (.lit v)
  | .param p => if s.inputs.contains p then some (.input p) else none
  | .node n => (s.nodes[n]?).map (·.expr)

theorem argExpr_eq (w : World Val Err Op) (a : Arg Val) : argExpr w a = sArgExpr w.stat a := by
  cases a with
  | lit v => rfl
  | param p => rfl
  | node n =>
    simp only [argExpr, sArgExpr, World.stat, List.getElem?_map]
    cases w.nodes[n]? <;> rfl

def NStat.isW (nd : NStat Val Op) : Bool :=
  match nd.fn with
  | .ternary .. => true
  | _ => false

/-- an operand that is not a where-rooted expression -/
def ArgClean (s : WStat Val Op) (a : Arg Val) : Prop :=
  ∀ m, a = .node m → ∃ md, s.nodes[m]? = some md ∧ md.isW = false

def sFnSpine (s : WStat Val Op) : Fn Val Op → Option (Expr Val Op)
  | .ident p => some (.input p)
  | .bound g args => some (.call g [])      -- only the shape matters
  | .ternary c _ x y =>
    match sArgExpr s c, sArgExpr s x, sArgExpr s y with
    | some ce, some xe, some ye => some (.ite ce xe ye)
    | _, _, _ => none

structure NodeDep (s : WStat Val Op) (nd : NStat Val Op) : Prop where
  inp : ∀ q ∈ supp nd.expr, q ∈ s.inputs
  keepS : ∀ q ∈ suppS nd.expr, q ∈ nd.params
  sub : ∀ q ∈ nd.params, q ∈ nd.iparams
  suppS : ∀ q ∈ suppS nd.expr, q ∈ nd.iparams
  spineW : ∀ c t x y, nd.fn = .ternary c t x y →
    ∃ ce xe ye, sArgExpr s c = some ce ∧ sArgExpr s x = some xe ∧ sArgExpr s y = some ye ∧
      spine nd.expr = .ite ce xe ye
  spineC : nd.isW = false → ∀ c x y, spine nd.expr ≠ .ite c x y
  rootIp : nd.prev = none → ∀ q ∈ nd.iparams, q ∈ nd.fnParams
  opArgs : ∀ o, nd.op = some o → ∀ a ∈ o.args, ArgClean s a
  fnArgs : ∀ a ∈ fnArgs nd.fn, ArgClean s a
  whereOK : ∀ c t x y, nd.fn = .ternary c t x y →
    t ∈ nd.fnParams ∧
    (∀ ce, sArgExpr s c = some ce → ∀ q ∈ supp ce, q ∈ nd.fnParams) ∧
    (∀ xe, sArgExpr s x = some xe → supp xe ≠ [] →
      ∃ xr, Consumer.trigX c t xr ∈ s.consumers ∧ ∀ q ∈ supp xe, q ∈ xr) ∧
    (∀ ye, sArgExpr s y = some ye → supp ye ≠ [] →
      ∃ yr, Consumer.trigY c t yr ∈ s.consumers ∧ ∀ q ∈ supp ye, q ∈ yr)

/-- what a registered precedence-0 watcher must satisfy -/
def ConsOK (s : WStat Val Op) : Consumer Val → Prop
  | .watch _ n deps => ∃ nd, s.nodes[n]? = some nd ∧ nd.isW = false ∧ deps = nd.params
  | .trigX c _ _ => ArgClean s c ∧ ∃ ce, sArgExpr s c = some ce
  | .trigY c _ _ => ArgClean s c ∧ ∃ ce, sArgExpr s c = some ce
  | .sync _ n deps _ => ∃ nd, s.nodes[n]? = some nd ∧ nd.isW = false ∧ deps = nd.params

structure DepS (s : WStat Val Op) : Prop where
  node : ∀ (i : Nat) (nd : NStat Val Op), s.nodes[i]? = some nd → NodeDep s nd
  cons : ∀ c ∈ s.consumers, ConsOK s c

theorem DepS.watch {s : WStat Val Op} (h : DepS s) : ∀ k n deps, Consumer.watch k n deps ∈ s.consumers →
    ∃ nd, s.nodes[n]? = some nd ∧ nd.isW = false ∧ deps = nd.params :=
  fun k n deps hm => h.cons _ hm

theorem DepS.sync {s : WStat Val Op} (h : DepS s) : ∀ k n deps a, Consumer.sync k n deps a ∈ s.consumers →
    ∃ nd, s.nodes[n]? = some nd ∧ nd.isW = false ∧ deps = nd.params :=
  fun k n deps a hm => h.cons _ hm

theorem DepS.trigX {s : WStat Val Op} (h : DepS s) : ∀ c t xr, Consumer.trigX c t xr ∈ s.consumers →
    ArgClean s c ∧ ∃ ce, sArgExpr s c = some ce :=
  fun c t xr hm => h.cons _ hm

theorem DepS.trigY {s : WStat Val Op} (h : DepS s) : ∀ c t yr, Consumer.trigY c t yr ∈ s.consumers →
    ArgClean s c ∧ ∃ ce, sArgExpr s c = some ce :=
  fun c t yr hm => h.cons _ hm

def Dep (w : World Val Err Op) : Prop := DepS w.stat

theorem Dep.of_staticEq {w w' : World Val Err Op} (h : StaticEq w w') (hd : Dep w) : Dep w' := by
  unfold Dep; rw [stat_eq_of_staticEq h]; exact hd

theorem suppS_eq_of_spine : ∀ e : Expr Val Op, (∀ c x y, spine e ≠ .ite c x y) → suppS e = supp e
  | .lit _, _ => rfl
  | .input _, _ => rfl
  | .call _ _, _ => rfl
  | .ite c x y, h => absurd rfl (h c x y)
  | .app _ _ e args, h => by
    simp only [suppS, supp]
    rw [suppS_eq_of_spine e (fun c x y => by simpa [spine] using h c x y)]

/-- **key lemma**: a node whose pipeline does not start at a `where` shows consumers
(`_params`) every input its value depends on -/
theorem params_supset_support {s : WStat Val Op} {nd : NStat Val Op} (h : NodeDep s nd) (hc : nd.isW = false) :
    ∀ q ∈ supp nd.expr, q ∈ nd.params := by
  intro q hq
  have h1 : q ∈ suppS nd.expr := by rw [suppS_eq_of_spine _ (h.spineC hc)]; exact hq
  exact h.keepS q h1

/-- the nodes whose pipeline does not start at a `where` -/
def CleanP (w : World Val Err Op) : NId → Prop :=
  fun i => ∀ nd, w.nodes[i]? = some nd → nd.toNStat.isW = false

theorem cleanP_staticEq {w w' : World Val Err Op} (h : StaticEq w w') (i : NId) : CleanP w' i ↔ CleanP w i := by
  constructor
  · intro hc nd hn
    obtain ⟨nd', g1, g2⟩ := h.node hn
    rw [← g2]; exact hc nd' g1
  · intro hc nd' hn
    obtain ⟨nd, g1, g2⟩ := h.node' hn
    rw [g2]; exact hc nd g1

theorem closed_cleanP {w : World Val Err Op} (hwf : WF w) (hd : Dep w) : Closed (CleanP w) w := by
  intro i nd hp hn
  have hcl : nd.toNStat.isW = false := hp nd hn
  have nwf := hwf.node i nd hn
  have ndep := hd.node i nd.toNStat (stat_node hn)
  obtain ⟨rt, r1, r2, r3, r4, r5, r6⟩ := nwf.root
  have clean_of_fn : ∀ (x : Node Val Err Op), x.fn = nd.fn → x.toNStat.isW = false := by
    intro x hx
    have : x.toNStat.fn = nd.toNStat.fn := hx
    simp only [NStat.isW, this] at hcl ⊢; exact hcl
  have argP : ∀ a, ArgClean w.stat a → ∀ m, a = Arg.node m → CleanP w m := by
    intro a ha m hm nd' hn'
    obtain ⟨md, g1, g2⟩ := ha m hm
    rw [stat_node hn'] at g1; cases g1; exact g2
  refine ⟨?_, ?_, ?_, ?_⟩
  · intro x hx; rw [r1] at hx; cases hx; exact clean_of_fn _ r4
  · intro p hprev x hx
    obtain ⟨pd, o, es, d1, d2, _⟩ := nwf.derived p hprev
    rw [d1] at hx; cases hx
    obtain ⟨prt, p1, _, _, p4, _⟩ := (hwf.node p x d1).root
    rw [d2, r1] at p1; cases p1
    exact clean_of_fn _ (p4.symm.trans r4)
  · intro o ho m hm
    exact argP _ (ndep.opArgs o ho _ hm) m rfl
  · intro m hm
    exact argP _ (ndep.fnArgs _ hm) m rfl

end
end ParamVerif.Rx
