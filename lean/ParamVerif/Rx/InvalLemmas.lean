/-
C09 helper lemmas, part C: what the invalidation watchers do.
-/
import ParamVerif.Rx.RunLemmas

namespace ParamVerif.Rx

section
variable {Val Err Op : Type}

theorem invalidate_get (w : World Val Err Op) (q : PId) (i : Nat) :
    (invalidate w q).nodes[i]? = (w.nodes[i]?).map fun nd => invNode w q nd i := by
  simp only [invalidate, List.getElem?_map, List.getElem?_zipIdx]
  cases w.nodes[i]? <;> simp

theorem invNode_stat (w : World Val Err Op) (q : PId) (nd : Node Val Err Op) (i : NId) :
    (invNode w q nd i).toNStat = nd.toNStat := by
  simp only [invNode]
  split <;> split <;> split <;> rfl

theorem invNode_current (w : World Val Err Op) (q : PId) (nd : Node Val Err Op) (i : NId) :
    (invNode w q nd i).current = nd.current := by
  simp only [invNode]
  split <;> split <;> split <;> rfl

theorem invNode_dirty (w : World Val Err Op) (q : PId) (nd : Node Val Err Op) (i : NId) :
    (invNode w q nd i).dirty = (nd.dirty || nd.iparams.contains q) := by
  simp only [invNode]
  split <;> split <;> split <;> simp_all

theorem invNode_dirtyObj (w : World Val Err Op) (q : PId) (nd : Node Val Err Op) (i : NId) :
    (invNode w q nd i).dirtyObj = (nd.dirtyObj || (rootsHit w q).contains i) := by
  simp only [invNode]
  split <;> split <;> split <;> simp_all

theorem invNode_error (w : World Val Err Op) (q : PId) (nd : Node Val Err Op) (i : NId) :
    (invNode w q nd i).error = if hitObj w q nd || nd.iparams.contains q then none else nd.error := by
  simp only [invNode]
  split <;> split <;> split <;> simp_all

theorem staticEq_invalidate (w : World Val Err Op) (q : PId) : StaticEq w (invalidate w q) := by
  refine ⟨rfl, rfl, rfl, rfl, rfl, rfl, rfl, fun i => ?_⟩
  rw [invalidate_get]
  cases w.nodes[i]? with
  | none => rfl
  | some nd => simp [invNode_stat]

theorem hitObj_iparams {w : World Val Err Op} {q : PId} {nd : Node Val Err Op}
    (hsub : ∀ q ∈ nd.fnParams, q ∈ nd.iparams) (h : hitObj w q nd = true) : nd.iparams.contains q = true := by
  simp only [hitObj, Bool.and_eq_true] at h
  have := hsub q (by simpa using h.1)
  simpa using this

/-- invalidation only weakens what coherence has to guarantee -/
theorem cohAt_invNode {S : Sem Val Err Op} {env : PId → Val} {cells : List (Option Val)} (w : World Val Err Op)
    (q : PId) (nd : Node Val Err Op) (i : NId) (hsub : ∀ q ∈ nd.fnParams, q ∈ nd.iparams)
    (h : CohAt S env cells nd) : CohAt S env cells (invNode w q nd i) := by
  have es : (invNode w q nd i).toNStat = nd.toNStat := invNode_stat w q nd i
  have eexpr : (invNode w q nd i).expr = nd.expr := by
    rw [show (invNode w q nd i).expr = (invNode w q nd i).toNStat.expr from rfl, es]
  have eprev : (invNode w q nd i).prev = nd.prev := by
    rw [show (invNode w q nd i).prev = (invNode w q nd i).toNStat.prev from rfl, es]
  have ecell : (invNode w q nd i).cell = nd.cell := by
    rw [show (invNode w q nd i).cell = (invNode w q nd i).toNStat.cell from rfl, es]
  constructor
  · intro he hd
    rw [invNode_dirty] at hd
    rw [invNode_error] at he
    simp only [Bool.or_eq_false_iff] at hd
    have hh : hitObj w q nd = false := by
      cases hh : hitObj w q nd with
      | false => rfl
      | true => have := hitObj_iparams hsub hh; rw [hd.2] at this; cases this
    simp only [hh, hd.2, Bool.or_self, Bool.false_eq_true, if_false] at he
    rw [eexpr, invNode_current]
    exact h.val he hd.1
  · intro e he
    rw [invNode_error] at he
    split at he
    · cases he
    · rw [eexpr]; exact h.err e he
  · intro hp hd v hv
    rw [invNode_dirtyObj] at hd
    simp only [Bool.or_eq_false_iff] at hd
    rw [eexpr]
    exact h.cell (eprev ▸ hp) hd.1 v (ecell ▸ hv)

/-- a node is invalidated: nothing cached is trusted any more -/
def Invalidated (nd : Node Val Err Op) : Prop :=
  nd.dirty = true ∧ nd.error = none ∧ (nd.prev = none → nd.dirtyObj = true)

theorem cohAt_of_invalidated {S : Sem Val Err Op} {env : PId → Val} {cells : List (Option Val)}
    {nd : Node Val Err Op} (h : Invalidated nd) : CohAt S env cells nd :=
  ⟨fun _ hd => (by rw [h.1] at hd; cases hd), fun e he => (by rw [h.2.1] at he; cases he),
   fun hp hd => (by rw [h.2.2 hp] at hd; cases hd)⟩

theorem invalidated_invNode (w : World Val Err Op) (q : PId) (nd : Node Val Err Op) (i : NId)
    (h : Invalidated nd) : Invalidated (invNode w q nd i) := by
  refine ⟨(by rw [invNode_dirty, h.1]; rfl), ?_, fun hp => ?_⟩
  · rw [invNode_error]; split
    · rfl
    · exact h.2.1
  · have : nd.prev = none := by
      rw [← hp, show (invNode w q nd i).prev = (invNode w q nd i).toNStat.prev from rfl, invNode_stat]
    rw [invNode_dirtyObj, h.2.2 this]; rfl

/-- a node whose `_internal_params` contain `q` is invalidated when `q` changes
(for a root additionally `_dirty_obj`, as `q` is then one of its function's parameters) -/
theorem invNode_invalidated {w : World Val Err Op} (hwf : WF w) {q : PId} {i : NId} {nd : Node Val Err Op}
    (hn : w.nodes[i]? = some nd) (hq : q ∈ nd.iparams) (hroot : nd.prev = none → q ∈ nd.fnParams) :
    Invalidated (invNode w q nd i) := by
  have hc : nd.iparams.contains q = true := by simpa using hq
  refine ⟨(by rw [invNode_dirty, hc]; simp), (by rw [invNode_error, hc]; simp), fun hp => ?_⟩
  have hp' : nd.prev = none := by
    rw [← hp, show (invNode w q nd i).prev = (invNode w q nd i).toNStat.prev from rfl, invNode_stat]
  have hself := (hwf.node i nd hn).rootSelf hp'
  have hfq : nd.fnParams.contains q = true := by simpa using hroot hp'
  have hhit : hitObj w q nd = true := by
    simp only [hitObj, hfq, Bool.true_and, hself, hn]
  have : (rootsHit w q).contains i = true := by
    simp only [rootsHit, List.contains_iff_mem, List.mem_map, List.mem_filter]
    exact ⟨nd, ⟨List.mem_of_getElem? hn, hhit⟩, hself⟩
  rw [invNode_dirtyObj, this]; simp

/-! ### the invalidators registered after a `_sync_refs` watcher -/

theorem invalidateFrom_get (w : World Val Err Op) (q : PId) (k : Nat) (i : Nat) :
    (invalidateFrom w q k).nodes[i]? = (w.nodes[i]?).map fun nd => invNodeFrom w q k nd i := by
  simp only [invalidateFrom, List.getElem?_map, List.getElem?_zipIdx]
  cases w.nodes[i]? <;> simp

theorem invNodeFrom_stat (w : World Val Err Op) (q : PId) (k : Nat) (nd : Node Val Err Op) (i : NId) :
    (invNodeFrom w q k nd i).toNStat = nd.toNStat := by
  simp only [invNodeFrom]
  split <;> split <;> split <;> rfl

theorem invNodeFrom_current (w : World Val Err Op) (q : PId) (k : Nat) (nd : Node Val Err Op) (i : NId) :
    (invNodeFrom w q k nd i).current = nd.current := by
  simp only [invNodeFrom]
  split <;> split <;> split <;> rfl

theorem invNodeFrom_dirty (w : World Val Err Op) (q : PId) (k : Nat) (nd : Node Val Err Op) (i : NId) :
    (invNodeFrom w q k nd i).dirty = (nd.dirty || (decide (k ≤ i) && nd.iparams.contains q)) := by
  simp only [invNodeFrom]
  split <;> split <;> split <;> simp_all

theorem invNodeFrom_dirtyObj (w : World Val Err Op) (q : PId) (k : Nat) (nd : Node Val Err Op) (i : NId) :
    (invNodeFrom w q k nd i).dirtyObj = (nd.dirtyObj || (rootsHitFrom w q k).contains i) := by
  simp only [invNodeFrom]
  split <;> split <;> split <;> simp_all

theorem invNodeFrom_error (w : World Val Err Op) (q : PId) (k : Nat) (nd : Node Val Err Op) (i : NId) :
    (invNodeFrom w q k nd i).error =
      if (decide (k ≤ i) && hitObj w q nd) || (decide (k ≤ i) && nd.iparams.contains q) then none else nd.error := by
  simp only [invNodeFrom]
  cases hk : decide (k ≤ i) <;> cases hh : hitObj w q nd <;> cases hc : nd.iparams.contains q <;>
    simp only [Bool.and_true, Bool.and_false, Bool.false_and, Bool.true_and, Bool.or_self, Bool.or_true, Bool.or_false,
      Bool.false_eq_true, if_true, if_false, hc] <;> split <;> rfl

theorem staticEq_invalidateFrom (w : World Val Err Op) (q : PId) (k : Nat) : StaticEq w (invalidateFrom w q k) := by
  refine ⟨rfl, rfl, rfl, rfl, rfl, rfl, rfl, fun i => ?_⟩
  rw [invalidateFrom_get]
  cases w.nodes[i]? with
  | none => rfl
  | some nd => simp [invNodeFrom_stat]

theorem cohAt_invNodeFrom {S : Sem Val Err Op} {env : PId → Val} {cells : List (Option Val)} (w : World Val Err Op)
    (q : PId) (k : Nat) (nd : Node Val Err Op) (i : NId) (hsub : ∀ q ∈ nd.fnParams, q ∈ nd.iparams)
    (h : CohAt S env cells nd) : CohAt S env cells (invNodeFrom w q k nd i) := by
  have es : (invNodeFrom w q k nd i).toNStat = nd.toNStat := invNodeFrom_stat w q k nd i
  have eexpr : (invNodeFrom w q k nd i).expr = nd.expr := by
    rw [show (invNodeFrom w q k nd i).expr = (invNodeFrom w q k nd i).toNStat.expr from rfl, es]
  have eprev : (invNodeFrom w q k nd i).prev = nd.prev := by
    rw [show (invNodeFrom w q k nd i).prev = (invNodeFrom w q k nd i).toNStat.prev from rfl, es]
  have ecell : (invNodeFrom w q k nd i).cell = nd.cell := by
    rw [show (invNodeFrom w q k nd i).cell = (invNodeFrom w q k nd i).toNStat.cell from rfl, es]
  constructor
  · intro he hd
    rw [invNodeFrom_dirty] at hd
    rw [invNodeFrom_error] at he
    simp only [Bool.or_eq_false_iff] at hd
    have hh : (decide (k ≤ i) && hitObj w q nd) = false := by
      cases hk : decide (k ≤ i) with
      | false => rfl
      | true =>
        cases hh : hitObj w q nd with
        | false => rfl
        | true =>
          have := hitObj_iparams hsub hh
          rw [hk, this] at hd; simp at hd
    simp only [hh, hd.2, Bool.or_self, Bool.false_eq_true, if_false] at he
    rw [eexpr, invNodeFrom_current]
    exact h.val he hd.1
  · intro e he
    rw [invNodeFrom_error] at he
    split at he
    · cases he
    · rw [eexpr]; exact h.err e he
  · intro hp hd v hv
    rw [invNodeFrom_dirtyObj] at hd
    simp only [Bool.or_eq_false_iff] at hd
    rw [eexpr]
    exact h.cell (eprev ▸ hp) hd.1 v (ecell ▸ hv)

theorem invalidated_invNodeFrom (w : World Val Err Op) (q : PId) (k : Nat) (nd : Node Val Err Op) (i : NId)
    (h : Invalidated nd) : Invalidated (invNodeFrom w q k nd i) := by
  refine ⟨(by rw [invNodeFrom_dirty, h.1]; rfl), ?_, fun hp => ?_⟩
  · rw [invNodeFrom_error]; split
    · rfl
    · exact h.2.1
  · have : nd.prev = none := by
      rw [← hp, show (invNodeFrom w q k nd i).prev = (invNodeFrom w q k nd i).toNStat.prev from rfl, invNodeFrom_stat]
    rw [invNodeFrom_dirtyObj, h.2.2 this]; rfl

end
end ParamVerif.Rx
