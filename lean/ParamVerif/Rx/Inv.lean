/-
C09 helper lemmas, part B1: the invariants.

* `StaticEq w w'`  — evaluation changes caches and flags only.
* `WF w`           — structural well-formedness of the node table (static).
* `CohAt`          — cache coherence of one node: a clean cache holds the value of the
                     expression, a cached error is the error of the expression, a clean
                     shared cell holds the value of the root function.
-/
import ParamVerif.Rx.ExprLemmas

namespace ParamVerif.Rx

section
variable {Val Err Op : Type}

abbrev W (Val Err Op : Type) := World Val Err Op

/-! ### static equality -/

structure StaticEq (w w' : World Val Err Op) : Prop where
  vals : w'.vals = w.vals
  nparams : w'.nparams = w.nparams
  inputs : w'.inputs = w.inputs
  trigs : w'.trigs = w.trigs
  consumers : w'.consumers = w.consumers
  nwatch : w'.nwatch = w.nwatch
  cellsLen : w'.cells.length = w.cells.length
  stat : ∀ i : Nat, (w'.nodes[i]?).map (fun (nd : Node Val Err Op) => nd.toNStat) = (w.nodes[i]?).map (fun (nd : Node Val Err Op) => nd.toNStat)

theorem StaticEq.refl (w : World Val Err Op) : StaticEq w w :=
  ⟨rfl, rfl, rfl, rfl, rfl, rfl, rfl, fun _ => rfl⟩

theorem StaticEq.trans {w1 w2 w3 : World Val Err Op} (h1 : StaticEq w1 w2) (h2 : StaticEq w2 w3) : StaticEq w1 w3 :=
  ⟨h2.vals.trans h1.vals, h2.nparams.trans h1.nparams, h2.inputs.trans h1.inputs, h2.trigs.trans h1.trigs,
   h2.consumers.trans h1.consumers, h2.nwatch.trans h1.nwatch, h2.cellsLen.trans h1.cellsLen,
   fun i => (h2.stat i).trans (h1.stat i)⟩

theorem StaticEq.node {w w' : World Val Err Op} (h : StaticEq w w') {i : Nat} {nd : Node Val Err Op}
    (hn : w.nodes[i]? = some nd) : ∃ nd', w'.nodes[i]? = some nd' ∧ nd'.toNStat = nd.toNStat := by
  have := h.stat i
  rw [hn] at this
  cases h' : w'.nodes[i]? with
  | none => simp [h'] at this
  | some nd' => exact ⟨nd', rfl, by simpa [h'] using this⟩

theorem StaticEq.node' {w w' : World Val Err Op} (h : StaticEq w w') {i : Nat} {nd' : Node Val Err Op}
    (hn : w'.nodes[i]? = some nd') : ∃ nd, w.nodes[i]? = some nd ∧ nd'.toNStat = nd.toNStat := by
  have := h.stat i
  rw [hn] at this
  cases h' : w.nodes[i]? with
  | none => simp [h'] at this
  | some nd => exact ⟨nd, rfl, by simpa [h'] using this⟩

theorem StaticEq.none {w w' : World Val Err Op} (h : StaticEq w w') {i : Nat}
    (hn : w.nodes[i]? = none) : w'.nodes[i]? = none := by
  have := h.stat i
  rw [hn] at this
  cases h' : w'.nodes[i]? with
  | none => rfl
  | some nd' => simp [h'] at this

theorem staticEq_modNode (w : World Val Err Op) (n : NId) (f : Node Val Err Op → Node Val Err Op)
    (hf : ∀ nd, (f nd).toNStat = nd.toNStat) : StaticEq w (w.modNode n f) := by
  refine ⟨rfl, rfl, rfl, rfl, rfl, rfl, rfl, fun i => ?_⟩
  simp only [World.modNode, List.getElem?_modify]
  cases w.nodes[i]? with
  | none => rfl
  | some nd => by_cases h : n = i <;> simp [h, hf]

theorem staticEq_setCell (w : World Val Err Op) (c : Nat) (v : Val) : StaticEq w (w.setCell c v) :=
  ⟨rfl, rfl, rfl, rfl, rfl, rfl, by simp [World.setCell], fun _ => rfl⟩

theorem staticEq_store (w : World Val Err Op) (n : NId) (v : Val) : StaticEq w (w.store n v) :=
  staticEq_modNode w n _ (fun _ => rfl)

theorem staticEq_setError (w : World Val Err Op) (n : NId) (e : Err) : StaticEq w (w.setError n e) :=
  staticEq_modNode w n _ (fun _ => rfl)

/-! ### expressions of operands are static -/

theorem argExpr_staticEq {w w' : World Val Err Op} (h : StaticEq w w') (a : Arg Val) :
    argExpr w' a = argExpr w a := by
  cases a with
  | lit v => rfl
  | param p => simp [argExpr, h.inputs]
  | node n =>
    simp only [argExpr]
    have := h.stat n
    cases h1 : w.nodes[n]? <;> cases h2 : w'.nodes[n]? <;> simp [h1, h2] at this ⊢
    rw [show (_ : Node Val Err Op).expr = (Node.toNStat _).expr from rfl, this]

theorem argExprs_staticEq {w w' : World Val Err Op} (h : StaticEq w w') :
    ∀ as : List (Arg Val), argExprs w' as = argExprs w as
  | [] => rfl
  | a :: as => by simp [argExprs, argExpr_staticEq h a, argExprs_staticEq h as]

def fnArgs : Fn Val Op → List (Arg Val)
  | .ident _ => []
  | .bound _ as => as
  | .ternary c _ x y => [c, x, y]

/-- the expression a root function denotes -/
def fnExprOf (w : World Val Err Op) : Fn Val Op → Option (Expr Val Op)
  | .ident p => some (.input p)
  | .bound g args => (argExprs w args).map (.call g)
  | .ternary c _ x y =>
    match argExpr w c, argExpr w x, argExpr w y with
    | some ce, some xe, some ye => some (.ite ce xe ye)
    | _, _, _ => none

theorem fnExprOf_staticEq {w w' : World Val Err Op} (h : StaticEq w w') (f : Fn Val Op) :
    fnExprOf w' f = fnExprOf w f := by
  cases f <;> simp [fnExprOf, argExprs_staticEq h, argExpr_staticEq h]

theorem refs_staticEq {w w' : World Val Err Op} (h : StaticEq w w') (a : Arg Val) : refs w' a = refs w a := by
  cases a with
  | lit v => rfl
  | param p => simp [refs, h.inputs]
  | node n =>
    simp only [refs]
    have := h.stat n
    cases h1 : w.nodes[n]? <;> cases h2 : w'.nodes[n]? <;> simp [h1, h2] at this ⊢
    rw [show (_ : Node Val Err Op).params = (Node.toNStat _).params from rfl, this]

theorem refsAll_staticEq {w w' : World Val Err Op} (h : StaticEq w w') :
    ∀ as : List (Arg Val), refsAll w' as = refsAll w as
  | [] => rfl
  | a :: as => by simp [refsAll, refs_staticEq h a, refsAll_staticEq h as]

theorem fnParamsOf_staticEq {w w' : World Val Err Op} (h : StaticEq w w') (f : Fn Val Op) :
    fnParamsOf w' f = fnParamsOf w f := by
  cases f <;> simp [fnParamsOf, refsAll_staticEq h, refs_staticEq h]

/-! ### well-formedness (static) -/

structure NodeWF (w : World Val Err Op) (i : NId) (nd : Node Val Err Op) : Prop where
  root : ∃ rt, w.nodes[nd.root]? = some rt ∧ rt.prev = none ∧ rt.root = nd.root ∧ rt.fn = nd.fn ∧
           rt.cell = nd.cell ∧ rt.fnParams = nd.fnParams
  rootSelf : nd.prev = none → nd.root = i
  cell : nd.cell < w.cells.length
  isRoot : nd.prev = none → nd.op = none ∧ fnExprOf w nd.fn = some nd.expr
  derived : ∀ p, nd.prev = some p → ∃ pd o es, w.nodes[p]? = some pd ∧ pd.root = nd.root ∧ nd.op = some o ∧
              argExprs w o.args = some es ∧ nd.expr = .app o.op o.reverse pd.expr es
  fnSub : ∀ q ∈ nd.fnParams, q ∈ nd.iparams
  fp : fnParamsOf w nd.fn = some nd.fnParams

structure WF (w : World Val Err Op) : Prop where
  node : ∀ (i : Nat) (nd : Node Val Err Op), w.nodes[i]? = some nd → NodeWF w i nd
  cellFn : ∀ (i j : Nat) (ndi ndj : Node Val Err Op), w.nodes[i]? = some ndi → w.nodes[j]? = some ndj → ndi.cell = ndj.cell → ndi.fn = ndj.fn

theorem NodeWF.of_staticEq {w w' : World Val Err Op} (h : StaticEq w w') {i : NId} {nd nd' : Node Val Err Op}
    (hs : nd'.toNStat = nd.toNStat) (hw : NodeWF w i nd) : NodeWF w' i nd' := by
  have e : ∀ {α} (f : NStat Val Op → α), f nd'.toNStat = f nd.toNStat := fun f => by rw [hs]
  have eprev : nd'.prev = nd.prev := e (·.prev)
  have eroot : nd'.root = nd.root := e (·.root)
  have ecell : nd'.cell = nd.cell := e (·.cell)
  have efn : nd'.fn = nd.fn := e (·.fn)
  have eop : nd'.op = nd.op := e (·.op)
  have efp : nd'.fnParams = nd.fnParams := e (·.fnParams)
  have eip : nd'.iparams = nd.iparams := e (·.iparams)
  have eex : nd'.expr = nd.expr := e (·.expr)
  constructor
  · obtain ⟨rt, h1, h2, h3, h4, h5, h6⟩ := hw.root
    obtain ⟨rt', g1, g2⟩ := h.node h1
    have e' : ∀ {α} (f : NStat Val Op → α), f rt'.toNStat = f rt.toNStat := fun f => by rw [g2]
    refine ⟨rt', by rw [eroot]; exact g1, ?_, ?_, ?_, ?_, ?_⟩
    · exact (e' (·.prev)).trans h2
    · rw [eroot]; exact (e' (·.root)).trans h3
    · rw [efn]; exact (e' (·.fn)).trans h4
    · rw [ecell]; exact (e' (·.cell)).trans h5
    · rw [efp]; exact (e' (·.fnParams)).trans h6
  · intro hp; rw [eroot]; exact hw.rootSelf (eprev ▸ hp)
  · rw [ecell, h.cellsLen]; exact hw.cell
  · intro hp
    obtain ⟨h1, h2⟩ := hw.isRoot (eprev ▸ hp)
    exact ⟨eop.trans h1, by rw [efn, eex, fnExprOf_staticEq h]; exact h2⟩
  · intro p hp
    obtain ⟨pd, o, es, h1, h2, h3, h4, h5⟩ := hw.derived p (eprev ▸ hp)
    obtain ⟨pd', g1, g2⟩ := h.node h1
    have e' : ∀ {α} (f : NStat Val Op → α), f pd'.toNStat = f pd.toNStat := fun f => by rw [g2]
    refine ⟨pd', o, es, g1, ?_, eop.trans h3, by rw [argExprs_staticEq h]; exact h4, ?_⟩
    · rw [eroot]; exact (e' (·.root)).trans h2
    · rw [eex, h5]; congr 1; exact (e' (·.expr)).symm
  · intro q hq; rw [eip]; exact hw.fnSub q (efp ▸ hq)
  · rw [efn, efp, fnParamsOf_staticEq h]; exact hw.fp

theorem WF.of_staticEq {w w' : World Val Err Op} (h : StaticEq w w') (hw : WF w) : WF w' := by
  constructor
  · intro i nd' hn
    obtain ⟨nd, h1, h2⟩ := h.node' hn
    exact (hw.node i nd h1).of_staticEq h h2
  · intro i j ndi' ndj' hi hj hc
    obtain ⟨ndi, h1, h2⟩ := h.node' hi
    obtain ⟨ndj, h3, h4⟩ := h.node' hj
    have e1 : ndi'.fn = ndi.fn := by rw [show ndi'.fn = ndi'.toNStat.fn from rfl, h2]
    have e2 : ndj'.fn = ndj.fn := by rw [show ndj'.fn = ndj'.toNStat.fn from rfl, h4]
    have e3 : ndi'.cell = ndi.cell := by rw [show ndi'.cell = ndi'.toNStat.cell from rfl, h2]
    have e4 : ndj'.cell = ndj.cell := by rw [show ndj'.cell = ndj'.toNStat.cell from rfl, h4]
    rw [e1, e2]
    exact hw.cellFn i j ndi ndj h1 h3 (by rw [← e3, ← e4]; exact hc)

/-! ### cache coherence -/

structure CohAt (S : Sem Val Err Op) (env : PId → Val) (cells : List (Option Val)) (nd : Node Val Err Op) : Prop where
  val : nd.error = none → nd.dirty = false → eval S env nd.expr = .ok nd.current
  err : ∀ e, nd.error = some e → eval S env nd.expr = .error e
  cell : nd.prev = none → nd.dirtyObj = false → ∀ v, cells[nd.cell]? = some (some v) → eval S env nd.expr = .ok v

def CohOn (S : Sem Val Err Op) (P : NId → Prop) (w : World Val Err Op) : Prop :=
  ∀ (i : Nat) (nd : Node Val Err Op), P i → w.nodes[i]? = some nd → CohAt S w.vals w.cells nd

/-- `P` is closed under the references of its nodes -/
def Closed (P : NId → Prop) (w : World Val Err Op) : Prop :=
  ∀ (i : Nat) (nd : Node Val Err Op), P i → w.nodes[i]? = some nd →
    P nd.root ∧ (∀ p, nd.prev = some p → P p) ∧
    (∀ o, nd.op = some o → ∀ m, Arg.node m ∈ o.args → P m) ∧
    (∀ m, Arg.node m ∈ fnArgs nd.fn → P m)

theorem Closed.of_staticEq {P : NId → Prop} {w w' : World Val Err Op} (h : StaticEq w w') (hc : Closed P w) :
    Closed P w' := by
  intro i nd' hp hn
  obtain ⟨nd, h1, h2⟩ := h.node' hn
  have e : ∀ {α} (f : NStat Val Op → α), f nd'.toNStat = f nd.toNStat := fun f => by rw [h2]
  obtain ⟨c1, c2, c3, c4⟩ := hc i nd hp h1
  refine ⟨(e (·.root)) ▸ c1, fun p hp' => c2 p ((e (·.prev)) ▸ hp'), fun o ho => c3 o ((e (·.op)) ▸ ho), ?_⟩
  intro m hm
  exact c4 m ((e (·.fn)) ▸ hm)

/-- nodes outside `P`, and cells no `P` node uses, are untouched -/
structure Frame (P : NId → Prop) (w w' : World Val Err Op) : Prop where
  nodes : ∀ i : Nat, ¬ P i → w'.nodes[i]? = w.nodes[i]?
  cells : ∀ c : Nat, (∀ (i : Nat) (nd : Node Val Err Op), P i → w.nodes[i]? = some nd → nd.cell ≠ c) → w'.cells[c]? = w.cells[c]?

theorem Frame.refl (P : NId → Prop) (w : World Val Err Op) : Frame P w w := ⟨fun _ _ => rfl, fun _ _ => rfl⟩

theorem Frame.trans {P : NId → Prop} {w1 w2 w3 : World Val Err Op} (s12 : StaticEq w1 w2)
    (h1 : Frame P w1 w2) (h2 : Frame P w2 w3) : Frame P w1 w3 := by
  constructor
  · intro i hi; rw [h2.nodes i hi, h1.nodes i hi]
  · intro c hc
    rw [h2.cells c ?_, h1.cells c hc]
    intro i nd' hp hn
    obtain ⟨nd, g1, g2⟩ := s12.node' hn
    rw [show nd'.cell = nd'.toNStat.cell from rfl, g2]
    exact hc i nd hp g1

end
end ParamVerif.Rx
