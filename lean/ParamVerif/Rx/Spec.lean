/-
C09 specification side.

* `eval`: the plain-Python meaning of an expression tree on the current inputs
  (pipeline object first, then the operands left to right; helpers are strict
  functions of their evaluated operands; `where` is a conditional expression).
* `SpecState` / `expect`: an interpretation of a program that keeps *only* the
  inputs' current values and the expression each node id stands for — no cache,
  no flags, no dependency lists.
* `checkProg`: the oracle — a decidable check of a list of observed outcomes
  (of the implementation or of the model) against that interpretation.
-/
import ParamVerif.Rx.Model

namespace ParamVerif.Rx

section
variable {Val Err Op : Type}

mutual
/-- the direct evaluator -/
def eval (S : Sem Val Err Op) (env : PId → Val) : Expr Val Op → Except Err Val
  | .lit v => .ok v
  | .input p => .ok (env p)
  | .app o rev e args =>
    match eval S env e with
    | .error x => .error x
    | .ok obj =>
      match evalList S env args with
      | .error x => .error x
      | .ok vs => S.apply o (arrange rev obj vs)
  | .call g args =>
    match evalList S env args with
    | .error x => .error x
    | .ok vs => S.apply g vs
  | .ite c x y =>
    match eval S env c with
    | .error e => .error e
    | .ok cv => if S.truthy cv then eval S env x else eval S env y
def evalList (S : Sem Val Err Op) (env : PId → Val) : List (Expr Val Op) → Except Err (List Val)
  | [] => .ok []
  | e :: es =>
    match eval S env e with
    | .error x => .error x
    | .ok v =>
      match evalList S env es with
      | .error x => .error x
      | .ok vs => .ok (v :: vs)
end

/-! ### The program seen by the specification -/

structure SpecState (Val Op : Type) where
  env : PId → Val
  nparams : Nat
  inputs : List PId
  exprs : List (Expr Val Op)      -- node id ↦ expression (internal copies stand for the same expression)
  watches : List (Expr Val Op)    -- watch number ↦ watched expression
  refs : List (Expr Val Op) := [] -- holder number ↦ expression held as a reference

def SpecState.empty (S : Sem Val Err Op) : SpecState Val Op :=
  { env := fun _ => S.none, nparams := 0, inputs := [], exprs := [], watches := [], refs := [] }

def SpecState.alloc (s : SpecState Val Op) (v : Val) (input : Bool) : SpecState Val Op :=
  { s with env := fun q => if q = s.nparams then v else s.env q, nparams := s.nparams + 1,
           inputs := if input then s.inputs ++ [s.nparams] else s.inputs }

def SpecState.argExpr (s : SpecState Val Op) : Arg Val → Option (Expr Val Op)
  | .lit v => some (.lit v)
  | .param p => if s.inputs.contains p then some (.input p) else none
  | .node n => s.exprs[n]?

def SpecState.argExprs (s : SpecState Val Op) : List (Arg Val) → Option (List (Expr Val Op))
  | [] => some []
  | a :: as => do
    let e ← s.argExpr a
    let es ← s.argExprs as
    pure (e :: es)

/-- what the property allows a statement to produce -/
inductive Expect (Val Err Op : Type) where
  | created
  | createOrErr (r : Except Err Val) (attr : Option Op)   -- creation may read the node: it may fail only as that read fails (or the attribute is missing)
  | watching
  | read (r : Except Err Val)
  | set (before after : List (Except Err Val)) (refsAfter : List (Except Err Val))
                                                          -- per watch: value before / after the update; per holder: after
  | readRef (r : Except Err Val)                          -- a Parameter holding the expression mirrors its value
  | readOrRefused (r : Except Err Val)                    -- `x in expr`: what plain Python computes, or refused with TypeError
  | invalid                                               -- dangling reference: not a program

/-- one statement on the specification state: expectation and next state; `none` = no next state (invalid) -/
def specStep (S : Sem Val Err Op) (s : SpecState Val Op) : Stmt Val Op → Expect Val Err Op × SpecState Val Op
  | .lit v => (.created, { (s.alloc v true) with exprs := s.exprs ++ [.input s.nparams] })
  | .obj vs => (.created, vs.foldl (fun s v => s.alloc v true) s)
  | .rootp p =>
    if s.inputs.contains p then (.created, { s with exprs := s.exprs ++ [.input p] }) else (.invalid, s)
  | .op n o rev args =>
    match s.exprs[n]?, s.argExprs args with
    | some e, some es =>
      if rev && args.isEmpty then (.invalid, s) else
      (.createOrErr (eval S s.env e) none, { s with exprs := s.exprs ++ [e, .app o rev e es] })
    | _, _ => (.invalid, s)
  | .meth n o args =>
    match s.exprs[n]?, s.argExprs args with
    | some e, some es =>
      (.createOrErr (eval S s.env e) (some o), { s with exprs := s.exprs ++ [e, e, .app o false e es] })
    | _, _ => (.invalid, s)
  | .meth2 n o args args2 =>
    match s.exprs[n]?, s.argExprs args, s.argExprs args2 with
    | some e, some es, some es2 =>
      (.createOrErr (eval S s.env e) (some o),
        { s with exprs := s.exprs ++ [e, e, .app o false e es, e, .app o false e es2] })
    | _, _, _ => (.invalid, s)
  | .bind g args =>
    match s.argExprs args with
    | some es => (.created, { s with exprs := s.exprs ++ [.call g es] })
    | none => (.invalid, s)
  | .where_ c x y =>
    match c, s.argExpr c, s.argExpr x, s.argExpr y with
    | .lit _, _, _, _ => (.invalid, s)
    | _, some ce, some xe, some ye =>
      (.created, { (s.alloc S.none false) with exprs := s.exprs ++ [.ite ce xe ye] })
    | _, _, _, _ => (.invalid, s)
  | .watch n =>
    match s.exprs[n]? with
    | some e => (.watching, { s with watches := s.watches ++ [e] })
    | none => (.invalid, s)
  | .set p v =>
    if !s.inputs.contains p then (.invalid, s) else
    let s1 := { s with env := fun q => if q = p then v else s.env q }
    (.set (s.watches.map (eval S s.env)) (s.watches.map (eval S s1.env)) (s.refs.map (eval S s1.env)), s1)
  | .read n =>
    match s.exprs[n]? with
    | some e => (.read (eval S s.env e), s)
    | none => (.invalid, s)
  | .ref n =>
    match s.exprs[n]? with
    | some e => (.createOrErr (eval S s.env e) none, { s with refs := s.refs ++ [e] })
    | none => (.invalid, s)
  | .isin n cop x =>
    -- plain Python: `x in value` = operator.contains(value, x), a bool; an expression may refuse (TypeError),
    -- it must never answer with a wrong bool
    match s.exprs[n]? with
    | some e =>
      (.readOrRefused (match eval S s.env e with
              | .ok val => S.apply cop [val, x]
              | .error err => .error err), s)
    | none => (.invalid, s)
  | .readref h =>
    match s.refs[h]? with
    | some e => (.readRef (eval S s.env e), s)
    | none => (.invalid, s)

variable [BEq Val] [BEq Err] [BEq Op]

def exEq : Except Err Val → Except Err Val → Bool
  | .ok a, .ok b => a == b
  | .error a, .error b => a == b
  | _, _ => false

def isOkVal (r : Option (Except Err Val)) (v : Val) : Bool :=
  match r with
  | some (.ok v') => v' == v
  | _ => false

/-- a read against the direct evaluation -/
def meetsRead : Except Err Val → Outcome Val Err → Option String
  | .ok v, .read v' => if v == v' then none else some "read returned a value different from the direct evaluation"
  | .ok _, .readErr _ => some "read raised although the direct evaluation succeeds (no recovery)"
  | .error e, .readErr e' => if e == e' then none else some "read raised another exception class than the direct evaluation"
  | .error _, .read _ => some "read returned a value although the direct evaluation raises"
  | _, _ => some "unexpected outcome of a read"

/-- does an observed outcome meet the expectation?  `none` = yes, `some reason` = no -/
def meets (S : Sem Val Err Op) : Expect Val Err Op → Outcome Val Err → Option String
  | .created, .created => none
  | .created, _ => some "creation of a root / bound / where expression failed"
  | .watching, .watching => none
  | .watching, _ => some "watch registration failed"
  | .createOrErr (.error e) _, .createErr e' =>
    if e == e' then none else some "building on a failing expression raised another exception class"
  | .createOrErr (.error _) _, .created => none     -- building lazily on a failing expression is fine too
  | .createOrErr (.error _) _, _ => some "unexpected outcome of a creation"
  | .createOrErr (.ok v) attr, o =>
    let missing := match attr with | some a => !S.hasAttr v a | none => false
    match o with
    | .created => if missing then some "method call on a value without that attribute succeeded" else none
    | .createErr e' =>
      if missing && e' == S.attrErr then none
      else some "building on a valid expression raised"
    | _ => some "unexpected outcome of a creation"
  | .read (.ok v), .read v' => if v == v' then none else some "read returned a value different from the direct evaluation"
  | .read (.ok _), .readErr _ => some "read raised although the direct evaluation succeeds (no recovery)"
  | .read (.error e), .readErr e' => if e == e' then none else some "read raised another exception class than the direct evaluation"
  | .read (.error _), .read _ => some "read returned a value although the direct evaluation raises"
  | .read _, _ => some "unexpected outcome of a read"
  | .readOrRefused r, o =>
    match o with
    | .readErr e' => if e' == S.typeErr then none else meetsRead r o
    | _ => meetsRead r o
  | .readRef (.ok v), .read v' =>
    if v == v' then none else some "a Parameter holding the expression as a reference does not mirror its value"
  | .readRef (.error _), .read _ => none     -- the expression fails now: the holder keeps its last value
  | .readRef _, _ => some "unexpected outcome of reading a reference holder"
  | .set before after refsAfter, .set calls err =>
    -- (1) every callback got the fresh value of its expression
    match calls.find? (fun (k, v) => !isOkVal after[k]? v) with
    | some (k, _) => some s!"watch callback {k} was called with a value that is not the fresh value"
    | none =>
      -- (2) an exception may escape the assignment only if it is the failure of a watched expression
      let errOk := match err with
        | none => true
        | some e => after.any (exEq (.error e)) || refsAfter.any (exEq (.error e))
      if !errOk then some "the input update raised although no watched or referenced expression fails" else
      -- (3) every watched expression whose value changed got a callback with the new value
      let idx := List.range after.length
      match idx.find? (fun k =>
          match before[k]?, after[k]? with
          | some b, some (Except.ok v) => !exEq b (.ok v) && !calls.contains (k, v)
          | _, _ => false) with
      | some k => some s!"watch callback {k} was not called although the value of its expression changed"
      | none => none
  | .set _ _ _, _ => some "unexpected outcome of an input update"
  | .invalid, _ => none

/-- The oracle: walk a program and the observed outcomes.  Returns the number of
read / update / creation-read steps checked and the first disagreement. -/
def checkProg (S : Sem Val Err Op) : SpecState Val Op → List (Stmt Val Op) → List (Outcome Val Err) → Nat →
    Nat × Option String
  | _, [], _, n => (n, none)
  | _, _, [], n => (n, none)
  | s, st :: sts, o :: os, n =>
    match specStep S s st with
    | (.invalid, _) => (n, none)          -- not a program: stop being applicable
    | (ex, s1) =>
      match meets S ex o with
      | some why => (n + 1, some s!"statement {n}: {why}")
      | none =>
        match o with
        | .createErr _ => (n + 1, none)   -- the program ends at a failed creation
        | _ => checkProg S s1 sts os (n + 1)

end
end ParamVerif.Rx
