/-
C09 helper lemmas, part E4: every statement keeps the invariants, provided no
where-rooted expression is handed to a consumer (`Admissible`), the interpreter
does not run out of fuel and no exception escapes an input update.
-/
import ParamVerif.Rx.MkNode

namespace ParamVerif.Rx

section
variable {Val Err Op : Type}

/-- "no `where` result is used as an operand / bind argument / condition or branch of another
`where`, and none is watched" -/
def Admissible (w : World Val Err Op) : Stmt Val Op → Prop
  | .op _ _ _ args => ∀ a ∈ args, ArgClean w.stat a
  | .meth _ _ args => ∀ a ∈ args, ArgClean w.stat a
  | .meth2 _ _ args args2 => (∀ a ∈ args, ArgClean w.stat a) ∧ (∀ a ∈ args2, ArgClean w.stat a)
  | .bind _ args => ∀ a ∈ args, ArgClean w.stat a
  | .where_ c x y => ArgClean w.stat c ∧ ArgClean w.stat x ∧ ArgClean w.stat y
  | .watch n => ∀ nd, w.nodes[n]? = some nd → nd.toNStat.isW = false
  | .ref n => ∀ nd, w.nodes[n]? = some nd → nd.toNStat.isW = false
  | _ => True

/-- operands stay clean in the later world -/
def Grow (w w' : World Val Err Op) : Prop := ∀ a : Arg Val, ArgClean w.stat a → ArgClean w'.stat a

theorem Grow.refl (w : World Val Err Op) : Grow w w := fun _ h => h
theorem Grow.trans {a b c : World Val Err Op} (h1 : Grow a b) (h2 : Grow b c) : Grow a c :=
  fun x hx => h2 x (h1 x hx)
theorem Grow.of_staticEq {w w' : World Val Err Op} (h : StaticEq w w') : Grow w w' := by
  intro a ha; rw [stat_eq_of_staticEq h]; exact ha
theorem Grow.of_ext {w w' : World Val Err Op} (h : Ext w w') : Grow w w' := fun _ ha => h.argClean ha

theorem closed_all (w : World Val Err Op) : Closed All w :=
  fun _ _ _ _ => ⟨trivial, fun _ _ => trivial, fun _ _ _ _ => trivial, fun _ _ => trivial⟩

/-- a read on a good world -/
theorem good_run {S : Sem Val Err Op} {w w' : World Val Err Op} (g : Good S w) {fuel : Nat} {call : Call Val Op}
    {r : Res Err Val} (hok : CallOK All w call) (h : run S fuel call w = (r, w')) (hr : r ≠ .error .fuel) :
    Good S w' ∧ Post S All w call r w' := by
  have post := run_correct S All fuel call w r w' g.wf (closed_all w) g.coh hok h hr
  exact ⟨g.of_staticEq post.stat post.coh, post⟩

/-- an extension that adds no node -/
theorem Good.ext0 {S : Sem Val Err Op} {w w' : World Val Err Op} (g : Good S w) (e : Ext w w')
    (hn : w'.nodes = w.nodes)
    (hcons : ∀ c ∈ w'.consumers, c ∉ w.consumers → ConsOK w'.stat c)
    (h1 : ∀ q ∈ w'.inputs, q < w'.nparams) (h2 : ∀ q ∈ w'.inputs, w'.trigs.lookup q = none)
    (h3 : ∀ t tp, (t, tp) ∈ w'.trigs → t < w'.nparams) : Good S w' := by
  refine g.ext e ?_ ?_ hcons h1 h2 h3
  · intro i nd hnd hi
    rw [hn] at hnd
    have := (List.getElem?_eq_some_iff.1 hnd).1
    omega
  · intro i j ndi ndj hi _ hle _
    rw [hn] at hi
    have := (List.getElem?_eq_some_iff.1 hi).1
    omega

theorem lookup_none_of_lt {trigs : List (PId × List PId)} {n : Nat} (h : ∀ t tp, (t, tp) ∈ trigs → t < n) :
    trigs.lookup n = none := by
  rw [List.lookup_eq_none_iff]
  intro p hp
  have := h p.1 p.2 hp
  simp only [bne_iff_ne, ne_eq]
  exact fun hh => Nat.lt_irrefl _ (hh ▸ this)

theorem good_alloc {S : Sem Val Err Op} {w : World Val Err Op} (g : Good S w) (v : Val) (input : Bool) :
    Good S (allocParam w v input) ∧ Ext w (allocParam w v input) := by
  have e : Ext w (allocParam w v input) := by
    refine ⟨⟨[], by simp [allocParam]⟩, ⟨[], by simp [allocParam]⟩, ?_, ⟨[], by simp [allocParam]⟩, ?_⟩
    · cases input
      · exact ⟨[], by simp [allocParam]⟩
      · exact ⟨[w.nparams], by simp [allocParam]⟩
    · intro q hq
      have : q ≠ w.nparams := Nat.ne_of_lt (g.inLt q hq)
      simp [allocParam, this]
  refine ⟨g.ext0 e rfl (fun c hc hc' => absurd hc hc') ?_ ?_ ?_, e⟩
  · intro q hq
    cases input
    · exact Nat.lt_succ_of_lt (g.inLt q (by simpa [allocParam] using hq))
    · simp only [allocParam, if_true, List.mem_append, List.mem_singleton] at hq
      rcases hq with hq | hq
      · exact Nat.lt_succ_of_lt (g.inLt q hq)
      · subst hq; exact Nat.lt_succ_self _
  · intro q hq
    cases input
    · exact g.trOK q (by simpa [allocParam] using hq)
    · simp only [allocParam, if_true, List.mem_append, List.mem_singleton] at hq
      rcases hq with hq | hq
      · exact g.trOK q hq
      · subst hq; exact lookup_none_of_lt g.trLt
  · intro t tp ht
    exact Nat.lt_succ_of_lt (g.trLt t tp ht)

theorem good_appendCell {S : Sem Val Err Op} {w : World Val Err Op} (g : Good S w) (c : Option Val) :
    Good S { w with cells := w.cells ++ [c] } ∧ Ext w { w with cells := w.cells ++ [c] } := by
  have e : Ext w { w with cells := w.cells ++ [c] } :=
    ⟨⟨[], by simp⟩, ⟨[c], rfl⟩, ⟨[], by simp⟩, ⟨[], by simp⟩, fun _ _ => rfl⟩
  exact ⟨g.ext0 e rfl (fun c hc hc' => absurd hc hc') g.inLt g.trOK g.trLt, e⟩

theorem good_newRootIdent {S : Sem Val Err Op} {w w' : World Val Err Op} (g : Good S w) {p : PId}
    (hp : p ∈ w.inputs) (h : newRootIdent S w p = some w') : Good S w' ∧ Ext w w' := by
  simp only [newRootIdent] at h
  obtain ⟨g1, e1⟩ := good_appendCell g (if S.isNone (w.vals p) then none else some (w.vals p))
  have := good_mkRoot g1 (cell := w.cells.length) (fn := .ident p) (expr := .input p) (cur := none)
    (by simp) ?_ rfl (by simp [fnArgs]) (fun q hq => by cases hq; exact hp) (fun c t x y hf => by cases hf)
    (fun v hv => by cases hv) ?_ h
  · exact ⟨this.1, e1.trans this.2.1⟩
  · intro j ndj hj hcell
    have := (g.wf.node j ndj hj).cell
    rw [hcell] at this
    exact absurd this (Nat.lt_irrefl _)
  · intro v hv
    simp only [List.getElem?_append_right (Nat.le_refl _), Nat.sub_self, List.getElem?_cons_zero,
      Option.some.injEq] at hv
    split at hv
    · cases hv
    · cases hv; simp [eval]

theorem good_newRootFn {S : Sem Val Err Op} {w w' : World Val Err Op} (g : Good S w) {fn : Fn Val Op}
    {e : Expr Val Op} (hfe : fnExprOf w fn = some e)
    (hargs : ∀ a ∈ fnArgs fn, ArgClean w.stat a)
    (hident : ∀ p, fn ≠ .ident p)
    (hwhere : ∀ c t x y, fn = .ternary c t x y → ∀ xe ye, argExpr w x = some xe → argExpr w y = some ye →
      (supp xe ≠ [] → ∃ xr, Consumer.trigX c t xr ∈ w.consumers ∧ ∀ q ∈ supp xe, q ∈ xr) ∧
      (supp ye ≠ [] → ∃ yr, Consumer.trigY c t yr ∈ w.consumers ∧ ∀ q ∈ supp ye, q ∈ yr))
    (h : newRootFn S w fn e = some w') : Good S w' ∧ Ext w w' := by
  simp only [newRootFn] at h
  obtain ⟨g1, e1⟩ := good_appendCell g (none : Option Val)
  have := good_mkRoot g1 (cell := w.cells.length) (fn := fn) (expr := e) (cur := none)
    (by simp) ?_ (e1.fnExprOf hfe) (fun a ha => e1.argClean (hargs a ha)) (fun p hp => absurd hp (hident p))
    ?_ (fun v hv => by cases hv) ?_ h
  · exact ⟨this.1, e1.trans this.2.1⟩
  · intro j ndj hj hcell
    have := (g.wf.node j ndj hj).cell
    rw [hcell] at this
    exact absurd this (Nat.lt_irrefl _)
  · intro c t x y hf xe ye hx hy
    have hx0 : argExpr w x = some xe := hx
    have hy0 : argExpr w y = some ye := hy
    exact hwhere c t x y hf xe ye hx0 hy0
  · intro v hv
    simp [List.getElem?_append_right (Nat.le_refl _)] at hv

theorem wf_prev_share {w : World Val Err Op} (hwf : WF w) {n p : NId} {nd pd : Node Val Err Op}
    (hn : w.nodes[n]? = some nd) (hp : w.nodes[p]? = some pd) (hroot : pd.root = nd.root) :
    pd.cell = nd.cell ∧ pd.fn = nd.fn := by
  obtain ⟨rt, r1, _, _, r4, r5, _⟩ := (hwf.node n nd hn).root
  obtain ⟨rt', q1, _, _, q4, q5, _⟩ := (hwf.node p pd hp).root
  rw [hroot, r1] at q1; cases q1
  exact ⟨q5.symm.trans r5, q4.symm.trans r4⟩

theorem good_copyNode {S : Sem Val Err Op} {w w' : World Val Err Op} (g : Good S w) {fuel : Nat} {n : NId}
    {r : Res Err NId} (hn : ∃ nd, w.nodes[n]? = some nd)
    (h : copyNode S fuel n w = (r, w')) (hr : r ≠ .error .fuel) (hb : r ≠ .error .bad) :
    Good S w' ∧ Grow w w' ∧ (∀ c, r = .ok c → ∃ nd, w'.nodes[c]? = some nd) := by
  obtain ⟨nd, hnd⟩ := hn
  simp only [copyNode] at h
  cases h1 : run S fuel (.resolve n) w with
  | mk r1 w1 =>
    simp only [h1] at h
    cases r1 with
    | error x =>
      simp only [Prod.mk.injEq] at h
      obtain ⟨rfl, rfl⟩ := h
      have hx : (Except.error x : Res Err Val) ≠ .error .fuel := fun hh => hr (by cases hh; rfl)
      obtain ⟨g1, p1⟩ := good_run g (call := .resolve n) ⟨trivial, nd, hnd⟩ h1 hx
      exact ⟨g1, Grow.of_staticEq p1.stat, fun c hc => by cases hc⟩
    | ok v =>
      obtain ⟨g1, p1⟩ := good_run g (call := .resolve n) ⟨trivial, nd, hnd⟩ h1 (by simp)
      obtain ⟨e1, he1, hv1⟩ := p1.val
      simp only [callExpr, hnd, Option.map_some, Option.some.injEq] at he1
      subst he1
      have hv := liftPy_ok_inv hv1
      obtain ⟨nd1, hnd1, hs1⟩ := p1.stat.node hnd
      simp only at h
      cases h2 : run S fuel (.obj n) w1 with
      | mk r2 w2 =>
        simp only [h2] at h
        cases r2 with
        | error x =>
          simp only [Prod.mk.injEq] at h
          obtain ⟨rfl, rfl⟩ := h
          have hx : (Except.error x : Res Err Val) ≠ .error .fuel := fun hh => hr (by cases hh; rfl)
          obtain ⟨g2, p2⟩ := good_run g1 (call := .obj n) ⟨trivial, nd1, hnd1⟩ h2 hx
          exact ⟨g2, (Grow.of_staticEq p1.stat).trans (Grow.of_staticEq p2.stat), fun c hc => by cases hc⟩
        | ok vo =>
          obtain ⟨g2, p2⟩ := good_run g1 (call := .obj n) ⟨trivial, nd1, hnd1⟩ h2 (by simp)
          obtain ⟨nd2, hnd2, hs2⟩ := p2.stat.node hnd1
          have hs12 : nd2.toNStat = nd.toNStat := hs2.trans hs1
          have hgrow : Grow w w2 := (Grow.of_staticEq p1.stat).trans (Grow.of_staticEq p2.stat)
          have hvals : w2.vals = w.vals := p2.stat.vals.trans p1.stat.vals
          have hexpr : nd2.expr = nd.expr := by rw [show nd2.expr = nd2.toNStat.expr from rfl, hs12]
          have hcur : ∀ v', some v = some v' → S.isNone v' = false → eval S w2.vals nd2.expr = .ok v' := by
            intro v' hv' _; cases hv'; rw [hvals, hexpr]; exact hv
          simp only [hnd2] at h
          have nwf2 := g2.wf.node n nd2 hnd2
          have ndep2 := g2.dep.node n nd2.toNStat (stat_node hnd2)
          cases hprev : nd2.prev with
          | none =>
            obtain ⟨hop, hfe⟩ := nwf2.isRoot hprev
            simp only [hprev, hop] at h
            cases hmk : mkNode S w2 none none nd2.cell nd2.fn none nd2.expr (some v) with
            | none => simp only [hmk, Prod.mk.injEq] at h; exact absurd h.1.symm hb
            | some w3 =>
              simp only [hmk, Prod.mk.injEq] at h
              obtain ⟨rfl, rfl⟩ := h
              have := good_mkRoot g2 nwf2.cell (fun j ndj hj hc => g2.wf.cellFn j n ndj nd2 hj hnd2 hc) hfe
                ndep2.fnArgs ?_ ?_ hcur ?_ hmk
              · refine ⟨this.1, hgrow.trans (Grow.of_ext this.2.1), fun c hc => ?_⟩
                cases hc
                have hlen := this.2.2
                have : w2.nodes.length < w3.nodes.length := by rw [hlen]; exact Nat.lt_succ_self _
                exact ⟨w3.nodes[w2.nodes.length], by simp [this]⟩
              · intro q hq
                have : nd2.toNStat.fn = .ident q := hq
                have hfe' := hfe
                rw [hq] at hfe'
                simp only [fnExprOf, Option.some.injEq] at hfe'
                apply ndep2.inp
                rw [show nd2.toNStat.expr = nd2.expr from rfl, ← hfe']; simp [supp]
              · intro c t x y hf xe ye hx hy
                obtain ⟨_, _, b3, b4⟩ := ndep2.whereOK c t x y hf
                exact ⟨fun hne => b3 xe (by rw [← argExpr_eq]; exact hx) hne,
                       fun hne => b4 ye (by rw [← argExpr_eq]; exact hy) hne⟩
              · intro v' hv'
                have hself : nd1.root = n := (g1.wf.node n nd1 hnd1).rootSelf (by
                  rw [show nd1.prev = nd1.toNStat.prev from rfl, ← hs2]; exact hprev)
                have hc12 : nd1.cell = nd2.cell := by rw [show nd1.cell = nd1.toNStat.cell from rfl, ← hs2]
                have := p2.objPost n nd1 vo rfl hnd1 rfl
                rw [hc12, hv'] at this
                simp only [Option.some.injEq] at this
                subst this
                obtain ⟨e2, he2, hv2⟩ := p2.val
                simp only [callExpr, hnd1, Option.bind_some, hself, Option.map_some, Option.some.injEq] at he2
                subst he2
                have := liftPy_ok_inv hv2
                rw [hvals, hexpr, ← p1.stat.vals, ← (by rw [show nd1.expr = nd1.toNStat.expr from rfl, hs1] : nd1.expr = nd.expr)]
                exact this
          | some p =>
            obtain ⟨pd, o, es, d1, d2, d3, d4, d5⟩ := nwf2.derived p hprev
            obtain ⟨hcell, hfn⟩ := wf_prev_share g2.wf hnd2 d1 d2
            simp only [hprev, d3] at h
            rw [← d2, ← hcell, ← hfn, d5] at h
            cases hmk : mkNode S w2 (some p) (some pd.root) pd.cell pd.fn (some o) (.app o.op o.reverse pd.expr es) (some v) with
            | none => simp only [hmk, Prod.mk.injEq] at h; exact absurd h.1.symm hb
            | some w3 =>
              simp only [hmk, Prod.mk.injEq] at h
              obtain ⟨rfl, rfl⟩ := h
              have := good_mkDerived g2 d1 d4 (ndep2.opArgs o d3) (by rw [← d5]; exact hcur) hmk
              refine ⟨this.1, hgrow.trans (Grow.of_ext this.2.1), fun c hc => ?_⟩
              cases hc
              have hlen := this.2.2
              have : w2.nodes.length < w3.nodes.length := by rw [hlen]; exact Nat.lt_succ_self _
              exact ⟨w3.nodes[w2.nodes.length], by simp [this]⟩

theorem good_deriveNode {S : Sem Val Err Op} {w w' : World Val Err Op} (g : Good S w) {fuel : Nat} {c : NId}
    {o : Operation Val Op} {r : Res Err NId} (hc : ∃ nd, w.nodes[c]? = some nd)
    (hclean : ∀ a ∈ o.args, ArgClean w.stat a)
    (h : deriveNode S fuel c o w = (r, w')) (hr : r ≠ .error .fuel) (hb : r ≠ .error .bad) :
    Good S w' ∧ Grow w w' := by
  obtain ⟨nd, hnd⟩ := hc
  simp only [deriveNode] at h
  cases h1 : run S fuel (.obj c) w with
  | mk r1 w1 =>
    simp only [h1] at h
    cases r1 with
    | error x =>
      simp only [Prod.mk.injEq] at h
      obtain ⟨rfl, rfl⟩ := h
      have hx : (Except.error x : Res Err Val) ≠ .error .fuel := fun hh => hr (by cases hh; rfl)
      obtain ⟨g1, p1⟩ := good_run g (call := .obj c) ⟨trivial, nd, hnd⟩ h1 hx
      exact ⟨g1, Grow.of_staticEq p1.stat⟩
    | ok vo =>
      obtain ⟨g1, p1⟩ := good_run g (call := .obj c) ⟨trivial, nd, hnd⟩ h1 (by simp)
      obtain ⟨nd1, hnd1, _⟩ := p1.stat.node hnd
      have hgrow := Grow.of_staticEq p1.stat
      simp only [hnd1] at h
      cases hes : argExprs w1 o.args with
      | none => simp only [hes, Prod.mk.injEq] at h; exact absurd h.1.symm hb
      | some es =>
        simp only [hes] at h
        cases hmk : mkNode S w1 (some c) (some nd1.root) nd1.cell nd1.fn (some o) (.app o.op o.reverse nd1.expr es) none with
        | none => simp only [hmk, Prod.mk.injEq] at h; exact absurd h.1.symm hb
        | some w2 =>
          simp only [hmk, Prod.mk.injEq] at h
          obtain ⟨rfl, rfl⟩ := h
          have := good_mkDerived g1 hnd1 hes (fun a ha => hgrow a (hclean a ha)) (fun v hv => by cases hv) hmk
          exact ⟨this.1, hgrow.trans (Grow.of_ext this.2.1)⟩

theorem good_foldl_alloc {S : Sem Val Err Op} : ∀ (vs : List Val) {w : World Val Err Op}, Good S w →
    Good S (vs.foldl (fun w v => allocParam w v true) w)
  | [], _, g => g
  | v :: vs, _, g => by simp only [List.foldl_cons]; exact good_foldl_alloc vs (good_alloc g v true).1

theorem outOfExn_ne {x : Exn Err} (hf : (outOfExn x : Outcome Val Err) ≠ .fuel) (hb : (outOfExn x : Outcome Val Err) ≠ .bad) :
    x ≠ .fuel ∧ x ≠ .bad := by
  cases x <;> simp [outOfExn] at hf hb ⊢

theorem res_ne_of_outOfExn {α} {r : Res Err α} {o : Outcome Val Err}
    (h : ∀ x, r = .error x → o = outOfExn x) (hf : o ≠ .fuel) (hb : o ≠ .bad) :
    r ≠ .error .fuel ∧ r ≠ .error .bad := by
  constructor
  · intro hr; exact hf (by rw [h _ hr]; rfl)
  · intro hr; exact hb (by rw [h _ hr]; rfl)

theorem runConsumers_outcome {S : Sem Val Err Op} (fuel : Nat) (q : PId) : ∀ (cs : List (Consumer Val))
    (w : World Val Err Op) (log : List (Nat × Val)) (o : Outcome Val Err) (w' : World Val Err Op),
    runConsumers S fuel q cs w log = (o, w') → (∃ calls e, o = .set calls e) ∨ o = .fuel ∨ o = .bad
  | [], w, log, o, w', h => by
    simp only [runConsumers, Prod.mk.injEq] at h
    exact Or.inl ⟨log, none, h.1.symm⟩
  | c :: cs, w, log, o, w', h => by
    cases c with
    | trigX cnd t d =>
      simp only [runConsumers] at h
      cases h1 : run S fuel (.arg cnd) w with
      | mk r w1 =>
        simp only [h1] at h
        cases r with
        | ok cv => exact runConsumers_outcome fuel q cs _ log o w' h
        | error x =>
          cases x <;> simp only [Prod.mk.injEq] at h
          · exact Or.inl ⟨log, some _, h.1.symm⟩
          · exact Or.inr (Or.inl h.1.symm)
          · exact Or.inr (Or.inr h.1.symm)
    | trigY cnd t d =>
      simp only [runConsumers] at h
      cases h1 : run S fuel (.arg cnd) w with
      | mk r w1 =>
        simp only [h1] at h
        cases r with
        | ok cv => exact runConsumers_outcome fuel q cs _ log o w' h
        | error x =>
          cases x <;> simp only [Prod.mk.injEq] at h
          · exact Or.inl ⟨log, some _, h.1.symm⟩
          · exact Or.inr (Or.inl h.1.symm)
          · exact Or.inr (Or.inr h.1.symm)
    | watch k n d =>
      simp only [runConsumers] at h
      cases h1 : run S fuel (.resolve n) w with
      | mk r w1 =>
        simp only [h1] at h
        cases r with
        | ok cv => exact runConsumers_outcome fuel q cs _ _ o w' h
        | error x =>
          cases x <;> simp only [Prod.mk.injEq] at h
          · exact Or.inl ⟨log, some _, h.1.symm⟩
          · exact Or.inr (Or.inl h.1.symm)
          · exact Or.inr (Or.inr h.1.symm)
    | sync k n d a =>
      simp only [runConsumers] at h
      cases h1 : run S fuel (.resolve n) w with
      | mk r w1 =>
        simp only [h1] at h
        cases r with
        | ok cv => exact runConsumers_outcome fuel q cs _ _ o w' h
        | error x =>
          cases x <;> simp only [Prod.mk.injEq] at h
          · exact Or.inl ⟨log, some _, h.1.symm⟩
          · exact Or.inr (Or.inl h.1.symm)
          · exact Or.inr (Or.inr h.1.symm)

/-- a call on a node that does not exist changes nothing -/
theorem run_missing {S : Sem Val Err Op} {w : World Val Err Op} {n : NId} (hn : w.nodes[n]? = none) (fuel : Nat) :
    run S fuel (.resolve n) w = (.error (if fuel = 0 then .fuel else .bad), w) := by
  cases fuel with
  | zero => simp [run]
  | succ f => simp [run, hn]

theorem copyNode_missing {S : Sem Val Err Op} {w : World Val Err Op} {n : NId} (hn : w.nodes[n]? = none)
    (fuel : Nat) : copyNode S fuel n w = (.error (if fuel = 0 then .fuel else .bad), w) := by
  simp only [copyNode, run_missing hn]

/-- rx.__call__ on an accessor node keeps the invariants (a missing accessor is a dangling reference) -/
theorem good_callAcc {S : Sem Val Err Op} {w w' : World Val Err Op} (g : Good S w) {fuel : Nat} {c1 : NId}
    {o : Op} {args : List (Arg Val)} {r : Res Err NId} (hclean : ∀ a ∈ args, ArgClean w.stat a)
    (h : callAcc S fuel c1 o args w = (r, w')) (hr : r ≠ .error .fuel) (hb : r ≠ .error .bad) :
    Good S w' ∧ Grow w w' := by
  simp only [callAcc] at h
  cases hn : w.nodes[c1]? with
  | none =>
    rw [copyNode_missing hn] at h
    simp only [Prod.mk.injEq] at h
    obtain ⟨rfl, _⟩ := h
    exfalso
    by_cases hf0 : fuel = 0
    · simp [hf0] at hr
    · simp [hf0] at hb
  | some nd =>
    cases h2 : copyNode S fuel c1 w with
    | mk r2 w2 =>
      simp only [h2] at h
      cases r2 with
      | error x =>
        simp only [Prod.mk.injEq] at h
        obtain ⟨rfl, rfl⟩ := h
        obtain ⟨g2, gr2, _⟩ := good_copyNode g ⟨nd, hn⟩ h2 (fun hh => hr (by cases hh; rfl)) (fun hh => hb (by cases hh; rfl))
        exact ⟨g2, gr2⟩
      | ok c2 =>
        obtain ⟨g2, gr2, hc2⟩ := good_copyNode g ⟨nd, hn⟩ h2 (by simp) (by simp)
        simp only at h
        obtain ⟨g3, gr3⟩ := good_deriveNode g2 (hc2 c2 rfl) (fun a ha => gr2 a (hclean a ha)) h hr hb
        exact ⟨g3, gr2.trans gr3⟩

/-- rx.__getattribute__ for a method name: `if dirty: self._resolve()` -/
theorem good_access0 {S : Sem Val Err Op} {w w1 : World Val Err Op} (g : Good S w) {fuel : Nat} {n : NId}
    {nd : Node Val Err Op} (hn : w.nodes[n]? = some nd) {r : Res Err Val}
    (h : (if nd.dirty = true then run S fuel (.resolve n) w else (.ok nd.current, w)) = (r, w1))
    (hrf : r ≠ .error .fuel) : Good S w1 ∧ Grow w w1 ∧ ∃ nd1, w1.nodes[n]? = some nd1 := by
  split at h
  · obtain ⟨g1, p1⟩ := good_run g (call := .resolve n) ⟨trivial, nd, hn⟩ h hrf
    obtain ⟨nd1, h1, _⟩ := p1.stat.node hn
    exact ⟨g1, Grow.of_staticEq p1.stat, nd1, h1⟩
  · simp only [Prod.mk.injEq] at h; obtain ⟨_, rfl⟩ := h
    exact ⟨g, Grow.refl _, nd, hn⟩

theorem good_where {S : Sem Val Err Op} {w w3 : World Val Err Op} (g : Good S w) {c x y : Arg Val}
    {cps xr yr : List PId} {ce xe ye : Expr Val Op}
    (hadm : ArgClean w.stat c ∧ ArgClean w.stat x ∧ ArgClean w.stat y)
    (h1 : refs w c = some cps) (h2 : refs w x = some xr) (h3 : refs w y = some yr)
    (h4 : argExpr w c = some ce) (h5 : argExpr w x = some xe) (h6 : argExpr w y = some ye)
    (hmk : newRootFn S
      { (allocParam w S.none false) with
        trigs := (allocParam w S.none false).trigs ++ [(w.nparams, cps)],
        consumers := (allocParam w S.none false).consumers
          ++ (if xr.isEmpty then [] else [Consumer.trigX c w.nparams xr])
          ++ (if yr.isEmpty then [] else [Consumer.trigY c w.nparams yr]) }
      (.ternary c w.nparams x y) (.ite ce xe ye) = some w3) : Good S w3 := by
  obtain ⟨g1, e1⟩ := good_alloc g S.none false
  let w1 := allocParam w S.none false
  let w2 : World Val Err Op := { w1 with
    trigs := w1.trigs ++ [(w.nparams, cps)],
    consumers := w1.consumers ++ (if xr.isEmpty then [] else [Consumer.trigX c w.nparams xr])
      ++ (if yr.isEmpty then [] else [Consumer.trigY c w.nparams yr]) }
  have e2 : Ext w1 w2 :=
    ⟨⟨[], by simp [w2]⟩, ⟨[], by simp [w2]⟩, ⟨[], by simp [w2]⟩,
     ⟨(if xr.isEmpty then [] else [Consumer.trigX c w.nparams xr]) ++ (if yr.isEmpty then [] else [Consumer.trigY c w.nparams yr]),
      by simp [w2, List.append_assoc]⟩, fun _ _ => rfl⟩
  have e12 : Ext w w2 := e1.trans e2
  have hce2 : sArgExpr w2.stat c = some ce := by rw [← argExpr_eq]; exact e12.argExpr h4
  have g2 : Good S w2 := by
    refine g1.ext0 e2 rfl ?_ ?_ ?_ ?_
    · intro k hk hk'
      have hk2 : k ∈ (if xr.isEmpty then [] else [Consumer.trigX c w.nparams xr]) ∨
          k ∈ (if yr.isEmpty then [] else [Consumer.trigY c w.nparams yr]) := by
        simp only [w2, List.mem_append] at hk
        rcases hk with (hk | hk) | hk
        · exact absurd hk hk'
        · exact Or.inl hk
        · exact Or.inr hk
      rcases hk2 with hk2 | hk2
      · split at hk2
        · simp at hk2
        · simp only [List.mem_singleton] at hk2; subst hk2
          exact ⟨e12.argClean hadm.1, ce, hce2⟩
      · split at hk2
        · simp at hk2
        · simp only [List.mem_singleton] at hk2; subst hk2
          exact ⟨e12.argClean hadm.1, ce, hce2⟩
    · exact g1.inLt
    · intro q hq
      have hq0 : q ∈ w.inputs := by simpa [w2, w1, allocParam] using hq
      have hne : (q == w.nparams) = false := by
        have := Nat.ne_of_lt (g.inLt q hq0); simpa using this
      show List.lookup q (w1.trigs ++ [(w.nparams, cps)]) = none
      rw [List.lookup_append, g1.trOK q hq]
      simp [List.lookup, hne]
    · intro t tp ht
      have ht' : (t, tp) ∈ w1.trigs ++ [(w.nparams, cps)] := ht
      simp only [List.mem_append, List.mem_singleton, Prod.mk.injEq] at ht'
      rcases ht' with ht' | ⟨rfl, _⟩
      · exact g1.trLt t tp ht'
      · exact Nat.lt_succ_self _
  refine (good_newRootFn g2 (fn := .ternary c w.nparams x y) (e := .ite ce xe ye) ?_ ?_ (fun p hp => by cases hp) ?_ hmk).1
  · simp [fnExprOf, e12.argExpr h4, e12.argExpr h5, e12.argExpr h6]
  · intro a ha
    simp only [fnArgs, List.mem_cons, List.not_mem_nil, or_false] at ha
    rcases ha with rfl | rfl | rfl
    · exact e12.argClean hadm.1
    · exact e12.argClean hadm.2.1
    · exact e12.argClean hadm.2.2
  · intro c' t' x' y' hf xe' ye' hx' hy'
    cases hf
    rw [e12.argExpr h5] at hx'; cases hx'
    rw [e12.argExpr h6] at hy'; cases hy'
    constructor
    · intro hne
      have hsub := supp_sub_refs g.dep hadm.2.1 h5 h2
      have hxr : xr.isEmpty = false := by
        obtain ⟨a, ha⟩ := List.exists_mem_of_ne_nil _ hne
        have := hsub a ha
        cases hh : xr with
        | nil => rw [hh] at this; simp at this
        | cons b bs => rfl
      exact ⟨xr, by simp [w2, hxr], hsub⟩
    · intro hne
      have hsub := supp_sub_refs g.dep hadm.2.2 h6 h3
      have hyr : yr.isEmpty = false := by
        obtain ⟨a, ha⟩ := List.exists_mem_of_ne_nil _ hne
        have := hsub a ha
        cases hh : yr with
        | nil => rw [hh] at this; simp at this
        | cons b bs => rfl
      exact ⟨yr, by simp [w2, hyr], hsub⟩

/-- (H2) for one statement: an update that `Comparator.is_equal` takes for "unchanged" really stores the same value -/
def EqOK (S : Sem Val Err Op) (w : World Val Err Op) : Stmt Val Op → Prop
  | .set p v => S.isEqual (w.vals p) v = true → w.vals p = v
  | _ => True

/-- **every statement keeps the invariants** -/
theorem good_step {S : Sem Val Err Op} {w w' : World Val Err Op}
    (g : Good S w) {fuel : Nat} {s : Stmt Val Op} {o : Outcome Val Err} (hadm : Admissible w s) (hEq : EqOK S w s)
    (h : step S fuel w s = (o, w')) (hf : o ≠ .fuel) (hbad : o ≠ .bad)
    (hset : ∀ calls e, o ≠ .set calls (some e)) : Good S w' := by
  cases s with
  | lit v =>
    simp only [step] at h
    split at h
    · rename_i w1 h1
      simp only [Prod.mk.injEq] at h; obtain ⟨_, rfl⟩ := h
      obtain ⟨g1, _⟩ := good_alloc g v true
      exact (good_newRootIdent g1 (by simp [allocParam]) h1).1
    · simp only [Prod.mk.injEq] at h; exact absurd h.1.symm hbad
  | obj vs =>
    simp only [step, Prod.mk.injEq] at h; obtain ⟨_, rfl⟩ := h
    exact good_foldl_alloc vs g
  | rootp p =>
    simp only [step] at h
    split at h
    · rename_i hp
      split at h
      · rename_i w1 h1
        simp only [Prod.mk.injEq] at h; obtain ⟨_, rfl⟩ := h
        exact (good_newRootIdent g (by simpa using hp) h1).1
      · simp only [Prod.mk.injEq] at h; exact absurd h.1.symm hbad
    · simp only [Prod.mk.injEq] at h; exact absurd h.1.symm hbad
  | op n oo rev args =>
    simp only [step] at h
    split at h
    · simp only [Prod.mk.injEq] at h; exact absurd h.1.symm hbad
    · cases h1 : copyNode S fuel n w with
      | mk r1 w1 =>
        simp only [h1] at h
        by_cases hn : ∃ nd, w.nodes[n]? = some nd
        · cases r1 with
          | error x =>
            simp only [Prod.mk.injEq] at h; obtain ⟨rfl, rfl⟩ := h
            obtain ⟨a, b⟩ := outOfExn_ne hf hbad
            exact (good_copyNode g hn h1 (fun hh => a (by cases hh; rfl)) (fun hh => b (by cases hh; rfl))).1
          | ok c =>
            obtain ⟨g1, gr1, hc⟩ := good_copyNode g hn h1 (by simp) (by simp)
            simp only at h
            cases h2 : deriveNode S fuel c { op := oo, args := args, reverse := rev } w1 with
            | mk r2 w2 =>
              simp only [h2] at h
              cases r2 with
              | error x =>
                simp only [Prod.mk.injEq] at h; obtain ⟨rfl, rfl⟩ := h
                obtain ⟨a, b⟩ := outOfExn_ne hf hbad
                exact (good_deriveNode g1 (hc c rfl) (fun a ha => gr1 a (hadm a ha)) h2
                  (fun hh => a (by cases hh; rfl)) (fun hh => b (by cases hh; rfl))).1
              | ok d =>
                simp only [Prod.mk.injEq] at h; obtain ⟨_, rfl⟩ := h
                exact (good_deriveNode g1 (hc c rfl) (fun a ha => gr1 a (hadm a ha)) h2 (by simp) (by simp)).1
        · -- the node does not exist: `copyNode` reports a dangling reference (or no fuel) and changes nothing
          exfalso
          have hnone : w.nodes[n]? = none := by
            cases hh : w.nodes[n]? with
            | none => rfl
            | some nd => exact absurd ⟨nd, hh⟩ hn
          cases fuel with
          | zero =>
            simp only [copyNode, run, Prod.mk.injEq] at h1
            obtain ⟨rfl, rfl⟩ := h1
            simp only [outOfExn, Prod.mk.injEq] at h; exact hf h.1.symm
          | succ f =>
            simp only [copyNode, run, hnone, Prod.mk.injEq] at h1
            obtain ⟨rfl, rfl⟩ := h1
            simp only [outOfExn, Prod.mk.injEq] at h; exact hbad h.1.symm
  | meth n oo args =>
    simp only [step] at h
    split at h
    · simp only [Prod.mk.injEq] at h; exact absurd h.1.symm hbad
    · cases hn : w.nodes[n]? with
      | none => simp only [hn, Prod.mk.injEq] at h; exact absurd h.1.symm hbad
      | some nd =>
        simp only [hn] at h
        cases h0 : (if nd.dirty = true then run S fuel (.resolve n) w else (.ok nd.current, w)) with
        | mk r0 w1 =>
          simp only [h0] at h
          cases r0 with
          | error x =>
            simp only [Prod.mk.injEq] at h; obtain ⟨rfl, rfl⟩ := h
            obtain ⟨a, _⟩ := outOfExn_ne hf hbad
            exact (good_access0 g hn h0 (fun hh => a (by cases hh; rfl))).1
          | ok cur =>
            obtain ⟨g1, gr1, hn1⟩ := good_access0 g hn h0 (by simp)
            simp only at h
            split at h
            · simp only [Prod.mk.injEq] at h; obtain ⟨_, rfl⟩ := h; exact g1
            · cases h2 : copyNode S fuel n w1 with
              | mk r2 w2 =>
                simp only [h2] at h
                cases r2 with
                | error x =>
                  simp only [Prod.mk.injEq] at h; obtain ⟨rfl, rfl⟩ := h
                  obtain ⟨a, b⟩ := outOfExn_ne hf hbad
                  exact (good_copyNode g1 hn1 h2 (fun hh => a (by cases hh; rfl)) (fun hh => b (by cases hh; rfl))).1
                | ok c1 =>
                  obtain ⟨g2, gr2, _⟩ := good_copyNode g1 hn1 h2 (by simp) (by simp)
                  simp only at h
                  cases h3 : callAcc S fuel c1 oo args w2 with
                  | mk r3 w4 =>
                    simp only [h3] at h
                    have hcl : ∀ a ∈ args, ArgClean w2.stat a := fun a ha => gr2 a (gr1 a (hadm a ha))
                    cases r3 with
                    | error x =>
                      simp only [Prod.mk.injEq] at h; obtain ⟨rfl, rfl⟩ := h
                      obtain ⟨a, b⟩ := outOfExn_ne hf hbad
                      exact (good_callAcc g2 hcl h3 (fun hh => a (by cases hh; rfl)) (fun hh => b (by cases hh; rfl))).1
                    | ok d =>
                      simp only [Prod.mk.injEq] at h; obtain ⟨_, rfl⟩ := h
                      exact (good_callAcc g2 hcl h3 (by simp) (by simp)).1
  | meth2 n oo args args2 =>
    simp only [step] at h
    split at h
    · simp only [Prod.mk.injEq] at h; exact absurd h.1.symm hbad
    · cases hn : w.nodes[n]? with
      | none => simp only [hn, Prod.mk.injEq] at h; exact absurd h.1.symm hbad
      | some nd =>
        simp only [hn] at h
        cases h0 : (if nd.dirty = true then run S fuel (.resolve n) w else (.ok nd.current, w)) with
        | mk r0 w1 =>
          simp only [h0] at h
          cases r0 with
          | error x =>
            simp only [Prod.mk.injEq] at h; obtain ⟨rfl, rfl⟩ := h
            obtain ⟨a, _⟩ := outOfExn_ne hf hbad
            exact (good_access0 g hn h0 (fun hh => a (by cases hh; rfl))).1
          | ok cur =>
            obtain ⟨g1, gr1, hn1⟩ := good_access0 g hn h0 (by simp)
            simp only at h
            split at h
            · simp only [Prod.mk.injEq] at h; obtain ⟨_, rfl⟩ := h; exact g1
            · cases h2 : copyNode S fuel n w1 with
              | mk r2 w2 =>
                simp only [h2] at h
                cases r2 with
                | error x =>
                  simp only [Prod.mk.injEq] at h; obtain ⟨rfl, rfl⟩ := h
                  obtain ⟨a, b⟩ := outOfExn_ne hf hbad
                  exact (good_copyNode g1 hn1 h2 (fun hh => a (by cases hh; rfl)) (fun hh => b (by cases hh; rfl))).1
                | ok c1 =>
                  obtain ⟨g2, gr2, _⟩ := good_copyNode g1 hn1 h2 (by simp) (by simp)
                  simp only at h
                  cases h3 : callAcc S fuel c1 oo args w2 with
                  | mk r3 w4 =>
                    simp only [h3] at h
                    have hcl : ∀ a ∈ args, ArgClean w2.stat a := fun a ha => gr2 a (gr1 a (hadm.1 a ha))
                    cases r3 with
                    | error x =>
                      simp only [Prod.mk.injEq] at h; obtain ⟨rfl, rfl⟩ := h
                      obtain ⟨a, b⟩ := outOfExn_ne hf hbad
                      exact (good_callAcc g2 hcl h3 (fun hh => a (by cases hh; rfl)) (fun hh => b (by cases hh; rfl))).1
                    | ok d =>
                      obtain ⟨g4, gr4⟩ := good_callAcc g2 hcl h3 (by simp) (by simp)
                      simp only at h
                      have hcl2 : ∀ a ∈ args2, ArgClean w4.stat a :=
                        fun a ha => gr4 a (gr2 a (gr1 a (hadm.2 a ha)))
                      cases h5 : callAcc S fuel c1 oo args2 w4 with
                      | mk r5 w6 =>
                        simp only [h5] at h
                        cases r5 with
                        | error x =>
                          simp only [Prod.mk.injEq] at h; obtain ⟨rfl, rfl⟩ := h
                          obtain ⟨a, b⟩ := outOfExn_ne hf hbad
                          exact (good_callAcc g4 hcl2 h5 (fun hh => a (by cases hh; rfl))
                            (fun hh => b (by cases hh; rfl))).1
                        | ok d2 =>
                          simp only [Prod.mk.injEq] at h; obtain ⟨_, rfl⟩ := h
                          exact (good_callAcc g4 hcl2 h5 (by simp) (by simp)).1
  | bind gg args =>
    simp only [step] at h
    cases hes : argExprs w args with
    | none => simp only [hes, Prod.mk.injEq] at h; exact absurd h.1.symm hbad
    | some es =>
      simp only [hes] at h
      split at h
      · rename_i w1 h1
        simp only [Prod.mk.injEq] at h; obtain ⟨_, rfl⟩ := h
        exact (good_newRootFn g (fn := .bound gg args) (e := .call gg es) (by simp [fnExprOf, hes])
          (fun a ha => hadm a (by simpa [fnArgs] using ha)) (fun p hp => by cases hp)
          (fun c t x y hf => by cases hf) h1).1
      · simp only [Prod.mk.injEq] at h; exact absurd h.1.symm hbad
  | where_ c x y =>
    simp only [step] at h
    split at h
    · simp only [Prod.mk.injEq] at h; exact absurd h.1.symm hbad
    · rename_i cps xr yr ce xe ye _ hx hy hxe hye hc hce
      split at h
      · rename_i w3 hmk
        simp only [Prod.mk.injEq] at h; obtain ⟨_, rfl⟩ := h
        exact good_where g hadm hc hx hy hce hxe hye hmk
      · simp only [Prod.mk.injEq] at h; exact absurd h.1.symm hbad
    · simp only [Prod.mk.injEq] at h; exact absurd h.1.symm hbad
  | watch n =>
    simp only [step] at h
    cases hn : w.nodes[n]? with
    | none => simp only [hn, Prod.mk.injEq] at h; exact absurd h.1.symm hbad
    | some nd =>
      simp only [hn, Prod.mk.injEq] at h; obtain ⟨_, rfl⟩ := h
      have e : Ext w { w with consumers := w.consumers ++ [Consumer.watch w.nwatch n nd.params], nwatch := w.nwatch + 1 } :=
        ⟨⟨[], by simp⟩, ⟨[], by simp⟩, ⟨[], by simp⟩, ⟨[_], rfl⟩, fun _ _ => rfl⟩
      refine g.ext0 e rfl ?_ g.inLt g.trOK g.trLt
      intro c hc hc'
      simp only [List.mem_append, List.mem_singleton] at hc
      rcases hc with hc | rfl
      · exact absurd hc hc'
      · exact ⟨nd.toNStat, stat_node (w := { w with consumers := _, nwatch := _ }) hn, hadm nd hn, rfl⟩
  | set p v =>
    have hshape : (∃ calls e, o = .set calls e) ∨ o = .fuel ∨ o = .bad := by
      simp only [step] at h
      split at h
      · exact Or.inr (Or.inr (by simp only [Prod.mk.injEq] at h; exact h.1.symm))
      · split at h
        · exact Or.inl ⟨[], none, by simp only [Prod.mk.injEq] at h; exact h.1.symm⟩
        · exact runConsumers_outcome fuel _ _ _ _ o w' h
    rcases hshape with ⟨calls, e, rfl⟩ | rfl | rfl
    · cases e with
      | some e => exact absurd rfl (hset calls e)
      | none =>
        obtain ⟨st, coh, _, _⟩ := set_step g.wf g.dep g.coh hEq h
        exact ⟨(wf_setVal p v g.wf).of_staticEq st, (dep_setVal p v g.dep).of_staticEq st, coh,
          by rw [st.inputs, st.nparams]; exact g.inLt, by rw [st.inputs, st.trigs]; exact g.trOK,
          by rw [st.trigs, st.nparams]; exact g.trLt⟩
    · exact absurd rfl hf
    · exact absurd rfl hbad
  | read n =>
    simp only [step] at h
    cases h1 : run S fuel (.resolve n) w with
    | mk r w1 =>
      have hw : w' = w1 := by
        simp only [h1] at h
        cases r with
        | ok v => simp only [Prod.mk.injEq] at h; exact h.2.symm
        | error x => cases x <;> (simp only [Prod.mk.injEq] at h; exact h.2.symm)
      subst hw
      cases hn : w.nodes[n]? with
      | none =>
        rw [run_missing hn] at h1
        simp only [Prod.mk.injEq] at h1
        rw [← h1.2]; exact g
      | some nd =>
        have hr : r ≠ .error .fuel := by
          intro hr; subst hr
          simp only [h1, Prod.mk.injEq] at h
          exact hf h.1.symm
        exact (good_run g (call := .resolve n) ⟨trivial, nd, hn⟩ h1 hr).1
  | ref n =>
    simp only [step] at h
    cases hn : w.nodes[n]? with
    | none => simp only [hn, Prod.mk.injEq] at h; exact absurd h.1.symm hbad
    | some nd =>
      simp only [hn] at h
      split at h
      · simp only [Prod.mk.injEq] at h; exact absurd h.1.symm hbad
      · cases h1 : run S fuel (.resolve n) w with
        | mk r w1 =>
          simp only [h1] at h
          have hr : r ≠ .error .fuel := by
            intro hr; subst hr
            simp only [Prod.mk.injEq] at h
            exact hf h.1.symm
          obtain ⟨g1, p1⟩ := good_run g (call := .resolve n) ⟨trivial, nd, hn⟩ h1 hr
          cases r with
          | error x =>
            cases x <;> (simp only [Prod.mk.injEq] at h; obtain ⟨_, rfl⟩ := h; exact g1)
          | ok v =>
            simp only [Prod.mk.injEq] at h; obtain ⟨_, rfl⟩ := h
            obtain ⟨nd1, hn1, hs1⟩ := p1.stat.node hn
            have e : Ext w1 { w1 with consumers := w1.consumers ++ [Consumer.sync w1.holders.length n nd.params w1.nodes.length],
                                      holders := w1.holders ++ [v] } :=
              ⟨⟨[], by simp⟩, ⟨[], by simp⟩, ⟨[], by simp⟩, ⟨[_], rfl⟩, fun _ _ => rfl⟩
            refine g1.ext0 e rfl ?_ g1.inLt g1.trOK g1.trLt
            intro c hc hc'
            simp only [List.mem_append, List.mem_singleton] at hc
            rcases hc with hc | rfl
            · exact absurd hc hc'
            · refine ⟨nd1.toNStat, stat_node (w := { w1 with consumers := _, holders := _ }) hn1, ?_, ?_⟩
              · rw [hs1]; exact hadm nd hn
              · rw [hs1]
  | isin n cop x =>
    simp only [step] at h
    split at h <;> (simp only [Prod.mk.injEq] at h; obtain ⟨_, rfl⟩ := h; exact g)
  | readref hh =>
    simp only [step] at h
    split at h <;> (simp only [Prod.mk.injEq] at h; obtain ⟨_, rfl⟩ := h; exact g)

end
end ParamVerif.Rx
