/-
C09 helper lemmas, part A: expressions.  Supports of an expression and the
congruence lemmas "the value depends only on the inputs in the support".
-/
import ParamVerif.Rx.Spec

namespace ParamVerif.Rx

section
variable {Val Err Op : Type}

mutual
/-- every input an expression mentions -/
def supp : Expr Val Op → List PId
  | .lit _ => []
  | .input p => [p]
  | .app _ _ e args => supp e ++ suppList args
  | .call _ args => suppList args
  | .ite c x y => supp c ++ (supp x ++ supp y)
def suppList : List (Expr Val Op) → List PId
  | [] => []
  | e :: es => supp e ++ suppList es
end

/-- the expression at the bottom of a pipeline -/
def spine : Expr Val Op → Expr Val Op
  | .app _ _ e _ => spine e
  | e => e

/-- inputs mentioned outside the branches of a `where` at the bottom of the pipeline -/
def suppS : Expr Val Op → List PId
  | .app _ _ e args => suppS e ++ suppList args
  | .ite c _ _ => supp c
  | e => supp e

/-- inputs the value can depend on, given which branch of the bottom `where` is selected now -/
def dsupp (S : Sem Val Err Op) (env : PId → Val) : Expr Val Op → List PId
  | .app _ _ e args => dsupp S env e ++ suppList args
  | .ite c x y =>
    supp c ++ (match eval S env c with
      | .ok cv => if S.truthy cv then supp x else supp y
      | .error _ => [])
  | e => supp e

mutual
theorem eval_congr (S : Sem Val Err Op) (env env' : PId → Val) :
    ∀ e : Expr Val Op, (∀ q ∈ supp e, env q = env' q) → eval S env e = eval S env' e
  | .lit _, _ => by simp [eval]
  | .input p, h => by simp [eval, h p (by simp [supp])]
  | .app o rev e args, h => by
    have h1 := eval_congr S env env' e (fun q hq => h q (by simp [supp, hq]))
    have h2 := evalList_congr S env env' args (fun q hq => h q (by simp [supp, hq]))
    simp [eval, h1, h2]
  | .call g args, h => by
    have h2 := evalList_congr S env env' args (fun q hq => h q (by simp [supp, hq]))
    simp [eval, h2]
  | .ite c x y, h => by
    have h1 := eval_congr S env env' c (fun q hq => h q (by simp [supp, hq]))
    have h2 := eval_congr S env env' x (fun q hq => h q (by simp [supp, hq]))
    have h3 := eval_congr S env env' y (fun q hq => h q (by simp [supp, hq]))
    simp [eval, h1, h2, h3]
theorem evalList_congr (S : Sem Val Err Op) (env env' : PId → Val) :
    ∀ es : List (Expr Val Op), (∀ q ∈ suppList es, env q = env' q) → evalList S env es = evalList S env' es
  | [], _ => by simp [evalList]
  | e :: es, h => by
    have h1 := eval_congr S env env' e (fun q hq => h q (by simp [suppList, hq]))
    have h2 := evalList_congr S env env' es (fun q hq => h q (by simp [suppList, hq]))
    simp [evalList, h1, h2]
end

/-- the value depends only on the inputs outside the unselected branch -/
theorem eval_congr_dyn (S : Sem Val Err Op) (env env' : PId → Val) :
    ∀ e : Expr Val Op, (∀ q ∈ dsupp S env e, env q = env' q) → eval S env e = eval S env' e
  | .lit _, _ => by simp [eval]
  | .input p, h => by simp [eval, h p (by simp [dsupp, supp])]
  | .call g args, h => eval_congr S env env' _ (by simpa [dsupp] using h)
  | .app o rev e args, h => by
    have h1 := eval_congr_dyn S env env' e (fun q hq => h q (by simp [dsupp, hq]))
    have h2 := evalList_congr S env env' args (fun q hq => h q (by simp [dsupp, hq]))
    simp [eval, h1, h2]
  | .ite c x y, h => by
    have h1 := eval_congr S env env' c (fun q hq => h q (by simp [dsupp, hq]))
    simp only [eval, ← h1]
    cases hc : eval S env c with
    | error e => rfl
    | ok cv =>
      simp only
      by_cases ht : S.truthy cv = true
      · simp only [ht, if_true]
        exact eval_congr S env env' x (fun q hq => h q (by simp [dsupp, hc, ht, hq]))
      · simp only [ht]
        exact eval_congr S env env' y (fun q hq => h q (by simp [dsupp, hc, ht, hq]))

theorem suppS_subset_supp : ∀ (e : Expr Val Op) (q : PId), q ∈ suppS e → q ∈ supp e
  | .lit _, q, h => by simpa [suppS] using h
  | .input _, q, h => by simpa [suppS] using h
  | .call _ _, q, h => by simpa [suppS] using h
  | .ite c x y, q, h => by simp [suppS] at h; simp [supp, h]
  | .app _ _ e args, q, h => by
    simp only [suppS, List.mem_append] at h
    simp only [supp, List.mem_append]
    rcases h with h | h
    · exact Or.inl (suppS_subset_supp e q h)
    · exact Or.inr h

/-- an input in the dynamic support is in the static part or in the selected branch -/
theorem mem_dsupp (S : Sem Val Err Op) (env : PId → Val) :
    ∀ (e : Expr Val Op) (q : PId), q ∈ dsupp S env e →
      q ∈ suppS e ∨ ∃ c x y, spine e = .ite c x y ∧
        ((∃ cv, eval S env c = .ok cv ∧ S.truthy cv = true ∧ q ∈ supp x) ∨
         (∃ cv, eval S env c = .ok cv ∧ S.truthy cv = false ∧ q ∈ supp y))
  | .lit _, q, h => by simp [dsupp, supp] at h
  | .input _, q, h => Or.inl (by simpa [dsupp, suppS] using h)
  | .call _ _, q, h => Or.inl (by simpa [dsupp, suppS] using h)
  | .app _ _ e args, q, h => by
    simp only [dsupp, List.mem_append] at h
    rcases h with h | h
    · rcases mem_dsupp S env e q h with h' | ⟨c, x, y, hs, h'⟩
      · exact Or.inl (by simp [suppS, h'])
      · exact Or.inr ⟨c, x, y, by simpa [spine] using hs, h'⟩
    · exact Or.inl (by simp [suppS, h])
  | .ite c x y, q, h => by
    simp only [dsupp, List.mem_append] at h
    rcases h with h | h
    · exact Or.inl (by simpa [suppS] using h)
    · refine Or.inr ⟨c, x, y, rfl, ?_⟩
      cases hc : eval S env c with
      | error e => simp [hc] at h
      | ok cv =>
        simp only [hc] at h
        by_cases ht : S.truthy cv = true
        · simp only [ht, if_true] at h
          exact Or.inl ⟨cv, rfl, ht, h⟩
        · have ht' : S.truthy cv = false := by simpa using ht
          simp only [ht'] at h
          exact Or.inr ⟨cv, rfl, ht', by simpa using h⟩

theorem spine_not_app : ∀ (e : Expr Val Op) o r e' a, spine e ≠ .app o r e' a
  | .lit _, _, _, _, _ => by simp [spine]
  | .input _, _, _, _, _ => by simp [spine]
  | .call _ _, _, _, _, _ => by simp [spine]
  | .ite _ _ _, _, _, _, _ => by simp [spine]
  | .app _ _ e _, o, r, e', a => by simpa [spine] using spine_not_app e o r e' a

end
end ParamVerif.Rx
