/-
C09 helper lemmas (umbrella).  The parts:
  ExprLemmas   — supports of expressions, congruence of `eval`
  Inv          — StaticEq, WF, CohAt (the cache-coherence invariant)
  RunLemmas    — `run_correct`: the lazy evaluator agrees with `eval` on coherent worlds
  InvalLemmas  — what the invalidation watchers do
  Dep          — the dependency invariant, `params_supset_support` (internalParams ⊇ support)
  UpdateLemmas — `set_step`: an input update re-establishes coherence
  ExtLemmas, ParamLemmas, MkNode, StepLemmas — `good_step`: every statement keeps the invariants
-/
import ParamVerif.Rx.StepLemmas

namespace ParamVerif.Rx

section
variable {Val Err Op : Type}

theorem good_empty (S : Sem Val Err Op) : Good S (World.empty S) := by
  refine ⟨⟨?_, ?_⟩, ⟨?_, ?_⟩, ?_, ?_, ?_, ?_⟩ <;> simp [World.empty, World.stat, CohOn]

/-- outcomes the partial theorem does not cover: interpreter out of fuel, a statement with a dangling
reference, an exception escaping an input update -/
def Benign (o : Outcome Val Err) : Prop :=
  o ≠ .fuel ∧ o ≠ .bad ∧ ∀ calls e, o ≠ .set calls (some e)

/-- the worlds reachable by programs that satisfy (H1) `Admissible`, (H2) `EqOK` and (H3) `Benign` at every step -/
inductive Reach (S : Sem Val Err Op) (fuel : Nat) : World Val Err Op → Prop where
  | init : Reach S fuel (World.empty S)
  | step {w w' : World Val Err Op} {s : Stmt Val Op} {o : Outcome Val Err} :
      Reach S fuel w → Admissible w s → EqOK S w s → step S fuel w s = (o, w') → Benign o → Reach S fuel w'

theorem Reach.good {S : Sem Val Err Op} {fuel : Nat}
    {w : World Val Err Op} (h : Reach S fuel w) : Good S w := by
  induction h with
  | init => exact good_empty S
  | step _ hadm heq hstep hb ih => exact good_step ih hadm heq hstep hb.1 hb.2.1 hb.2.2

/-! ### programs: the vocabulary of the property theorems -/

/-- what the property expects a read of an expression to produce -/
def expectedRead (S : Sem Val Err Op) (env : PId → Val) (e : Expr Val Op) : Outcome Val Err :=
  match eval S env e with
  | .ok v => .read v
  | .error x => .readErr x

/-- run a program (creations, watches, updates, reads — in any interleaving) -/
def exec (S : Sem Val Err Op) (fuel : Nat) : World Val Err Op → List (Stmt Val Op) → World Val Err Op
  | w, [] => w
  | w, s :: ss => exec S fuel (step S fuel w s).2 ss

/-- hypotheses (H1), (H2) and (H3) along a program -/
def AdmProg (S : Sem Val Err Op) (fuel : Nat) : World Val Err Op → List (Stmt Val Op) → Prop
  | _, [] => True
  | w, s :: ss => Admissible w s ∧ EqOK S w s ∧ Benign (step S fuel w s).1 ∧ AdmProg S fuel (step S fuel w s).2 ss

def Outcome.isInfra : Outcome Val Err → Bool
  | .fuel => true
  | .bad => true
  | _ => false

/-- the program is a program (no dangling reference) and the interpreter had enough fuel -/
def NoInfra (S : Sem Val Err Op) (fuel : Nat) : World Val Err Op → List (Stmt Val Op) → Bool
  | _, [] => true
  | w, s :: ss => !(step S fuel w s).1.isInfra && NoInfra S fuel (step S fuel w s).2 ss

theorem reach_exec {S : Sem Val Err Op} {fuel : Nat} : ∀ (prog : List (Stmt Val Op)) {w : World Val Err Op},
    Reach S fuel w → AdmProg S fuel w prog → Reach S fuel (exec S fuel w prog)
  | [], _, h, _ => h
  | s :: ss, w, h, ⟨a, e, b, c⟩ => reach_exec ss (Reach.step h a e rfl b) c

end

/-! ### boolean checkers for the hypotheses (used by the non-vacuity examples) -/

def argCleanB (s : WStat (Option Int) Nat) : Arg (Option Int) → Bool
  | .node m => match s.nodes[m]? with | some md => !md.isW | none => false
  | _ => true

theorem argCleanB_sound {s : WStat (Option Int) Nat} {a : Arg (Option Int)} (h : argCleanB s a = true) :
    ArgClean s a := by
  intro m hm; subst hm
  simp only [argCleanB] at h
  cases hn : s.nodes[m]? with
  | none => simp [hn] at h
  | some md => exact ⟨md, rfl, by simpa [hn] using h⟩

def admB (w : World (Option Int) Unit Nat) : Stmt (Option Int) Nat → Bool
  | .op _ _ _ args => args.all (argCleanB w.stat)
  | .meth _ _ args => args.all (argCleanB w.stat)
  | .meth2 _ _ args args2 => args.all (argCleanB w.stat) && args2.all (argCleanB w.stat)
  | .bind _ args => args.all (argCleanB w.stat)
  | .where_ c x y => argCleanB w.stat c && argCleanB w.stat x && argCleanB w.stat y
  | .watch n => match w.nodes[n]? with | some nd => !nd.toNStat.isW | none => true
  | .ref n => match w.nodes[n]? with | some nd => !nd.toNStat.isW | none => true
  | _ => true

theorem admB_sound {w : World (Option Int) Unit Nat} {s : Stmt (Option Int) Nat} (h : admB w s = true) :
    Admissible w s := by
  cases s with
  | op n o r args => exact fun a ha => argCleanB_sound (List.all_eq_true.1 h a ha)
  | meth n o args => exact fun a ha => argCleanB_sound (List.all_eq_true.1 h a ha)
  | meth2 n o args args2 =>
    simp only [admB, Bool.and_eq_true] at h
    exact ⟨fun a ha => argCleanB_sound (List.all_eq_true.1 h.1 a ha),
           fun a ha => argCleanB_sound (List.all_eq_true.1 h.2 a ha)⟩
  | bind g args => exact fun a ha => argCleanB_sound (List.all_eq_true.1 h a ha)
  | where_ c x y =>
    simp only [admB, Bool.and_eq_true] at h
    exact ⟨argCleanB_sound h.1.1, argCleanB_sound h.1.2, argCleanB_sound h.2⟩
  | watch n =>
    intro nd hn
    simp only [admB, hn] at h
    simpa using h
  | ref n =>
    intro nd hn
    simp only [admB, hn] at h
    simpa using h
  | readref _ => trivial
  | isin _ _ _ => trivial
  | lit _ => trivial
  | obj _ => trivial
  | rootp _ => trivial
  | set _ _ => trivial
  | read _ => trivial

def benignB : Outcome (Option Int) Unit → Bool
  | .fuel => false
  | .bad => false
  | .set _ (some _) => false
  | _ => true

theorem benignB_sound {o : Outcome (Option Int) Unit} (h : benignB o = true) : Benign o := by
  cases o with
  | set calls e => cases e <;> simp_all [benignB, Benign]
  | _ => simp_all [benignB, Benign]

def eqOKB (S : Sem (Option Int) Unit Nat) (w : World (Option Int) Unit Nat) : Stmt (Option Int) Nat → Bool
  | .set p v => !S.isEqual (w.vals p) v || w.vals p == v
  | _ => true

theorem eqOKB_sound {S : Sem (Option Int) Unit Nat} {w : World (Option Int) Unit Nat} {s : Stmt (Option Int) Nat}
    (h : eqOKB S w s = true) : EqOK S w s := by
  cases s with
  | set p v =>
    intro he
    simp only [eqOKB, he, Bool.not_true, Bool.false_or, beq_iff_eq] at h
    exact h
  | _ => trivial

/-- (H1) and (H3) only -/
def admProgB13 (S : Sem (Option Int) Unit Nat) (fuel : Nat) :
    World (Option Int) Unit Nat → List (Stmt (Option Int) Nat) → Bool
  | _, [] => true
  | w, s :: ss => admB w s && benignB (step S fuel w s).1 && admProgB13 S fuel (step S fuel w s).2 ss

def admProgB (S : Sem (Option Int) Unit Nat) (fuel : Nat) :
    World (Option Int) Unit Nat → List (Stmt (Option Int) Nat) → Bool
  | _, [] => true
  | w, s :: ss => admB w s && eqOKB S w s && benignB (step S fuel w s).1 && admProgB S fuel (step S fuel w s).2 ss

theorem admProgB_sound (S : Sem (Option Int) Unit Nat) (fuel : Nat) :
    ∀ (prog : List (Stmt (Option Int) Nat)) (w : World (Option Int) Unit Nat),
      admProgB S fuel w prog = true → AdmProg S fuel w prog
  | [], _, _ => trivial
  | s :: ss, w, h => by
    simp only [admProgB, Bool.and_eq_true] at h
    exact ⟨admB_sound h.1.1.1, eqOKB_sound h.1.1.2, benignB_sound h.1.2, admProgB_sound S fuel ss _ h.2⟩

end ParamVerif.Rx
