/-
C09 helper lemmas (umbrella).  The parts:
  ExprLemmas   — supports of expressions, congruence of `eval`
  Inv          — StaticEq, WF, CohAt (the cache-coherence invariant)
  RunLemmas    — `run_correct`: the lazy evaluator agrees with `eval` on coherent worlds
  InvalLemmas  — what the invalidation watchers do
  Dep          — the dependency invariant, `params_supset_support` (internalParams ⊇ support)
  UpdateLemmas — `set_step`: an input update re-establishes coherence
  ExtLemmas, ParamLemmas, MkNode, StepLemmas — `good_step`: every statement keeps the invariants
-/
import ParamVerif.Rx.StepLemmas

namespace ParamVerif.Rx

section
variable {Val Err Op : Type}

theorem good_empty (S : Sem Val Err Op) : Good S (World.empty S) := by
  refine ⟨⟨?_, ?_⟩, ⟨?_, ?_⟩, ?_, ?_, ?_, ?_⟩ <;> simp [World.empty, World.stat, CohOn]

/-- outcomes the partial theorem does not cover: interpreter out of fuel, a statement with a dangling
reference, an exception escaping an input update -/
def Benign (o : Outcome Val Err) : Prop :=
  o ≠ .fuel ∧ o ≠ .bad ∧ ∀ calls e, o ≠ .set calls (some e)

/-- the worlds reachable by programs that never hand a where-rooted expression to a consumer -/
inductive Reach (S : Sem Val Err Op) (fuel : Nat) : World Val Err Op → Prop where
  | init : Reach S fuel (World.empty S)
  | step {w w' : World Val Err Op} {s : Stmt Val Op} {o : Outcome Val Err} :
      Reach S fuel w → Admissible w s → step S fuel w s = (o, w') → Benign o → Reach S fuel w'

theorem Reach.good {S : Sem Val Err Op} (hEq : ∀ a b, S.isEqual a b = true → a = b) {fuel : Nat}
    {w : World Val Err Op} (h : Reach S fuel w) : Good S w := by
  induction h with
  | init => exact good_empty S
  | step _ hadm hstep hb ih => exact good_step hEq ih hadm hstep hb.1 hb.2.1 hb.2.2

end
end ParamVerif.Rx
