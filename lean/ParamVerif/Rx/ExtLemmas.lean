/-
C09 helper lemmas, part E1: creating things only extends the world; everything
established about existing nodes stays true.
-/
import ParamVerif.Rx.UpdateLemmas

namespace ParamVerif.Rx

section
variable {Val Err Op : Type}

/-- `w'` extends `w`: more nodes / cells / inputs / consumers, same values of the old inputs -/
structure Ext (w w' : World Val Err Op) : Prop where
  nodes : ∃ l, w'.nodes = w.nodes ++ l
  cells : ∃ l, w'.cells = w.cells ++ l
  inputs : ∃ l, w'.inputs = w.inputs ++ l
  consumers : ∃ l, w'.consumers = w.consumers ++ l
  vals : ∀ q ∈ w.inputs, w'.vals q = w.vals q

theorem Ext.refl (w : World Val Err Op) : Ext w w :=
  ⟨⟨[], by simp⟩, ⟨[], by simp⟩, ⟨[], by simp⟩, ⟨[], by simp⟩, fun _ _ => rfl⟩

theorem Ext.trans {w1 w2 w3 : World Val Err Op} (a : Ext w1 w2) (b : Ext w2 w3) : Ext w1 w3 := by
  obtain ⟨l1, h1⟩ := a.nodes; obtain ⟨l2, h2⟩ := b.nodes
  obtain ⟨c1, k1⟩ := a.cells; obtain ⟨c2, k2⟩ := b.cells
  obtain ⟨i1, j1⟩ := a.inputs; obtain ⟨i2, j2⟩ := b.inputs
  obtain ⟨s1, t1⟩ := a.consumers; obtain ⟨s2, t2⟩ := b.consumers
  refine ⟨⟨l1 ++ l2, by rw [h2, h1, List.append_assoc]⟩, ⟨c1 ++ c2, by rw [k2, k1, List.append_assoc]⟩,
    ⟨i1 ++ i2, by rw [j2, j1, List.append_assoc]⟩, ⟨s1 ++ s2, by rw [t2, t1, List.append_assoc]⟩, ?_⟩
  intro q hq
  rw [b.vals q (by rw [j1]; simp [hq]), a.vals q hq]

theorem Ext.node {w w' : World Val Err Op} (e : Ext w w') {i : Nat} {nd : Node Val Err Op}
    (h : w.nodes[i]? = some nd) : w'.nodes[i]? = some nd := by
  obtain ⟨l, hl⟩ := e.nodes
  rw [hl, List.getElem?_append_left (List.getElem?_eq_some_iff.1 h).1]; exact h

theorem Ext.cell {w w' : World Val Err Op} (e : Ext w w') {c : Nat} (h : c < w.cells.length) :
    w'.cells[c]? = w.cells[c]? := by
  obtain ⟨l, hl⟩ := e.cells
  rw [hl, List.getElem?_append_left h]

theorem Ext.input {w w' : World Val Err Op} (e : Ext w w') {q : PId} (h : q ∈ w.inputs) : q ∈ w'.inputs := by
  obtain ⟨l, hl⟩ := e.inputs
  rw [hl]; simp [h]

theorem Ext.consumer {w w' : World Val Err Op} (e : Ext w w') {c : Consumer Val} (h : c ∈ w.consumers) :
    c ∈ w'.consumers := by
  obtain ⟨l, hl⟩ := e.consumers
  rw [hl]; simp [h]

theorem Ext.statNode {w w' : World Val Err Op} (e : Ext w w') {i : Nat} {ns : NStat Val Op}
    (h : w.stat.nodes[i]? = some ns) : w'.stat.nodes[i]? = some ns := by
  obtain ⟨nd, h1, rfl⟩ := stat_node' h
  exact stat_node (e.node h1)

theorem Ext.argExpr {w w' : World Val Err Op} (e : Ext w w') {a : Arg Val} {x : Expr Val Op}
    (h : argExpr w a = some x) : argExpr w' a = some x := by
  cases a with
  | lit v => exact h
  | param p =>
    simp only [Rx.argExpr] at h ⊢
    split at h
    · rename_i hc
      have : w'.inputs.contains p = true := by simpa using e.input (by simpa using hc)
      rw [if_pos this]; exact h
    · simp at h
  | node n =>
    simp only [Rx.argExpr] at h ⊢
    cases hn : w.nodes[n]? with
    | none => simp [hn] at h
    | some nd => rw [e.node hn]; simpa [hn] using h

theorem Ext.argExprs {w w' : World Val Err Op} (e : Ext w w') : ∀ {as : List (Arg Val)} {es : List (Expr Val Op)},
    argExprs w as = some es → argExprs w' as = some es
  | [], _, h => h
  | a :: as, es, h => by
    simp only [Rx.argExprs] at h ⊢
    cases h1 : Rx.argExpr w a with
    | none => simp [h1] at h
    | some x =>
      cases h2 : Rx.argExprs w as with
      | none => simp [h1, h2] at h
      | some xs =>
        rw [e.argExpr h1, e.argExprs h2]
        simpa [h1, h2] using h

theorem Ext.fnExprOf {w w' : World Val Err Op} (e : Ext w w') {f : Fn Val Op} {x : Expr Val Op}
    (h : fnExprOf w f = some x) : fnExprOf w' f = some x := by
  cases f with
  | ident p => exact h
  | bound g args =>
    simp only [Rx.fnExprOf] at h ⊢
    cases h1 : Rx.argExprs w args with
    | none => simp [h1] at h
    | some es => rw [e.argExprs h1]; simpa [h1] using h
  | ternary c t a b =>
    simp only [Rx.fnExprOf] at h ⊢
    cases h1 : Rx.argExpr w c with
    | none => simp [h1] at h
    | some ce =>
      cases h2 : Rx.argExpr w a with
      | none => simp [h1, h2] at h
      | some xe =>
        cases h3 : Rx.argExpr w b with
        | none => simp [h1, h2, h3] at h
        | some ye =>
          rw [e.argExpr h1, e.argExpr h2, e.argExpr h3]
          simpa [h1, h2, h3] using h

theorem Ext.refs {w w' : World Val Err Op} (e : Ext w w') {a : Arg Val} {r : List PId}
    (h : refs w a = some r) : refs w' a = some r := by
  cases a with
  | lit v => exact h
  | param p =>
    simp only [Rx.refs] at h ⊢
    split at h
    · rename_i hc
      have : w'.inputs.contains p = true := by simpa using e.input (by simpa using hc)
      rw [if_pos this]; exact h
    · simp at h
  | node n =>
    simp only [Rx.refs] at h ⊢
    cases hn : w.nodes[n]? with
    | none => simp [hn] at h
    | some nd => rw [e.node hn]; simpa [hn] using h

theorem Ext.refsAll {w w' : World Val Err Op} (e : Ext w w') : ∀ {as : List (Arg Val)} {rs : List (List PId)},
    refsAll w as = some rs → refsAll w' as = some rs
  | [], _, h => h
  | a :: as, rs, h => by
    simp only [Rx.refsAll, Option.bind_eq_bind] at h ⊢
    cases h1 : Rx.refs w a with
    | none => simp [h1] at h
    | some x =>
      cases h2 : Rx.refsAll w as with
      | none => simp [h1, h2] at h
      | some xs =>
        rw [e.refs h1, e.refsAll h2]
        simpa [h1, h2] using h

theorem Ext.fnParamsOf {w w' : World Val Err Op} (e : Ext w w') {f : Fn Val Op} {ps : List PId}
    (h : fnParamsOf w f = some ps) : fnParamsOf w' f = some ps := by
  cases f with
  | ident p => exact h
  | bound g args =>
    simp only [Rx.fnParamsOf] at h ⊢
    cases h1 : Rx.refsAll w args with
    | none => simp [h1] at h
    | some rs => rw [e.refsAll h1]; simpa [h1] using h
  | ternary c t a b =>
    simp only [Rx.fnParamsOf] at h ⊢
    cases h1 : Rx.refs w c with
    | none => simp [h1] at h
    | some r => rw [e.refs h1]; simpa [h1] using h

theorem Ext.sArgExpr {w w' : World Val Err Op} (e : Ext w w') {a : Arg Val} {x : Expr Val Op}
    (h : sArgExpr w.stat a = some x) : sArgExpr w'.stat a = some x := by
  rw [← argExpr_eq] at h ⊢; exact e.argExpr h

theorem Ext.argClean {w w' : World Val Err Op} (e : Ext w w') {a : Arg Val} (h : ArgClean w.stat a) :
    ArgClean w'.stat a := by
  intro m hm
  obtain ⟨md, g1, g2⟩ := h m hm
  exact ⟨md, e.statNode g1, g2⟩

theorem Ext.nodeWF {w w' : World Val Err Op} (e : Ext w w') {i : NId} {nd : Node Val Err Op}
    (h : NodeWF w i nd) : NodeWF w' i nd := by
  refine ⟨?_, h.rootSelf, ?_, ?_, ?_, h.fnSub, e.fnParamsOf h.fp⟩
  · obtain ⟨rt, r1, r⟩ := h.root
    exact ⟨rt, e.node r1, r⟩
  · obtain ⟨l, hl⟩ := e.cells
    rw [hl, List.length_append]; exact Nat.lt_of_lt_of_le h.cell (Nat.le_add_right _ _)
  · intro hp
    obtain ⟨a, b⟩ := h.isRoot hp
    exact ⟨a, e.fnExprOf b⟩
  · intro p hp
    obtain ⟨pd, o, es, a1, a2, a3, a4, a5⟩ := h.derived p hp
    exact ⟨pd, o, es, e.node a1, a2, a3, e.argExprs a4, a5⟩

theorem Ext.nodeDep {w w' : World Val Err Op} (e : Ext w w') {nd : NStat Val Op}
    (h : NodeDep w.stat nd) : NodeDep w'.stat nd := by
  refine ⟨fun q hq => e.input (h.inp q hq), h.keepS, h.sub, h.suppS, ?_, h.spineC, h.rootIp,
    fun o ho a ha => e.argClean (h.opArgs o ho a ha), fun a ha => e.argClean (h.fnArgs a ha), ?_⟩
  · intro c t x y hf
    obtain ⟨ce, xe, ye, a1, a2, a3, a4⟩ := h.spineW c t x y hf
    exact ⟨ce, xe, ye, e.sArgExpr a1, e.sArgExpr a2, e.sArgExpr a3, a4⟩
  · intro c t x y hf
    obtain ⟨ce, xe, ye, a1, a2, a3, _⟩ := h.spineW c t x y hf
    obtain ⟨b1, b2, b3, b4⟩ := h.whereOK c t x y hf
    refine ⟨b1, ?_, ?_, ?_⟩
    · intro ce' hce'; rw [e.sArgExpr a1] at hce'; cases hce'; exact b2 ce a1
    · intro xe' hxe' hne
      rw [e.sArgExpr a2] at hxe'; cases hxe'
      obtain ⟨xr, m1, m2⟩ := b3 xe a2 hne
      exact ⟨xr, e.consumer m1, m2⟩
    · intro ye' hye' hne
      rw [e.sArgExpr a3] at hye'; cases hye'
      obtain ⟨yr, m1, m2⟩ := b4 ye a3 hne
      exact ⟨yr, e.consumer m1, m2⟩

theorem Ext.consOK {w w' : World Val Err Op} (e : Ext w w') {c : Consumer Val} (h : ConsOK w.stat c) :
    ConsOK w'.stat c := by
  cases c with
  | watch k n deps =>
    obtain ⟨nd, a1, a2, a3⟩ := h
    exact ⟨nd, e.statNode a1, a2, a3⟩
  | trigX c t xr =>
    obtain ⟨a1, ce, a2⟩ := h
    exact ⟨e.argClean a1, ce, e.sArgExpr a2⟩
  | trigY c t yr =>
    obtain ⟨a1, ce, a2⟩ := h
    exact ⟨e.argClean a1, ce, e.sArgExpr a2⟩
  | sync k n deps a =>
    obtain ⟨nd, a1, a2, a3⟩ := h
    exact ⟨nd, e.statNode a1, a2, a3⟩

theorem Ext.cohAt {S : Sem Val Err Op} {w w' : World Val Err Op} (e : Ext w w') {nd : Node Val Err Op}
    (hinp : ∀ q ∈ supp nd.expr, q ∈ w.inputs) (hcell : nd.cell < w.cells.length)
    (h : CohAt S w.vals w.cells nd) : CohAt S w'.vals w'.cells nd :=
  cohAt_congr (eval_congr S _ _ _ (fun q hq => e.vals q (hinp q hq))) (e.cell hcell) h

end
end ParamVerif.Rx
