/-
C09 helper lemmas, part E2: what `_compute_fn_params`, `_compute_params` and the
`_params` filter put into the dependency lists.
-/
import ParamVerif.Rx.ExtLemmas

namespace ParamVerif.Rx

section
variable {Val Err Op : Type}

theorem mem_addAbsent_left {ps qs : List PId} {q : PId} (h : q ∈ ps) : q ∈ addAbsent ps qs := by
  unfold addAbsent
  induction qs generalizing ps with
  | nil => simpa using h
  | cons a as ih =>
    simp only [List.foldl_cons]
    apply ih
    split
    · exact h
    · simp [h]

theorem mem_addAbsent_right {ps qs : List PId} {q : PId} (h : q ∈ qs) : q ∈ addAbsent ps qs := by
  unfold addAbsent
  induction qs generalizing ps with
  | nil => simp at h
  | cons a as ih =>
    simp only [List.foldl_cons]
    rcases List.mem_cons.1 h with rfl | h
    · apply mem_addAbsent_left (qs := as)
      split
      · rename_i hc; simpa using hc
      · simp
    · exact ih h

theorem mem_foldl_addAbsent_left {rs : List (List PId)} {ps : List PId} {q : PId} (h : q ∈ ps) :
    q ∈ rs.foldl addAbsent ps := by
  induction rs generalizing ps with
  | nil => simpa using h
  | cons r rs ih => simp only [List.foldl_cons]; exact ih (mem_addAbsent_left h)

theorem mem_foldl_addAbsent_right {rs : List (List PId)} {ps r : List PId} {q : PId} (hr : r ∈ rs) (h : q ∈ r) :
    q ∈ rs.foldl addAbsent ps := by
  induction rs generalizing ps with
  | nil => simp at hr
  | cons r' rs ih =>
    simp only [List.foldl_cons]
    rcases List.mem_cons.1 hr with rfl | hr
    · exact mem_foldl_addAbsent_left (mem_addAbsent_right h)
    · exact ih hr

theorem chainParams_sup (w : World Val Err Op) : ∀ (k : Nat) (prev : Option NId) (ps r : List PId),
    chainParams w k prev ps = some r → ∀ q ∈ ps, q ∈ r
  | _, none, ps, r, h, q, hq => by simp only [chainParams, Option.some.injEq] at h; subst h; exact hq
  | 0, some _, _, _, h, _, _ => by simp [chainParams] at h
  | k + 1, some p, ps, r, h, q, hq => by
    simp only [chainParams] at h
    cases hn : w.nodes[p]? with
    | none => simp [hn] at h
    | some nd =>
      simp only [hn] at h
      exact chainParams_sup w k nd.prev _ r h q (mem_addAbsent_left hq)

theorem chainParams_prev (w : World Val Err Op) {k : Nat} {p : NId} {pd : Node Val Err Op} {ps r : List PId}
    (hp : w.nodes[p]? = some pd) (h : chainParams w k (some p) ps = some r) : ∀ q ∈ pd.params, q ∈ r := by
  cases k with
  | zero => simp [chainParams] at h
  | succ k =>
    simp only [chainParams, hp] at h
    intro q hq
    exact chainParams_sup w k pd.prev _ r h q (mem_addAbsent_right hq)

theorem mem_filterParams {w : World Val Err Op} {ips : List PId} {q : PId} (h : q ∈ ips)
    (ht : w.trigs.lookup q = none) : q ∈ filterParams w ips := by
  simp only [filterParams, List.mem_filter]
  exact ⟨h, by simp [ht]⟩

theorem filterParams_sub {w : World Val Err Op} {ips : List PId} {q : PId} (h : q ∈ filterParams w ips) :
    q ∈ ips := by
  simp only [filterParams, List.mem_filter] at h
  exact h.1

/-- the support of a clean operand is among the parameters it resolves to -/
theorem supp_sub_refs {w : World Val Err Op} (hd : Dep w) {a : Arg Val} {e : Expr Val Op} {r : List PId}
    (hclean : ArgClean w.stat a) (he : argExpr w a = some e) (hr : refs w a = some r) :
    ∀ q ∈ supp e, q ∈ r := by
  cases a with
  | lit v => simp only [argExpr, Option.some.injEq] at he; subst he; simp [supp]
  | param p =>
    simp only [argExpr, refs] at he hr
    split at he
    · rename_i hc
      simp only [hc, if_true, Option.some.injEq] at hr
      cases he; subst hr; simp [supp]
    · simp at he
  | node n =>
    simp only [argExpr, refs] at he hr
    cases hn : w.nodes[n]? with
    | none => simp [hn] at he
    | some nd =>
      simp only [hn, Option.map_some, Option.some.injEq] at he hr
      subst he; subst hr
      obtain ⟨md, g1, g2⟩ := hclean n rfl
      rw [stat_node hn] at g1; cases g1
      exact params_supset_support (hd.node n nd.toNStat (stat_node hn)) g2

theorem supp_arg_inputs {w : World Val Err Op} (hd : Dep w) {a : Arg Val} {e : Expr Val Op}
    (he : argExpr w a = some e) : ∀ q ∈ supp e, q ∈ w.inputs := by
  cases a with
  | lit v => simp only [argExpr, Option.some.injEq] at he; subst he; simp [supp]
  | param p =>
    simp only [argExpr] at he
    split at he
    · rename_i hc
      cases he; simpa [supp] using hc
    · simp at he
  | node n =>
    simp only [argExpr] at he
    cases hn : w.nodes[n]? with
    | none => simp [hn] at he
    | some nd =>
      simp only [hn, Option.map_some, Option.some.injEq] at he
      subst he
      exact (hd.node n nd.toNStat (stat_node hn)).inp

theorem suppList_sub_refsAll {w : World Val Err Op} (hd : Dep w) : ∀ {as : List (Arg Val)}
    {es : List (Expr Val Op)} {rs : List (List PId)}, (∀ a ∈ as, ArgClean w.stat a) →
    argExprs w as = some es → refsAll w as = some rs → ∀ q ∈ suppList es, ∃ r ∈ rs, q ∈ r
  | [], es, rs, _, he, _, q, hq => by
    simp only [argExprs, Option.some.injEq] at he; subst he; simp [suppList] at hq
  | a :: as, es, rs, hc, he, hr, q, hq => by
    simp only [argExprs, refsAll, Option.bind_eq_bind] at he hr
    cases h1 : argExpr w a with
    | none => simp [h1] at he
    | some e =>
      cases h2 : argExprs w as with
      | none => simp [h1, h2] at he
      | some es' =>
        cases h3 : refs w a with
        | none => simp [h3] at hr
        | some r =>
          cases h4 : refsAll w as with
          | none => simp [h3, h4] at hr
          | some rs' =>
            simp [h1, h2] at he; simp [h3, h4] at hr
            subst he; subst hr
            simp only [suppList, List.mem_append] at hq
            rcases hq with hq | hq
            · exact ⟨r, by simp, supp_sub_refs hd (hc a (by simp)) h1 h3 q hq⟩
            · obtain ⟨r', m1, m2⟩ := suppList_sub_refsAll hd (fun b hb => hc b (by simp [hb])) h2 h4 q hq
              exact ⟨r', by simp [m1], m2⟩

theorem suppList_inputs {w : World Val Err Op} (hd : Dep w) : ∀ {as : List (Arg Val)}
    {es : List (Expr Val Op)}, argExprs w as = some es → ∀ q ∈ suppList es, q ∈ w.inputs
  | [], es, he, q, hq => by
    simp only [argExprs, Option.some.injEq] at he; subst he; simp [suppList] at hq
  | a :: as, es, he, q, hq => by
    simp only [argExprs] at he
    cases h1 : argExpr w a with
    | none => simp [h1] at he
    | some e =>
      cases h2 : argExprs w as with
      | none => simp [h1, h2] at he
      | some es' =>
        simp [h1, h2] at he; subst he
        simp only [suppList, List.mem_append] at hq
        rcases hq with hq | hq
        · exact supp_arg_inputs hd h1 q hq
        · exact suppList_inputs hd h2 q hq

theorem refsAll_some_of {w : World Val Err Op} : ∀ {as : List (Arg Val)} {es : List (Expr Val Op)},
    argExprs w as = some es → ∃ rs, refsAll w as = some rs
  | [], _, _ => ⟨[], rfl⟩
  | a :: as, es, he => by
    simp only [argExprs] at he
    cases h1 : argExpr w a with
    | none => simp [h1] at he
    | some e =>
      cases h2 : argExprs w as with
      | none => simp [h1, h2] at he
      | some es' =>
        obtain ⟨rs, hrs⟩ := refsAll_some_of h2
        have : ∃ r, refs w a = some r := by
          cases a with
          | lit v => exact ⟨[], rfl⟩
          | param p =>
            simp only [argExpr] at h1
            split at h1
            · rename_i hc; exact ⟨[p], by simp only [refs, hc, if_true]⟩
            · simp at h1
          | node n =>
            simp only [argExpr] at h1
            cases hn : w.nodes[n]? with
            | none => simp [hn] at h1
            | some nd => exact ⟨nd.params, by simp [refs, hn]⟩
        obtain ⟨r, hr⟩ := this
        exact ⟨r :: rs, by simp [refsAll, hr, hrs]⟩

end
end ParamVerif.Rx
