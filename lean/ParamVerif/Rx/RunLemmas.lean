/-
C09 helper lemmas, part B2: the lazy evaluator is correct on coherent worlds.

`run_correct`: on a well-formed world whose nodes in `P` are coherent, every call
(`_resolve`, `_obj`, a bound function, `resolve_value`) that does not run out of
fuel returns the value (or the exception) of the direct evaluation of the
corresponding expression on the current inputs, keeps coherence, changes no
static field and touches nothing outside `P`.
-/
import ParamVerif.Rx.Inv

namespace ParamVerif.Rx

section
variable {Val Err Op : Type}

def callExpr (w : World Val Err Op) : Call Val Op → Option (Expr Val Op)
  | .resolve n => (w.nodes[n]?).map (·.expr)
  | .obj n => (w.nodes[n]?).bind fun nd => (w.nodes[nd.root]?).map (·.expr)
  | .fn f => fnExprOf w f
  | .arg a => argExpr w a

def CallOK (P : NId → Prop) (w : World Val Err Op) : Call Val Op → Prop
  | .resolve n => P n ∧ ∃ nd, w.nodes[n]? = some nd
  | .obj n => P n ∧ ∃ nd, w.nodes[n]? = some nd
  | .fn f => (∀ m, Arg.node m ∈ fnArgs f → P m) ∧ ∃ e, fnExprOf w f = some e
  | .arg a => (∀ m, a = .node m → P m) ∧ ∃ e, argExpr w a = some e

structure Post (S : Sem Val Err Op) (P : NId → Prop) (w : World Val Err Op) (call : Call Val Op)
    (r : Res Err Val) (w' : World Val Err Op) : Prop where
  stat : StaticEq w w'
  coh : CohOn S P w'
  frame : Frame P w w'
  val : ∃ e, callExpr w call = some e ∧ r = liftPy (eval S w.vals e)
  objPost : ∀ n nd v, call = .obj n → w.nodes[n]? = some nd → r = .ok v → w'.cells[nd.cell]? = some (some v)

def RunSpec (S : Sem Val Err Op) (P : NId → Prop) (f : Nat) : Prop :=
  ∀ call w r w', WF w → Closed P w → CohOn S P w → CallOK P w call →
    run S f call w = (r, w') → r ≠ .error .fuel → Post S P w call r w'

/-! ### coherence under the primitive state changes -/

theorem modNode_get (w : World Val Err Op) (n : NId) (f : Node Val Err Op → Node Val Err Op) (i : Nat) :
    (w.modNode n f).nodes[i]? = if n = i then (w.nodes[i]?).map f else w.nodes[i]? := by
  simp only [World.modNode, List.getElem?_modify]
  by_cases h : n = i <;> cases w.nodes[i]? <;> simp [h]

theorem cohOn_store {S : Sem Val Err Op} {P : NId → Prop} {w : World Val Err Op} {n : NId} {nd : Node Val Err Op}
    {v : Val} (hc : CohOn S P w) (hn : w.nodes[n]? = some nd) (hv : eval S w.vals nd.expr = .ok v) :
    CohOn S P (w.store n v) := by
  intro i ndi hp hi
  simp only [World.store, modNode_get] at hi
  by_cases hni : n = i
  · subst hni
    simp only [if_true, hn, Option.map_some, Option.some.injEq] at hi
    have c0 := hc n nd hp hn
    subst hi
    exact ⟨fun _ _ => hv, c0.err, c0.cell⟩
  · simp only [hni, if_false] at hi
    exact hc i ndi hp hi

theorem cohOn_setError {S : Sem Val Err Op} {P : NId → Prop} {w : World Val Err Op} {n : NId}
    {nd : Node Val Err Op} {e : Err} (hc : CohOn S P w) (hn : w.nodes[n]? = some nd)
    (hv : eval S w.vals nd.expr = .error e) : CohOn S P (w.setError n e) := by
  intro i ndi hp hi
  simp only [World.setError, modNode_get] at hi
  by_cases hni : n = i
  · subst hni
    simp only [if_true, hn, Option.map_some, Option.some.injEq] at hi
    have c0 := hc n nd hp hn
    subst hi
    exact ⟨fun h => by simp at h, fun e' h => by simp at h; subst h; exact hv, c0.cell⟩
  · simp only [hni, if_false] at hi
    exact hc i ndi hp hi

theorem cohOn_setCell {S : Sem Val Err Op} {P : NId → Prop} {w : World Val Err Op} {c : Nat} {v : Val}
    (hc : CohOn S P w)
    (hv : ∀ i nd, P i → w.nodes[i]? = some nd → nd.prev = none → nd.cell = c → eval S w.vals nd.expr = .ok v) :
    CohOn S P (w.setCell c v) := by
  intro i nd hp hi
  have c0 := hc i nd hp hi
  refine ⟨c0.val, c0.err, fun h1 h2 v' hv' => ?_⟩
  simp only [World.setCell, List.getElem?_set] at hv'
  by_cases hcc : c = nd.cell
  · simp only [hcc, if_true] at hv'
    split at hv'
    · simp only [Option.some.injEq] at hv'; subst hv'
      exact hv i nd hp hi h1 hcc.symm
    · simp at hv'
  · simp only [hcc, if_false] at hv'
    exact c0.cell h1 h2 v' hv'

theorem cohOn_clearDirtyObj {S : Sem Val Err Op} {P : NId → Prop} {w : World Val Err Op} {r : NId}
    {rt : Node Val Err Op} (hc : CohOn S P w) (hn : w.nodes[r]? = some rt)
    (hv : rt.prev = none → ∀ v, w.cells[rt.cell]? = some (some v) → eval S w.vals rt.expr = .ok v) :
    CohOn S P (w.modNode r fun x => { x with dirtyObj := false }) := by
  intro i ndi hp hi
  simp only [modNode_get] at hi
  by_cases hni : r = i
  · subst hni
    simp only [if_true, hn, Option.map_some, Option.some.injEq] at hi
    have c0 := hc r rt hp hn
    subst hi
    exact ⟨c0.val, c0.err, fun h1 _ v' hv' => hv h1 v' hv'⟩
  · simp only [hni, if_false] at hi
    exact hc i ndi hp hi

theorem frame_modNode {P : NId → Prop} (w : World Val Err Op) (n : NId) (f : Node Val Err Op → Node Val Err Op)
    (hp : P n) : Frame P w (w.modNode n f) := by
  constructor
  · intro i hi
    have : n ≠ i := fun h => hi (h ▸ hp)
    simp [modNode_get, this]
  · intro c _; rfl

theorem frame_setCell {P : NId → Prop} (w : World Val Err Op) (n : NId) (nd : Node Val Err Op) (v : Val)
    (hp : P n) (hn : w.nodes[n]? = some nd) : Frame P w (w.setCell nd.cell v) := by
  constructor
  · intro i _; rfl
  · intro c hc
    have : nd.cell ≠ c := hc n nd hp hn
    simp [World.setCell, List.getElem?_set, this]

theorem callExpr_staticEq {w w' : World Val Err Op} (h : StaticEq w w') (call : Call Val Op)
    (hwf : WF w) : callExpr w' call = callExpr w call := by
  cases call with
  | arg a => exact argExpr_staticEq h a
  | fn f => exact fnExprOf_staticEq h f
  | resolve n =>
    simp only [callExpr]
    cases h1 : w.nodes[n]? with
    | none => rw [h.none h1]
    | some nd =>
      obtain ⟨nd', g1, g2⟩ := h.node h1
      rw [g1]; simp only [Option.map_some]
      rw [show nd'.expr = nd'.toNStat.expr from rfl, g2]
  | obj n =>
    simp only [callExpr]
    cases h1 : w.nodes[n]? with
    | none => rw [h.none h1]; rfl
    | some nd =>
      obtain ⟨nd', g1, g2⟩ := h.node h1
      rw [g1]; simp only [Option.bind_some]
      have er : nd'.root = nd.root := by rw [show nd'.root = nd'.toNStat.root from rfl, g2]
      rw [er]
      obtain ⟨rt, r1, _⟩ := (hwf.node n nd h1).root
      obtain ⟨rt', r2, r3⟩ := h.node r1
      rw [r1, r2]; simp only [Option.map_some]
      rw [show rt'.expr = rt'.toNStat.expr from rfl, r3]

theorem CallOK.of_staticEq {P : NId → Prop} {w w' : World Val Err Op} (h : StaticEq w w') {call : Call Val Op}
    (hc : CallOK P w call) : CallOK P w' call := by
  cases call with
  | arg a => exact ⟨hc.1, by rw [argExpr_staticEq h]; exact hc.2⟩
  | fn f => exact ⟨hc.1, by rw [fnExprOf_staticEq h]; exact hc.2⟩
  | resolve n => obtain ⟨h1, nd, h2⟩ := hc; obtain ⟨nd', g, _⟩ := h.node h2; exact ⟨h1, nd', g⟩
  | obj n => obtain ⟨h1, nd, h2⟩ := hc; obtain ⟨nd', g, _⟩ := h.node h2; exact ⟨h1, nd', g⟩

/-! ### the cases of `run` -/

theorem liftPy_ne_fuel {α} (x : Except Err α) : (liftPy x : Res Err α) ≠ .error .fuel := by
  cases x <;> simp [liftPy]

theorem argExprs_of_ok {w : World Val Err Op} : ∀ args : List (Arg Val),
    (∀ a ∈ args, ∃ e, argExpr w a = some e) → ∃ es, argExprs w args = some es
  | [], _ => ⟨[], rfl⟩
  | a :: as, h => by
    obtain ⟨e, he⟩ := h a (by simp)
    obtain ⟨es, hes⟩ := argExprs_of_ok as (fun b hb => h b (by simp [hb]))
    exact ⟨e :: es, by simp [argExprs, he, hes]⟩

theorem argExprs_mem {w : World Val Err Op} : ∀ (args : List (Arg Val)) es, argExprs w args = some es →
    ∀ a ∈ args, ∃ e, argExpr w a = some e
  | [], _, _, a, ha => by simp at ha
  | b :: bs, es, h, a, ha => by
    simp only [argExprs] at h
    cases h1 : argExpr w b with
    | none => simp [h1] at h
    | some e =>
      cases h2 : argExprs w bs with
      | none => simp [h1, h2] at h
      | some es' =>
        simp only [List.mem_cons] at ha
        rcases ha with rfl | ha
        · exact ⟨e, h1⟩
        · exact argExprs_mem bs es' h2 a ha

theorem run_arg {S : Sem Val Err Op} {P : NId → Prop} {f : Nat} (ih : RunSpec S P f) (a : Arg Val)
    (w : World Val Err Op) (r : Res Err Val) (w' : World Val Err Op)
    (hwf : WF w) (hcl : Closed P w) (hc : CohOn S P w) (hok : CallOK P w (.arg a))
    (h : run S (f + 1) (.arg a) w = (r, w')) (hr : r ≠ .error .fuel) : Post S P w (.arg a) r w' := by
  cases a with
  | lit v =>
    simp only [run, Prod.mk.injEq] at h
    obtain ⟨rfl, rfl⟩ := h
    exact ⟨StaticEq.refl _, hc, Frame.refl _ _, ⟨.lit v, rfl, by simp [eval, liftPy]⟩, fun _ _ _ h => by simp at h⟩
  | param p =>
    simp only [run, Prod.mk.injEq] at h
    obtain ⟨rfl, rfl⟩ := h
    obtain ⟨_, e, he⟩ := hok
    refine ⟨StaticEq.refl _, hc, Frame.refl _ _, ⟨e, he, ?_⟩, fun _ _ _ h => by simp at h⟩
    simp only [argExpr] at he
    split at he
    · cases he; simp [eval, liftPy]
    · simp at he
  | node n =>
    simp only [run] at h
    obtain ⟨hp, e, he⟩ := hok
    have hex : ∃ nd, w.nodes[n]? = some nd := by
      simp only [argExpr] at he
      cases h1 : w.nodes[n]? with
      | none => simp [h1] at he
      | some nd => exact ⟨nd, rfl⟩
    have := ih (.resolve n) w r w' hwf hcl hc ⟨hp n rfl, hex⟩ h hr
    exact ⟨this.stat, this.coh, this.frame, this.val, fun _ _ _ h => by simp at h⟩

theorem argsWith_correct {S : Sem Val Err Op} {P : NId → Prop} {f : Nat} (ih : RunSpec S P f) :
    ∀ (args : List (Arg Val)) (w : World Val Err Op) (r : Res Err (List Val)) (w' : World Val Err Op),
      WF w → Closed P w → CohOn S P w → (∀ a ∈ args, CallOK P w (.arg a)) →
      argsWith (fun a => run S f (.arg a)) args w = (r, w') → r ≠ .error .fuel →
      StaticEq w w' ∧ CohOn S P w' ∧ Frame P w w' ∧
        ∃ es, argExprs w args = some es ∧ r = liftPy (evalList S w.vals es)
  | [], w, r, w', _, _, hc, _, h, _ => by
    simp only [argsWith, Prod.mk.injEq] at h
    obtain ⟨rfl, rfl⟩ := h
    exact ⟨StaticEq.refl _, hc, Frame.refl _ _, [], rfl, by simp [evalList, liftPy]⟩
  | a :: as, w, r, w', hwf, hcl, hc, hok, h, hr => by
    simp only [argsWith] at h
    obtain ⟨es0, hes0⟩ := argExprs_of_ok (w := w) as (fun b hb => (hok b (by simp [hb])).2)
    cases h1 : run S f (.arg a) w with
    | mk r1 w1 =>
      rw [h1] at h
      cases r1 with
      | error x =>
        simp only [Prod.mk.injEq] at h
        obtain ⟨rfl, rfl⟩ := h
        have hx : (Except.error x : Res Err Val) ≠ .error .fuel := by
          intro hh; apply hr; cases hh; rfl
        have p1 := ih (.arg a) w _ _ hwf hcl hc (hok a (by simp)) h1 hx
        obtain ⟨e, he, hv⟩ := p1.val
        refine ⟨p1.stat, p1.coh, p1.frame, e :: es0, by simp [argExprs, show argExpr w a = some e from he, hes0], ?_⟩
        cases hev : eval S w.vals e with
        | ok v => rw [hev] at hv; simp [liftPy] at hv
        | error e' =>
          rw [hev] at hv
          simp only [liftPy, Except.error.injEq] at hv
          subst hv
          simp [evalList, hev, liftPy]
      | ok v =>
        have p1 := ih (.arg a) w _ _ hwf hcl hc (hok a (by simp)) h1 (by simp)
        obtain ⟨e, he, hv⟩ := p1.val
        have hwf1 := hwf.of_staticEq p1.stat
        have hcl1 := hcl.of_staticEq p1.stat
        cases h2 : argsWith (fun a => run S f (.arg a)) as w1 with
        | mk r2 w2 =>
          simp only [h2] at h
          have hev : eval S w.vals e = .ok v := by
            cases hh : eval S w.vals e with
            | ok v' => rw [hh] at hv; simp only [liftPy, Except.ok.injEq] at hv; rw [hv]
            | error e' => rw [hh] at hv; simp [liftPy] at hv
          have hr2 : r2 ≠ .error .fuel := by
            intro hh; subst hh; simp only [Prod.mk.injEq] at h; exact hr h.1.symm
          obtain ⟨s2, c2, f2, es, hes, hv2⟩ := argsWith_correct ih as w1 r2 w2 hwf1 hcl1 p1.coh
            (fun b hb => (hok b (by simp [hb])).of_staticEq p1.stat) h2 hr2
          rw [argExprs_staticEq p1.stat, hes0] at hes
          cases hes
          rw [p1.stat.vals] at hv2
          have hw' : w2 = w' := by cases r2 <;> (simp only [Prod.mk.injEq] at h; exact h.2)
          subst hw'
          refine ⟨p1.stat.trans s2, c2, Frame.trans p1.stat p1.frame f2, e :: es0,
            by simp [argExprs, show argExpr w a = some e from he, hes0], ?_⟩
          cases r2 with
          | error x =>
            simp only [Prod.mk.injEq, and_true] at h
            subst h
            cases hl : evalList S w.vals es0 with
            | ok vs => rw [hl] at hv2; simp [liftPy] at hv2
            | error e' =>
              rw [hl] at hv2; simp only [liftPy, Except.error.injEq] at hv2; subst hv2
              simp [evalList, hev, hl, liftPy]
          | ok vs =>
            simp only [Prod.mk.injEq, and_true] at h
            subst h
            cases hl : evalList S w.vals es0 with
            | ok vs' =>
              rw [hl] at hv2; simp only [liftPy, Except.ok.injEq] at hv2; subst hv2
              simp [evalList, hev, hl, liftPy]
            | error e' => rw [hl] at hv2; simp [liftPy] at hv2

theorem liftPy_ok_inv {α} {x : Except Err α} {v : α} (h : (Except.ok v : Res Err α) = liftPy x) : x = .ok v := by
  cases x with
  | ok v' => simp only [liftPy, Except.ok.injEq] at h; rw [h]
  | error e => simp [liftPy] at h

theorem liftPy_err_inv {α} {x : Except Err α} {y : Exn Err} (h : (Except.error y : Res Err α) = liftPy x) :
    ∃ e, y = .py e ∧ x = .error e := by
  cases x with
  | ok v' => simp [liftPy] at h
  | error e => simp only [liftPy, Except.error.injEq] at h; exact ⟨e, h, rfl⟩

theorem run_fn {S : Sem Val Err Op} {P : NId → Prop} {f : Nat} (ih : RunSpec S P f) (fnc : Fn Val Op)
    (w : World Val Err Op) (r : Res Err Val) (w' : World Val Err Op)
    (hwf : WF w) (hcl : Closed P w) (hc : CohOn S P w) (hok : CallOK P w (.fn fnc))
    (h : run S (f + 1) (.fn fnc) w = (r, w')) (hr : r ≠ .error .fuel) : Post S P w (.fn fnc) r w' := by
  cases fnc with
  | ident p =>
    simp only [run, Prod.mk.injEq] at h
    obtain ⟨rfl, rfl⟩ := h
    exact ⟨StaticEq.refl _, hc, Frame.refl _ _, ⟨.input p, rfl, by simp [eval, liftPy]⟩, fun _ _ _ h => by simp at h⟩
  | bound g args =>
    simp only [run] at h
    obtain ⟨hp, e, he⟩ := hok
    simp only [fnExprOf] at he
    cases hes : argExprs w args with
    | none => simp [hes] at he
    | some es =>
      have hargs : ∀ a ∈ args, CallOK P w (.arg a) := fun a ha =>
        ⟨fun m hm => hp m (by simpa [fnArgs, ← hm] using ha), argExprs_mem args es hes a ha⟩
      cases h1 : argsWith (fun a => run S f (.arg a)) args w with
      | mk r1 w1 =>
        simp only [h1] at h
        cases r1 with
        | ok vs =>
          simp only [Prod.mk.injEq] at h
          obtain ⟨rfl, rfl⟩ := h
          obtain ⟨s1, c1, f1, es', hes', hv⟩ := argsWith_correct ih args w _ _ hwf hcl hc hargs h1 (by simp)
          rw [hes] at hes'; cases hes'
          have := liftPy_ok_inv hv
          exact ⟨s1, c1, f1, ⟨.call g es, by simp [callExpr, fnExprOf, hes], by simp [eval, this]⟩,
            fun _ _ _ h => by simp at h⟩
        | error x =>
          simp only [Prod.mk.injEq] at h
          obtain ⟨rfl, rfl⟩ := h
          have hx : (Except.error x : Res Err (List Val)) ≠ .error .fuel := by
            intro hh; apply hr; cases hh; rfl
          obtain ⟨s1, c1, f1, es', hes', hv⟩ := argsWith_correct ih args w _ _ hwf hcl hc hargs h1 hx
          rw [hes] at hes'; cases hes'
          obtain ⟨e', rfl, hl⟩ := liftPy_err_inv hv
          exact ⟨s1, c1, f1, ⟨.call g es, by simp [callExpr, fnExprOf, hes], by simp [eval, hl, liftPy]⟩,
            fun _ _ _ h => by simp at h⟩
  | ternary c t x y =>
    simp only [run] at h
    obtain ⟨hp, e, he⟩ := hok
    simp only [fnExprOf] at he
    cases hce : argExpr w c with
    | none => simp [hce] at he
    | some ce =>
    cases hxe : argExpr w x with
    | none => simp [hce, hxe] at he
    | some xe =>
    cases hye : argExpr w y with
    | none => simp [hce, hxe, hye] at he
    | some ye =>
      have hE : callExpr w (.fn (.ternary c t x y)) = some (.ite ce xe ye) := by
        simp [callExpr, fnExprOf, hce, hxe, hye]
      have okc : CallOK P w (.arg c) := ⟨fun m hm => hp m (by simp [fnArgs, hm]), ce, hce⟩
      have okx : CallOK P w (.arg x) := ⟨fun m hm => hp m (by simp [fnArgs, hm]), xe, hxe⟩
      have oky : CallOK P w (.arg y) := ⟨fun m hm => hp m (by simp [fnArgs, hm]), ye, hye⟩
      cases h1 : run S f (.arg c) w with
      | mk r1 w1 =>
        simp only [h1] at h
        cases r1 with
        | error x' =>
          simp only [Prod.mk.injEq] at h
          obtain ⟨rfl, rfl⟩ := h
          have p1 := ih (.arg c) w _ _ hwf hcl hc okc h1 hr
          obtain ⟨e1, he1, hv1⟩ := p1.val
          rw [show callExpr w (.arg c) = argExpr w c from rfl, hce] at he1; cases he1
          obtain ⟨e', rfl, hl⟩ := liftPy_err_inv hv1
          exact ⟨p1.stat, p1.coh, p1.frame, ⟨_, hE, by simp [eval, hl, liftPy]⟩, fun _ _ _ h => by simp at h⟩
        | ok cv =>
          have p1 := ih (.arg c) w _ _ hwf hcl hc okc h1 (by simp)
          obtain ⟨e1, he1, hv1⟩ := p1.val
          rw [show callExpr w (.arg c) = argExpr w c from rfl, hce] at he1; cases he1
          have hcv := liftPy_ok_inv hv1
          have hwf1 := hwf.of_staticEq p1.stat
          have hcl1 := hcl.of_staticEq p1.stat
          simp only at h
          by_cases ht : S.truthy cv = true
          · simp only [ht, if_true] at h
            have p2 := ih (.arg x) w1 _ _ hwf1 hcl1 p1.coh (okx.of_staticEq p1.stat) h hr
            obtain ⟨e2, he2, hv2⟩ := p2.val
            rw [show callExpr w1 (.arg x) = argExpr w1 x from rfl, argExpr_staticEq p1.stat, hxe] at he2; cases he2
            rw [p1.stat.vals] at hv2
            exact ⟨p1.stat.trans p2.stat, p2.coh, Frame.trans p1.stat p1.frame p2.frame,
              ⟨_, hE, by simp [eval, hcv, ht, hv2]⟩, fun _ _ _ h => by simp at h⟩
          · simp only [ht] at h
            have p2 := ih (.arg y) w1 _ _ hwf1 hcl1 p1.coh (oky.of_staticEq p1.stat) h hr
            obtain ⟨e2, he2, hv2⟩ := p2.val
            rw [show callExpr w1 (.arg y) = argExpr w1 y from rfl, argExpr_staticEq p1.stat, hye] at he2; cases he2
            rw [p1.stat.vals] at hv2
            exact ⟨p1.stat.trans p2.stat, p2.coh, Frame.trans p1.stat p1.frame p2.frame,
              ⟨_, hE, by simp [eval, hcv, ht, hv2]⟩, fun _ _ _ h => by simp at h⟩

theorem frame_setCell' {P : NId → Prop} (w : World Val Err Op) (c : Nat) (v : Val)
    (h : ∃ i nd, P i ∧ w.nodes[i]? = some nd ∧ nd.cell = c) : Frame P w (w.setCell c v) := by
  obtain ⟨i, nd, hp, hn, rfl⟩ := h
  exact frame_setCell w i nd v hp hn

theorem stat_field {w w' : World Val Err Op} (h : StaticEq w w') {i : Nat} {nd nd' : Node Val Err Op}
    (h1 : w.nodes[i]? = some nd) (h2 : w'.nodes[i]? = some nd') : nd'.toNStat = nd.toNStat := by
  obtain ⟨x, g1, g2⟩ := h.node h1
  rw [h2] at g1; cases g1; exact g2

/-- all roots that share the cell of `nd` denote the expression of `nd`'s root -/
theorem root_expr_of_cell {w : World Val Err Op} (hwf : WF w) {n i : NId} {nd rt ndi : Node Val Err Op}
    (hn : w.nodes[n]? = some nd) (hr : w.nodes[nd.root]? = some rt) (hi : w.nodes[i]? = some ndi)
    (hprev : ndi.prev = none) (hcell : ndi.cell = nd.cell) : ndi.expr = rt.expr := by
  have hfn : ndi.fn = nd.fn := hwf.cellFn i n ndi nd hi hn hcell
  obtain ⟨rt', r1, r2, r3, r4, r5, r6⟩ := (hwf.node n nd hn).root
  rw [hr] at r1; cases r1
  have a := ((hwf.node i ndi hi).isRoot hprev).2
  have b := ((hwf.node nd.root rt hr).isRoot r2).2
  rw [hfn, ← r4, b] at a
  exact (Option.some.inj a).symm

theorem run_obj {S : Sem Val Err Op} {P : NId → Prop} {f : Nat} (ih : RunSpec S P f) (n : NId)
    (w : World Val Err Op) (r : Res Err Val) (w' : World Val Err Op)
    (hwf : WF w) (hcl : Closed P w) (hc : CohOn S P w) (hok : CallOK P w (.obj n))
    (h : run S (f + 1) (.obj n) w = (r, w')) (hr : r ≠ .error .fuel) : Post S P w (.obj n) r w' := by
  obtain ⟨hp, nd, hn⟩ := hok
  have nwf := hwf.node n nd hn
  obtain ⟨rt, r1, r2, r3, r4, r5, r6⟩ := nwf.root
  have rwf := hwf.node nd.root rt r1
  have hfe : fnExprOf w rt.fn = some rt.expr := (rwf.isRoot r2).2
  obtain ⟨hproot, _, _, hpfn⟩ := hcl n nd hp hn
  have hpfn' : ∀ m, Arg.node m ∈ fnArgs rt.fn → P m := (hcl nd.root rt hproot r1).2.2.2
  have hE : callExpr w (.obj n) = some rt.expr := by simp [callExpr, hn, r1]
  have okfn : CallOK P w (.fn rt.fn) := ⟨hpfn', rt.expr, hfe⟩
  obtain ⟨cv, hcv⟩ : ∃ cv, w.cells[nd.cell]? = some cv := by
    have := nwf.cell
    exact ⟨w.cells[nd.cell], by simp [this]⟩
  simp only [run, hn, hcv] at h
  -- coherence of the cell after writing the freshly evaluated value
  have cellCoh : ∀ (w1 : World Val Err Op) (v : Val), StaticEq w w1 → CohOn S P w1 →
      eval S w.vals rt.expr = .ok v → CohOn S P (w1.setCell nd.cell v) := by
    intro w1 v s1 c1 hv
    apply cohOn_setCell c1
    intro i ndi hpi hi hprev hcell
    obtain ⟨ndi0, g1, g2⟩ := s1.node' hi
    have e : ∀ {α} (f : NStat Val Op → α), f ndi.toNStat = f ndi0.toNStat := fun f => by rw [g2]
    have := root_expr_of_cell hwf hn r1 g1 ((e (·.prev)).symm.trans hprev) ((e (·.cell)).symm.trans hcell)
    rw [s1.vals, show ndi.expr = ndi0.expr from e (·.expr), this]; exact hv
  cases cv with
  | none =>
    simp only at h
    rw [← r4] at h
    cases h1 : run S f (.fn rt.fn) w with
    | mk r1' w1 =>
      simp only [h1] at h
      cases r1' with
      | error x =>
        simp only [Prod.mk.injEq] at h
        obtain ⟨rfl, rfl⟩ := h
        have p1 := ih (.fn rt.fn) w _ _ hwf hcl hc okfn h1 hr
        obtain ⟨e1, he1, hv1⟩ := p1.val
        rw [show callExpr w (.fn rt.fn) = fnExprOf w rt.fn from rfl, hfe] at he1; cases he1
        exact ⟨p1.stat, p1.coh, p1.frame, ⟨_, hE, hv1⟩, fun _ _ _ _ _ h => by simp at h⟩
      | ok v =>
        simp only [Prod.mk.injEq] at h
        obtain ⟨rfl, rfl⟩ := h
        have p1 := ih (.fn rt.fn) w _ _ hwf hcl hc okfn h1 (by simp)
        obtain ⟨e1, he1, hv1⟩ := p1.val
        rw [show callExpr w (.fn rt.fn) = fnExprOf w rt.fn from rfl, hfe] at he1; cases he1
        have hv := liftPy_ok_inv hv1
        obtain ⟨nd1, g1, g2⟩ := p1.stat.node hn
        refine ⟨p1.stat.trans (staticEq_setCell _ _ _), cellCoh w1 v p1.stat p1.coh hv,
          Frame.trans p1.stat p1.frame (frame_setCell' w1 nd.cell v ⟨n, nd1, hp, g1, by
            rw [show nd1.cell = nd1.toNStat.cell from rfl, g2]⟩), ⟨_, hE, by simp [hv, liftPy]⟩, ?_⟩
        intro n' nd' v' hcall hn' hv'
        cases hcall
        rw [hn] at hn'; cases hn'
        simp only [Except.ok.injEq] at hv'; subst hv'
        have : nd.cell < w1.cells.length := by rw [p1.stat.cellsLen]; exact nwf.cell
        simp [World.setCell, List.getElem?_set, this]
  | some v0 =>
    simp only [r1] at h
    by_cases hd : rt.dirtyObj = true
    · simp only [hd, if_true] at h
      cases h1 : run S f (.fn rt.fn) w with
      | mk r1' w1 =>
        simp only [h1] at h
        cases r1' with
        | error x =>
          simp only [Prod.mk.injEq] at h
          obtain ⟨rfl, rfl⟩ := h
          have p1 := ih (.fn rt.fn) w _ _ hwf hcl hc okfn h1 hr
          obtain ⟨e1, he1, hv1⟩ := p1.val
          rw [show callExpr w (.fn rt.fn) = fnExprOf w rt.fn from rfl, hfe] at he1; cases he1
          exact ⟨p1.stat, p1.coh, p1.frame, ⟨_, hE, hv1⟩, fun _ _ _ _ _ h => by simp at h⟩
        | ok v =>
          simp only [Prod.mk.injEq] at h
          obtain ⟨rfl, rfl⟩ := h
          have p1 := ih (.fn rt.fn) w _ _ hwf hcl hc okfn h1 (by simp)
          obtain ⟨e1, he1, hv1⟩ := p1.val
          rw [show callExpr w (.fn rt.fn) = fnExprOf w rt.fn from rfl, hfe] at he1; cases he1
          have hv := liftPy_ok_inv hv1
          obtain ⟨nd1, g1, g2⟩ := p1.stat.node hn
          obtain ⟨rt1, g3, g4⟩ := p1.stat.node r1
          have hlen : nd.cell < w1.cells.length := by rw [p1.stat.cellsLen]; exact nwf.cell
          have s2 : StaticEq w1 (w1.setCell rt.cell v) := staticEq_setCell _ _ _
          have c2 : CohOn S P (w1.setCell rt.cell v) := by rw [r5]; exact cellCoh w1 v p1.stat p1.coh hv
          have g3' : (w1.setCell rt.cell v).nodes[nd.root]? = some rt1 := g3
          refine ⟨(p1.stat.trans s2).trans (staticEq_modNode _ _ _ (fun _ => rfl)), ?_, ?_,
            ⟨_, hE, by simp [hv, liftPy]⟩, ?_⟩
          · apply cohOn_clearDirtyObj c2 g3'
            intro _ v' hv'
            have e1 : rt1.cell = rt.cell := by rw [show rt1.cell = rt1.toNStat.cell from rfl, g4]
            have e2 : rt1.expr = rt.expr := by rw [show rt1.expr = rt1.toNStat.expr from rfl, g4]
            rw [e1] at hv'
            have : rt.cell < w1.cells.length := by rw [r5]; exact hlen
            simp only [World.setCell, List.getElem?_set, if_true, this, Option.some.injEq] at hv'
            subst hv'
            show eval S w1.vals rt1.expr = .ok v
            rw [p1.stat.vals, e2]; exact hv
          · refine Frame.trans (p1.stat.trans s2) (Frame.trans p1.stat p1.frame
              (frame_setCell' w1 rt.cell v ⟨n, nd1, hp, g1, by
                rw [show nd1.cell = nd1.toNStat.cell from rfl, g2, r5]⟩)) (frame_modNode _ _ _ hproot)
          · intro n' nd' v' hcall hn' hv'
            cases hcall
            rw [hn] at hn'; cases hn'
            simp only [Except.ok.injEq] at hv'; subst hv'
            have : rt.cell < w1.cells.length := by rw [r5]; exact hlen
            simp [World.modNode, World.setCell, List.getElem?_set, this, ← r5]
    · have hd' : rt.dirtyObj = false := by simpa using hd
      simp only [hd', Bool.false_eq_true, if_false, Prod.mk.injEq] at h
      obtain ⟨rfl, rfl⟩ := h
      have hv : eval S w.vals rt.expr = .ok v0 :=
        (hc nd.root rt hproot r1).cell r2 hd' v0 (by rw [r5]; exact hcv)
      exact ⟨StaticEq.refl _, hc, Frame.refl _ _, ⟨_, hE, by simp [hv, liftPy]⟩, fun n' nd' v' hcall hn' hv' => by
        cases hcall
        rw [hn] at hn'; cases hn'
        simp only [Except.ok.injEq] at hv'; subst hv'; exact hcv⟩

theorem finish_store {S : Sem Val Err Op} {P : NId → Prop} {w w2 : World Val Err Op} {n : NId}
    {nd : Node Val Err Op} {v : Val} (hp : P n) (hn : w.nodes[n]? = some nd) (s : StaticEq w w2)
    (c : CohOn S P w2) (fr : Frame P w w2) (hv : eval S w.vals nd.expr = .ok v) :
    Post S P w (.resolve n) (.ok v) (w2.store n v) := by
  obtain ⟨nd2, g1, g2⟩ := s.node hn
  have e2 : nd2.expr = nd.expr := by rw [show nd2.expr = nd2.toNStat.expr from rfl, g2]
  refine ⟨s.trans (staticEq_store _ _ _), cohOn_store c g1 (by rw [s.vals, e2]; exact hv),
    Frame.trans s fr (frame_modNode _ _ _ hp), ⟨nd.expr, by simp [callExpr, hn], by simp [hv, liftPy]⟩,
    fun _ _ _ h => by simp at h⟩

theorem finish_error {S : Sem Val Err Op} {P : NId → Prop} {w w2 : World Val Err Op} {n : NId}
    {nd : Node Val Err Op} {e : Err} (hp : P n) (hn : w.nodes[n]? = some nd) (s : StaticEq w w2)
    (c : CohOn S P w2) (fr : Frame P w w2) (hv : eval S w.vals nd.expr = .error e) :
    Post S P w (.resolve n) (.error (.py e)) (w2.setError n e) := by
  obtain ⟨nd2, g1, g2⟩ := s.node hn
  have e2 : nd2.expr = nd.expr := by rw [show nd2.expr = nd2.toNStat.expr from rfl, g2]
  refine ⟨s.trans (staticEq_setError _ _ _), cohOn_setError c g1 (by rw [s.vals, e2]; exact hv),
    Frame.trans s fr (frame_modNode _ _ _ hp), ⟨nd.expr, by simp [callExpr, hn], by simp [hv, liftPy]⟩,
    fun _ _ _ h => by simp at h⟩

theorem run_resolve {S : Sem Val Err Op} {P : NId → Prop} {f : Nat} (ih : RunSpec S P f) (n : NId)
    (w : World Val Err Op) (r : Res Err Val) (w' : World Val Err Op)
    (hwf : WF w) (hcl : Closed P w) (hc : CohOn S P w) (hok : CallOK P w (.resolve n))
    (h : run S (f + 1) (.resolve n) w = (r, w')) (hr : r ≠ .error .fuel) : Post S P w (.resolve n) r w' := by
  obtain ⟨hp, nd, hn⟩ := hok
  have nwf := hwf.node n nd hn
  obtain ⟨rt, r1, r2, r3, r4, r5, r6⟩ := nwf.root
  obtain ⟨hproot, hpprev, hpargs, _⟩ := hcl n nd hp hn
  have cn := hc n nd hp hn
  have hE : callExpr w (.resolve n) = some nd.expr := by simp [callExpr, hn]
  simp only [run, hn] at h
  cases herr : nd.error with
  | some e =>
    simp only [herr, Prod.mk.injEq] at h
    obtain ⟨rfl, rfl⟩ := h
    exact ⟨StaticEq.refl _, hc, Frame.refl _ _, ⟨_, hE, by simp [cn.err e herr, liftPy]⟩, fun _ _ _ h => by simp at h⟩
  | none =>
    simp only [herr, r1] at h
    by_cases hd : (nd.dirty || rt.dirtyObj) = true
    · simp only [hd, if_true] at h
      cases hprev : nd.prev with
      | none =>
        obtain ⟨hop, _⟩ := nwf.isRoot hprev
        have hself : nd.root = n := nwf.rootSelf hprev
        have hrt : rt = nd := by rw [hself, hn] at r1; exact (Option.some.inj r1).symm
        simp only [hprev, hop] at h
        cases h1 : run S f (.obj n) w with
        | mk r1' w1 =>
          simp only [h1] at h
          have hEo : callExpr w (.obj n) = some nd.expr := by simp [callExpr, hn, hself]
          cases r1' with
          | ok obj =>
            simp only [Prod.mk.injEq] at h
            obtain ⟨rfl, rfl⟩ := h
            have p1 := ih (.obj n) w _ _ hwf hcl hc ⟨hp, nd, hn⟩ h1 (by simp)
            obtain ⟨e1, he1, hv1⟩ := p1.val
            rw [hEo] at he1; cases he1
            exact finish_store hp hn p1.stat p1.coh p1.frame (liftPy_ok_inv hv1)
          | error x =>
            cases x with
            | py e =>
              simp only [Prod.mk.injEq] at h
              obtain ⟨rfl, rfl⟩ := h
              have p1 := ih (.obj n) w _ _ hwf hcl hc ⟨hp, nd, hn⟩ h1 (by simp)
              obtain ⟨e1, he1, hv1⟩ := p1.val
              rw [hEo] at he1; cases he1
              obtain ⟨e', he', hl⟩ := liftPy_err_inv hv1
              cases he'
              exact finish_error hp hn p1.stat p1.coh p1.frame hl
            | fuel =>
              simp only [Prod.mk.injEq] at h
              exact absurd h.1.symm hr
            | bad =>
              have p1 := ih (.obj n) w _ _ hwf hcl hc ⟨hp, nd, hn⟩ h1 (by simp)
              obtain ⟨e1, _, hv1⟩ := p1.val
              obtain ⟨e', he', _⟩ := liftPy_err_inv hv1
              cases he'
      | some p =>
        obtain ⟨pd, o, es, d1, d2, d3, d4, d5⟩ := nwf.derived p hprev
        simp only [hprev, d3] at h
        have okp : CallOK P w (.resolve p) := ⟨hpprev p hprev, pd, d1⟩
        have hEp : callExpr w (.resolve p) = some pd.expr := by simp [callExpr, d1]
        cases h1 : run S f (.resolve p) w with
        | mk r1' w1 =>
          simp only [h1] at h
          cases r1' with
          | error x =>
            cases x with
            | py e =>
              simp only [Prod.mk.injEq] at h
              obtain ⟨rfl, rfl⟩ := h
              have p1 := ih (.resolve p) w _ _ hwf hcl hc okp h1 (by simp)
              obtain ⟨e1, he1, hv1⟩ := p1.val
              rw [hEp] at he1; cases he1
              obtain ⟨e', he', hl⟩ := liftPy_err_inv hv1
              cases he'
              exact finish_error hp hn p1.stat p1.coh p1.frame (by rw [d5]; simp [eval, hl])
            | fuel =>
              simp only [Prod.mk.injEq] at h
              exact absurd h.1.symm hr
            | bad =>
              have p1 := ih (.resolve p) w _ _ hwf hcl hc okp h1 (by simp)
              obtain ⟨e1, _, hv1⟩ := p1.val
              obtain ⟨e', he', _⟩ := liftPy_err_inv hv1
              cases he'
          | ok obj =>
            have p1 := ih (.resolve p) w _ _ hwf hcl hc okp h1 (by simp)
            obtain ⟨e1, he1, hv1⟩ := p1.val
            rw [hEp] at he1; cases he1
            have hobj := liftPy_ok_inv hv1
            have hwf1 := hwf.of_staticEq p1.stat
            have hcl1 := hcl.of_staticEq p1.stat
            have hargs : ∀ a ∈ o.args, CallOK P w1 (.arg a) := fun a ha =>
              ⟨fun m hm => hpargs o d3 m (hm ▸ ha), by
                rw [argExpr_staticEq p1.stat]; exact argExprs_mem o.args es d4 a ha⟩
            simp only at h
            cases h2 : argsWith (fun a => run S f (.arg a)) o.args w1 with
            | mk r2 w2 =>
              simp only [h2] at h
              have hr2 : r2 ≠ .error .fuel := by
                intro hh; subst hh; simp only [Prod.mk.injEq] at h; exact hr h.1.symm
              obtain ⟨s2, c2, f2, es', hes', hv2⟩ := argsWith_correct ih o.args w1 r2 w2 hwf1 hcl1 p1.coh hargs h2 hr2
              rw [argExprs_staticEq p1.stat, d4] at hes'; cases hes'
              rw [p1.stat.vals] at hv2
              have s12 := p1.stat.trans s2
              have f12 := Frame.trans p1.stat p1.frame f2
              cases r2 with
              | ok vs =>
                have hvs := liftPy_ok_inv hv2
                simp only at h
                cases hap : S.apply o.op (arrange o.reverse obj vs) with
                | ok v =>
                  simp only [hap, Prod.mk.injEq] at h
                  obtain ⟨rfl, rfl⟩ := h
                  exact finish_store hp hn s12 c2 f12 (by rw [d5]; simp [eval, hobj, hvs, hap])
                | error e =>
                  simp only [hap, Prod.mk.injEq] at h
                  obtain ⟨rfl, rfl⟩ := h
                  exact finish_error hp hn s12 c2 f12 (by rw [d5]; simp [eval, hobj, hvs, hap])
              | error x =>
                obtain ⟨e', he', hl⟩ := liftPy_err_inv hv2
                subst he'
                simp only [Prod.mk.injEq] at h
                obtain ⟨rfl, rfl⟩ := h
                exact finish_error hp hn s12 c2 f12 (by rw [d5]; simp [eval, hobj, hl])
    · have hd' : (nd.dirty || rt.dirtyObj) = false := by simpa using hd
      simp only [hd', Bool.false_eq_true, if_false, Prod.mk.injEq] at h
      obtain ⟨rfl, rfl⟩ := h
      have hdirty : nd.dirty = false := by
        cases hh : nd.dirty <;> simp [hh] at hd' ⊢
      exact ⟨StaticEq.refl _, hc, Frame.refl _ _, ⟨_, hE, by simp [cn.val herr hdirty, liftPy]⟩,
        fun _ _ _ h => by simp at h⟩

theorem run_correct (S : Sem Val Err Op) (P : NId → Prop) : ∀ f, RunSpec S P f
  | 0 => by
    intro call w r w' _ _ _ _ h hr
    simp only [run, Prod.mk.injEq] at h
    exact absurd h.1.symm hr
  | f + 1 => by
    intro call w r w' hwf hcl hc hok h hr
    have ih := run_correct S P f
    cases call with
    | resolve n => exact run_resolve ih n w r w' hwf hcl hc hok h hr
    | obj n => exact run_obj ih n w r w' hwf hcl hc hok h hr
    | fn fnc => exact run_fn ih fnc w r w' hwf hcl hc hok h hr
    | arg a => exact run_arg ih a w r w' hwf hcl hc hok h hr

end
end ParamVerif.Rx
