"""Shared by C02/C08: executes a history of link / assignment / source-update operations on real
Parameterized objects and records the observations the Lean driver understands
(lean/ParamVerif/Refs/Model.lean, lean/Driver/Refs.lean).

Case format
  prop     : "C02" | "C08"                 which oracle the driver evaluates
  nsp      : number of Integer parameters v0.. of every source object
  src_init : [[int, ...], ...]             one row per source object S0, S1, ...
  targets  : [{"params": [pdecl, ...], "ctor": [[pidx, rhs], ...]}, ...]   target t has its own class T<t>
     pdecl : {"kind": "int"|"pair", "lo": int|None, "hi": int|None, "default": val,
              "constant": b, "readonly": b, "allow_refs": b, "nested_refs": b}
  ops      : [op, ...]                     each run under try/except
     {"op":"set","t":t,"p":p,"rhs":rhs}          t.p = rhs                (instance route)
     {"op":"setCls","t":t,"p":p,"rhs":rhs}       T<t>.p = rhs             (class route)
     {"op":"update","t":t,"kvs":[[p,rhs],..]}    t.param.update({...})    (update route)
     {"op":"ctxEnter","t":t,"kvs":[[p,rhs],..]}  r = t.param.update({...}); r.__enter__()   (restorer pushed)
     {"op":"ctxExit"}                            r.__exit__(None, None, None)               (restorer popped)
     {"op":"srcSet","s":s,"i":i,"v":n}           S<s>.v<i> = n
  rhs  : {"k":"atom","a":atom} | {"k":"cont","items":[atom, ...]}        a tuple of atoms
  atom : {"a":"lit","n":int} | {"a":"par","s":s,"i":i}                   S<s>.param.v<i>
       | {"a":"fn","deps":[[s,i],..],"k":int,"rx":bool}                  bind(lambda *a: k+sum(a), deps…) or the rx expression k + dep.rx() + …
  val  : int | [int, ...]

Observation: {"ctor_err": null | name, "init": state, "steps": [state + {"err":…, "log":[…]}, …]}
  state = {"src": [[int]], "tgt": [[val]], "cls": [[val]], "refs": [[[p, rhs], ...]],
           "watch": [[[t, ...] per parameter] per source]}     -- `_sync_refs` watchers, registration order
  log   = [["s"|"t", index, [[p, new], ...]], ...]             -- one entry per call of the universal watcher
For C02 the observation also has "twin": the steps of the same history with every rejected
assignment left out (an `update` rejected at its k-th key is replaced by the update of the keys before).
"""


def _err_name(e):
    if isinstance(e, ValueError):
        return 'ValueError'
    if isinstance(e, TypeError):
        return 'TypeError'
    return 'other:' + type(e).__name__


def _jval(v):
    if isinstance(v, bool) or not isinstance(v, (int, tuple, list)):
        raise RuntimeError(f'unexpected value {v!r}')
    if isinstance(v, int):
        return v
    out = []
    for x in v:
        if isinstance(x, bool) or not isinstance(x, int):
            raise RuntimeError(f'unexpected item {x!r}')
        out.append(x)
    return out


class Runner:
    def __init__(self, case):
        import param
        from param.parameterized import Parameters
        self.param = param
        self.sync_func = Parameters._sync_refs
        self.case = case
        self.log = []
        self.refdesc = {}      # id(reference object) -> rhs json   (objects kept alive in self.keep)
        self.keep = []
        self.stack = []
        nsp = case['nsp']
        self.snames = [f'v{i}' for i in range(nsp)]
        S = type('S', (param.Parameterized,), {n: param.Integer(default=0) for n in self.snames})
        self.srcs = []
        for k, row in enumerate(case['src_init']):
            s = S(**{n: v for n, v in zip(self.snames, row)})
            self.srcs.append(s)
            self._universal(s, 's', k, self.snames)
        self.tcls, self.tgts, self.tnames = [], [], []
        for t, td in enumerate(case['targets']):
            ns, names = {}, []
            for i, pd in enumerate(td['params']):
                kw = dict(bounds=(pd['lo'], pd['hi']), constant=pd['constant'], readonly=pd['readonly'],
                          allow_refs=pd['allow_refs'], nested_refs=pd['nested_refs'])
                if pd['kind'] == 'int':
                    ns[f'p{i}'] = param.Integer(default=pd['default'], **kw)
                else:
                    ns[f'p{i}'] = param.Range(default=tuple(pd['default']), **kw)
                names.append(f'p{i}')
            self.tcls.append(type(f'T{t}', (param.Parameterized,), ns))
            self.tnames.append(names)

    def construct(self):
        """-> exception name or None"""
        for t, td in enumerate(self.case['targets']):
            kw = {}
            for p, rhs in td['ctor']:
                kw[self.tnames[t][p]] = self.mk_rhs(rhs)
            try:
                obj = self.tcls[t](**kw)
            except (ValueError, TypeError) as e:
                return _err_name(e)
            self.tgts.append(obj)
            self._universal(obj, 't', t, self.tnames[t])
        return None

    def _universal(self, obj, kind, idx, names):
        def cb(*events, _kind=kind, _idx=idx, _names=names):
            self.log.append([_kind, _idx, [[_names.index(e.name), _jval(e.new)] for e in events]])
        obj.param.watch(cb, list(names), onlychanged=False)

    # -- references ---------------------------------------------------------
    def mk_atom(self, a):
        if a['a'] == 'lit':
            return a['n']
        if a['a'] == 'par':
            return self.srcs[a['s']].param[self.snames[a['i']]]
        deps = [self.srcs[s].param[self.snames[i]] for s, i in a['deps']]
        k = a['k']
        if a.get('rx') and deps:
            e = deps[0].rx()
            for d in deps[1:]:
                e = e + d.rx()
            return e + k
        return self.param.bind(lambda *xs, _k=k: _k + sum(xs), *deps)

    def mk_rhs(self, rhs):
        if rhs['k'] == 'atom':
            o = self.mk_atom(rhs['a'])
        else:
            o = tuple(self.mk_atom(a) for a in rhs['items'])
        if not isinstance(o, int):
            self.keep.append(o)
            self.refdesc[id(o)] = rhs
        return o

    # -- observation --------------------------------------------------------
    def state(self):
        refs, watch = [], []
        for t, obj in enumerate(self.tgts):
            row = []
            for name, ref in obj._param__private.refs.items():
                d = self.refdesc.get(id(ref))
                if d is None:
                    raise RuntimeError(f'unknown reference object {ref!r}')
                row.append([self.tnames[t].index(name), d])
            refs.append(row)
        tids = {id(o): t for t, o in enumerate(self.tgts)}
        for s in self.srcs:
            per = []
            for n in self.snames:
                lst = s._param__private.watchers.get(n, {}).get('value', [])
                per.append([tids.get(id(w.fn.__self__.self), -1) for w in lst
                            if getattr(w.fn, '__func__', None) is self.sync_func])
            watch.append(per)
        return {'src': [[getattr(s, n) for n in self.snames] for s in self.srcs],
                'tgt': [[_jval(getattr(o, n)) for n in self.tnames[t]] for t, o in enumerate(self.tgts)],
                'cls': [[_jval(getattr(self.tcls[t], n)) for n in self.tnames[t]] for t in range(len(self.tgts))],
                'refs': refs, 'watch': watch}

    # -- operations ---------------------------------------------------------
    def do(self, op):
        o = op['op']
        if o == 'set':
            setattr(self.tgts[op['t']], self.tnames[op['t']][op['p']], self.mk_rhs(op['rhs']))
        elif o == 'setCls':
            if op['rhs']['k'] == 'atom' and op['rhs']['a']['a'] == 'par':
                # `T.p = <Parameter>` redefines the parameter (metaclass __setattr__), it is not an assignment
                raise NotImplementedError('class-level assignment of a Parameter object')
            setattr(self.tcls[op['t']], self.tnames[op['t']][op['p']], self.mk_rhs(op['rhs']))
        elif o in ('update', 'ctxEnter'):
            t = op['t']
            kw = [(self.tnames[t][p], self.mk_rhs(r)) for p, r in op['kvs']]
            r = self.tgts[t].param.update(kw)      # an iterable of pairs keeps duplicate keys as written
            if o == 'ctxEnter':
                r.__enter__()
                self.stack.append(r)
        elif o == 'ctxExit':
            if not self.stack:
                raise IndexError('no open context')
            self.stack.pop().__exit__(None, None, None)
        elif o == 'srcSet':
            setattr(self.srcs[op['s']], self.snames[op['i']], op['v'])
        else:
            raise RuntimeError(o)

    def run_ops(self, ops):
        steps = []
        for op in ops:
            del self.log[:]
            err = None
            try:
                self.do(op)
            except (ValueError, TypeError) as e:
                err = _err_name(e)
            except IndexError:
                err = 'noctx'
            except NotImplementedError:
                err = 'unsupported'
            st = self.state()
            st['err'] = err
            st['log'] = [list(x) for x in self.log]
            steps.append(st)
        return steps


def _run(case, ops):
    r = Runner(case)
    ce = r.construct()
    if ce is not None:
        return {'ctor_err': ce, 'init': None, 'steps': []}
    init = r.state()
    return {'ctor_err': None, 'init': init, 'steps': r.run_ops(ops)}


ASSIGN_OPS = ('set', 'setCls', 'update', 'ctxEnter')


def twin_ops(ops, steps):
    """the history with every rejected assignment left out"""
    out = []
    for op, st in zip(ops, steps):
        if st['err'] is not None and op['op'] in ASSIGN_OPS:
            if op['op'] in ('update', 'ctxEnter'):
                announced = sum(len(e[2]) for e in st['log'] if e[0] == 't' and e[1] == op['t'])
                out.append({'op': 'update', 't': op['t'], 'kvs': op['kvs'][:announced]})
            else:
                out.append({'op': 'update', 't': op['t'], 'kvs': []})
        else:
            out.append(op)
    return out


def run_impl(case):
    try:
        out = _run(case, case['ops'])
        if case.get('prop') == 'C02' and out['ctor_err'] is None:
            out['twin'] = _run(case, twin_ops(case['ops'], out['steps']))['steps']
        return out
    except Exception as e:
        import traceback
        return {'crash': f'{type(e).__name__}: {e} @ {traceback.format_exc().splitlines()[-3].strip()}'[:400]}
