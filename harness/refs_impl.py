"""Shared by C02/C08: executes a history of link / assignment / source-update operations on real
Parameterized objects and records the observations the Lean driver understands
(lean/ParamVerif/Refs/Model.lean, lean/Driver/Refs.lean).

Case format
  prop     : "C02" | "C08"                 which oracle the driver evaluates
  hooks    : [{"t":t,"a":a,"b":b,"k":k}, ...]   user watchers that assign: T<t>.param.watch(cb, ['p<a>'], onlychanged=False),
                                           cb: `try: t.p<b> = k  except (ValueError, TypeError): pass`  (registered after the
                                           universal watcher; they do not chain and do not assign what they watch)
  falsy_src: bool (default false)          the source class defines __bool__ -> False (an "empty" Parameterized)
  ev_watch : bool (default false)          every target gets two watchers of its Event parameter e_: the first (precedence 0)
                                           makes a rejected assignment `t.e_ = 'junk'` (ValueError, swallowed), the second
                                           (precedence 1) reads t.e_ — it must still read what its event announces
  nsread   : bool (default false)          the targets' Parameter classes read `self.owner.param` while validating
  sub      : bool (default false)          every target class T<t> is an empty subclass of a class that declares the
                                           parameters, so a class-level assignment `T<t>.p = v` meets an *inherited* Parameter
  nsp      : number of Integer parameters v0.. of every source object
  src_init : [[int, ...], ...]             one row per source object S0, S1, ...
  targets  : [{"params": [pdecl, ...], "ctor": [[pidx, rhs], ...]}, ...]   target t has its own class T<t>
     pdecl : {"kind": "int"|"pair"|"any" (param.Integer | param.Range | param.Parameter: no validation), "lo": int|None, "hi": int|None, "default": val,
              "constant": b, "readonly": b, "allow_refs": b, "nested_refs": b, "per_instance": b (default true;
              harness only: with per_instance=False the instance has no Parameter copy of its own, `t.param.p` is the
              class Parameter — values, links and watchers are per instance all the same, so the model is unchanged)}
  ops      : [op, ...]                     each run under try/except
     {"op":"set","t":t,"p":p,"rhs":rhs}          t.p = rhs                (instance route)
     {"op":"setCls","t":t,"p":p,"rhs":rhs}       T<t>.p = rhs             (class route)
     {"op":"update","t":t,"kvs":[[p,rhs],..]}    t.param.update({...})    (update route; "form": "pos" positional
                                                 iterable of pairs (default), "dict" positional dict, "kw" keywords)
     {"op":"ctxEnter","t":t,"kvs":[[p,rhs],..]}  r = t.param.update({...}); r.__enter__()   (restorer pushed)
     {"op":"ctxExit"}                            r.__exit__(None, None, None)               (restorer popped)
     {"op":"srcSet","s":s,"i":i,"v":n}           S<s>.v<i> = n
     {"op":"lock","t":t,"p":p}                   t.param.p<p>.constant = True   (the instance's own Parameter copy)
     {"op":"trigger","t":t}                      t.e_ = True   (the Event fires its watchers and resets itself; a no-op for the model)
     {"op":"setClsX","t":t,"which":"nan"|"gen"}  a REJECTED class-level assignment to one of two extra Number parameters every
                                                 target class has: `T.nan_ = 'bad'` (nan_: default float('nan')) / `T.gen_ = -1`
                                                 (gen_: bounds (0, None), class default a callable generator); for the model an
                                                 `update` naming an unknown key: ValueError, nothing changes
  rhs  : {"k":"atom","a":atom} | {"k":"cont","items":[atom, ...]}        a tuple of atoms
       | {"k":"cont2","rows":[[atom, ...], ...]}                         a tuple of tuples of atoms (for kind "any")
       | {"k":"gen"}   the case's shared number generator (a plain callable, i.e. a Dynamic value; it is also the
                       value of the witness parameter W.a); only ever assigned where it must be rejected: a
                       readonly Integer parameter (callables bypass Number validation, the guard raises TypeError)
  update / ctxEnter may carry "ev": "first"|"last": the update also names the target's Event parameter `e_`
  (e_=True as first / last key); the model ignores it (no watcher on e_, it resets itself)
  atom : {"a":"lit","n":int} | {"a":"par","s":s,"i":i}                   S<s>.param.v<i>
       | {"a":"fn","deps":[[s,i],..],"k":int,"rx":bool,"sk":int|None}    bind(lambda *a: k+sum(a), deps…) or the rx expression k + dep.rx() + …;
                                                                         sk: the bound function raises param.Skip when k+sum(a) < sk;
                                                                         "shape" (harness only): pos | kw | nested | nestedkw | dep | nesteddep |
                                                                         nestedkwdep — how the
                                                                         function is bound (positional / keyword Parameters, a bound
                                                                         function as positional / keyword argument); same value
  val  : int | [int, ...]

Observation: {"ctor_err": null | name, "init": state, "steps": [state + {"err":…, "log":[…]}, …]}
  state = {"src": [[int]], "tgt": [[val]], "cls": [[val]], "refs": [[[p, rhs], ...]],
           "watch": [[[t, ...] per parameter] per source],     -- `_sync_refs` watchers, registration order
           "own": [[1 if T<t> itself holds the Parameter p (not inherited) ...] per target],
           "aux": [[e_ value, e_ mode, class e_ mode, constant flag of each parameter (the instance's Parameter, then
                    the class Parameter), "the class namespace names the Parameter that attribute lookup finds" per
                    parameter, syncing names...] per target] + [[W.a, inspect_value(W.a)]]}
             -- state that must never move: the Event parameter idle (False, 'set-reset'), `syncing` empty,
             -- the shared generator's witness value (under Dynamic.time_dependent) undisturbed
  log   = [["s"|"t", index, [[p, new], ...]], ...]             -- one entry per call of the universal watcher
For C02 the observation also has "twin": the steps of the same history with every rejected
assignment left out (an `update` rejected at its k-th key is replaced by the update of the keys before).
"""


import inspect
import json


def _err_name(e):
    if isinstance(e, ValueError):
        return 'ValueError'
    if isinstance(e, TypeError):
        return 'TypeError'
    return 'other:' + type(e).__name__


UNRESOLVED = -424242      # stands for "an object that is no integer" (e.g. a reference left unresolved inside a value)


def _jint(x):
    return UNRESOLVED if isinstance(x, bool) or not isinstance(x, int) else x


def _jval(v):
    if isinstance(v, bool) or not isinstance(v, (int, tuple, list)):
        return UNRESOLVED
    if isinstance(v, int):
        return v
    out = []
    for x in v:
        if isinstance(x, (tuple, list)):
            out.append([_jint(y) for y in x])
        else:
            out.append(_jint(x))
    if any(isinstance(x, list) for x in out) and not all(isinstance(x, list) for x in out):
        out = [x if isinstance(x, list) else [x] for x in out]
    return out


def _atom_is_lit(a):
    return a['a'] == 'lit'


def rhs_atoms(rhs):
    if rhs['k'] == 'atom':
        return [rhs['a']]
    if rhs['k'] == 'cont':
        return list(rhs['items'])
    return [a for row in rhs['rows'] for a in row]


def rhs_is_lit(rhs):
    if rhs['k'] == 'gen':
        return False
    return all(_atom_is_lit(a) for a in rhs_atoms(rhs))


def rhs_supported(rhs):
    atoms = rhs_atoms(rhs)
    return not any(a['a'] == 'fn' and not a['deps'] for a in atoms)


def gen_supported(tdecl, p):
    """the shared generator is only assigned where the assignment must be rejected"""
    return p < len(tdecl['params']) and tdecl['params'][p]['kind'] == 'int' and tdecl['params'][p]['readonly']


def key_supported(tdecl, p, rhs):
    """mirror of Lean `keySupported`: what lies outside the model is refused, not executed"""
    if rhs['k'] == 'gen':
        return gen_supported(tdecl, p)
    if p >= len(tdecl['params']):
        return rhs_is_lit(rhs)
    pd = tdecl['params'][p]
    has_deps = (rhs['k'] == 'atom' or pd['nested_refs']) and any(a['a'] != 'lit' for a in rhs_atoms(rhs))
    # (an unvalidated parameter would store a container that still holds reference objects)
    return rhs_supported(rhs) and (pd['allow_refs'] or rhs_is_lit(rhs)) and (pd['kind'] != 'any' or rhs_is_lit(rhs) or has_deps)


def _norm_atom(a):
    if a['a'] == 'fn':
        return {'a': 'fn', 'deps': [list(d) for d in a['deps']], 'k': a['k'], 'rx': bool(a.get('rx')) and a.get('sk') is None,
                'sk': a.get('sk')}
    return a


def norm_rhs(rhs):
    """canonical description of a right-hand side (what the refs table is reported as)"""
    if rhs['k'] == 'gen':
        return rhs
    if rhs['k'] == 'atom':
        return {'k': 'atom', 'a': _norm_atom(rhs['a'])}
    if rhs['k'] == 'cont2':
        return {'k': 'cont2', 'rows': [[_norm_atom(a) for a in row] for row in rhs['rows']]}
    return {'k': 'cont', 'items': [_norm_atom(a) for a in rhs['items']]}


class Runner:
    def __init__(self, case):
        import param
        from param.parameterized import Parameters
        self.param = param
        self.sync_func = Parameters._sync_refs
        self.case = case
        self.log = []
        self.refdesc = {}      # id(reference object) -> rhs json   (objects kept alive in self.keep)
        self.keep = []
        self.stack = []
        nsp = case['nsp']
        self.snames = [f'v{i}' for i in range(nsp)]
        sns = {n: param.Integer(default=0) for n in self.snames}
        if case.get('falsy_src'):
            sns['__bool__'] = lambda self: False          # truthiness must never matter to the link machinery
        S = type('S', (param.Parameterized,), sns)
        self.srcs = []
        for k, row in enumerate(case['src_init']):
            s = S(**{n: v for n, v in zip(self.snames, row)})
            self.srcs.append(s)
            self._universal(s, 's', k, self.snames)
        Int_, Range_ = param.Integer, param.Range
        if case.get('nsread'):
            def _look(p):
                o = getattr(p, 'owner', None)
                if o is not None and p.name:
                    o.param.objects(instance=False).get(p.name)        # a validator may consult its owner's namespace

            class Int_(param.Integer):
                def _validate_value(self, val, allow_None):
                    _look(self)
                    super()._validate_value(val, allow_None)

            class Range_(param.Range):
                def _validate_value(self, val, allow_None):
                    _look(self)
                    super()._validate_value(val, allow_None)
        self.locked = set()
        self.tcls, self.tgts, self.tnames = [], [], []
        for t, td in enumerate(case['targets']):
            ns, names = {}, []
            for i, pd in enumerate(td['params']):
                kw = dict(bounds=(pd['lo'], pd['hi']), constant=pd['constant'], readonly=pd['readonly'],
                          allow_refs=pd['allow_refs'], nested_refs=pd['nested_refs'], per_instance=pd.get('per_instance', True))
                if pd['kind'] == 'any':
                    kw.pop('bounds')
                    d = pd['default']
                    ns[f'p{i}'] = param.Parameter(default=d if isinstance(d, int) else tuple(tuple(x) if isinstance(x, list) else x for x in d), **kw)
                elif pd['kind'] == 'int':
                    ns[f'p{i}'] = Int_(default=pd['default'], **kw)
                else:
                    ns[f'p{i}'] = Range_(default=tuple(pd['default']), **kw)
                names.append(f'p{i}')
            ns['e_'] = param.Event()
            # two parameters outside the model whose class-level state a rejected class-level assignment must not touch:
            # a default that is not equal to itself, and a callable (generator) default, which sets `instantiate`
            ns['nan_'] = param.Number(default=float('nan'))
            ns['gen_'] = param.Number(default=(lambda: 1), bounds=(0, None))
            if case.get('sub'):
                base = type(f'TB{t}', (param.Parameterized,), ns)
                self.tcls.append(type(f'T{t}', (base,), {}))
            else:
                self.tcls.append(type(f'T{t}', (param.Parameterized,), ns))
            self.tnames.append(names)

    def setup_witness(self):
        """the shared generator and the parameter that already holds it"""
        import itertools
        param = self.param
        counter = itertools.count(1)

        def gen():
            return next(counter)
        self.gen = gen
        W = type('W', (param.Parameterized,), {'a': param.Number(default=0)})
        self.wit = W()
        self.wit.a = gen
        self.wit.a          # produce the value for the current time

    def construct(self):
        """-> exception name or None"""
        self.setup_witness()
        for t, td in enumerate(self.case['targets']):
            kw = {}
            if not all(key_supported(td, p, rhs) for p, rhs in td['ctor']):
                return 'unsupported'
            for p, rhs in td['ctor']:
                kw[self.tnames[t][p] if p < len(self.tnames[t]) else f'q{p}'] = self.mk_rhs(rhs)
            try:
                obj = self.tcls[t](**kw)
            except (ValueError, TypeError) as e:
                return _err_name(e)
            self.tgts.append(obj)
            self._universal(obj, 't', t, self.tnames[t])
        for h in self.case.get('hooks', []):
            self._hook(h)
        self.late_read_ok = [1] * len(self.tgts)
        if self.case.get('ev_watch'):
            for t, obj in enumerate(self.tgts):
                self._event_watchers(t, obj)
        return None

    def _event_watchers(self, t, obj):
        def rejecting(event, _o=obj):
            try:
                _o.e_ = 'junk'                  # rejected by Event/Boolean validation
            except ValueError:
                pass

        def reading(event, _o=obj, _t=t):
            if bool(_o.e_) != bool(event.new):   # a rejected assignment made meanwhile must not have changed the Event
                self.late_read_ok[_t] = 0
        obj.param.watch(rejecting, ['e_'], onlychanged=False, precedence=0)
        obj.param.watch(reading, ['e_'], onlychanged=False, precedence=1)

    def _hook(self, h):
        obj, names = self.tgts[h['t']], self.tnames[h['t']]

        def cb(*events, _o=obj, _n=names[h['b']], _k=h['k']):
            try:
                setattr(_o, _n, _k)
            except (ValueError, TypeError):
                pass
        obj.param.watch(cb, [names[h['a']]], onlychanged=False)

    def _universal(self, obj, kind, idx, names):
        def cb(*events, _kind=kind, _idx=idx, _names=names):
            self.log.append([_kind, _idx, [[_names.index(e.name), _jval(e.new)] for e in events]])
        obj.param.watch(cb, list(names), onlychanged=False)

    # -- references ---------------------------------------------------------
    def mk_atom(self, a):
        if a['a'] == 'lit':
            return a['n']
        if a['a'] == 'par':
            return self.srcs[a['s']].param[self.snames[a['i']]]
        deps = [self.srcs[s].param[self.snames[i]] for s, i in a['deps']]
        k = a['k']
        sk = a.get('sk')
        if a.get('rx') and deps and sk is None:
            e = deps[0].rx()
            for d in deps[1:]:
                e = e + d.rx()
            return e + k
        Skip = self.param.parameterized.Skip
        bind = self.param.bind

        def result(total, _k=k, _sk=sk):
            if _sk is not None and _k + total < _sk:
                raise Skip()
            return _k + total
        # the same function k + sum(dependencies), bound in the different ways `bind` records dependencies:
        # positional Parameters, keyword Parameters, a bound function as positional / keyword argument
        shape = a.get('shape', 'pos') if deps else 'pos'
        if shape == 'kw':
            return bind(lambda **kw: result(sum(kw.values())), **{f'x{j}': d for j, d in enumerate(deps)})
        if shape == 'dep':             # a function decorated with param.depends(<Parameters>) is a reference itself
            return self.param.depends(*deps)(lambda *xs: result(sum(xs)))
        if shape in ('nested', 'nestedkw', 'nesteddep', 'nestedkwdep'):
            rest = deps[1:] or deps[:1]
            scale = 1 if len(deps) > 1 else 0
            if shape.endswith('dep'):   # the inner function records its dependencies positionally (depends), not by keyword (bind)
                inner = self.param.depends(*rest)(lambda *xs: scale * sum(xs))
            else:
                inner = bind(lambda *xs: scale * sum(xs), *rest)
            if shape in ('nested', 'nesteddep'):
                return bind(lambda a, b: result(a + b), deps[0], inner)
            return bind(lambda a=0, b=0: result(a + b), a=deps[0], b=inner)
        return bind(lambda *xs: result(sum(xs)), *deps)

    def mk_rhs(self, rhs):
        if rhs['k'] == 'gen':
            return self.gen
        if rhs['k'] == 'atom':
            o = self.mk_atom(rhs['a'])
        elif rhs['k'] == 'cont2':
            o = tuple(tuple(self.mk_atom(a) for a in row) for row in rhs['rows'])
        else:
            o = tuple(self.mk_atom(a) for a in rhs['items'])
        if not isinstance(o, int):
            self.keep.append(o)
            self.refdesc[id(o)] = norm_rhs(rhs)      # (the way the function was bound is not part of the description)
        return o

    # -- observation --------------------------------------------------------
    def state(self):
        refs, watch = [], []
        for t, obj in enumerate(self.tgts):
            row = []
            for name, ref in obj._param__private.refs.items():
                d = self.refdesc.get(id(ref))
                if d is None:
                    raise RuntimeError(f'unknown reference object {ref!r}')
                row.append([self.tnames[t].index(name), d])
            refs.append(row)
        tids = {id(o): t for t, o in enumerate(self.tgts)}
        for s in self.srcs:
            per = []
            for n in self.snames:
                lst = s._param__private.watchers.get(n, {}).get('value', [])
                per.append([tids.get(id(w.fn.__self__.self), -1) for w in lst
                            if getattr(w.fn, '__func__', None) is self.sync_func])
            watch.append(per)
        return {'src': [[getattr(s, n) for n in self.snames] for s in self.srcs],
                'tgt': [[_jval(getattr(o, n)) for n in self.tnames[t]] for t, o in enumerate(self.tgts)],
                'cls': [[_jval(getattr(self.tcls[t], n)) for n in self.tnames[t]] for t in range(len(self.tgts))],
                'refs': refs, 'watch': watch, 'aux': self.aux(),
                'own': [[int(n in self.tcls[t].__dict__) for n in self.tnames[t]] for t in range(len(self.tgts))]}

    MODES = {'set-reset': 0, 'set': 1, 'reset': 2}

    def aux(self):
        rows = []
        for t, obj in enumerate(self.tgts):
            ev = obj._param__private.params.get('e_') or self.tcls[t].param.objects(instance=False)['e_']
            clsev = self.tcls[t].param.objects(instance=False)['e_']
            clsp = self.tcls[t].param.objects(instance=False)
            instp = obj._param__private.params
            # the `constant` flag of every Parameter object: the one the instance uses (its own copy if it has
            # one) and the class-level one — `_sync_refs` writes constants under edit_constant, which must put
            # every flag back whether or not the write succeeds
            # (a flag the harness set itself with a `lock` operation is reported as declared)
            flags = [int(bool((instp.get(n) or clsp[n]).constant)) - int((t, i) in self.locked) for i, n in enumerate(self.tnames[t])] + \
                    [int(bool(clsp[n].constant)) for n in self.tnames[t]]
            # the cached `.param` namespace of the class names the Parameter that attribute lookup finds
            flags += [int(clsp[n] is inspect.getattr_static(self.tcls[t], n)) for n in self.tnames[t]]
            # a later watcher of the Event always read what its event announced
            flags += [self.late_read_ok[t]]
            # the class itself holds nan_ only if it declared it; gen_ (callable default) is instantiated per instance
            flags += [int('nan_' in self.tcls[t].__dict__), int(bool(clsp['gen_'].instantiate))]
            rows.append([int(bool(obj.e_)), self.MODES.get(ev._mode, 9), self.MODES.get(clsev._mode, 9)] + flags +
                        sorted(self.tnames[t].index(n) if n in self.tnames[t] else 99 for n in obj._param__private.syncing))
        last = self.wit.param.inspect_value('a')
        rows.append([self.wit.a, -1 if last is None else last])
        return rows

    # -- operations ---------------------------------------------------------
    def do(self, op):
        o = op['op']
        tds = self.case['targets']
        if o == 'set' and (op['p'] >= len(tds[op['t']]['params']) or not key_supported(tds[op['t']], op['p'], op['rhs'])):
            raise NotImplementedError
        if o == 'setCls' and not (rhs_is_lit(op['rhs']) or
                                  (op['rhs']['k'] == 'gen' and gen_supported(tds[op['t']], op['p']))):
            # a callable would be taken for a Dynamic value; `T.p = <Parameter>` redefines the parameter
            raise NotImplementedError
        if o in ('update', 'ctxEnter') and not all(key_supported(tds[op['t']], p, r) for p, r in op['kvs']):
            raise NotImplementedError
        if o == 'setClsX':
            if op['which'] == 'nan':
                setattr(self.tcls[op['t']], 'nan_', 'bad')
            else:
                setattr(self.tcls[op['t']], 'gen_', -1)
            return
        if o == 'trigger':
            self.tgts[op['t']].e_ = True
            return
        if o == 'lock':
            pd = tds[op['t']]['params'][op['p']] if op['p'] < len(tds[op['t']]['params']) else None
            if pd is None or pd['constant'] or pd['readonly'] or not pd.get('per_instance', True) or pd['kind'] != 'int':
                raise NotImplementedError
            self.tgts[op['t']].param[self.tnames[op['t']][op['p']]].constant = True
            self.locked.add((op['t'], op['p']))
            return
        # a parameter locked on the instance takes plain values only (mirror of Lean `lockedOk`)
        if o == 'set' and (op['t'], op['p']) in self.locked and not rhs_is_lit(op['rhs']):
            raise NotImplementedError
        if o in ('update', 'ctxEnter') and any((op['t'], p) in self.locked and not rhs_is_lit(r) for p, r in op['kvs']):
            raise NotImplementedError
        if o == 'set':
            setattr(self.tgts[op['t']], self.tnames[op['t']][op['p']], self.mk_rhs(op['rhs']))
        elif o == 'setCls':
            setattr(self.tcls[op['t']], self.tnames[op['t']][op['p']], self.mk_rhs(op['rhs']))
        elif o in ('update', 'ctxEnter'):
            t = op['t']
            kw = [(self.tnames[t][p] if p < len(self.tnames[t]) else f'q{p}', self.mk_rhs(r)) for p, r in op['kvs']]
            if op.get('ev') == 'first':
                kw = [('e_', True)] + kw
            elif op.get('ev') == 'last':
                kw = kw + [('e_', True)]
            form = op.get('form', 'pos')
            if form == 'kw':
                r = self.tgts[t].param.update(**dict(kw))
            elif form == 'dict':
                r = self.tgts[t].param.update(dict(kw))
            else:
                r = self.tgts[t].param.update(kw)      # an iterable of pairs keeps duplicate keys as written
            if o == 'ctxEnter':
                r.__enter__()
                self.stack.append((r, t))
        elif o == 'ctxExit':
            if not self.stack:
                raise IndexError('no open context')
            r, rt = self.stack[-1]
            # restoring a *link* onto a parameter locked meanwhile is outside the model (see `lockedOk`)
            if any((rt, self.tnames[rt].index(n)) in self.locked for n in r._refs if n in self.tnames[rt]):
                raise NotImplementedError
            self.stack.pop()
            r.__exit__(None, None, None)
        elif o == 'srcSet':
            setattr(self.srcs[op['s']], self.snames[op['i']], op['v'])
        else:
            raise RuntimeError(o)

    def run_ops(self, ops):
        steps = []
        has_rx = '"rx": true' in json.dumps(self.case)
        for op in ops:
            del self.log[:]
            err = None
            try:
                self.do(op)
            except (ValueError, TypeError) as e:
                err = _err_name(e)
            except IndexError:
                err = 'noctx'
            except NotImplementedError:
                err = 'unsupported'
            except Exception as e:          # nothing else may escape an assignment: reported, judged by the oracle
                err = 'other:' + type(e).__name__
            st = self.state()
            st['err'] = err
            st['log'] = [list(x) for x in self.log]
            steps.append(st)
            if has_rx and op['op'] == 'srcSet' and err is not None:
                # the failed dispatch also skipped the invalidation watchers of rx expressions on this
                # source (C09 finding update-raises-aborts-dispatch): rx references are stale from here on
                break
        return steps


def _run(case, ops):
    import param
    saved = param.Dynamic.time_dependent
    param.Dynamic.time_dependent = True      # dynamic values are regenerated only when time advances (it never does)
    try:
        r = Runner(case)
        ce = r.construct()
        if ce is not None:
            return {'ctor_err': ce, 'init': None, 'steps': [], 'cut': 0}
        init = r.state()
        steps = r.run_ops(ops)
        return {'ctor_err': None, 'init': init, 'steps': steps, 'cut': len(steps)}
    finally:
        param.Dynamic.time_dependent = saved


ASSIGN_OPS = ('set', 'setCls', 'update', 'ctxEnter', 'setClsX')


def _atom_skips(a, src):
    return a['a'] == 'fn' and a.get('sk') is not None and a['k'] + sum(src[s][i] for s, i in a['deps']) < a['sk']


def rhs_skips(rhs, src, nested):
    """does resolving the reference raise Skip on these source values"""
    if rhs['k'] == 'atom':
        return _atom_skips(rhs['a'], src)
    return nested and any(_atom_skips(a, src) for a in rhs_atoms(rhs))


def applied_prefix(case, t, kvs, st, src_before):
    """how many leading keys of a rejected update were applied: announced to the universal watcher, or a
    reference whose evaluation raised Skip (linked, nothing stored, nothing announced)"""
    first = [x for x in st['log'] if x[0] == 't' and x[1] == t][:1]     # the flush of the update itself
    announced = {e[0] for x in first for e in x[2]}
    pds = case['targets'][t]['params']
    n = 0
    for p, rhs in kvs:
        pd = pds[p] if p < len(pds) else None
        is_ref = pd is not None and rhs['k'] != 'gen' and pd['allow_refs'] and not rhs_is_lit(rhs) and \
            (rhs['k'] == 'atom' or pd['nested_refs'])
        if p in announced or (is_ref and rhs_skips(rhs, src_before, pd['nested_refs'])):
            n += 1
        else:
            break
    return n


def twin_ops(case, ops, steps, init):
    """the history with every rejected assignment left out"""
    out = []
    prev = init
    for op, st in zip(ops, steps):
        if st['err'] in ('ValueError', 'TypeError') and op['op'] in ASSIGN_OPS:
            if op['op'] in ('update', 'ctxEnter'):
                n = applied_prefix(case, op['t'], op['kvs'], st, prev['src'])
                tw = {'op': 'update', 't': op['t'], 'kvs': op['kvs'][:n], 'form': op.get('form', 'pos')}
                if op.get('ev') == 'first':
                    tw['ev'] = 'first'          # the Event key preceded the rejected one: it was applied (and reset itself)
                out.append(tw)
            else:
                out.append({'op': 'update', 't': op['t'], 'kvs': []})
        else:
            out.append(op)
        prev = st
    return out


def run_impl(case):
    try:
        out = _run(case, case['ops'])
        if case.get('prop') == 'C02' and out['ctor_err'] is None:
            out['twin'] = _run(case, twin_ops(case, case['ops'], out['steps'], out['init']))['steps'][:out['cut']]
        return out
    except Exception as e:
        import traceback
        return {'crash': f'{type(e).__name__}: {e} @ {traceback.format_exc().splitlines()[-3].strip()}'[:400]}


# --------------------------------------------------------------------------- generation

def P(kind='int', lo=None, hi=None, default=None, constant=False, readonly=False, allow_refs=True, nested_refs=False,
      per_instance=True):
    if default is None:
        default = 0 if kind == 'int' else [0, 0]
    return {'kind': kind, 'lo': lo, 'hi': hi, 'default': default, 'constant': constant, 'readonly': readonly,
            'allow_refs': allow_refs, 'nested_refs': nested_refs, 'per_instance': per_instance}


def shared_params(pds, which=None):
    """the same declarations with per_instance=False on the given (default: all) parameters"""
    return [dict(pd, per_instance=False) if (which is None or i in which) else dict(pd) for i, pd in enumerate(pds)]


def lit(n):
    return {'k': 'atom', 'a': {'a': 'lit', 'n': n}}


def par(s, i):
    return {'k': 'atom', 'a': {'a': 'par', 's': s, 'i': i}}


SHAPES = ('pos', 'kw', 'nested', 'nestedkw', 'dep', 'nesteddep', 'nestedkwdep')


def fn(deps, k, rx=False, sk=None, shape='pos'):
    return {'k': 'atom', 'a': {'a': 'fn', 'deps': [list(d) for d in deps], 'k': k, 'rx': rx and sk is None, 'sk': sk, 'shape': shape}}


def cont(*items):
    return {'k': 'cont', 'items': [x['a'] for x in items]}


def cont2(*rows):
    return {'k': 'cont2', 'rows': [[x['a'] for x in row] for row in rows]}


# the standard target: p0 bounded int, p1 free int, p2 bounded pair with nested refs, p3 bounded constant int,
# p4 read-only int, p5 int without allow_refs
STD = [P(lo=0, hi=10), P(), P('pair', 0, 10, nested_refs=True), P(lo=0, hi=10, constant=True, default=1),
       P(readonly=True, default=2), P(lo=0, hi=10, allow_refs=False), P('any', nested_refs=True, default=0)]


def ev_atom(a, src):
    if a['a'] == 'lit':
        return a['n']
    if a['a'] == 'par':
        return src[a['s']][a['i']]
    return a['k'] + sum(src[s][i] for s, i in a['deps'])


def ev_rhs(rhs, src, nested):
    """value the assignment would validate; None: an object no validator accepts"""
    if rhs['k'] == 'atom':
        return ev_atom(rhs['a'], src)
    if nested or rhs_is_lit(rhs):
        if rhs['k'] == 'cont2':
            return [[ev_atom(a, src) for a in row] for row in rhs['rows']]
        return [ev_atom(a, src) for a in rhs['items']]
    return None


def val_ok(pd, v):
    inb = lambda n: (pd['lo'] is None or pd['lo'] <= n) and (pd['hi'] is None or n <= pd['hi'])
    if v is None:
        return False
    if pd['kind'] == 'any':
        return True
    if v and isinstance(v, list) and isinstance(v[0], list):
        return False
    if isinstance(v, int):
        return pd['kind'] == 'int' and inb(v)
    return pd['kind'] == 'pair' and len(v) == 2 and all(inb(x) for x in v)


def mk_case(prop, src_init, targets, ops, nsp=2, sub=False, hooks=(), falsy_src=False, nsread=False, ev_watch=False):
    return {'prop': prop, 'nsp': nsp, 'sub': sub, 'hooks': [dict(h) for h in hooks], 'falsy_src': falsy_src, 'nsread': nsread,
            'ev_watch': ev_watch, 'src_init': [list(r) for r in src_init],
            'targets': [{'params': [dict(p) for p in t['params']], 'ctor': t.get('ctor', [])} for t in targets],
            'ops': ops}


def rand_ref(rng, nsrc, nsp, pd, src, want_valid=True, tries=12):
    """a reference suited to parameter pd (valid or invalid on the current sources if possible)"""
    best = None

    def mk_fn(deps, k):
        # one in four bound functions raises Skip below a threshold near its current value
        if rng.random() < 0.25:
            now = k + sum(src[s][i] for s, i in deps)
            return fn(deps, k, False, now + rng.choice([1, 2, 0, -1, -2]), shape=rng.choice(SHAPES))
        return fn(deps, k, rng.random() < 0.5, shape=rng.choice(SHAPES))
    for _ in range(tries):
        sp = lambda: (rng.randrange(nsrc), rng.randrange(nsp))
        if pd['kind'] == 'any' and pd['nested_refs'] and rng.random() < 0.6:
            def one():
                r = rng.random()
                return lit(rng.randint(0, 6)) if r < 0.3 else par(*sp()) if r < 0.7 else \
                    mk_fn([sp() for _ in range(rng.randint(1, 2))], rng.randint(-1, 2))
            rows = [[one() for _ in range(rng.randint(1, 2))] for _ in range(rng.randint(1, 2))]
            if all(x['a']['a'] == 'lit' for row in rows for x in row):
                rows[0][0] = par(*sp())
            r = cont2(*rows)
        elif pd['kind'] == 'pair' and pd['nested_refs']:
            def atom():
                r = rng.random()
                if r < 0.3:
                    return lit(rng.randint(0, 6))
                if r < 0.7:
                    return par(*sp())
                return mk_fn([sp() for _ in range(rng.randint(1, 2))], rng.randint(-1, 2))
            items = [atom(), atom()]
            if all(x['a']['a'] == 'lit' for x in items):
                items[rng.randrange(2)] = par(*sp())
            r = cont(*items)
        else:
            k = rng.random()
            if k < 0.45:
                r = par(*sp())
            else:
                r = mk_fn([sp() for _ in range(rng.randint(1, 3))], rng.randint(-2, 3))
        best = r
        if val_ok(pd, ev_rhs(r, src, pd['nested_refs'])) == want_valid:
            return r
    return best


def rand_plain(rng, pd, want_valid=True):
    if pd['kind'] == 'any':        # anything is valid
        return rng.choice([lit(rng.randint(0, 9)), cont(lit(1), lit(rng.randint(0, 9))), cont2([lit(1)], [lit(2), lit(rng.randint(0, 9))])])
    if pd['kind'] == 'pair':
        v = [rng.randint(0, 9), rng.randint(0, 9)] if want_valid else rng.choice([[50, 1], [1, -7], [1, 2, 3], [4]])
        return cont(*[lit(x) for x in v])
    if want_valid:
        return lit(rng.randint(0, 9))
    if pd['lo'] is None and pd['hi'] is None:
        return cont(lit(1), lit(2))            # a tuple is no integer
    return lit(rng.choice([50, 77] if pd['hi'] is not None else [-50]))


def lockable(pd):
    return not pd['constant'] and not pd['readonly'] and pd.get('per_instance', True) and pd['kind'] == 'int'


def gen_history(rng, targets, src, n_ops, nsrc, nsp, p_bad_src=0.06, locked=None):
    """mostly successful operations; mutates the generator's shadow of the source values"""
    ops = []
    depth = 0
    locked = set() if locked is None else locked
    for _ in range(n_ops):
        t = rng.randrange(len(targets))
        pds = targets[t]['params']
        # (a parameter locked on the instance rejects assignments: it is left to the sync and to the rejection stage)
        linkable = [i for i, pd in enumerate(pds) if pd['allow_refs'] and not pd['readonly'] and not pd['constant']
                    and (t, i) not in locked]
        r = rng.random()
        if r < 0.015:
            ops.append({'op': 'setClsX', 't': t, 'which': rng.choice(['nan', 'gen'])})
        elif r < 0.03:
            ops.append({'op': 'trigger', 't': t})
        elif r < 0.06 and any(lockable(pd) for pd in pds):
            p = rng.choice([i for i, pd in enumerate(pds) if lockable(pd)])
            locked.add((t, p))
            ops.append({'op': 'lock', 't': t, 'p': p})
        elif r < 0.30:
            s, i = rng.randrange(nsrc), rng.randrange(nsp)
            v = rng.randint(0, 5) if rng.random() > p_bad_src else rng.randint(11, 30)
            src[s][i] = v
            ops.append({'op': 'srcSet', 's': s, 'i': i, 'v': v})
        elif r < 0.62 and linkable:
            p = rng.choice(linkable)
            ops.append({'op': 'set', 't': t, 'p': p, 'rhs': rand_ref(rng, nsrc, nsp, pds[p], src)})
        elif r < 0.74 and linkable:
            p = rng.choice(linkable)
            ops.append({'op': 'set', 't': t, 'p': p, 'rhs': rand_plain(rng, pds[p])})
        elif r < 0.84 and linkable:
            ks = rng.sample(linkable, rng.randint(1, min(3, len(linkable))))
            kvs = [[p, rand_ref(rng, nsrc, nsp, pds[p], src) if rng.random() < 0.5 else rand_plain(rng, pds[p])] for p in ks]
            form = rng.choice(['pos', 'dict', 'kw'])
            extra = {'ev': rng.choice(['first', 'last'])} if rng.random() < 0.3 else {}
            if depth < 2 and rng.random() < 0.6:
                ops.append(dict({'op': 'ctxEnter', 't': t, 'kvs': kvs, 'form': form}, **extra))
                depth += 1
            else:
                ops.append(dict({'op': 'update', 't': t, 'kvs': kvs, 'form': form}, **extra))
        elif r < 0.92 and depth:
            ops.append({'op': 'ctxExit'})
            depth -= 1
        elif r < 0.96:
            p = rng.randrange(len(pds))
            if not pds[p]['readonly']:
                ops.append({'op': 'setCls', 't': t, 'p': p, 'rhs': rand_plain(rng, pds[p])})
        else:
            # anything at all, including what will be rejected or is outside the model
            p = rng.randrange(len(pds) + 1)
            pd = pds[p] if p < len(pds) else pds[0]
            rhs = rng.choice([rand_plain(rng, pd, rng.random() < 0.5), rand_ref(rng, nsrc, nsp, pd, src, rng.random() < 0.5)])
            if (t, p) in locked:
                rhs = rand_plain(rng, pd, rng.random() < 0.7)
            ops.append({'op': rng.choice(['set', 'update']), 't': t, 'p': p, 'rhs': rhs})
            if ops[-1]['op'] == 'update':
                o = ops.pop()
                ops.append({'op': 'update', 't': t, 'kvs': [[o['p'], o['rhs']]]})
    return ops


REJ_KINDS = ('plain', 'ref', 'nested', 'const', 'readonly', 'gen', 'locked')
REJ_ROUTES = ('set', 'setCls', 'update', 'updateLater', 'ctxEnter')


def rejected_op(rng, targets, src, nsrc, nsp, kind, route, t=None, prefer=None):
    """one assignment built to be rejected: (op, note) or None when the combination does not exist"""
    t = rng.randrange(len(targets)) if t is None else t
    pds = targets[t]['params']
    def pick(f):
        c = [i for i, pd in enumerate(pds) if f(pd)]
        return [prefer] if prefer in c else c
    if kind == 'plain':
        c = pick(lambda pd: not pd['constant'] and not pd['readonly'] and pd['kind'] != 'any')
        if not c:
            return None
        p = rng.choice(c)
        rhs = rand_plain(rng, pds[p], False)
    elif kind == 'ref':
        c = pick(lambda pd: pd['allow_refs'] and not pd['readonly'] and pd['kind'] == 'int' and (pd['hi'] is not None))
        if not c or route == 'setCls':
            return None
        p = rng.choice(c)
        s, i = rng.randrange(nsrc), rng.randrange(nsp)
        rhs = rng.choice([fn([[s, i]], 40 + rng.randint(0, 9), rng.random() < 0.5),
                          fn([[s, i], [rng.randrange(nsrc), rng.randrange(nsp)]], 30, rng.random() < 0.5)])
        if src[s][i] > pds[p]['hi']:
            rhs = rng.choice([rhs, par(s, i)])
    elif kind == 'nested':
        c = pick(lambda pd: pd['allow_refs'] and pd['nested_refs'] and pd['kind'] == 'pair' and not pd['readonly'])
        if not c or route == 'setCls':
            return None
        p = rng.choice(c)
        s, i = rng.randrange(nsrc), rng.randrange(nsp)
        rhs = rng.choice([cont(par(s, i), fn([[s, i]], 50, rng.random() < 0.5)),
                          cont(par(s, i), lit(3), par(s, i)),
                          cont(fn([[s, i]], -60), par(rng.randrange(nsrc), rng.randrange(nsp)))])
    elif kind == 'const':
        c = pick(lambda pd: pd['constant'] and not pd['readonly'])
        if not c or route == 'setCls':
            return None
        p = rng.choice(c)
        rhs = rng.choice([lit(rng.choice([8, 9])), rand_ref(rng, nsrc, nsp, pds[p], src)]) if pds[p]['allow_refs'] else lit(9)
    elif kind == 'locked':
        # a parameter made constant on the instance (the caller puts the `lock` in front); plain values only
        c = pick(lambda pd: lockable(pd))
        if not c or route == 'setCls':
            return None
        p = rng.choice(c)
        rhs = rand_plain(rng, pds[p], rng.random() < 0.85)
    elif kind == 'gen':
        # the shared number generator (already the value of the witness parameter) handed to a readonly Integer
        c = [i for i, pd in enumerate(pds) if pd['readonly'] and pd['kind'] == 'int']
        if not c:
            return None
        p = rng.choice(c)
        rhs = {'k': 'gen'}
    else:
        c = pick(lambda pd: pd['readonly'])
        if not c:
            return None
        p = rng.choice(c)
        rhs = rand_plain(rng, pds[p], rng.random() < 0.7)
    note = f'rej:{kind}'
    if route in ('set', 'setCls'):
        return {'op': route, 't': t, 'p': p, 'rhs': rhs, 'note': note}
    kvs = [[p, rhs]]
    others = [i for i, pd in enumerate(pds) if i != p and not pd['constant'] and not pd['readonly'] and pd['allow_refs']]
    if route == 'updateLater' and others:
        pre = rng.sample(others, rng.randint(1, min(2, len(others))))
        kvs = [[q, rand_ref(rng, nsrc, nsp, pds[q], src) if rng.random() < 0.5 else rand_plain(rng, pds[q])] for q in pre] + kvs
        if rng.random() < 0.4:
            post = [q for q in others if q not in pre]
            kvs += [[q, rand_plain(rng, pds[q])] for q in post[:1]]
    op = {'op': 'ctxEnter' if route == 'ctxEnter' else 'update', 't': t, 'kvs': kvs, 'form': rng.choice(['pos', 'dict', 'kw']),
          'note': note + (':later' if len(kvs) > 1 else '')}
    ev = rng.choice([None, 'first', 'last'])
    if ev:
        op['ev'] = ev           # the update also names the target's Event parameter
    return op


def cls_probe(rng, targets):
    """re-assign the class default of every assignable parameter: an instance that holds no value of its own follows"""
    ops = []
    for t, td in enumerate(targets):
        for p, pd in enumerate(td['params']):
            if not pd['readonly']:
                ops.append({'op': 'setCls', 't': t, 'p': p, 'rhs': rand_plain(rng, pd), 'note': 'probe'})
    return ops


def probe_suffix(rng, src, nsrc, nsp, rounds=1):
    """update every source parameter (old and new sources alike), so that hidden link state shows"""
    ops = []
    for _ in range(rounds):
        order = [(s, i) for s in range(nsrc) for i in range(nsp)]
        rng.shuffle(order)
        for s, i in order:
            v = (src[s][i] + rng.randint(1, 3)) % 6
            src[s][i] = v
            ops.append({'op': 'srcSet', 's': s, 'i': i, 'v': v, 'note': 'probe'})
    return ops


def rand_targets(rng, nsrc, nsp, src, ntargets=None):
    targets = []
    for _ in range(ntargets or rng.choice([1, 1, 2])):
        if rng.random() < 0.6:
            pds = [dict(p) for p in STD]
            if rng.random() < 0.3:
                pds = shared_params(pds, rng.sample(range(len(pds)), rng.randint(1, len(pds))))
        else:
            pds = []
            for _ in range(rng.randint(2, 5)):
                kind = 'pair' if rng.random() < 0.25 else 'int'
                bounded = rng.random() < 0.6
                pds.append(P(kind, 0 if bounded else None, 10 if bounded else None,
                             constant=rng.random() < 0.15, readonly=rng.random() < 0.08,
                             allow_refs=rng.random() < 0.9, nested_refs=(kind == 'pair' and rng.random() < 0.8) or rng.random() < 0.1,
                             per_instance=rng.random() < 0.8,
                             default=None if kind == 'pair' else rng.randint(0, 3)))
        ctor = []
        for p, pd in enumerate(pds):
            if pd['allow_refs'] and not pd['readonly'] and rng.random() < 0.35:
                ctor.append([p, rand_ref(rng, nsrc, nsp, pd, src) if rng.random() < 0.85 else rand_plain(rng, pd)])
        rng.shuffle(ctor)
        targets.append({'params': pds, 'ctor': ctor})
    return targets


def rand_hooks(rng, targets):
    """user watchers that assign a plain value to another parameter of the same object; no chains"""
    hooks = []
    for _ in range(rng.choice([0, 0, 1, 1, 2])):
        t = rng.randrange(len(targets))
        pds = targets[t]['params']
        if len(pds) < 2:
            continue
        a, b = rng.sample(range(len(pds)), 2)
        if pds[b]['readonly'] or pds[b]['kind'] != 'int':
            continue
        if any(h['t'] == t and (h['a'] == b or h['b'] == a) for h in hooks):
            continue
        hooks.append({'t': t, 'a': a, 'b': b, 'k': rng.choice([0, 3, 6, 9, 9, 50])})
    return hooks


def gen_case(rng, prop, max_ops=10):
    nsrc, nsp = rng.choice([2, 2, 3]), 2
    src = [[rng.randint(0, 5) for _ in range(nsp)] for _ in range(nsrc)]
    init = [list(r) for r in src]
    targets = rand_targets(rng, nsrc, nsp, src)
    locked = set()
    ops = gen_history(rng, targets, src, rng.randint(0, max_ops), nsrc, nsp,
                      p_bad_src=0.0 if prop == 'C02' and rng.random() < 0.7 else 0.06, locked=locked)
    if prop == 'C02':
        for _ in range(rng.choice([1, 1, 2])):
            for _ in range(8):
                kind = rng.choice(REJ_KINDS)
                rj = rejected_op(rng, targets, src, nsrc, nsp, kind, rng.choice(REJ_ROUTES))
                if rj:
                    if kind == 'locked':
                        for q in ([rj['p']] if 'p' in rj else [k for k, _ in rj['kvs'][-1:]]):
                            ops.append({'op': 'lock', 't': rj['t'], 'p': q})
                            locked.add((rj['t'], q))
                    if 'kvs' in rj:        # the keys before the rejected one must be assignable
                        rj['kvs'] = [kv for kv in rj['kvs'][:-1] if (rj['t'], kv[0]) not in locked] + rj['kvs'][-1:]
                    ops.append(rj)
                    break
            ops += probe_suffix(rng, src, nsrc, nsp, rounds=rng.choice([1, 1, 2]))
            if rng.random() < 0.5:
                ops += cls_probe(rng, targets)
    else:
        ops += gen_history(rng, targets, src, rng.randint(0, 4), nsrc, nsp, locked=locked)
        while sum(1 for o in ops if o['op'] == 'ctxEnter') > sum(1 for o in ops if o['op'] == 'ctxExit') and rng.random() < 0.8:
            ops.append({'op': 'ctxExit'})
        if rng.random() < 0.5:
            ops += probe_suffix(rng, src, nsrc, nsp)
    return mk_case(prop, init, targets, ops, nsp, sub=(prop == 'C02' and rng.random() < 0.5),
                   hooks=rand_hooks(rng, targets) if rng.random() < 0.45 else (), falsy_src=rng.random() < 0.25,
                   nsread=rng.random() < 0.35, ev_watch=rng.random() < 0.4)


def _strip_own(o):
    """`own` (does the class itself hold the Parameter) is judged by the C02 oracle, which knows the finding
    rejected-class-assignment-copies-inherited-parameter; it is left out of the plain comparison"""
    if isinstance(o, dict):
        return {k: _strip_own(v) for k, v in o.items() if k != 'own'}
    if isinstance(o, list):
        return [_strip_own(x) for x in o]
    return o


def compare(impl, model):
    from .run import first_diff
    a = {k: v for k, v in impl.items() if k != 'twin'}
    return first_diff(a, model)


def tags(case, impl):
    t = [f'targets={len(case["targets"])}', f'len={min(len(case["ops"]), 12)}', 'subclass' if case.get('sub') else 'direct-class']
    t += ['event-watchers'] * bool(case.get('ev_watch')) + ['hooks'] * bool(case.get('hooks')) + ['falsy-sources'] * bool(case.get('falsy_src')) + ['nsread-validators'] * bool(case.get('nsread'))
    shared = {(ti, pi) for ti, td in enumerate(case['targets']) for pi, pd in enumerate(td['params']) if not pd.get('per_instance', True)}
    for ti, td in enumerate(case['targets']):
        for p, rhs in td['ctor']:
            if (ti, p) in shared and not rhs_is_lit(rhs):
                t.append('shared:ctor-link')
    for td in case['targets']:
        for p, rhs in td['ctor']:
            t.append('ctor:' + rhs_kind(rhs))
    if isinstance(impl, dict) and impl.get('steps'):
        for op, st in zip(case['ops'], impl['steps']):
            e = st['err'] or 'ok'
            if 'note' in op and op['note'].startswith('rej'):
                t.append(f'{op["note"]}:{op["op"]}:{e}')
            elif op['op'] == 'set':
                t.append(f'late:{rhs_kind(op["rhs"])}:{e}')
            else:
                t.append(f'{op["op"]}:{e}')
            if op['op'] == 'set' and (op['t'], op['p']) in shared:
                t.append(f'shared:set:{"plain" if rhs_is_lit(op["rhs"]) else "ref"}:{e}')
            if op['op'] in ('update', 'ctxEnter'):
                t.append(f'{op["op"]}:form:{op.get("form", "pos")}')
                if op.get('ev'):
                    t.append(f'{op["op"]}:ev:{op["ev"]}:{e}')
                if any((op['t'], k) in shared for k, _ in op['kvs']):
                    t.append(f'shared:{op["op"]}:{e}')
            if op['op'] == 'srcSet' and e != 'ok':
                t.append('srcSet:rejected-sync')
    elif isinstance(impl, dict) and impl.get('ctor_err'):
        t.append('ctor_err:' + impl['ctor_err'])
    return t


def rhs_kind(rhs):
    if rhs['k'] == 'gen':
        return 'gen'
    if rhs['k'] == 'cont2':
        return 'plainnest' if rhs_is_lit(rhs) else 'nested2'
    if rhs['k'] == 'cont':
        return 'plainpair' if rhs_is_lit(rhs) else 'nested'
    a = rhs['a']
    return {'lit': 'plain', 'par': 'par'}.get(a['a']) or ('skipfn' if a.get('sk') is not None else 'rx' if a.get('rx') else
                                                           'fn' if a.get('shape', 'pos') == 'pos' else 'fn-' + a['shape'])


def shrink(case):
    ops = case['ops']
    for i in range(len(ops)):
        yield dict(case, ops=ops[:i] + ops[i + 1:])
    for i, op in enumerate(ops):
        if op['op'] in ('update', 'ctxEnter') and len(op['kvs']) > 1:
            for j in range(len(op['kvs'])):
                yield dict(case, ops=ops[:i] + [dict(op, kvs=op['kvs'][:j] + op['kvs'][j + 1:])] + ops[i + 1:])
    for t, td in enumerate(case['targets']):
        for j in range(len(td['ctor'])):
            nt = [dict(x) for x in case['targets']]
            nt[t] = dict(td, ctor=td['ctor'][:j] + td['ctor'][j + 1:])
            yield dict(case, targets=nt)
    if len(case['targets']) > 1 and not any(o.get('t') == len(case['targets']) - 1 for o in ops):
        yield dict(case, targets=case['targets'][:-1])
