"""C15 — JSON serialization round-trips every serializable parameter value.
Correspondence: Lean `ParamVerif.Json.model15` (Codec.lean) vs the real
serialize_parameters / deserialize_parameters / serialize_value / deserialize_value."""
import datetime as dt
import glob
import json
import os
import re

from . import _c15c16 as G
from ._c15c16 import enc_val, single

ID = 'C15'
PROPS_FILE = 'ParamVerif/Props/C15.lean'
DRIVER = 'Driver/C15.lean'
EXTRA_MODULES = ('ParamVerif.Json.Transport',)
SOURCES = [('param/serializer.py', 'JSONSerialization.serialize_parameters'),
           ('param/serializer.py', 'JSONSerialization.deserialize_parameters'),
           ('param/serializer.py', 'JSONSerialization.serialize_parameter_value'),
           ('param/serializer.py', 'JSONSerialization.deserialize_parameter_value'),
           ('param/serializer.py', 'JSONSerialization.dumps'), ('param/serializer.py', 'JSONSerialization.loads'),
           ('param/parameterized.py', 'Parameter.serialize'), ('param/parameterized.py', 'Parameter.deserialize'),
           ('param/parameterized.py', 'Parameter._set_allow_None'),
           ('param/parameters.py', 'Date.serialize'), ('param/parameters.py', 'Date.deserialize'),
           ('param/parameters.py', 'CalendarDate.serialize'), ('param/parameters.py', 'CalendarDate.deserialize'),
           ('param/parameters.py', 'Tuple.serialize'), ('param/parameters.py', 'Tuple.deserialize'),
           ('param/parameters.py', 'DateRange.serialize'), ('param/parameters.py', 'DateRange.deserialize'),
           ('param/parameters.py', 'CalendarDateRange.serialize'), ('param/parameters.py', 'CalendarDateRange.deserialize'),
           ('param/parameters.py', 'Selector.__init__'), ('param/parameters.py', 'Tuple.__init__')]
BUDGET_S = {'quick': 45, 'thorough': 400}
EXHAUSTIVE = {'quick': False, 'thorough': False}
TRUSTED = [
    'statements in lean/ParamVerif/Props/C15.lean (Valid = Param.validB, nativeElems/jsonNative, inStatement, finite)',
    'spec-side oracle lean/ParamVerif/Json/Spec.lean spec15 (decidable restatement: rebuilt == state with equal type, strict JSON, per-value, subset)',
    'harness/props/c15.py + _c15c16.py adapter: exact-type canonical values (floats as integer ratios, dates as field tuples), json.loads tree of the text, strict-JSON flag via parse_constant; strings in date-typed positions are canonicalised into (year value, year width, month, day[, time]) fields',
    'correspondence is differential testing: model = code only on the cases executed',
    'json.dumps/json.loads modelled as tree identity on JSON-native values (repr/float round-trip of CPython assumed); strftime/strptime at field level: the year is written zero-padded to four digits (param _strftime helper), strptime %Y needs 4 digits',
]
ASSUMPTIONS = [
    'finite numbers; naive datetimes (a dt.date held by a Date parameter is outside the statement); the sign of -0.0 is not observed',
    'dict keys: str/int/bool/None without collisions after JSON key conversion; float keys, numpy types, aware datetimes outside the model',
    'single-level classes built with type(); parameter docs single-line; regex/allow_named/softbounds/step not declared',
]
RULE = ('corpus + directed prefix (every type x {typical value, None, class level, subset}, years 1..9999, microseconds '
        '0/1/999999, date-only and datetime ranges, big ints, extreme floats, empty containers, nested tuples, non-string '
        'keys) + random classes of 1-5 parameters over all 17 types with values accepted by the real Parameter; '
        'the state, the json.loads tree, strict-JSON flag, deserialize_parameters result, rebuilt object, per-parameter '
        'serialize_value/deserialize_value, the subset= variants (one subset object — list, tuple, set, frozenset or dict — used for every call: text produced with the subset, read back with it, the full text read back with it, serialized with it a second time; the object must come back unchanged), one fifth of the cases reach their final declaration through serialize -> Cls.param.add_parameter (new parameters, or a String replaced by another type) -> serialize, another fifth leave parameters unset on the instance, touch its per-instance Parameter objects and then assign the class default (the instance follows it), and a second deserialization of the same text after the first result (and the object rebuilt from it) had its lists/dicts edited in place (equal to the state again, no shared container objects) are compared with the model and checked by the oracle. '
        'non-trivial = oracle applicable and at least one non-name parameter with a non-None value; distinct = distinct canonical case')
COVERAGE_TARGETS = [f'{t}:value' for t in G.TYPES15 if t not in ('DateRange', 'CalendarDateRange')] + \
                   [f'{t}:none' for t in ('Number', 'String', 'Boolean', 'Tuple', 'Range', 'Date', 'CalendarDate',
                                          'DateRange', 'CalendarDateRange', 'Selector', 'ListSelector', 'Color')] + \
                   ['DateRange:dates', 'DateRange:datetimes', 'CalendarDateRange:dates', 'year<1000',
                    'non-native-element', 'non-finite', 'level:class', 'level:instance', 'subset', 'subset-kind:list', 'subset-kind:set', 'subset-kind:tuple', 'subset-kind:frozenset', 'subset-kind:dict', 'history:add_parameter', 'history:class-default-after-instance']


def _vals(obj, names):
    return [[n, enc_val(getattr(obj, n))] for n in names]


def _res(f):
    try:
        return {'ok': f()}
    except G.Unsupported:
        raise
    except Exception as e:
        return {'err': G.exc_name(e)}


def _containers(vals):
    """id -> object of every list/dict reachable from the values (through tuples too)"""
    out = {}
    todo = list(vals)
    while todo:
        v = todo.pop()
        if isinstance(v, (list, dict)):
            if id(v) in out:
                continue
            out[id(v)] = v
        if isinstance(v, (list, tuple)):
            todo.extend(v)
        elif isinstance(v, dict):
            todo.extend(v.values())
    return out


def _scribble(containers):
    """what a user of a deserialized value may do: edit its containers in place"""
    for c in containers.values():
        if isinstance(c, list):
            c.append('scribble')
        else:
            c['scribble'] = 1


def run_impl(case):
    import param
    try:
        try:
            cls, obj, names = G.build_object(param, case)
        except (ValueError, TypeError):
            return {'invalid': True}
        types = {d['name']: d['type'] for d in case['params']}
        out = {'invalid': False, 'state': _vals(obj, names)}
        # one subset object of the kind the case names, handed to every call (an argument may be any
        # container of names and must come back unchanged)
        names_in_subset = case.get('subset')
        subset = G.make_subset(names_in_subset, case.get('subset_kind'))

        def roundtrip(sub, keep=None):
            text = [None]

            def ser():
                text[0] = obj.param.serialize_parameters(subset=sub)
                if keep is not None:
                    keep[0] = text[0]
                return G.enc_fields(json.loads(text[0]), types)
            s = _res(ser)
            if 'err' in s:
                return s, True, {'err': 'noser'}, None
            kw = [None]

            def de():
                kw[0] = cls.param.deserialize_parameters(text[0], subset=sub)
                return [[k, enc_val(v)] for k, v in kw[0].items()]
            return s, G.is_standard_json(text[0]), _res(de), kw[0]
        text_all = [None]
        rebuilt_obj = [None]
        out['ser'], out['standard'], out['deser'], kw = roundtrip(None, text_all)
        if 'err' in out['deser']:
            out['rebuilt'] = {'err': 'nodeser'}
            kw = None
        else:
            def rebuild():
                b = cls(**kw)
                rebuilt_obj[0] = b
                return _vals(b, [n for n in names if n in kw])
            r = _res(rebuild)
            out['rebuilt'] = r if 'ok' in r else {'err': 'rejected'}
        # the same text once more, after the first result has been used and edited in place
        again = {'deser': {'err': 'nodeser'}, 'rebuilt': {'err': 'nodeser'}, 'shared': False}
        if kw is not None:
            firsts = _containers(list(kw.values()))
            if rebuilt_obj[0] is not None:
                firsts.update(_containers([getattr(rebuilt_obj[0], n) for n in names if n in kw]))
            _scribble(firsts)
            kw2 = [None]

            def de2():
                kw2[0] = cls.param.deserialize_parameters(text_all[0])
                return [[k, enc_val(v)] for k, v in kw2[0].items()]
            again['deser'] = _res(de2)
            if kw2[0] is not None:
                again['shared'] = bool(set(_containers(list(kw2[0].values()))) & set(firsts))
                r2 = _res(lambda: _vals(cls(**kw2[0]), [n for n in names if n in kw2[0]]))
                again['rebuilt'] = r2 if 'ok' in r2 else {'err': 'rejected'}
        pv, pv2 = [], []
        for n in names:
            txt = [None]

            def sv():
                txt[0] = obj.param.serialize_value(n)
                return G.enc_tree(json.loads(txt[0]), types[n])
            s = _res(sv)
            first = [None]

            def dv():
                first[0] = cls.param.deserialize_value(n, txt[0])
                return enc_val(first[0])
            d = _res(dv) if 'ok' in s else {'err': 'noser'}
            pv.append([n, s, d])
            if 'ok' in d:
                _scribble(_containers([first[0]]))
                pv2.append([n, _res(lambda: enc_val(cls.param.deserialize_value(n, txt[0])))])
            else:
                pv2.append([n, d])
        out['per_value'] = pv
        again['per_value'] = pv2
        out['again'] = again
        out['sub_ser'], _, out['sub_deser'], _ = roundtrip(subset)
        out['sub_ser2'] = _res(lambda: G.enc_fields(json.loads(obj.param.serialize_parameters(subset=subset)), types))
        out['subset_intact'] = subset is None or sorted(subset) == sorted(names_in_subset)
        # the full text read back with the narrower subset
        if text_all[0] is None:
            out['narrow_deser'] = {'err': 'noser'}
        else:
            out['narrow_deser'] = _res(lambda: [[k, enc_val(v)] for k, v in
                                                cls.param.deserialize_parameters(text_all[0], subset=subset).items()])
        return out
    except G.Unsupported as e:
        return {'crash': f'adapter cannot encode: {e}'}
    except Exception as e:
        return {'crash': f'{type(e).__name__}: {e}'[:300]}


# ---------------------------------------------------------------- generation

def _d(y, m=1, d=1):
    return {'t': 'date', 'v': [y, m, d]}


def _dt(y, m=1, d=1, h=0, mi=0, s=0, us=0):
    return {'t': 'datetime', 'v': [y, m, d, h, mi, s, us]}


def _tup(*xs):
    return {'t': 'tuple', 'v': list(xs)}


def _lst(*xs):
    return {'t': 'list', 'v': list(xs)}


NONE = {'t': 'none'}


def directed():
    ev = enc_val
    simple = [
        ({'type': 'Integer'}, ev(3)), ({'type': 'Integer'}, ev(2 ** 70)), ({'type': 'Integer'}, ev(True)),
        ({'type': 'Integer', 'allow_None': True}, NONE),
        ({'type': 'Number'}, ev(1.5)), ({'type': 'Number'}, ev(3)), ({'type': 'Number'}, ev(1e308)),
        ({'type': 'Number'}, ev(5e-324)), ({'type': 'Number'}, ev(3.0)), ({'type': 'Number', 'allow_None': True}, NONE),
        ({'type': 'Number'}, ev(float('inf'))), ({'type': 'Number'}, ev(float('nan'))),
        ({'type': 'String'}, ev('héllo')), ({'type': 'String'}, ev('null')), ({'type': 'String'}, ev('')),
        ({'type': 'String', 'allow_None': True}, NONE),
        ({'type': 'Boolean'}, ev(False)), ({'type': 'Boolean', 'allow_None': True}, NONE),
        ({'type': 'Tuple'}, ev((1, 'a', None))), ({'type': 'Tuple', 'length': 0}, ev(())),
        ({'type': 'Tuple'}, ev(([1, 2], {'k': 1.5}))), ({'type': 'Tuple'}, ev(((1, 2), 'a'))),
        ({'type': 'Tuple', 'length': 2}, NONE),
        ({'type': 'NumericTuple'}, ev((1, 2.5, True))), ({'type': 'NumericTuple', 'length': 3}, NONE),
        ({'type': 'XYCoordinates'}, ev((0.0, 1))), ({'type': 'XYCoordinates'}, NONE),
        ({'type': 'Range'}, ev((0.5, 1))), ({'type': 'Range', 'bounds': [ev(0), ev(10)]}, ev((1, 2))),
        ({'type': 'Range'}, NONE),
        ({'type': 'Date'}, _dt(2020, 1, 2, 3, 4, 5, 678)), ({'type': 'Date'}, _dt(2021, 12, 31, 23, 59, 59, 999999)),
        ({'type': 'Date'}, _dt(1000, 1, 1, 0, 0, 0, 1)), ({'type': 'Date'}, _dt(9999, 12, 31)),
        ({'type': 'Date'}, _dt(999, 1, 1)), ({'type': 'Date'}, _dt(1, 1, 1)), ({'type': 'Date'}, _d(2020, 1, 2)),
        ({'type': 'Date'}, NONE),
        ({'type': 'CalendarDate'}, _d(2020, 2, 29)), ({'type': 'CalendarDate'}, _d(1000)), ({'type': 'CalendarDate'}, _d(999, 12, 31)),
        ({'type': 'CalendarDate'}, _d(99)), ({'type': 'CalendarDate'}, NONE),
        ({'type': 'DateRange'}, _tup(_dt(2020), _dt(2020, 1, 2, 0, 0, 0, 5))), ({'type': 'DateRange'}, _tup(_d(2020), _d(2020, 1, 2))),
        ({'type': 'DateRange'}, _tup(_d(999), _d(2020))), ({'type': 'DateRange'}, _tup(_dt(999), _dt(2020))),
        ({'type': 'DateRange'}, _tup(_d(1000), _d(9999, 12, 31))), ({'type': 'DateRange'}, NONE),
        ({'type': 'CalendarDateRange'}, _tup(_d(2020), _d(2020, 1, 2))), ({'type': 'CalendarDateRange'}, _tup(_d(5), _d(2020))),
        ({'type': 'CalendarDateRange'}, _tup(_dt(2020, 1, 1, 5), _dt(2020, 1, 2))), ({'type': 'CalendarDateRange'}, NONE),
        ({'type': 'List'}, ev([1, 'a', [2], None, 2.5, {'k': []}])), ({'type': 'List'}, ev([])),
        ({'type': 'List'}, ev([(1, 2)])), ({'type': 'List', 'item_type': 'int'}, ev([1, True])),
        ({'type': 'List', 'item_type': ['int', 'str']}, ev([1, 'a'])), ({'type': 'List', 'allow_None': True}, NONE),
        ({'type': 'Dict'}, ev({'a': [1, 2], 'b': {'c': None}})), ({'type': 'Dict'}, ev({})), ({'type': 'Dict'}, ev({1: 'a'})),
        ({'type': 'Dict'}, ev({'t': (1, 2)})), ({'type': 'Dict'}, NONE),
        ({'type': 'Selector', 'objects': [ev(1), ev('a'), NONE], 'names': None}, ev('a')),
        ({'type': 'Selector', 'objects': [ev(1), ev('a'), NONE], 'names': None}, NONE),
        ({'type': 'Selector', 'objects': [ev(1.5), ev(2)], 'names': ['k', 'j']}, ev(2)),
        ({'type': 'Selector', 'objects': [ev(1), ev(2)], 'names': None, 'default': None}, ev(2)),
        ({'type': 'Selector', 'objects': [], 'names': None, 'default': None}, NONE),
        ({'type': 'Selector', 'objects': [ev(1), ev(2)], 'names': None, 'allow_None': True}, NONE),
        ({'type': 'ListSelector', 'objects': [ev(1), ev(2), ev(3)], 'names': None}, ev([3, 1])),
        ({'type': 'ListSelector', 'objects': [ev(1), ev(2), ev(3)], 'names': None}, ev([])),
        ({'type': 'ListSelector', 'objects': [ev(1), ev(2)], 'names': None, 'default': None}, ev([1])),
        ({'type': 'ListSelector', 'objects': [ev(1), ev(2)], 'names': None, 'default': NONE}, NONE),
        ({'type': 'Color'}, ev('#ffffff')), ({'type': 'Color'}, ev('red')), ({'type': 'Color'}, NONE),
    ]
    for decl, v in simple:
        if not (decl['type'] == 'Selector' and decl['objects'] == []):   # see G.gen_case
            yield single(decl, v)
        yield single(decl, v, level='class')
    yield single({'type': 'Date'}, _dt(2020, 5, 6, 7, 8, 9, 123456), subset=['p0'])
    yield single({'type': 'Tuple'}, enc_val((1, 2)), subset=['name'])
    yield single({'type': 'Tuple'}, enc_val((1, 2)), subset=[])
    for kind in G.SUBSET_KINDS:
        yield dict(single({'type': 'Date'}, _dt(2020, 5, 6, 7, 8, 9, 123456), subset=['p0']), subset_kind=kind)
        yield dict(single({'type': 'Tuple'}, enc_val((1, 2)), subset=['name', 'p0'], level='class'), subset_kind=kind)
    # several parameters at once, each of the codecs with a hook
    ps = [G.name_param()]
    vals = [enc_val('obj')]
    for i, (t, v) in enumerate([('Tuple', enc_val((1, 'a'))), ('Date', _dt(2024, 2, 29, 12, 0, 0, 1)), ('CalendarDate', _d(2024, 2, 29)),
                                ('DateRange', _tup(_d(2020), _d(2021))), ('CalendarDateRange', _tup(_d(2020), _d(2021))),
                                ('Range', enc_val((1, 2.5))), ('Number', enc_val(0.1)), ('List', enc_val([1, [2]]))]):
        d = {'name': f'p{i}', 'type': t, 'allow_None': None, 'doc': None, 'label': 'L', 'default': v}
        if t in ('Range', 'Number'):
            d['bounds'], d['inclusive'] = None, [True, True]
        if t == 'List':
            d['item_type'], d['min_len'], d['max_len'] = None, 0, None
        ps.append(d)
        vals.append(v)
    yield G.mk_case(ps, vals, 'instance', None, None)
    yield G.mk_case(ps, vals, 'instance', None, ['p1', 'p3', 'p7'])
    yield G.mk_case(ps, vals, 'class', None, ['p0', 'p2'])
    # histories: serialize, then add / replace parameters with add_parameter, then serialize again
    full = G.mk_case(ps, vals, 'instance', None, ['p1', 'p3', 'p7'])
    old = lambda n: [n, {'name': n, 'type': 'String', 'allow_None': None, 'default': enc_val('x'), 'doc': None, 'label': 'old'}]
    yield G.with_history(full, ['p7'], [])
    yield G.with_history(full, ['p1', 'p6'], [old('p3')])
    yield G.with_history(G.mk_case(ps, vals, 'class', None, ['p0', 'p1']), ['p0'], [old('p1')])
    yield G.with_history(G.mk_case(ps, vals, 'instance', None, None), [], [old('p1'), old('p0')])
    # histories: parameters left unset on the instance, per-instance Parameter objects touched, class default assigned
    vals2 = list(vals)
    vals2[1], vals2[2], vals2[7] = enc_val((3, 'b')), _dt(2021, 2, 3, 4, 5, 6), enc_val(2.5)
    yield dict(G.mk_case(ps, vals2, 'instance', None, None), unset=['p0', 'p1', 'p6'])
    yield dict(G.mk_case(ps, vals2, 'instance', None, ['p0', 'p6']), unset=['p0', 'p1', 'p2', 'p3', 'p4', 'p5', 'p6'])


def cases(rng, tier, worker, nworkers):
    import param
    if worker == 0:
        for f in sorted(glob.glob(os.path.join(os.path.dirname(__file__), '..', '..', 'corpus', 'C15', '*.json'))):
            yield json.load(open(f))['case']
        yield from directed()
    n_random = 4500 if tier == 'quick' else 120000 // nworkers
    opts_clean = {'nonfinite': 0.02, 'exotic': 0.0, 'small_year': 0.15}
    opts_all = {'nonfinite': 0.03, 'exotic': 0.12, 'small_year': 0.3, 'findings': True}
    for i in range(n_random):
        c = G.gen_case(rng, param, G.TYPES15, opts_clean if i % 3 else opts_all)
        if i % 5 == 2:
            c = G.gen_history(rng, c)
        elif i % 5 == 4:
            c = G.gen_unset(rng, c)
        yield c


def tags(case, impl):
    t = ['level:' + case['level'], f'nparams={len(case["params"]) - 1}']
    if case.get('subset') is not None:
        t.append('subset')
        t.append('subset-kind:' + (case.get('subset_kind') or 'list'))
    if case.get('added') or case.get('replaced'):
        t.append('history:add_parameter')
    if case.get('unset'):
        t.append('history:class-default-after-instance')
    for d in case['params'][1:]:
        t.append('type:' + d['type'])
    if isinstance(impl, dict) and impl.get('invalid'):
        t.append('invalid-state')
    return t


def nontrivial(case, impl, resp):
    if not isinstance(impl, dict) or impl.get('invalid') or 'state' not in impl:
        return False
    return bool(resp.get('applicable')) and any(v != NONE for n, v in impl['state'] if n != 'name')


def shrink(case):
    yield from G.shrink_case(case)


# ---------------------------------------------------------------- known findings

def _listify(v):
    """what JSON does to a value: tuples become lists, keys become strings"""
    t = v['t']
    if t in ('list', 'tuple'):
        return {'t': 'list', 'v': [_listify(x) for x in v['v']]}
    if t == 'dict':
        def key(k):
            if k['t'] == 'str':
                return k
            if k['t'] == 'none':
                return {'t': 'str', 'v': 'null'}
            if k['t'] == 'bool':
                return {'t': 'str', 'v': 'true' if k['v'] else 'false'}
            return {'t': 'str', 'v': str(k['v'])}
        return {'t': 'dict', 'v': [[key(k), _listify(x)] for k, x in v['v']]}
    return v


def _state_value(impl, name):
    for n, v in impl.get('state', []):
        if n == name:
            return v
    return None


def classify(case, impl, fail):
    if fail.get('kind') != 'counterexample' or not isinstance(impl, dict) or 'state' not in impl:
        return None
    m = re.match(r'parameter (\w+): (.*)', fail.get('why') or '')
    if not m:
        return None
    pname, what = m.group(1), m.group(2)
    decl = G.params_by_name(case).get(pname)
    v = _state_value(impl, pname)
    if decl is None or v is None:
        return None
    pv = {n: (s, d) for n, s, d in impl.get('per_value', [])}.get(pname)
    t = decl['type']
    if what.startswith('serialize_value/deserialize_value does not restore') and pv and 'ok' in pv[1]:
        got = pv[1]['ok']
        if t in ('Tuple', 'List', 'Dict'):
            inner = v['v'] if t != 'Dict' else [x for _, x in v['v']]
            has_tuple = any(y['t'] == 'tuple' for x in inner for y in G.walk(x))
            has_key = any(k['t'] != 'str' for y in G.walk(v) if y['t'] == 'dict' for k, _ in y['v'])
            want = _listify(v)
            if t == 'Tuple':
                want = {'t': 'tuple', 'v': want['v']}
            if got == want and (has_tuple or has_key):
                return 'nested-tuple-becomes-list' if has_tuple else 'dict-nonstring-key-becomes-string'
    return None
