"""C19 — time-dependent dynamic values are a pure function of time.
Correspondence: Lean `ParamVerif.TimeDyn.traceOps` vs the real param.Time / param.Dynamic /
numbergen generators / Parameterized._state_push/_state_pop; oracle: TimeDyn/Spec.lean."""
import copy
import itertools
from fractions import Fraction

ID = 'C19'
PROPS_FILE = 'ParamVerif/Props/C19.lean'
DRIVER = 'Driver/C19.lean'
SOURCES = [('param/parameters.py', 'Time'), ('param/parameters.py', 'Dynamic'),
           ('param/parameters.py', 'Number.__get__'), ('param/_utils.py', '_produce_value'),
           ('param/parameterized.py', 'Parameters._state_push'), ('param/parameterized.py', 'Parameters._state_pop'),
           ('param/parameterized.py', 'Parameters.get_value_generator'), ('param/parameterized.py', 'Parameters.inspect_value'),
           ('param/parameterized.py', 'Parameters.force_new_dynamic_value'),
           ('param/parameterized.py', 'Parameters._instantiate_param'),
           ('numbergen/__init__.py', 'Hash'), ('numbergen/__init__.py', 'TimeAwareRandomState'),
           ('numbergen/__init__.py', 'RandomDistribution'), ('numbergen/__init__.py', 'TimeAware'), ('numbergen/__init__.py', 'TimeSampledFn')]
BUDGET_S = {'quick': 45, 'thorough': 400}
EXHAUSTIVE = {'quick': False, 'thorough': False}
TRUSTED = [
    'statements in lean/ParamVerif/Props/C19.lean (Inv = Dynamic.time_dependent on + cached pairs coherent; Sentinel)',
    'spec-side oracle lean/ParamVerif/TimeDyn/Spec.lean (table keyed by (name, seed, time); repeated reads; '
    'inspection changes nothing; context exit restores time/timestep/until/depth; pop restores cache)',
    'harness/props/c19.py adapter (reports every returned value as an exact ratio, time_fn()/timestep/until/'
    'len(_pushed_state)/in_context and (_Dynamic_last, _Dynamic_time, len(_saved_*)) of every generator after '
    'every statement; generators named by creation index)',
    'hashlib.md5 / random.Random / struct are uninterpreted (Env.hash, Env.draw, Env.stream): the model returns '
    'symbolic keys; correspondence requires a consistent key -> value assignment, counters exactly',
    'correspondence is differential testing: model = code only on the histories executed',
]
ASSUMPTIONS = [
    'one global Time object (param.Dynamic.time_fn); time_type is int or fractions.Fraction and may be switched '
    '(float times and converting time_type callables are not generated); generators use that Time object',
    'a generator\'s "name" is the name given at construction (the hash name): copies made on instantiation '
    'get a new .name but keep the hash name',
    'seeds are explicit integers; param.random_seed is not changed',
    'state_pop theorem: the block between push and pop does not assign generators, instantiate, or push/pop '
    '(nested push/pop is executed and checked by the oracle, not proved)',
]
RULE = ('directed prefix (time -1 as first read = regression of the repaired cache marker, cache copy on instantiation, shared generators, exceptions in nested contexts, '
        'unbalanced pop, time_dependent off) + all sequences of length <=2 (<=3 thorough) over a 15-statement alphabet '
        '+ random histories of <=30 statements (time jumps forward/backward/repeated/negative/huge, reads, inspections, '
        'equal times arriving as new int objects (values > 256 set twice, += d then -= d) between reads of '
        'generators with memory, generators whose k-th call raises (StopIteration swallowed by an enclosing context, '
        'KeyError ending the history) followed by more reads at the same time, forced values, nested contexts left normally / by StopIteration / by KeyError, push/pop, assignments, new '
        'instances) over 1-4 parameters (Dynamic and Number), time-dependent generators with 3 names x 3 seeds x 3 '
        'distributions, TimeSampledFn over them (periods 1-6, every offset), counters and seeded streams. non-trivial = at least one oracle conclusion checked and one '
        'value read from a time-dependent generator; distinct = distinct canonical case')
COVERAGE_TARGETS = ['plain-parameter', 'per-instance-parameters', 'object-valued-parameter', 'explicit-time_fn', 'own-clock-read', 'setTimeType', 'fractional-time', 'time_type:Fraction', 'read:td', 'read:st', 'read:sm', 'force:sm', 'inspect:sm', 'read:const', 'read:raised:StopIteration', 'read:raised:KeyError',
                    'force:raised:StopIteration',
                    'inspect:td', 'inspect:st', 'force:td', 'force:st', 'enter', 'exit', 'exit:raised:KeyError',
                    'exit:raised:IndexError', 'push', 'pop', 'pop:raised:IndexError', 'raise:raised:StopIteration',
                    'raise:raised:KeyError', 'newInst', 'assign', 'setTime', 'advance', 'setStep', 'setUntil']

_DIST = {'g': 'UniformRandom', 'n': 'NormalRandom', 'i': 'UniformRandomInt'}


class _Malformed(Exception):
    """the history refers to an instance / generator that does not exist (e.g. its creation was
    skipped by an exception): both sides treat it as an exception that ends the history"""


_EXC = {'StopIteration': StopIteration, 'KeyError': KeyError}


class _Counter:
    """a generator that ignores time: k-th call returns k; optionally its n-th call (0-based) raises"""
    def __init__(self, sid, fail=None):
        self.sid = sid
        self.k = 0
        self.n = 0
        self.fail = fail

    def __call__(self):
        n = self.n
        self.n = n + 1
        if self.fail and self.fail[0] == n:
            raise _EXC[self.fail[1]]('generator fault')      # before anything is produced
        self.k += 1
        return self.k


_FLAKY = {}


def _flaky(cls):
    """subclass of a numbergen class whose n-th call (0-based) raises before drawing anything
    (the state of its random stream is untouched by the failed call)"""
    if cls not in _FLAKY:
        def __call__(self):
            n = self._calls
            self._calls = n + 1
            if self._fail and self._fail[0] == n:
                raise _EXC[self._fail[1]]('generator fault')
            return cls.__call__(self)
        _FLAKY[cls] = type('Flaky' + cls.__name__, (cls,), {'__call__': __call__, '_calls': 0, '_fail': None})
    return _FLAKY[cls]


def _exc_name(e):
    return 'MALFORMED' if isinstance(e, _Malformed) else type(e).__name__


def _q(t):
    """exact ratio [numerator, denominator] of an int / Fraction time"""
    f = Fraction(t)
    return [f.numerator, f.denominator]


def _time(j):
    """time of a case: an int, or [numerator, denominator]"""
    return Fraction(j[0], j[1]) if isinstance(j, list) else j


def _enc_time(t):
    """the 'no value generated yet' marker is not a number: reported as null"""
    return _q(t) if isinstance(t, (int, Fraction)) and not isinstance(t, bool) else None


def _enc(v):
    if v is None:
        return None
    if isinstance(v, bool) or not isinstance(v, (int, float)):
        raise RuntimeError(f'unexpected value {v!r}')
    if isinstance(v, int):
        return ['r', v, 1]
    n, d = v.as_integer_ratio()
    return ['r', n, d]


class _Run:
    def __init__(self, case):
        import param
        import numbergen as ng
        self.param, self.ng = param, ng
        self.case = case
        self.tf = param.Dynamic.time_fn
        self.reg = []
        self.events = []

    # -- observation helpers
    def gid(self, g):
        for i, x in enumerate(self.reg):
            if x is g:
                return i
        self.reg.append(g)
        return len(self.reg) - 1

    def kind(self, g):
        if isinstance(g, _Counter):
            return ['st', g.sid]
        if isinstance(g, self.ng.TimeSampledFn):
            f = g.fn
            sfx = str(f.seed)
            return ['sm', f._hashfn.name[:-len(sfx)], f.seed, int(g.period), int(g.offset)]
        if g.time_dependent:
            sfx = str(g.seed)
            hn = g._hashfn.name
            return ['td', hn[:-len(sfx)], g.seed]
        return ['st', g.seed]

    def clock(self):
        tf = self.tf
        ts = tf.timestep
        if ts != int(ts):
            raise RuntimeError('non-integral timestep')
        until = None if isinstance(tf.until, self.param.Infinity) else int(tf.until)
        return [_q(tf()), int(ts), until, len(tf._pushed_state), getattr(tf, 'in_context', None),
                'int' if tf.time_type is int else 'frac']

    def caches(self):
        return [[_enc(g._Dynamic_last), _enc_time(g._Dynamic_time), len(g._saved_Dynamic_last), len(g._saved_Dynamic_time)]
                for g in self.reg]

    def ev(self, tag, res, touched=None, gens=()):
        self.events.append({'tag': tag, 'res': res, 'clock': self.clock(), 'caches': self.caches(),
                            'touched': touched, 'gens': list(gens)})

    # -- construction
    def make(self, src):
        if 'const' in src:
            return src['const']
        if 'existing' in src:
            if src['existing'] >= len(self.reg):
                raise _Malformed()
            return self.reg[src['existing']]
        k = src['fresh']
        if k[0] in ('td', 'sm') and not self.case['dynTD']:
            raise _Malformed()      # numbergen refuses: Dynamic parameters are ignoring time
        fail = src.get('fail')
        if k[0] == 'sm':
            # samples a time-dependent distribution every `period`, shifted by `offset` (visits the sample
            # time inside `with time_fn`)
            cls = getattr(self.ng, _DIST.get(k[1][:1], 'UniformRandom'))
            try:
                g = self.ng.TimeSampledFn(fn=cls(name=k[1], seed=k[2], time_dependent=True), period=k[3], offset=k[4])
            except Exception:
                # period <= 0, offset < 0 (Number bounds) or offset >= period: the constructor refuses
                raise _Malformed()
        elif k[0] == 'td':
            cls = getattr(self.ng, _DIST.get(k[1][:1], 'UniformRandom'))
            # `tf`: the global Time object handed over explicitly (`time_fn=T`) instead of being looked up
            extra = {'time_fn': self.tf} if src.get('tf') else {}
            g = (_flaky(cls) if fail else cls)(name=k[1], seed=k[2], time_dependent=True, **extra)
        elif k[1] % 2 == 0:
            g = _Counter(k[1], fail)
        else:
            g = (_flaky(self.ng.UniformRandom) if fail else self.ng.UniformRandom)(seed=k[1], time_dependent=False)
        if fail and not isinstance(g, _Counter):
            g._calls, g._fail = 0, list(fail)
        self.reg.append(g)
        return g

    def target(self, tg):
        if tg >= len(self.insts):
            raise _Malformed()
        return self.cls if tg < 0 else self.insts[tg]

    def inst_gens(self, inst):
        out = []
        for i in range(len(self.case['params'])):
            g = inst.param.get_value_generator(f'p{i}')
            if hasattr(g, '_Dynamic_last'):
                out.append(self.gid(g))
        return out

    # -- execution
    def block(self, ops):
        for op in ops:
            self.op(op)

    def op(self, op):
        param, tf = self.param, self.tf
        o = op['op']
        if o == 'ctx':
            try:
                with tf:
                    self.ev('enter', {'ok': ['u']})
                    self.block(op['body'])
            except (KeyError, IndexError, ValueError, _Malformed) as e:
                self.ev('exit', {'raised': _exc_name(e)})
                raise
            self.ev('exit', {'ok': ['u']})
            return
        if o == 'raise':
            self.ev('raise', {'raised': op['e']})
            raise {'StopIteration': StopIteration, 'KeyError': KeyError}[op['e']]('x')
        tag, touched, gens = o, None, ()
        if o in ('read', 'inspect', 'force'):
            tag = f'{o}:{"c" if op["tg"] < 0 else op["tg"]}:{op["p"]}'
        elif o in ('push', 'pop'):
            tag = f'{o}:{op["i"]}'
        elif o == 'assign':
            tag = f'assign:{"c" if op["tg"] < 0 else op["tg"]}:{op["p"]}'
        try:
            # everything the statement needs is looked up first (a missing object is _Malformed)
            if o in ('read', 'inspect', 'force'):
                obj, pname = self.target(op['tg']), f'p{op["p"]}'
                g = obj.param.get_value_generator(pname)
                dyn = hasattr(g, '_Dynamic_last')
                if dyn:
                    touched = [self.gid(g), self.kind(g), getattr(g, 'time_fn', tf) is not tf]
                call = {'read': lambda: getattr(obj, pname),
                        'inspect': lambda: obj.param.inspect_value(pname),
                        'force': lambda: obj.param.force_new_dynamic_value(pname)}[o]
            elif o in ('push', 'pop'):
                inst = self.target(op['i'])
                gens = self.inst_gens(inst)
                call = inst.param._state_push if o == 'push' else inst.param._state_pop
            elif o == 'assign':
                if op['p'] >= len(self.case['params']):
                    raise _Malformed()
                obj = self.target(op['tg'])
                val = self.make(op['src'])
                call = lambda: setattr(obj, f'p{op["p"]}', val)
            elif o == 'setTime':
                call = lambda: tf(_time(op['t']))
            elif o == 'setTimeType':
                call = lambda: tf(_time(op['t']), time_type={'int': int, 'frac': Fraction}[op['tt']])
            elif o == 'advance':
                d = _time(op['d'])
                call = (lambda: tf.__iadd__(d)) if d >= 0 else (lambda: tf.__isub__(-d))
            elif o == 'setStep':
                call = lambda: setattr(tf, 'timestep', op['s'])
            elif o == 'setUntil':
                call = lambda: setattr(tf, 'until', param.Time.forever if op['u'] is None else op['u'])
            elif o == 'newInst':
                call = self.cls
            else:
                raise RuntimeError(o)
        except _Malformed:
            self.ev(tag, {'raised': 'MALFORMED'}, None, ())
            raise
        faults = (StopIteration, KeyError) if o in ('read', 'force') else ()
        try:
            v = call()
        except (ValueError, IndexError) + faults as e:
            self.ev(tag, {'raised': type(e).__name__}, touched, gens)
            raise
        res = ['u']
        if o in ('read', 'inspect', 'force'):
            res = _enc(v) if dyn else ['c', v]
        elif o == 'newInst':
            self.insts.append(v)
            self.inst_gens(v)        # registers the copies, in parameter order
            if self.case.get('instparams'):
                # per-instance Parameter objects come into being (copies of the class Parameters as they are
                # now); values keep being looked up as before
                for i in range(len(self.case['params'])):
                    v.param[f'p{i}']
        self.ev(tag, {'ok': res}, touched, gens)

    def run(self):
        param, tf, case = self.param, self.tf, self.case
        saved_td = param.Dynamic.time_dependent
        try:
            param.Dynamic.time_dependent = case['dynTD']
            tf(0, time_type=int)
            tf._pushed_state = []
            tf.timestep = 1.0
            tf.until = param.Time.forever
            if hasattr(tf, 'in_context'):
                del tf.in_context
            ns = {}
            for i, p in enumerate(case['params']):
                # 'plain': not a Dynamic parameter at all (holds plain numbers only): reads, inspections, forced
                # values and push/pop must treat it like a Dynamic parameter holding a non-callable value
                P = {'dynamic': param.Dynamic, 'number': param.Number, 'plain': param.Parameter}[p['ptype']]
                ns[f'p{i}'] = P(default=self.make(p['default']))
            if case.get('sub'):
                # a further, object-valued parameter no statement touches (push/pop walk over every parameter)
                ns['sub'] = param.Parameter(default=param.Parameterized(name='sub'))
            self.cls = type('A', (param.Parameterized,), ns)
            self.insts = []
            init = {'tag': 'init', 'res': {'ok': ['u']}, 'clock': self.clock(), 'caches': self.caches(),
                    'touched': None, 'gens': []}
            outcome = {'ok': ['u']}
            try:
                self.block(case['ops'])
            except (KeyError, IndexError, ValueError, StopIteration, _Malformed) as e:
                outcome = {'raised': _exc_name(e)}
            return {'init': init, 'events': self.events, 'outcome': outcome, 'final_clock': self.clock()}
        finally:
            param.Dynamic.time_dependent = saved_td
            tf._pushed_state = []
            tf(0, time_type=int)
            tf.timestep = 1.0
            tf.until = param.Time.forever


def run_impl(case):
    try:
        return _Run(case).run()
    except Exception as e:
        return {'crash': f'{type(e).__name__}: {e}'[:300]}


def compare(impl, model):
    """structural equality, except that the model's symbolic values must map consistently to
    the implementation's numbers (same key => same number; counters: exactly k+1)"""
    table = {}

    def go(a, b, path):
        if isinstance(b, list) and len(b) == 2 and b[0] == 'sym':
            if not (isinstance(a, list) and len(a) == 3 and a[0] == 'r'):
                return f'{path}: impl {a!r} vs model {b!r}'
            key = b[1]
            val = (a[1], a[2])
            origin, _, k = key.rpartition('#')
            parts = origin.split('|')
            if parts[0] == 'st' and int(parts[1]) % 2 == 0 and val != (int(k) + 1, 1):
                return f'{path}: counter value impl {a!r} vs model {b!r}'
            if table.setdefault(key, val) != val:
                return f'{path}: {key} was {table[key]!r}, now {val!r}'
            return None
        if type(a) != type(b):
            return f'{path}: impl {a!r} vs model {b!r}'
        if isinstance(a, dict):
            for k in sorted(set(a) | set(b)):
                if k not in a or k not in b:
                    return f'{path}.{k}: impl {a.get(k, "<absent>")!r} vs model {b.get(k, "<absent>")!r}'
                d = go(a[k], b[k], f'{path}.{k}')
                if d:
                    return d
            return None
        if isinstance(a, list):
            if len(a) != len(b):
                return f'{path}: length impl {len(a)} vs model {len(b)}'
            for i, (x, y) in enumerate(zip(a, b)):
                d = go(x, y, f'{path}[{i}]')
                if d:
                    return d
            return None
        return None if a == b else f'{path}: impl {a!r} vs model {b!r}'
    return go(impl, model, '$')


# ---------------------------------------------------------------- generation

def _td(name='g', seed=3):
    return {'fresh': ['td', name, seed]}


def _st(sid=0):
    return {'fresh': ['st', sid]}


def _p(ptype, default):
    return {'ptype': ptype, 'default': default}


def _mk(params, ops, dynTD=True, sub=False, instparams=False):
    return {'dynTD': dynTD, 'params': params, 'ops': ops, 'sub': sub, 'instparams': instparams}


def R(tg, p):
    return {'op': 'read', 'tg': tg, 'p': p}


def I(tg, p):
    return {'op': 'inspect', 'tg': tg, 'p': p}


def F(tg, p):
    return {'op': 'force', 'tg': tg, 'p': p}


def T(t):
    return {'op': 'setTime', 't': t}


def TT(t, tt):
    return {'op': 'setTimeType', 't': t, 'tt': tt}


def ADV(d):
    return {'op': 'advance', 'd': d}


def CTX(*body):
    return {'op': 'ctx', 'body': list(body)}


def RAISE(e):
    return {'op': 'raise', 'e': e}


NEW = {'op': 'newInst'}


def _directed():
    two = [_p('number', _td()), _p('dynamic', _st(0))]
    # regression of f16aa09: the first read at time -1 must generate (the cache marker used to be -1)
    yield _mk([_p('dynamic', _td())], [T(-1), R(-1, 0)])
    yield _mk([_p('number', _td())], [T(-1), R(-1, 0)])
    yield _mk([_p('dynamic', _td())], [T(-1), R(-1, 0), R(-1, 0), F(-1, 0), R(-1, 0), T(0), R(-1, 0), T(-1), R(-1, 0)])
    yield _mk([_p('dynamic', _st(0))], [T(-1), R(-1, 0), R(-1, 0), T(0), R(-1, 0)])
    yield _mk([_p('dynamic', _td())], [T(0), R(-1, 0), T(-1), R(-1, 0), T(0), R(-1, 0)])
    # an equal time that is a different object: ints above 256 are not interned, `t(300)` twice or
    # `+= d; -= d` yield a new int object; generators with memory (counter, seeded stream) must then
    # repeat the cached value (equality of times, not identity, decides)
    mem = [_p('dynamic', _st(0)), _p('number', _st(1)), _p('dynamic', _td())]
    yield _mk(mem, [NEW, T(300), R(0, 0), R(0, 1), R(0, 2), T(300), R(0, 0), R(0, 1), R(0, 2),
                    {'op': 'advance', 'd': 700}, {'op': 'advance', 'd': -700}, R(0, 0), R(0, 1), R(-1, 0), T(300), R(-1, 0),
                    T(10 ** 6), R(0, 0), I(0, 0), T(10 ** 6), R(0, 0), T(-1000), R(0, 1), T(-1000), R(0, 1),
                    CTX(T(5000), R(0, 0), T(5000), R(0, 0)), R(0, 0), T(-1000), R(0, 0)])
    yield _mk(mem, [NEW, NEW, T(2 ** 40), R(0, 0), R(1, 0), {'op': 'push', 'i': 0}, T(2 ** 40), R(0, 0),
                    {'op': 'advance', 'd': 1}, {'op': 'advance', 'd': -1}, R(0, 0), {'op': 'pop', 'i': 0}, T(2 ** 40), R(0, 0),
                    R(1, 0)])
    yield _mk([_p('dynamic', _st(2))], [T(257), R(-1, 0), T(257), R(-1, 0), T(256), R(-1, 0), T(256), R(-1, 0)])
    # a generator that raises once while a value is being produced (caught by the enclosing context /
    # ending the history): value and time stamp of the cache must stay as they were
    def flaky(n, exc='StopIteration', name='g', seed=3):
        return dict(_td(name, seed), fail=[n, exc])
    fl = [_p('dynamic', flaky(1)), _p('dynamic', dict(_st(0), fail=[1, 'StopIteration'])),
          _p('number', dict(_st(1), fail=[2, 'StopIteration']))]
    yield _mk(fl, [NEW, NEW, T(0), R(0, 0), R(1, 0), T(1), CTX(R(0, 0)), R(0, 0), I(0, 0), R(1, 0), R(0, 0), T(0), R(0, 0),
                   T(1), R(0, 0), R(1, 0)])
    yield _mk(fl, [NEW, T(0), R(0, 1), R(0, 2), T(5), CTX(R(0, 1)), I(0, 1), R(0, 1), R(0, 1), R(0, 2), T(6), CTX(R(0, 2)),
                   R(0, 2), I(0, 2), CTX(T(7), CTX(F(0, 0)), R(0, 0), I(0, 0)), R(0, 0)])
    yield _mk([_p('dynamic', flaky(0)), _p('dynamic', flaky(2, 'KeyError', 'n', 0))],
              [CTX(R(-1, 0)), I(-1, 0), R(-1, 0), NEW, T(3), R(0, 1), T(4), R(0, 1), T(9), CTX(T(8), R(0, 1), T(2)), I(0, 1)])
    yield _mk([_p('dynamic', flaky(1, 'KeyError'))], [T(0), R(-1, 0), T(1), R(-1, 0), R(-1, 0)])
    yield _mk([_p('dynamic', dict(_st(2), fail=[0, 'StopIteration']))], [CTX(R(-1, 0)), R(-1, 0), R(-1, 0), T(1),
                                                                       R(-1, 0)], dynTD=False)
    # TimeSampledFn: the value is held between sample points; evaluating it visits the sample time inside a
    # time context and must leave the clock exactly where it was (also with a non-zero offset)
    def sm(period, offset, name='g', seed=3):
        return {'fresh': ['sm', name, seed, period, offset]}
    smp = [_p('dynamic', sm(3, 1)), _p('number', sm(4, 0)), _p('dynamic', _td()), _p('dynamic', sm(5, 2, 'n', 0))]
    yield _mk(smp, [NEW] + [x for t in (0, 1, 2, 3, 4, 5, 8, -1, -4, 300, 2, 2) for x in
                            (T(t), R(0, 0), R(0, 0), R(0, 1), R(0, 2), R(0, 3), I(0, 0), F(0, 0), R(-1, 0))])
    yield _mk(smp, [NEW, T(7), {'op': 'setStep', 's': 2}, {'op': 'setUntil', 'u': 40}, R(0, 0), R(0, 3),
                    CTX(T(9), R(0, 0), CTX({'op': 'advance', 'd': 4}, F(0, 3), R(0, 1)), R(0, 0)), R(0, 0),
                    {'op': 'push', 'i': 0}, T(11), R(0, 0), R(0, 3), {'op': 'pop', 'i': 0}, I(0, 0), R(0, 0)])
    # rational time (time_type=Fraction), the time type switched inside a context (to the lossy `int`): the
    # context puts the saved time back exactly, whatever the type in force; conversions by time_type elsewhere
    fr = [_p('number', _td()), _p('dynamic', _st(0)), _p('dynamic', {'fresh': ['sm', 'g', 3, 3, 1]})]
    yield _mk(fr, [NEW, TT([5, 2], 'frac'), R(0, 0), R(0, 1), R(0, 2), CTX(TT(7, 'int'), ADV(3), R(0, 0), R(0, 1)),
                   R(0, 0), R(0, 1), R(0, 2), I(0, 0), ADV([1, 2]), R(0, 0), T([7, 2]), R(0, 0), T([5, 2]), R(0, 0)])
    yield _mk(fr, [NEW, TT([5, 2], 'frac'), R(0, 0), T([5, 2]), R(0, 0), R(0, 1), T([10, 4]), R(0, 1), ADV([1, 3]),
                   ADV([-1, 3]), R(0, 1), R(0, 0), T([-7, 2]), R(0, 0), R(0, 2), T(2), R(0, 0), R(-1, 0),
                   CTX(ADV([9, 4]), R(0, 2), CTX(TT([-7, 2], 'int'), R(0, 0), RAISE('StopIteration'))), R(0, 0)])
    yield _mk(fr, [NEW, T([5, 2]), R(0, 0), ADV([-5, 2]), R(0, 0), TT([-5, 2], 'int'), R(0, 0), TT([-5, 2], 'frac'),
                   R(0, 0), {'op': 'push', 'i': 0}, CTX(TT(4, 'int'), R(0, 0), RAISE('KeyError')), R(0, 0)])
    # a generator constructed with an explicit time_fn=T (the global Time object), used as a class default and read
    # on the class and on instances (the per-instance deep copy takes a copy of T along: known finding)
    etf = [_p('dynamic', dict(_td(), tf=True)), _p('dynamic', _td()), _p('number', dict(_td('n', 0), tf=True))]
    yield _mk(etf, [NEW, T(1), R(0, 0), R(0, 1), R(-1, 0), T(2), R(0, 0), R(-1, 0), R(0, 2), R(-1, 2)])
    yield _mk(etf, [T(4), R(-1, 0), NEW, R(0, 0), R(0, 1), T(5), NEW, R(1, 0), R(0, 0), R(-1, 0), I(0, 0), F(1, 0), T(4), R(0, 0)])
    yield _mk(etf, [NEW, R(0, 0), R(0, 1), R(-1, 0), R(0, 0)])          # at the time of the copy nothing differs
    yield _mk([_p('dynamic', _td())], [NEW, {'op': 'assign', 'tg': 0, 'p': 0, 'src': dict(_td(), tf=True)}, T(3), R(0, 0),
                                       R(-1, 0), T(6), R(0, 0), R(-1, 0)])   # assigned, not copied: follows the clock
    # a parameter that is not Dynamic at all next to dynamic ones (read / inspect / force / push / pop), an
    # object-valued parameter nobody touches, per-instance Parameter objects made before the class default changes
    pl = [_p('plain', {'const': 7}), _p('dynamic', _td()), _p('number', _st(0))]
    yield _mk(pl, [NEW, R(0, 0), I(0, 0), F(0, 0), I(-1, 0), R(-1, 0), {'op': 'assign', 'tg': 0, 'p': 0, 'src': {'const': 2}},
                   I(0, 0), {'op': 'push', 'i': 0}, T(3), R(0, 1), R(0, 2), I(0, 0), {'op': 'pop', 'i': 0}, I(0, 1),
                   I(0, 2), R(0, 0)], sub=True)
    yield _mk([_p('dynamic', {'const': 4}), _p('dynamic', _st(0))],
              [NEW, NEW, {'op': 'assign', 'tg': -1, 'p': 0, 'src': _st(2)}, T(1), R(0, 0), R(1, 0), I(0, 0),
               {'op': 'push', 'i': 0}, T(7), R(0, 0), F(0, 0), {'op': 'pop', 'i': 0}, I(0, 0), T(1), R(0, 0),
               {'op': 'assign', 'tg': -1, 'p': 1, 'src': _td('n', 0)}, R(0, 1), R(-1, 1), {'op': 'push', 'i': 1}, T(9),
               R(1, 0), {'op': 'pop', 'i': 1}, I(1, 0)], sub=True, instparams=True)
    # TimeSampledFn refuses offset >= period, period <= 0, offset < 0
    for per, off in ((3, 3), (3, 4), (0, 0), (2, -1), (3, 2)):
        yield _mk([_p('dynamic', _td())], [NEW, {'op': 'assign', 'tg': 0, 'p': 0, 'src': {'fresh': ['sm', 'g', 3, per, off]}},
                                          T(4), R(0, 0)])
    # forward / backward / repeated, two instances, class-level
    yield _mk(two, [NEW, NEW] + [x for t in (0, 1, 2, 1, 0, 5, 0, -2, 3, -2, 2, 2 ** 32 + 1, 1)
                                 for x in (T(t), R(0, 0), R(1, 0), R(-1, 0), R(0, 1), R(0, 1))])
    # inspect / force
    yield _mk(two, [NEW, I(0, 0), I(0, 1), T(4), R(0, 0), I(0, 0), R(0, 0), I(0, 0), F(0, 0), I(0, 0), R(0, 1),
                    I(0, 1), I(0, 1), F(0, 1), R(0, 1), I(-1, 1)])
    # contexts: nested, StopIteration swallowed, KeyError propagates through two levels, step/until restored
    yield _mk(two, [NEW, T(3), CTX(T(10), R(0, 0), {'op': 'setStep', 's': 4}, {'op': 'setUntil', 'u': 50},
                                   CTX({'op': 'advance', 'd': -30}, R(0, 0), RAISE('StopIteration'), R(0, 0)),
                                   R(0, 0)), R(0, 0),
                    CTX(T(7), CTX(T(8), RAISE('KeyError')), T(9)), R(0, 0)])
    yield _mk(two, [CTX(CTX(CTX(T(1), RAISE('StopIteration')), T(2)), {'op': 'advance', 'd': 5}), RAISE('StopIteration')])
    # push / pop, also unbalanced and inside a context
    yield _mk(two, [NEW, T(1), R(0, 0), R(0, 1), {'op': 'push', 'i': 0}, T(7), R(0, 0), R(0, 1), F(0, 1),
                    {'op': 'pop', 'i': 0}, I(0, 0), I(0, 1), T(1), R(0, 0), R(0, 1)])
    yield _mk(two, [NEW, {'op': 'pop', 'i': 0}])
    yield _mk(two, [NEW, T(2), CTX(T(5), {'op': 'pop', 'i': 0}), R(0, 0)])
    yield _mk(two, [NEW, NEW, {'op': 'push', 'i': 0}, {'op': 'push', 'i': 1}, T(3), R(0, 0), R(1, 0),
                    {'op': 'pop', 'i': 1}, {'op': 'pop', 'i': 0}])
    # cache copied on instantiation after a class-level read; class default replaced later
    yield _mk(two, [T(2), R(-1, 0), R(-1, 1), NEW, I(0, 0), I(0, 1), R(0, 1), T(3), R(0, 1), R(-1, 1),
                    {'op': 'assign', 'tg': -1, 'p': 1, 'src': {'const': 7}}, NEW, R(1, 1), R(0, 1),
                    {'op': 'assign', 'tg': -1, 'p': 1, 'src': _st(2)}, R(1, 1), NEW, R(2, 1), R(1, 1)])
    # an instance that has no value of its own reads (and must push/pop) the generator of the class
    yield _mk([_p('dynamic', {'const': 4}), _p('number', _st(0))],
              [NEW, {'op': 'assign', 'tg': -1, 'p': 0, 'src': _st(2)}, T(1), R(0, 0), R(0, 1), {'op': 'push', 'i': 0},
               T(7), R(0, 0), R(0, 1), F(0, 0), {'op': 'pop', 'i': 0}, I(0, 0), I(0, 1), T(1), R(0, 0), R(-1, 0)])
    yield _mk([_p('dynamic', {'const': 4})],
              [NEW, NEW, {'op': 'assign', 'tg': -1, 'p': 0, 'src': _td('n', 12)}, T(2), R(0, 0), {'op': 'push', 'i': 1},
               T(3), R(1, 0), {'op': 'pop', 'i': 1}, I(0, 0), T(2), R(0, 0)])
    # shared generator: same object on two instances and twice on one instance
    yield _mk([_p('dynamic', _td()), _p('dynamic', {'const': 5})],
              [NEW, NEW, {'op': 'assign', 'tg': 0, 'p': 0, 'src': _td('h', 1)},
               {'op': 'assign', 'tg': 1, 'p': 0, 'src': {'existing': 3}},
               {'op': 'assign', 'tg': 1, 'p': 1, 'src': {'existing': 3}},
               T(4), R(0, 0), R(1, 0), R(1, 1), {'op': 'push', 'i': 1}, T(6), R(0, 0), {'op': 'pop', 'i': 1}, I(0, 0),
               R(0, 1), I(0, 1)])
    # same name and seed on different generator objects / different names, seeds, distributions
    yield _mk([_p('dynamic', _td('g', 3)), _p('number', _td('g', 3)), _p('dynamic', _td('g', 4)),
               _p('dynamic', _td('n', 3)), _p('dynamic', _td('i1', 2))],
              [NEW] + [x for t in (0, 3, 0, -5) for x in [T(t)] + [R(0, p) for p in range(5)]])
    # Dynamic.time_dependent off: every read regenerates
    yield _mk([_p('dynamic', _st(0)), _p('number', _st(1))], [NEW, R(0, 0), R(0, 0), I(0, 0), R(0, 1), T(3), R(0, 0),
                                                               {'op': 'push', 'i': 0}, R(0, 0), {'op': 'pop', 'i': 0},
                                                               I(0, 0), CTX(T(1), R(0, 1))], dynTD=False)


def _alphabet():
    return [T(-1), T(0), T(3), {'op': 'advance', 'd': 1}, {'op': 'advance', 'd': -4}, R(0, 0), R(0, 1), R(-1, 0),
            I(0, 0), F(0, 0), {'op': 'push', 'i': 0}, {'op': 'pop', 'i': 0}, NEW,
            {'op': 'assign', 'tg': 0, 'p': 1, 'src': _td('g', 3)}, 'CTX_SI', 'CTX_KE']


def _expand(seq):
    """'CTX_*' wraps the rest of the sequence in a context that ends by raising"""
    out = []
    for i, op in enumerate(seq):
        if op == 'CTX_SI':
            return out + [CTX(*(_expand(seq[i + 1:]) + [RAISE('StopIteration')]))]
        if op == 'CTX_KE':
            return out + [CTX(*(_expand(seq[i + 1:]) + [RAISE('KeyError')]))]
        out.append(copy.deepcopy(op))
    return out


def _random_case(rng):
    nparams = rng.randint(1, 4)
    dynTD = rng.random() < 0.93
    names, seeds = ['g', 'n', 'i'], [0, 3, 12]
    sentinel_ok = True                    # time -1 is an ordinary time (regression: the old cache marker was -1)

    def src(fresh_only=False, ngens=0):
        r = rng.random()
        if not fresh_only and ngens and r < 0.15:
            return {'existing': rng.randrange(ngens)}
        if r < 0.25:
            return {'const': rng.randint(-3, 9)}
        g = _td(rng.choice(names), rng.choice(seeds)) if dynTD and r < 0.8 else _st(rng.randint(0, 3))
        if dynTD and r < 0.8 and rng.random() < 0.06:
            g['tf'] = True
        if dynTD and r < 0.8 and rng.random() < 0.2:
            period = rng.randint(1, 6)
            return {'fresh': ['sm', g['fresh'][1], g['fresh'][2], period, rng.randrange(period)]}
        if rng.random() < 0.2:
            g = dict(g, fail=[rng.randint(0, 4), 'StopIteration' if rng.random() < 0.8 else 'KeyError'])
        return g

    params = [_p(rng.choice(['dynamic', 'number']), src(True)) for _ in range(nparams)]
    for q in params:
        if rng.random() < 0.12:
            q['ptype'], q['default'] = 'plain', {'const': rng.randint(-3, 9)}
    st = {'ninst': 0, 'ngens': sum('fresh' in p['default'] for p in params), 'budget': rng.randint(3, 30)}

    def time():
        r = rng.random()
        if r < 0.75:
            t = rng.choice([0, 1, 2, 3, 5, 8, -2, -3, 300, 1000, -700])
        elif r < 0.85:
            t = rng.choice([-1000, 2 ** 32 + 1, 2 ** 40, -2 ** 33])
        else:
            t = rng.randint(-6, 12)
        if t == -1 and not sentinel_ok:
            t = -2
        if rng.random() < 0.12:
            return [rng.randint(-9, 15), rng.choice([2, 3, 4])]      # a fraction (truncated when time_type is int)
        return t

    def tgt():
        return rng.randrange(st['ninst']) if st['ninst'] and rng.random() < 0.85 else -1

    def block(depth):
        ops = []
        n = rng.randint(1, 8)
        while n > 0 and st['budget'] > 0:
            n -= 1
            st['budget'] -= 1
            r = rng.random()
            if st['ninst'] == 0 and r < 0.5:
                ops.append(dict(NEW))
                st['ninst'] += 1
                st['ngens'] += nparams          # upper bound; only used to draw `existing`
            elif r < 0.05:
                # the same (non-interned) time arriving as a new object between two reads
                t, tg_, p_ = rng.choice([300, 1000, -700, 10 ** 6, 2 ** 40]), tgt(), rng.randrange(nparams)
                ops.append(T(t))
                ops.append(R(tg_, p_))
                if rng.random() < 0.5:
                    ops.append(T(t))
                else:
                    d = rng.choice([1, 7, 500, -300])
                    ops.extend([{'op': 'advance', 'd': d}, {'op': 'advance', 'd': -d}])
                ops.append(R(tg_, p_))
            elif r < 0.075:
                ops.append(TT(time(), rng.choice(['int', 'frac', 'frac'])))
            elif r < 0.2:
                ops.append(T(time()))
            elif r < 0.27:
                d = rng.randint(-5, 5)
                ops.append(ADV(d if rng.random() < 0.8 else [d, rng.choice([2, 3])]))
            elif r < 0.3 and depth < 3:
                # a read that may fail, caught by a context (contexts swallow StopIteration), then the same read again
                rd = R(tgt(), rng.randrange(nparams))
                ops.extend([CTX(dict(rd)), dict(rd)])
            elif r < 0.55:
                ops.append(R(tgt(), rng.randrange(nparams)))
                if rng.random() < 0.3:
                    ops.append(dict(ops[-1]))
            elif r < 0.65:
                ops.append(I(tgt(), rng.randrange(nparams)))
            elif r < 0.7:
                ops.append(F(tgt(), rng.randrange(nparams)))
            elif r < 0.78 and st['ninst']:
                i = rng.randrange(st['ninst'])
                ops.append({'op': 'push', 'i': i})
                if rng.random() < 0.8:
                    inner = [x for x in block(depth + 1)] if depth < 3 else []
                    ops.extend(inner)
                    if rng.random() < 0.9:
                        ops.append({'op': 'pop', 'i': i})
            elif r < 0.8 and st['ninst']:
                ops.append({'op': 'pop', 'i': rng.randrange(st['ninst'])})
            elif r < 0.88 and depth < 3:
                body = block(depth + 1)
                rr = rng.random()
                if rr < 0.2:
                    body.insert(rng.randint(0, len(body)), RAISE('StopIteration'))
                elif rr < 0.35:
                    body.insert(rng.randint(0, len(body)), RAISE('KeyError'))
                ops.append(CTX(*body))
            elif r < 0.91:
                ops.append({'op': rng.choice(['setStep', 'setUntil']), 's': rng.randint(1, 5), 'u': rng.choice([None, 20, 100])})
                if ops[-1]['op'] == 'setStep':
                    del ops[-1]['u']
                else:
                    del ops[-1]['s']
            elif r < 0.96:
                pi = rng.randrange(nparams)
                sr = {'const': rng.randint(-3, 9)} if params[pi]['ptype'] == 'plain' else src(False, min(st['ngens'], 3))
                if 'fresh' in sr and sr['fresh'][0] == 'sm' and rng.random() < 0.15:
                    sr['fresh'][4] = sr['fresh'][3] + rng.choice([0, 1])        # refused by the constructor
                ops.append({'op': 'assign', 'tg': tgt(), 'p': pi, 'src': sr})
                if 'fresh' in ops[-1]['src']:
                    st['ngens'] += 1
            else:
                ops.append(dict(NEW))
                st['ninst'] += 1
                st['ngens'] += nparams
        return ops

    ops = block(0)
    if rng.random() < 0.2:
        ops.insert(0, TT(time(), 'frac'))        # the whole history on rational time
    return _fix(_mk(params, ops, dynTD, sub=rng.random() < 0.5, instparams=rng.random() < 0.3))


def _fix(case):
    """make `existing` references valid by simulating how many generator objects exist"""
    ngens = [sum('fresh' in p['default'] for p in case['params'])]
    cls_gen = ['fresh' in p['default'] for p in case['params']]

    def walk(ops):
        for op in ops:
            if op['op'] == 'ctx':
                walk(op['body'])
            elif op['op'] == 'newInst':
                ngens[0] += sum(cls_gen)
            elif op['op'] == 'assign':
                s = op['src']
                if 'existing' in s:
                    if ngens[0] == 0:
                        op['src'] = {'const': 1}
                    else:
                        s['existing'] %= ngens[0]
                if 'fresh' in op['src']:
                    ngens[0] += 1
                if op['tg'] < 0:
                    cls_gen[op['p']] = 'const' not in op['src']
    walk(case['ops'])
    return case


def cases(rng, tier, worker, nworkers):
    import glob
    import json
    import os
    if worker == 0:
        for f in sorted(glob.glob(os.path.join(os.path.dirname(__file__), '..', '..', 'corpus', 'C19', '*.json'))):
            yield json.load(open(f))['case']
        for c in _directed():
            yield c
    depth = 2 if tier == 'quick' else 3
    i = 0
    base = [_p('number', _td()), _p('dynamic', _st(0))]
    for n in range(1, depth + 1):
        for combo in itertools.product(_alphabet(), repeat=n):
            i += 1
            if i % nworkers == worker:
                yield _mk(copy.deepcopy(base), [dict(NEW)] + _expand(list(combo)))
    n_random = 1500 if tier == 'quick' else 48000 // nworkers
    for _ in range(n_random):
        yield _random_case(rng)


def _flat(ops):
    for op in ops:
        yield op
        if op['op'] == 'ctx':
            yield from _flat(op['body'])


def tags(case, impl):
    t = ['dynTD' if case['dynTD'] else 'dynTD-off', f'params={len(case["params"])}']
    n = sum(1 for _ in _flat(case['ops']))
    t.append(f'len={min(n, 30) // 5 * 5}+')
    if isinstance(impl, dict) and 'events' in impl:
        import json as _json
        if any(q['ptype'] == 'plain' for q in case['params']):
            t.append('plain-parameter')
        if case.get('instparams'):
            t.append('per-instance-parameters')
        if case.get('sub'):
            t.append('object-valued-parameter')
        if '"tf": true' in _json.dumps(case):
            t.append('explicit-time_fn')
        times = set()
        for e in impl['events']:
            if e['touched'] and len(e['touched']) > 2 and e['touched'][2]:
                t.append('own-clock-read')
            k = e['tag'].split(':')[0]
            t.append(k + (':raised:' + e['res']['raised'] if 'raised' in e['res'] else ''))
            times.add(e['clock'][0][0])
            if e['clock'][0][1] != 1:
                t.append('fractional-time')
            if e['clock'][5] == 'frac':
                t.append('time_type:Fraction')
            if e['clock'][3] >= 2:
                t.append('nested-context')
        if any(x < 0 for x in times):
            t.append('negative-time')
        t.append('outcome:' + ('raised:' + impl['outcome']['raised'] if 'raised' in impl['outcome'] else 'ok'))
    return sorted(set(t))


def nontrivial(case, impl, resp):
    if 'events' not in impl:
        return False
    return resp.get('checked_steps', 0) >= 1 and any(
        e['touched'] and e['touched'][1][0] == 'td' and e['tag'].startswith('read') and 'ok' in e['res']
        and e['res']['ok'] is not None for e in impl['events'])


def shrink(case):
    def variants(ops):
        for i, op in enumerate(ops):
            yield ops[:i] + ops[i + 1:]
            if op['op'] == 'ctx':
                yield ops[:i] + op['body'] + ops[i + 1:]
                for b in variants(op['body']):
                    yield ops[:i] + [dict(op, body=b)] + ops[i + 1:]
    for ops in variants(case['ops']):
        yield _fix(copy.deepcopy(dict(case, ops=ops)))
    if len(case['params']) > 1:
        used = {op.get('p') for op in _flat(case['ops'])}
        last = len(case['params']) - 1
        if last not in used:
            yield dict(case, params=case['params'][:-1])


def classify(case, impl, fail):
    """One known finding, recognised only on its own shape: explicit-time-fn-deepcopied-per-instance — the oracle
    names an `own-clock` read, and in the observed trace that very event is a read/force through a generator whose
    `time_fn` is not the global Time object, in a case that declares a generator with `tf`.
    (The stale inspect_value / force_new_dynamic_value answer of an instance with a per-instance Parameter copy is
    repaired in /repo, 4c6307d; corpus/C19/inspect-stale-instance-parameter.json is its regression case.)"""
    import json
    import re
    if not isinstance(impl, dict) or 'events' not in impl:
        return None
    why = str(fail.get('why'))
    if fail.get('kind') == 'counterexample':
        m = re.match(r'own-clock: event (\d+) \((read|force):', why)
        if m and '"tf": true' in json.dumps(case):
            i = int(m.group(1))
            if i < len(impl['events']):
                e = impl['events'][i]
                if e['touched'] and len(e['touched']) > 2 and e['touched'][2] is True and e['touched'][1][0] == 'td':
                    return 'explicit-time-fn-deepcopied-per-instance'
    return None
