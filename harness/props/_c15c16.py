"""Shared by C15 and C16: canonical encodings, class construction from generated
declarations, type-directed generation of declarations and values.

Transport encodings (mirrored by lean/ParamVerif/Json/Transport.lean)
  PyVal : {"t":"none"} {"t":"bool","v":b} {"t":"int","v":n} {"t":"float","v":[num,den]|"inf"|"-inf"|"nan"}
          {"t":"str","v":s} {"t":"list","v":[..]} {"t":"tuple","v":[..]} {"t":"dict","v":[[key,val],..]}
          {"t":"date","v":[y,m,d]} {"t":"datetime","v":[y,m,d,h,mi,s,us]}
  tree  : null true/false {"i":n} {"f":fl} "str" {"stamp":[y,width,mo,d(,h,mi,s,us)]} [..] {"o":[[k,v],..]}
"""
import datetime as dt
import json
import math
import re

CLS_NAME = 'S'
NAME_DOC = 'String identifier for this object.'
DATE_TYPES = ('Date', 'CalendarDate', 'DateRange', 'CalendarDateRange')
TYPES15 = ['Integer', 'Number', 'String', 'Boolean', 'Tuple', 'NumericTuple', 'XYCoordinates', 'Range', 'Date',
           'CalendarDate', 'DateRange', 'CalendarDateRange', 'List', 'Dict', 'Selector', 'ListSelector', 'Color']
TYPES16 = ['Integer', 'Number', 'String', 'Boolean', 'Tuple', 'NumericTuple', 'XYCoordinates', 'Range', 'Date',
           'CalendarDate', 'List', 'Dict', 'Selector', 'ListSelector', 'ClassSelector']
ATOMS = {'int': int, 'float': float, 'str': str, 'NoneType': type(None), 'bool': bool, 'dict': dict, 'list': list}


class Unsupported(Exception):
    pass


# ---------------------------------------------------------------- encodings

def enc_fl(x):
    if math.isnan(x):
        return 'nan'
    if math.isinf(x):
        return 'inf' if x > 0 else '-inf'
    n, d = x.as_integer_ratio()
    return [n, d]


def dec_fl(j):
    if j == 'nan':
        return math.nan
    if j == 'inf':
        return math.inf
    if j == '-inf':
        return -math.inf
    return j[0] / j[1]


def enc_val(v):
    """exact-type-preserving canonical form of a Python value"""
    t = type(v)
    if v is None:
        return {'t': 'none'}
    if t is bool:
        return {'t': 'bool', 'v': v}
    if t is int:
        return {'t': 'int', 'v': v}
    if t is float:
        return {'t': 'float', 'v': enc_fl(v)}
    if t is str:
        return {'t': 'str', 'v': v}
    if t is list:
        return {'t': 'list', 'v': [enc_val(x) for x in v]}
    if t is tuple:
        return {'t': 'tuple', 'v': [enc_val(x) for x in v]}
    if t is dict:
        out = []
        for k, x in v.items():
            if not (k is None or type(k) in (bool, int, str)):
                raise Unsupported(f'dict key {type(k).__name__}')
            out.append([enc_val(k), enc_val(x)])
        return {'t': 'dict', 'v': out}
    if t is dt.datetime:
        if v.tzinfo is not None:
            raise Unsupported('aware datetime')
        return {'t': 'datetime', 'v': [v.year, v.month, v.day, v.hour, v.minute, v.second, v.microsecond]}
    if t is dt.date:
        return {'t': 'date', 'v': [v.year, v.month, v.day]}
    raise Unsupported(t.__name__)


def dec_val(j):
    t = j['t']
    if t == 'none':
        return None
    if t in ('bool', 'int', 'str'):
        return j['v']
    if t == 'float':
        return dec_fl(j['v'])
    if t == 'list':
        return [dec_val(x) for x in j['v']]
    if t == 'tuple':
        return tuple(dec_val(x) for x in j['v'])
    if t == 'dict':
        return {dec_val(k): dec_val(x) for k, x in j['v']}
    if t == 'date':
        return dt.date(*j['v'])
    if t == 'datetime':
        return dt.datetime(*j['v'])
    raise Unsupported(t)


STAMP_RE = re.compile(r'^(\d+)-(\d\d)-(\d\d)(?:T(\d\d):(\d\d):(\d\d)\.(\d{6}))?$')


def enc_stamp(s):
    m = STAMP_RE.match(s) if isinstance(s, str) else None
    if not m:
        return None
    g = m.groups()
    f = [int(g[0]), len(g[0]), int(g[1]), int(g[2])]
    if g[3] is not None:
        f += [int(g[3]), int(g[4]), int(g[5]), int(g[6])]
    return {'stamp': f}


def enc_tree(x, ptype=None):
    """canonical form of a json.loads result / of a schema object; strings in the positions of
    date-typed parameters become field-level stamps"""
    if x is None or isinstance(x, bool):
        return x
    if isinstance(x, int):
        return {'i': x}
    if isinstance(x, float):
        return {'f': enc_fl(x)}
    if isinstance(x, str):
        if ptype in DATE_TYPES:
            st = enc_stamp(x)
            if st is not None:
                return st
        return x
    if isinstance(x, (list, tuple)):
        sub = ptype if ptype in ('DateRange', 'CalendarDateRange') else None
        return [enc_tree(e, sub) for e in x]
    if isinstance(x, dict):
        out = []
        for k, v in x.items():
            if not isinstance(k, str):
                raise Unsupported('non-string key in a JSON object')
            out.append([k, enc_tree(v)])
        return {'o': out}
    raise Unsupported(type(x).__name__)


def enc_fields(d, types):
    """a JSON object keyed by parameter names; `types` maps name -> parameter type"""
    return {'o': [[k, enc_tree(v, types.get(k))] for k, v in d.items()]}


def dec_tree(j):
    """tree -> plain Python data (for the jsonschema cross-validation); stamps become strings"""
    if j is None or isinstance(j, (bool, str)):
        return j
    if isinstance(j, list):
        return [dec_tree(e) for e in j]
    if 'i' in j:
        return j['i']
    if 'f' in j:
        return dec_fl(j['f'])
    if 'stamp' in j:
        f = j['stamp']
        s = '%s-%02d-%02d' % (str(f[0]).rjust(f[1], '0'), f[2], f[3])
        if len(f) == 8:
            s += 'T%02d:%02d:%02d.%06d' % tuple(f[4:])
        return s
    return {k: dec_tree(v) for k, v in j['o']}


def is_standard_json(text):
    def bad(c):
        raise ValueError(c)
    try:
        json.loads(text, parse_constant=bad)
        return True
    except ValueError:
        return False


def exc_name(e):
    n = type(e).__name__
    return n if n in ('ValueError', 'TypeError', 'KeyError', 'AttributeError', 'UnserializableException',
                      'UnsafeserializableException') else 'other:' + n


# ---------------------------------------------------------------- classes from declarations

def spec_of(j):
    return tuple(ATOMS[a] for a in j) if isinstance(j, list) else ATOMS[j]


def build_param(param, d):
    P = getattr(param, d['type'])
    kw = {'label': d['label']}
    if d.get('default') is not None:
        kw['default'] = dec_val(d['default'])
    if d.get('allow_None') is not None:
        kw['allow_None'] = d['allow_None']
    if d.get('doc') is not None:
        kw['doc'] = d['doc']
    t = d['type']
    if t in ('Integer', 'Number', 'Range'):
        b = d.get('bounds')
        if b is not None:
            kw['bounds'] = tuple(None if x is None else dec_val(x) for x in b)
        kw['inclusive_bounds'] = tuple(d['inclusive'])
        sb = d.get('softbounds')
        if sb is not None:
            # soft bounds are advisory: neither the validators nor the schema may depend on them
            kw['softbounds'] = tuple(None if x is None else dec_val(x) for x in sb)
    if t in ('Tuple', 'NumericTuple') and d.get('length') is not None:
        kw['length'] = d['length']
    if t == 'List':
        if d.get('item_type') is not None:
            kw['item_type'] = spec_of(d['item_type'])
        kw['bounds'] = (d.get('min_len'), d.get('max_len'))
    if t in ('Selector', 'ListSelector'):
        objs = [dec_val(o) for o in d['objects']]
        kw['objects'] = dict(zip(d['names'], objs)) if d.get('names') is not None else objs
    if t == 'ClassSelector':
        kw['class_'] = spec_of(d['class_'])
    return P(**kw)


def build_class(param, case):
    """the class as first declared: parameters listed in `added` are left out, those in `replaced`
    are declared with their old declaration.  With `inherit` the parameters are declared on the root of
    a chain of `depth` classes and the class of the case is the last one."""
    ps = case['params']
    assert ps[0]['name'] == 'name' and ps[0]['type'] == 'String'
    added = set(case.get('added') or [])
    old = {n: d for n, d in case.get('replaced') or []}
    body = {d['name']: build_param(param, old.get(d['name'], d)) for d in ps[1:] if d['name'] not in added}
    depth = (case.get('inherit') or {}).get('depth', 1)
    chain = [type(CLS_NAME if depth == 1 else 'A0', (param.Parameterized,), body)]
    for k in range(1, depth):
        chain.append(type(CLS_NAME if k == depth - 1 else f'A{k}', (chain[-1],), {}))
    chain[-1]._verif_chain = chain
    return chain[-1]


def _set_slot(pobj, slot, v):
    if slot == 'bounds':
        v = None if v is None else tuple(None if x is None else dec_val(x) for x in v)
    elif slot == 'inclusive_bounds':
        v = tuple(v)
    elif slot == 'item_type':
        v = spec_of(v)
    setattr(pobj, slot, v)


def build_object(param, case):
    """-> (class, object to serialise, names) or raises what the constructor raises.
    History (optional): the class / object is serialised once (and its schema taken), then the
    parameters in `added` / `replaced` are installed with `Cls.param.add_parameter`, then (instance
    level) their values are assigned."""
    cls = build_class(param, case)
    names = [d['name'] for d in case['params']]
    later = set(case.get('added') or []) | {n for n, _ in case.get('replaced') or []}
    if case.get('inherit'):
        # class-level history: the class of the case is used (its `.param` namespace, schema and
        # serialization), then a class `on` of its chain gets plain values assigned (`B.x = v`: B gets
        # its own Parameter) and attributes of its Parameters edited; the class of the case, and its
        # instances created afterwards, read the result through inheritance
        cls.param.objects()
        for use in (cls.param.schema, cls.param.serialize_parameters):
            try:
                use()
            except Exception:
                pass
        target = cls._verif_chain[case['inherit']['on']]
        for n, slot, v in case.get('edits') or []:
            if slot == 'default':
                setattr(target, n, dec_val(v))
            else:
                _set_slot(target.param[n], slot, v)
        if case['level'] == 'class':
            return cls, cls, names
        vals = {n: dec_val(v) for n, v in zip(names, case['values'])}
        vals.update({n: dec_val(v) for n, v in case.get('final') or []})
        return cls, cls(**vals), names
    if case['level'] == 'class':
        obj = cls
    else:
        unset = set(case.get('unset') or [])
        vals = {n: dec_val(v) for n, v in zip(names, case['values']) if n not in later and n not in unset}
        obj = cls(**vals)
        if unset:
            # the instance leaves these parameters unset; its per-instance Parameter objects come into
            # being; then the class default is assigned: the instance follows it
            obj.param.objects()
            for n in names:
                if n in unset:
                    obj.param[n]
            for n, v in zip(names, case['values']):
                if n in unset:
                    setattr(cls, n, dec_val(v))
    if later:
        for o in (obj, cls):
            try:
                o.param.serialize_parameters()
                o.param.serialize_parameters(subset=[names[-1]])
                o.param.schema()
            except Exception:
                pass
        for d in case['params'][1:]:
            if d['name'] in later:
                cls.param.add_parameter(d['name'], build_param(param, d))
        if obj is not cls:
            for n, v in zip(names, case['values']):
                if n in later:
                    setattr(obj, n, dec_val(v))
    if obj is cls:
        return cls, cls, names
    # per-instance edits of Parameter attributes, then values that may be valid only under the edit
    for n, slot, v in case.get('edits') or []:
        _set_slot(obj.param[n], slot, v)
    for n, v in case.get('final') or []:
        setattr(obj, n, dec_val(v))
    return cls, obj, names


def gen_history(rng, case):
    """the same final declaration and state, reached through serialize -> add_parameter -> …"""
    ps = case['params'][1:]
    if any(d['type'] == 'Selector' and d['objects'] == [] for d in ps):
        return case
    added, replaced = [], []
    for d in ps:
        r = rng.random()
        if r < 0.35:
            added.append(d['name'])
        elif r < 0.55 and d['type'] != 'String':
            replaced.append([d['name'], {'name': d['name'], 'type': 'String', 'allow_None': None, 'default': enc_val('x'),
                                         'doc': None, 'label': 'old'}])
    if not added and not replaced:
        added = [ps[-1]['name']]
    return with_history(case, added, replaced)


FOLLOWS_CLASS_DEFAULT = ('Integer', 'Number', 'String', 'Boolean', 'Tuple', 'NumericTuple', 'XYCoordinates', 'Range',
                         'Date', 'CalendarDate', 'DateRange', 'CalendarDateRange', 'Selector', 'ListSelector', 'Color')


def gen_unset(rng, case):
    """instance-level: some parameters (instantiate=False types) are not passed to the constructor;
    after the per-instance Parameter objects exist, the class default is set to the case's value"""
    if case['level'] != 'instance':
        return case
    unset = [d['name'] for d in case['params'][1:]
             if d['type'] in FOLLOWS_CLASS_DEFAULT and not (d['type'] == 'Selector' and d['objects'] == [])
             and rng.random() < 0.6]
    return dict(case, unset=unset) if unset else case


def with_history(case, added, replaced):
    """parameters installed later by add_parameter come after the declared ones, in the order of
    installation (a replaced parameter keeps its place)"""
    idx = list(range(len(case['params'])))
    order = [i for i in idx if case['params'][i]['name'] not in added] + \
            [i for i in idx if case['params'][i]['name'] in added]
    vals = case.get('values')
    return dict(case, params=[case['params'][i] for i in order],
                values=None if vals is None else [vals[i] for i in order],
                added=[case['params'][i]['name'] for i in order if case['params'][i]['name'] in added],
                replaced=replaced)


def edited_params(case):
    """the declarations as the instance's own Parameter objects read after `edits`"""
    ps = [dict(d) for d in case['params']]
    for n, slot, v in case.get('edits') or []:
        for d in ps:
            if d['name'] == n:
                if slot == 'bounds':
                    d['bounds'] = v
                elif slot == 'inclusive_bounds':
                    d['inclusive'] = list(v)
                elif slot == 'allow_None':
                    d['allow_None'] = v
                elif slot == 'item_type':
                    d['item_type'] = v
                elif slot == 'default':
                    d['default'] = v
    return ps


def _slot_edit(rng, d):
    """one attribute edit of the Parameter declared by `d` -> (edit, edited declaration, candidate
    values that may be valid only under the edit) or None"""
    t = d['type']
    d2 = dict(d)
    kinds = ['none']
    if t in ('Integer', 'Number', 'Range'):
        kinds = ['bounds', 'inclusive', 'none']
    elif t == 'List' and d.get('item_type') is not None:
        kinds = ['item_type', 'item_type', 'none']
    kind = rng.choice(kinds)
    if kind == 'bounds':
        integer = t == 'Integer'
        lo, hi = rng.choice([(-100, 100), (None, 1000), (-7, None), (0.5, 99.5), (None, None)])
        nb = None if (lo is None and hi is None and rng.random() < 0.5) else [None if lo is None else enc_val(lo), None if hi is None else enc_val(hi)]
        d2['bounds'] = nb
        c = _in_bounds_candidates(rng, nb, integer)
        return [d['name'], 'bounds', nb], d2, ([(x, y) for x, y in zip(c, c[1:])] if t == 'Range' else c)
    if kind == 'inclusive':
        inc = [True, True]
        d2['inclusive'] = inc
        b = d.get('bounds')
        pts = [dec_val(x) for x in (b or []) if x is not None]
        pts = [x for x in pts if not (isinstance(x, float) and (math.isinf(x) or math.isnan(x)))]
        if t == 'Integer':
            pts = [int(x) for x in pts if float(x) == int(x)]
        return [d['name'], 'inclusive_bounds', inc], d2, ([(x, x) for x in pts] if t == 'Range' else pts)
    if kind == 'item_type':
        # both the old and the new item type are real types (the schema's guard reads `class_`)
        new = rng.choice([x for x in ('int', 'float', 'str', 'dict', ['int', 'str'], ['str', 'float']) if x != d['item_type']])
        d2['item_type'] = new
        atoms = new if isinstance(new, list) else [new]
        n = rng.randint(max(d.get('min_len') or 0, 1), min(d.get('max_len') or 3, 3))
        return [d['name'], 'item_type', new], d2, [[gen_atom(rng, rng.choice(atoms), 0.0, {}) for _ in range(n)]]
    if t in ('Selector', 'ListSelector') or d.get('allow_None') is True:
        return None
    d2['allow_None'] = True
    return [d['name'], 'allow_None', True], d2, [None]


def gen_edits(rng, param, case):
    """instance-level case -> the same case with per-instance edits and final values valid under them"""
    if case['level'] != 'instance':
        return case
    edits, final = [], []
    for d, v0 in zip(case['params'][1:], case['values'][1:]):
        if rng.random() < 0.5:
            continue
        r = _slot_edit(rng, d)
        if r is None:
            continue
        edit, d2, cands = r
        try:
            p = build_param(param, dict(d2, default=d.get('default')))
        except Exception:
            # the edited declaration must still accept its own default when built afresh; an edit
            # that does not is tried only through a new value
            try:
                p = build_param(param, dict(d2, default=enc_val(cands[0])))
            except Exception:
                continue
        for v in cands:
            try:
                p._validate(v)
                edits.append(edit)
                final.append([d['name'], enc_val(v)])
                break
            except Exception:
                continue
        else:
            # no new value: the edit is kept only if the value the object already holds stays valid
            # (attribute edits do not re-validate; an object holding a value its own Parameter
            # rejects is not a valid state)
            try:
                p._validate(dec_val(v0))
                edits.append(edit)
            except Exception:
                pass
    if not edits:
        return case
    return dict(case, edits=edits, final=final)


def gen_inherit(rng, param, case):
    """the declaration is inherited through a chain of 1-3 classes; after the class of the case has been
    used, one class of the chain gets attribute edits on its Parameters and plain values assigned
    (class-level defaults valid, where possible, only under the edit)"""
    ps = case['params'][1:]
    if any(d['type'] in ('Selector', 'ListSelector') and d['objects'] == [] for d in ps):
        return case
    depth = rng.choice([1, 2, 3, 3])
    on = rng.randrange(depth)
    edits, final = [], []
    vals = case['values'][1:] if case.get('values') is not None else [None] * len(ps)
    for d, v0 in zip(ps, vals):
        if rng.random() < 0.4:
            continue
        dcur = d
        r = _slot_edit(rng, d) if rng.random() < 0.6 else None
        cands = []
        must_assign = False
        if r is not None:
            edit, d2, cands = r
            try:
                # the held default must stay valid under the edit unless a new one is assigned below
                probe = build_param(param, dict(d2, default=d.get('default')))
                edits.append(edit)
                dcur = d2
            except Exception:
                ok = None
                for v in cands:
                    if v is None:
                        continue
                    try:
                        build_param(param, dict(d2, default=enc_val(v)))
                        ok = v
                        break
                    except Exception:
                        continue
                if ok is None:
                    continue
                edits.append(edit)
                dcur = d2
                cands = [ok]
                must_assign = True      # the held default is not valid under the edit
        # a plain value assigned on the class: a candidate under the edit, else the case's own value
        pool = [v for v in cands if v is not None] + ([dec_val(v0)] if v0 is not None and v0 != {'t': 'none'} else [])
        if pool and (must_assign or rng.random() < 0.8):
            try:
                p = build_param(param, dict(dcur, default=dcur.get('default') if dcur is d else enc_val(pool[0])))
            except Exception:
                p = None
            if p is not None:
                for v in pool:
                    try:
                        p._validate(v)
                        edits.append([d['name'], 'default', enc_val(v)])
                        dcur = dict(dcur, default=enc_val(v))
                        must_assign = False
                        break
                    except Exception:
                        continue
        if must_assign:
            edits.pop()             # no valid default under the edit: the edit is not made
            dcur = d
        if case['level'] == 'instance' and dcur is not d:
            # the instance is created afterwards: its value must be valid under the edited declaration
            try:
                p = build_param(param, dcur)
                try:
                    p._validate(dec_val(v0))
                except Exception:
                    final.append([d['name'], dcur['default']])
            except Exception:
                pass
    return dict(case, inherit={'depth': depth, 'on': on}, edits=edits, final=final)


def name_param():
    return {'name': 'name', 'type': 'String', 'allow_None': None, 'default': {'t': 'none'}, 'doc': NAME_DOC,
            'label': 'Name'}


# ---------------------------------------------------------------- generation

INTS = [0, 1, -1, 2, 3, 5, 7, 10, -4, 2 ** 53 + 1, -2 ** 70, 10 ** 30]
FLOATS = [0.0, 0.5, 1.5, -2.25, 1 / 3, 1e308, 5e-324, 1e22, 2.0 ** 53, -1e-7, 3.0, 1.7976931348623157e308, 0.1]
STRS = ['', 'a', 'null', 'héllo', '2020-01-01', 'x"y\\z', '☃', 'None', ' s p ', 'true', '1']
YEARS = [1, 9, 10, 99, 100, 999, 1000, 1001, 1970, 2024, 9999]
MICROS = [0, 1, 999999, 123456, 500000, 10]
LABELS = ['L', 'A label', 'x']
DOCS = [None, None, 'doc', 'some words here']


def gen_int(rng):
    return rng.choice(INTS) if rng.random() < 0.7 else rng.randint(-50, 50)


def gen_float(rng, nonfinite=0.0):
    if rng.random() < nonfinite:
        return rng.choice([math.inf, -math.inf, math.nan])
    return rng.choice(FLOATS) if rng.random() < 0.7 else rng.randint(-400, 400) / 8


def gen_num(rng, nonfinite=0.0, bools=0.08):
    r = rng.random()
    if r < bools:
        return rng.random() < 0.5
    return gen_int(rng) if r < 0.55 else gen_float(rng, nonfinite)


def gen_date(rng, small=0.15):
    y = rng.choice([1, 9, 10, 99, 100, 999]) if rng.random() < small else rng.choice([1000, 1001, 1970, 2024, 9999, rng.randint(1000, 9999)])
    return dt.date(y, rng.choice([1, 2, 12, rng.randint(1, 12)]), rng.choice([1, 28, rng.randint(1, 28)]))


def gen_datetime(rng, small=0.15):
    d = gen_date(rng, small)
    return dt.datetime(d.year, d.month, d.day, rng.choice([0, 23, rng.randint(0, 23)]), rng.choice([0, 59, rng.randint(0, 59)]),
                       rng.choice([0, 59, rng.randint(0, 59)]), rng.choice(MICROS))


def gen_json_val(rng, depth=2, exotic=0.0):
    """a JSON-serialisable Python value; with probability `exotic` per container a tuple or a non-string key"""
    r = rng.random()
    if depth <= 0 or r < 0.55:
        k = rng.random()
        if k < 0.12:
            return None
        if k < 0.22:
            return rng.random() < 0.5
        if k < 0.5:
            return gen_int(rng)
        if k < 0.72:
            return gen_float(rng)
        return rng.choice(STRS)
    n = rng.choice([0, 1, 2, 2, 3])
    if r < 0.8:
        l = [gen_json_val(rng, depth - 1, exotic) for _ in range(n)]
        return tuple(l) if rng.random() < exotic else l
    keys = rng.sample(['a', 'b', 'k', '', 'null', '1', 'key two'], n)
    d = {}
    for k in keys:
        if rng.random() < exotic:
            k = rng.choice([1, 2, -3, True, None])
        if _jkey(k) in {_jkey(x) for x in d}:
            continue            # keys that collide after JSON key conversion are outside the model
        d[k] = gen_json_val(rng, depth - 1, exotic)
    return d


def _jkey(k):
    return k if isinstance(k, str) else json.dumps(k)


def _bounds(rng, integer, nonfinite=0.0):
    """-> (bounds json or None, inclusive) ; bounds are consistent (lo <= hi)"""
    inc = [rng.random() < 0.6, rng.random() < 0.6]
    if rng.random() < 0.3:
        return None, inc

    def one(cands):
        r = rng.random()
        if r < 0.25:
            return None
        if r < 0.25 + nonfinite:
            return 'inf'
        return rng.choice(cands)
    lo = one([0, -1, -5, 0.5, -2.5, 1] if not integer else [0, -1, -5, 1, 0.5])
    hi = one([5, 10, 2, 5.5, 1e3, 100] if not integer else [5, 10, 2, 5.5, 100])
    lo_v = -math.inf if lo == 'inf' else lo
    hi_v = math.inf if hi == 'inf' else hi
    return [None if lo_v is None else enc_val(lo_v), None if hi_v is None else enc_val(hi_v)], inc


def _softbounds(rng):
    """None or a (mostly narrow) pair: values between a soft and a hard bound are ordinary valid values"""
    if rng.random() < 0.6:
        return None
    lo, hi = rng.choice([(0, 1), (-1, 1), (None, 0), (2, None), (1, 2), (0.25, 0.75), (-100, 100)])
    return [None if lo is None else enc_val(lo), None if hi is None else enc_val(hi)]


def _in_bounds_candidates(rng, b, integer, nonfinite=0.0):
    lo = hi = None
    if b is not None:
        lo = None if b[0] is None else dec_val(b[0])
        hi = None if b[1] is None else dec_val(b[1])
    c = []
    for x in (lo, hi):
        if x is not None and not math.isinf(x):
            c += [x, x + 1, x - 1, x + 0.5, x - 0.5]
    c += [gen_num(rng, nonfinite) for _ in range(4)]
    if integer:
        c = [int(x) if isinstance(x, float) and x == int(x) and rng.random() < 0.8 else x for x in c if not (isinstance(x, float) and (math.isinf(x) or math.isnan(x)))]
        c = [x for x in c if isinstance(x, int)] or [0]
    rng.shuffle(c)
    return c


def gen_decl(rng, ptype, name, opts):
    """one parameter declaration (json) + a function drawing candidate values.
    opts: nonfinite (prob), exotic (prob), small_year (prob), findings (bool: include the
    configurations behind the known findings)"""
    nf, ex, sy = opts.get('nonfinite', 0.0), opts.get('exotic', 0.0), opts.get('small_year', 0.15)
    d = {'name': name, 'type': ptype, 'allow_None': rng.choice([None, None, True, False]),
         'doc': rng.choice(DOCS), 'label': rng.choice(LABELS)}
    none_default = rng.random() < 0.2
    cands = None
    if ptype in ('Integer', 'Number'):
        b, inc = _bounds(rng, ptype == 'Integer', opts.get('inf_bounds', 0.0))
        d['bounds'], d['inclusive'] = b, inc
        d['softbounds'] = _softbounds(rng)
        cands = lambda: _in_bounds_candidates(rng, b, ptype == 'Integer', nf)
    elif ptype == 'String':
        cands = lambda: [rng.choice(STRS)]
    elif ptype == 'Boolean':
        cands = lambda: [rng.random() < 0.5]
    elif ptype == 'Tuple':
        n = rng.choice([0, 1, 2, 3])
        d['length'] = n if (none_default or n == 0 or rng.random() < 0.3) else None
        cands = lambda: [tuple(gen_json_val(rng, 2, ex) for _ in range(n))]
    elif ptype == 'NumericTuple':
        n = rng.choice([1, 2, 3])
        d['length'] = n if (none_default or rng.random() < 0.3) else None
        cands = lambda: [tuple(gen_num(rng, nf) for _ in range(n))]
    elif ptype == 'XYCoordinates':
        cands = lambda: [(gen_num(rng, nf), gen_num(rng, nf))]
    elif ptype == 'Range':
        b, inc = _bounds(rng, False, opts.get('inf_bounds', 0.0))
        d['bounds'], d['inclusive'] = b, inc
        d['softbounds'] = _softbounds(rng)

        def rc():
            c = _in_bounds_candidates(rng, b, False, nf)
            return [(x, y) for x, y in zip(c, c[1:])]
        cands = rc
    elif ptype == 'Date':
        cands = lambda: [gen_datetime(rng, sy) if rng.random() < 0.93 else gen_date(rng, sy)]
    elif ptype == 'CalendarDate':
        cands = lambda: [gen_date(rng, sy)]
    elif ptype == 'DateRange':
        def drc():
            g = gen_date if rng.random() < 0.45 else gen_datetime
            a, b2 = sorted([g(rng, sy), g(rng, sy)])
            return [(a, b2)]
        cands = drc
    elif ptype == 'CalendarDateRange':
        def cdrc():
            g = gen_datetime if rng.random() < opts.get('cdr_datetime', 0.0) else gen_date
            a, b2 = sorted([g(rng, sy), g(rng, sy)])
            return [(a, b2)]
        cands = cdrc
    elif ptype == 'List':
        it = rng.choice([None, None, 'int', 'float', 'str', 'dict', ['int', 'str'], ['float', 'NoneType']] +
                        (['bool', 'list', ['int', 'bool']] if opts.get('findings') else []))
        d['item_type'] = it
        d['min_len'] = rng.choice([0, 0, None, 1])
        d['max_len'] = rng.choice([None, None, 3, 5])

        def lc():
            n = rng.randint(d['min_len'] or 0, min(d['max_len'] or 4, 4))
            if it is None:
                return [[gen_json_val(rng, 2, ex) for _ in range(n)]]
            atoms = it if isinstance(it, list) else [it]
            return [[gen_atom(rng, rng.choice(atoms), ex, opts) for _ in range(n)]]
        cands = lc
    elif ptype == 'Dict':
        def dc():
            v = gen_json_val(rng, 0, ex)
            keys = rng.sample(['a', 'b', 'k', '', 'null', '1'], rng.choice([0, 1, 2, 3]))
            out = {}
            for k in keys:
                if rng.random() < ex:
                    k = rng.choice([1, 2, -3, True, None])
                if _jkey(k) in {_jkey(x) for x in out}:
                    continue
                out[k] = gen_json_val(rng, 2, ex)
            return [out, v if isinstance(v, dict) else {}]
        cands = dc
    elif ptype in ('Selector', 'ListSelector'):
        pool = [1, 2, 3, 0, -1, 2.5, 0.5, 'a', 'b', '', None, 7.0] + ([True, False] if opts.get('findings') else [])
        n = rng.choice([1, 2, 3, 4]) if not (opts.get('findings') and rng.random() < 0.08) else 0
        objs = []
        for o in rng.sample(pool, n):
            if not any(o == x for x in objs):
                objs.append(o)
        d['objects'] = [enc_val(o) for o in objs]
        d['names'] = [f'n{i}' for i in range(len(objs))] if rng.random() < 0.3 and objs else None
        d['allow_None'] = rng.choice([None, None, True])
        if ptype == 'Selector':
            cands = lambda: [rng.choice(objs)] if objs else [None]
        else:
            cands = lambda: [rng.sample(objs, rng.randint(0, len(objs)))]
    elif ptype == 'Color':
        cands = lambda: [rng.choice(['#abc', '#AABBCC', '#000000', 'red', 'blue', '#a1b2c3'])]
    elif ptype == 'ClassSelector':
        cl = rng.choice(['int', 'float', 'str', 'dict', ['int', 'str'], ['float', 'NoneType'], ['int', 'float']] +
                        (['bool', 'list', ['str', 'bool']] if opts.get('findings') else []))
        d['class_'] = cl
        atoms = cl if isinstance(cl, list) else [cl]
        cands = lambda: [gen_atom(rng, rng.choice(atoms), ex, opts)]
    else:
        raise ValueError(ptype)
    return d, cands, none_default


def gen_atom(rng, atom, ex, opts):
    if atom == 'int':
        return gen_int(rng) if rng.random() > (0.1 if opts.get('findings') else 0.0) else (rng.random() < 0.5)
    if atom == 'float':
        return gen_float(rng)
    if atom == 'str':
        return rng.choice(STRS)
    if atom == 'NoneType':
        return None
    if atom == 'bool':
        return rng.random() < 0.5
    if atom == 'dict':
        return {k: gen_json_val(rng, 1, ex) for k in rng.sample(['a', 'b', 'c'], rng.randint(0, 2))}
    if atom == 'list':
        return [gen_json_val(rng, 1, ex) for _ in range(rng.randint(0, 2))]
    raise ValueError(atom)


def gen_param(rng, param, ptype, name, opts):
    """declaration with a default and one value, both accepted by the real Parameter"""
    for _ in range(30):
        d, cands, none_default = gen_decl(rng, ptype, name, opts)
        sel = ptype in ('Selector', 'ListSelector')
        tries = []
        if sel and rng.random() < (0.5 if ptype == 'Selector' else 0.3):
            tries.append(None)                      # default not passed
        if none_default or (sel and rng.random() < 0.25 and opts.get('findings')):
            tries.append({'t': 'none'})
        try:
            for c in cands()[:3]:
                tries.append(enc_val(c))
        except Unsupported:
            continue
        for dflt in tries:
            d['default'] = dflt
            try:
                p = build_param(param, d)
            except Exception:
                continue
            vals = []
            for _ in range(4):
                try:
                    vals += list(cands())
                except Exception:
                    pass
            if d['allow_None'] is True or (not sel and dflt == {'t': 'none'}):
                vals.insert(rng.randint(0, len(vals)), None)
            for v in vals:
                try:
                    p._validate(v)
                    ev = enc_val(v)
                except Exception:
                    continue
                return d, ev
            if dflt is not None:
                return d, dflt
    raise RuntimeError(f'could not generate a valid {ptype}')


def gen_case(rng, param, types, opts, nparams=None, level=None):
    n = nparams if nparams is not None else rng.choice([1, 1, 2, 3, 5])
    ps, vals = [name_param()], []
    level = level or rng.choice(['class', 'instance', 'instance'])
    vals.append(enc_val(CLS_NAME if level == 'class' else rng.choice(['obj', 'S00012', 'näme', ''])))
    for i in range(n):
        d, v = gen_param(rng, param, rng.choice(types), f'p{i}', opts)
        ps.append(d)
        vals.append(v)
    if any(d['type'] == 'Selector' and d['objects'] == [] for d in ps[1:]):
        # a Selector without objects has check_on_set False: assigning a value (even None through the
        # constructor) appends it to the objects of the class — outside the model, so only its default state is used
        level = 'class'
        vals[0] = enc_val(CLS_NAME)
    return mk_case(ps, vals, level, rng)


SUBSET_KINDS = ('list', 'tuple', 'set', 'frozenset', 'dict')


def make_subset(names, kind):
    """the caller's subset argument: any container of names"""
    if names is None:
        return None
    kind = kind or 'list'
    if kind == 'list':
        return list(names)
    if kind == 'tuple':
        return tuple(names)
    if kind == 'set':
        return set(names)
    if kind == 'frozenset':
        return frozenset(names)
    if kind == 'dict':
        return dict.fromkeys(names)
    raise ValueError(kind)


def mk_case(ps, vals, level='instance', rng=None, subset='auto'):
    names = [d['name'] for d in ps]
    if subset == 'auto':
        if rng is None or rng.random() < 0.4:
            subset = None
        else:
            subset = [n for n in names if rng.random() < 0.5]
    case = {'level': level, 'cls_name': CLS_NAME, 'params': ps, 'values': vals, 'subset': subset}
    if subset is not None and rng is not None:
        case['subset_kind'] = rng.choice(SUBSET_KINDS)
    if level == 'class':
        # the state is the declaration's defaults; `values` is not used
        case['values'] = None
    return case


def single(decl, value, level='instance', subset=None, name='obj'):
    """directed case: the name parameter + one declared parameter"""
    d = dict({'name': 'p0', 'allow_None': None, 'doc': None, 'label': 'L'}, **decl)
    if d['type'] in ('Integer', 'Number', 'Range'):
        d.setdefault('bounds', None)
        d.setdefault('inclusive', [True, True])
    if 'default' not in d:
        d['default'] = value
    return mk_case([name_param(), d], [enc_val(CLS_NAME if level == 'class' else name), value], level, None, subset)


def params_by_name(case):
    return {d['name']: d for d in case['params']}


def value_of(case, name):
    """declared value of a parameter (instance level) or None when not determined by the case alone"""
    if case.get('values') is None:
        return params_by_name(case)[name].get('default')
    for d, v in zip(case['params'], case['values']):
        if d['name'] == name:
            return v
    return None


def shrink_case(case):
    for c in _shrink_case(case):
        names = {d['name'] for d in c['params']}
        if case.get('edits') or case.get('final'):
            c = dict(c, edits=[e for e in c.get('edits') or [] if e[0] in names],
                     final=[f for f in c.get('final') or [] if f[0] in names])
        if case.get('unset'):
            c = dict(c, unset=[n for n in case['unset'] if n in names])
        if case.get('added') or case.get('replaced'):
            c = dict(c, added=[n for n in c.get('added') or [] if n in names],
                     replaced=[r for r in c.get('replaced') or [] if r[0] in names])
        yield c
    inh = case.get('inherit')
    if inh and inh['depth'] > 1:
        yield dict(case, inherit={'depth': inh['depth'] - 1, 'on': min(inh['on'], inh['depth'] - 2)})
    for k in range(len(case.get('unset') or [])):
        yield dict(case, unset=case['unset'][:k] + case['unset'][k + 1:])
    for k in range(len(case.get('added') or [])):
        yield dict(case, added=case['added'][:k] + case['added'][k + 1:])
    for k in range(len(case.get('replaced') or [])):
        yield dict(case, replaced=case['replaced'][:k] + case['replaced'][k + 1:])
    for k, e in enumerate(case.get('edits') or []):
        # drop one edit together with the final value of that parameter
        rest = case['edits'][:k] + case['edits'][k + 1:]
        keep = {x[0] for x in rest}
        yield dict(case, edits=rest, final=[f for f in case.get('final') or [] if f[0] in keep])


def _shrink_case(case):
    ps, vals = case['params'], case['values']
    lvl = case['level']
    n = len(ps)
    if case.get('subset') is not None:
        yield dict(case, subset=None)
    for i in range(1, n):
        ps2 = ps[:i] + ps[i + 1:]
        vals2 = None if vals is None else vals[:i] + vals[i + 1:]
        sub = case.get('subset')
        if sub is not None:
            sub = [s for s in sub if s != ps[i]['name']]
        yield dict(case, params=ps2, values=vals2, subset=sub)
    for i in range(1, n):
        d = ps[i]
        if d.get('doc') is not None:
            yield dict(case, params=ps[:i] + [dict(d, doc=None)] + ps[i + 1:])
        # smaller containers in the value / default
        src = vals[i] if vals is not None else d.get('default')
        if src is not None and src.get('t') in ('list', 'dict', 'tuple') and d['type'] in ('List', 'Dict', 'ListSelector'):
            for k in range(len(src['v'])):
                small = dict(src, v=src['v'][:k] + src['v'][k + 1:])
                if vals is not None:
                    yield dict(case, values=vals[:i] + [small] + vals[i + 1:])
                else:
                    yield dict(case, params=ps[:i] + [dict(d, default=small)] + ps[i + 1:])
        if vals is not None and d.get('default') is not None and vals[i] != d['default']:
            # make the default the value: class-level replay of the same state
            yield dict(case, params=ps[:i] + [dict(d, default=vals[i])] + ps[i + 1:])
    if lvl == 'instance' and vals is not None and vals[0] != enc_val('obj'):
        yield dict(case, values=[enc_val('obj')] + vals[1:])


def walk(v):
    """all nested PyVal json nodes"""
    yield v
    if v['t'] in ('list', 'tuple'):
        for x in v['v']:
            yield from walk(x)
    elif v['t'] == 'dict':
        for k, x in v['v']:
            yield from walk(x)
