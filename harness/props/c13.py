"""C13 — the `.param` namespace always agrees with attribute access.
Correspondence: Lean `ParamVerif.Store.Namespace.step` vs the real metaclass / Parameters namespace."""
import itertools

ID = 'C13'
PROPS_FILE = 'ParamVerif/Props/C13.lean'
DRIVER = 'Driver/C13.lean'
SOURCES = [('param/parameterized.py', 'Parameters._cls_parameters'), ('param/parameterized.py', 'Parameters.objects'),
           ('param/parameterized.py', 'Parameters.__getitem__'), ('param/parameterized.py', 'Parameters.__contains__'),
           ('param/parameterized.py', 'Parameters.__iter__'), ('param/parameterized.py', 'Parameters.values'),
           ('param/parameterized.py', 'Parameters.add_parameter'), ('param/parameterized.py', 'Parameters._setup_params'),
           ('param/parameterized.py', 'ParameterizedMetaclass.__setattr__'),
           ('param/parameterized.py', 'ParameterizedMetaclass.get_param_descriptor'),
           ('param/parameterized.py', 'ParameterizedMetaclass._initialize_parameter'),
           ('param/parameterized.py', '_instantiated_parameter'), ('param/parameterized.py', '_instantiate_param_obj'),
           ('param/parameterized.py', 'instance_descriptor'), ('param/parameterized.py', 'classlist'),
           ('param/_utils.py', 'descendents')]
BUDGET_S = {'quick': 45, 'thorough': 400}
EXHAUSTIVE = {'quick': False, 'thorough': False}
TRUSTED = [
    'statements in lean/ParamVerif/Props/C13.lean (Inv, InstOk, Agrees; namespace_agrees / C13_full_holds for all histories of the modelled operations, failing add_parameter calls and rejected Parameter-valued class assignments included)',
    'spec-side oracle lean/ParamVerif/Store/NamespaceSpec.lean (decidable restatement of Agrees on observations)',
    'harness/props/c13.py adapter (reports n in X.param, identity of X.param[n], X.param.<n> / objects("existing")[n] against inspect.getattr_static '
    'and the per-instance copy, .default, getattr, values(), serialize_parameters(), list(X.param); Parameter identity = creation index)',
    'correspondence is differential testing: model = code only on the histories executed',
    'CPython attribute lookup along the MRO (the MRO of every class is computed by Python and sent with the case), dict order, copy.copy',
]
ASSUMPTIONS = [
    'all Parameters of a history are param.String(default=str(d), regex="^[0-hi]$") (not Dynamic; 50% of random histories, all exhaustive ones) '
    'or param.Integer(default=d, bounds=(None, hi)) (Dynamic), or (kind Nosy, 20% of random histories) a String subclass whose _validate first reads '
    '`self.owner.param` — namespace reads *during* assignments; the model has no separate step for them because a read only fills a cache with the fresh walk '
    '(unobservable while Inv holds) — with an explicit default; values are the ints 0..9 and None (every Parameter is allow_None=True; None crosses the boundary as -1, which passes every upper bound like None does)',
    'the inherited `name` parameter is filtered out of every observation; watchers and dynamic values are outside the model; '
    'the hierarchy is fixed at the start of a history (no class creation inside it)',
    'class-level / instance-level assignment to a name that is not a Parameter there (plain Python attribute) is skipped on both sides',
    '`repr` is not observed separately (it reads the same `objects("existing")` dictionary as values() and serialisation); watcher registration is an operation of its own (watch then unwatch; no callbacks fire)',
    'edit_constant appears as a reader of the class namespace (instBlock: an empty block); its flag handling is C14',
]
RULE = ('directed prefix (stale-cache scenarios of the design round, failed add_parameter, every model branch) + all histories of '
        'length <=2 over a fixed alphabet on a 3-class chain and a diamond, once observing everything after every step and once only '
        'at the end + random histories of length <=25 over 3-5 classes (chains, forks, diamonds, two roots) with random observation '
        'subsets after each step (observation reads fill caches; the model replays them). After every step the observed classes and '
        'instances are compared with the model and checked by the oracle. non-trivial = a successful class-level set / add_parameter '
        '/ instance set happened after some namespace read, and >=1 observation was checked; distinct = distinct canonical case')
COVERAGE_TARGETS = [
    'read:ok:fill', 'read:ok:cached', 'clsSet:ok:own', 'clsSet:ok:copy-on-write', 'clsSet:ValueError:own',
    'clsSet:ValueError:copy-on-write', 'clsSet:skip', 'addParam:ok:new', 'addParam:ok:override-inherited', 'addParam:ok:replace',
    'addParam:ok:new:own-bounds', 'addParam:RuntimeError:override-inherited', 'addParam:ValueError:new:own-bounds',
    'newInst:ok', 'newInst:ok:kwargs', 'newInst:TypeError:kwargs', 'newInst:ValueError:kwargs',
    'instSet:ok:makes-copy', 'instSet:ok:has-copy', 'instSet:ValueError:has-copy', 'instSet:skip:makes-copy',
    'instParam:ok:makes-copy', 'instParam:ok:has-copy', 'instParam:KeyError:makes-copy',
    'instBlock:ok:fill', 'instBlock:ok:cached', 'watchCls:ok', 'watchCls:ValueError', 'watchInst:ok', 'watchInst:ValueError', 'clsSetParam:ok:unread', 'clsSetParam:ok:cache-read', 'clsSetParam:RuntimeError:cache-read', 
    'shape:chain3', 'shape:chain4', 'shape:diamond', 'shape:diamond-tail', 'shape:two-roots', 'shape:fork',
    'obs:stale-window', 'kind:String', 'kind:Integer', 'kind:Nosy', 'value:None-on-instance', 'value:None-class-default',
]

NAMES = ['x', '_y', 'z']
SHAPES = {
    'chain3': [[], [0], [1]],
    'chain4': [[], [0], [1], [2]],
    'fork': [[], [0], [0], [1]],
    'diamond': [[], [0], [0], [1, 2]],
    'diamond-tail': [[], [0], [0], [1, 2], [3]],
    'two-roots': [[], [], [0, 1], [2]],
}


def _mro(bases):
    """C3 linearisation computed by Python itself on plain classes of the same shape"""
    ks = []
    for bs in bases:
        ks.append(type('M', tuple(ks[b] for b in bs) or (object,), {}))
    return [[ks.index(c) for c in k.__mro__ if c in ks] for k in ks]


_MRO = {k: _mro(v) for k, v in SHAPES.items()}


def _mk(shape, decls, steps, kind='String'):
    bases = SHAPES[shape]
    return {'shape': shape, 'kind': kind, 'names': NAMES,
            'classes': [{'bases': bases[k], 'mro': _MRO[shape][k], 'decl': decls[k]} for k in range(len(bases))],
            'steps': steps}


def run_impl(case):
    import inspect
    import json
    import param
    names = case['names']
    reg, keep = {}, []

    def register(p):
        reg[id(p)] = len(keep)
        keep.append(p)

    def pid(p):
        return None if p is None else reg.get(id(p), -1)

    dyn = case['kind'] == 'Integer'
    # values cross the boundary as small ints; the String kind stores them as one-digit strings
    # every Parameter is declared allow_None=True; the value -1 of a case stands for None
    ABSENT = object()
    enc = (lambda v: None if v == -1 else v) if dyn else (lambda v: None if v == -1 else str(v))
    dec = lambda v: None if v is ABSENT else (-1 if v is None else int(v))

    class NosyString(param.String):
        """a String whose validation consults the namespace of its owner (class or instance) first:
        namespace reads *during* an assignment"""

        def _validate(self, val):
            if self.owner is not None:
                list(self.owner.param)
            super()._validate(val)

    Str = NosyString if case['kind'] == 'Nosy' else param.String

    def mkparam(d, hi):
        if dyn:
            return (param.Integer(default=d, bounds=(None, hi), allow_None=True) if hi is not None
                    else param.Integer(default=d, allow_None=True))
        return (Str(default=str(d), regex=f'^[0-{hi}]$', allow_None=True) if hi is not None
                else Str(default=str(d), allow_None=True))

    try:
        classes = []
        for k, cd in enumerate(case['classes']):
            ns = {}
            for n, d, hi in cd['decl']:
                ns[n] = mkparam(d, hi)
                register(ns[n])
            classes.append(type(f'K{k}', tuple(classes[b] for b in cd['bases']) or (param.Parameterized,), ns))
        for k, cd in enumerate(case['classes']):
            if [classes.index(c) for c in classes[k].__mro__ if c in classes] != cd['mro']:
                return {'crash': f'MRO of class {k} differs from the case'}
        insts = []

        def static(cls, n):
            st = inspect.getattr_static(cls, n, None)
            return st if isinstance(st, param.Parameter) else None

        def obs_cls(c):
            cls = classes[c]
            pr = cls.param
            order = [n for n in pr if n != 'name']
            vals = pr.values()
            ser = json.loads(pr.serialize_parameters())
            rows = []
            for n in names:
                listed = n in pr
                p = pr[n] if listed else None
                st = static(cls, n)
                rows.append([listed, pid(p), pid(st), dec(p.default) if p is not None else None,
                             dec(getattr(cls, n)) if st is not None else None, dec(vals.get(n, ABSENT)), dec(ser.get(n, ABSENT)),
                             pid(getattr(pr, n, None))])      # attribute-style access `C.param.<n>`
            return {'c': c, 'order': order, 'rows': rows}

        def obs_inst(i):
            o = insts[i]
            pr = o.param
            ex = pr.objects('existing')
            vals = pr.values()
            ser = json.loads(pr.serialize_parameters())
            rows = []
            for n in names:
                st = static(type(o), n)
                ip = o._param__private.params.get(n)
                gov = ip if ip is not None else st
                rows.append([n in pr, pid(ex.get(n)), pid(gov), dec(getattr(o, n)) if st is not None else None,
                             dec(vals.get(n, ABSENT)), dec(ser.get(n, ABSENT))])
            return {'i': i, 'rows': rows}

        out = []
        for st in case['steps']:
            op, res = st['op'], 'ok'
            try:
                if op == 'read':
                    list(classes[st['c']].param)
                elif op == 'clsSet':
                    cls = classes[st['c']]
                    if cls.get_param_descriptor(st['n'])[0] is None:
                        res = 'skip'
                    else:
                        setattr(cls, st['n'], enc(st['v']))
                elif op == 'addParam':
                    p = mkparam(st['d'], st.get('hi'))
                    register(p)
                    classes[st['c']].param.add_parameter(st['n'], p)
                elif op == 'clsSetParam':
                    p = mkparam(st['d'], st.get('hi'))
                    register(p)
                    setattr(classes[st['c']], st['n'], p)      # Parameter-valued class assignment
                elif op in ('watchCls', 'watchInst'):
                    if op == 'watchInst' and st['i'] >= len(insts):
                        res = 'stuck'
                    else:
                        target = classes[st['c']] if op == 'watchCls' else insts[st['i']]
                        w = target.param.watch(lambda event: None, [st['n']])    # ValueError for a name not in the namespace
                        target.param.unwatch(w)
                elif op == 'instBlock':
                    if st['i'] >= len(insts):
                        res = 'stuck'
                    else:
                        from param.parameterized import edit_constant
                        with edit_constant(insts[st['i']]):
                            pass
                elif op == 'newInst':
                    insts.append(classes[st['c']](**{k: enc(v) for k, v in st['kw']}))
                elif op in ('instSet', 'instParam'):
                    if st['i'] >= len(insts):
                        res = 'stuck'
                    elif op == 'instParam':
                        insts[st['i']].param[st['n']]
                    elif type(insts[st['i']]).get_param_descriptor(st['n'])[0] is None:
                        res = 'skip'
                    else:
                        setattr(insts[st['i']], st['n'], enc(st['v']))
                else:
                    raise AssertionError(op)
            except (ValueError, TypeError, KeyError, RuntimeError) as e:
                res = type(e).__name__
            # Parameter objects created inside param (copy-on-write, per-instance copies): by creation order
            new = [v for cls in classes for n, v in vars(cls).items()
                   if isinstance(v, param.Parameter) and n != 'name' and id(v) not in reg]
            new += [v for o in insts for n, v in o._param__private.params.items() if n != 'name' and id(v) not in reg]
            if len(new) > 1:
                return {'crash': f'{len(new)} Parameter objects created by one {op}'}
            for v in new:
                register(v)
            out.append({'res': res, 'cls': [obs_cls(c) for c in st['oc']],
                        'inst': [obs_inst(i) for i in st['oi'] if i < len(insts)]})
        return {'steps': out}
    except Exception as e:  # the views themselves blew up: report, do not hide
        return {'crash': f'{type(e).__name__}: {e}'[:300]}


# ---------------------------------------------------------------- generation

def _finish(shape, decls, ops, policy, rng=None, kind='String'):
    """attach the observation lists; instance indices observed = instances that exist if every newInst succeeded"""
    ncls = len(SHAPES[shape])
    steps, ninst = [], 0
    for k, op in enumerate(ops):
        op = dict(op)
        if op['op'] == 'newInst':
            ninst += 1
        last = k == len(ops) - 1
        if policy == 'all' or last:
            oc, oi = list(range(ncls)), list(range(ninst))
        elif policy == 'end':
            oc, oi = [], []
        else:
            r = rng.random()
            if r < 0.35:
                oc, oi = list(range(ncls)), list(range(ninst))
            elif r < 0.6:
                oc, oi = [], []
            else:
                oc = [c for c in range(ncls) if rng.random() < 0.5]
                oi = [i for i in range(ninst) if rng.random() < 0.5]
        op['oc'], op['oi'] = oc, oi
        steps.append(op)
    return _mk(shape, decls, steps, kind)


def _directed():
    D3 = [[['x', 1, 5], ['_y', 2, None]], [], []]
    D3o = [[['x', 1, 5], ['_y', 2, None]], [], [['_y', 0, None]]]
    R = lambda c: {'op': 'read', 'c': c}
    out = []
    # the two scenarios of the design round
    out.append(('chain3', D3, [R(2), {'op': 'clsSet', 'c': 1, 'n': 'x', 'v': 5}, {'op': 'newInst', 'c': 2, 'kw': []}], 'end'))
    out.append(('chain3', D3, [R(2), {'op': 'addParam', 'c': 0, 'n': 'z', 'd': 3, 'hi': None},
                               {'op': 'newInst', 'c': 2, 'kw': []}], 'end'))
    out.append(('chain3', D3, [R(0), R(1), R(2), {'op': 'addParam', 'c': 1, 'n': 'x', 'd': 4, 'hi': None}], 'all'))
    # failed add_parameter: with and without a filled cache
    out.append(('chain3', D3, [R(1), {'op': 'addParam', 'c': 1, 'n': 'x', 'd': 9, 'hi': None}], 'end'))
    out.append(('chain3', D3, [{'op': 'addParam', 'c': 1, 'n': 'x', 'd': 9, 'hi': None}], 'end'))
    out.append(('chain3', D3, [{'op': 'addParam', 'c': 1, 'n': 'x', 'd': 9, 'hi': None},
                               {'op': 'addParam', 'c': 2, 'n': 'x', 'd': 9, 'hi': None},
                               {'op': 'clsSet', 'c': 1, 'n': 'x', 'v': 3}, {'op': 'clsSet', 'c': 2, 'n': 'x', 'v': 7}], 'all'))
    # every branch once
    out.append(('chain3', D3o, [
        {'op': 'clsSet', 'c': 0, 'n': 'x', 'v': 3}, {'op': 'clsSet', 'c': 0, 'n': 'x', 'v': 7},
        {'op': 'clsSet', 'c': 2, 'n': 'x', 'v': 8}, {'op': 'clsSet', 'c': 2, 'n': 'x', 'v': 2},
        {'op': 'clsSet', 'c': 1, 'n': 'z', 'v': 2}, {'op': 'addParam', 'c': 1, 'n': 'z', 'd': 3, 'hi': 6},
        {'op': 'addParam', 'c': 1, 'n': 'z', 'd': 9, 'hi': 6}, {'op': 'addParam', 'c': 2, 'n': 'z', 'd': 5, 'hi': None},
        {'op': 'addParam', 'c': 2, 'n': 'z', 'd': 8, 'hi': None}, {'op': 'addParam', 'c': 0, 'n': 'x', 'd': 2, 'hi': None},
        {'op': 'newInst', 'c': 2, 'kw': []}, {'op': 'newInst', 'c': 1, 'kw': [['x', 1], ['_y', 5]]},
        {'op': 'newInst', 'c': 1, 'kw': [['q', 1]]}, {'op': 'newInst', 'c': 2, 'kw': [['z', 9]]},
        {'op': 'instSet', 'i': 0, 'n': 'z', 'v': 4}, {'op': 'instSet', 'i': 0, 'n': 'z', 'v': 9},
        {'op': 'instSet', 'i': 0, 'n': 'z', 'v': 1}, {'op': 'instSet', 'i': 0, 'n': 'q', 'v': 1},
        {'op': 'instParam', 'i': 1, 'n': 'x'}, {'op': 'instParam', 'i': 1, 'n': 'x'}, {'op': 'instParam', 'i': 1, 'n': 'q'},
        {'op': 'addParam', 'c': 0, 'n': 'x', 'd': 6, 'hi': None}, {'op': 'instSet', 'i': 1, 'n': 'x', 'v': 6},
        {'op': 'instSet', 'i': 5, 'n': 'x', 'v': 6}], 'all'))
    # watcher registration tests membership in the (cached) namespace
    out.append(('chain3', D3, [R(2), {'op': 'watchCls', 'c': 2, 'n': 'z'}, {'op': 'addParam', 'c': 0, 'n': 'z', 'd': 3, 'hi': None},
                               {'op': 'watchCls', 'c': 2, 'n': 'z'}, {'op': 'newInst', 'c': 1, 'kw': []}, {'op': 'watchInst', 'i': 0, 'n': 'z'},
                               {'op': 'watchInst', 'i': 0, 'n': 'q'}, {'op': 'watchInst', 'i': 4, 'n': 'x'}], 'end'))
    # edit_constant reads the class namespace and must not write per-instance copies into it
    out.append(('chain3', D3, [{'op': 'newInst', 'c': 2, 'kw': []}, {'op': 'instSet', 'i': 0, 'n': '_y', 'v': 3},
                               {'op': 'instBlock', 'i': 0}, {'op': 'clsSet', 'c': 2, 'n': '_y', 'v': 7},
                               {'op': 'newInst', 'c': 2, 'kw': []}, {'op': 'instBlock', 'i': 1}, {'op': 'instBlock', 'i': 5}], 'all'))
    # Parameter-valued class assignment = add_parameter (3c67719, 6653662), rejected ones are rolled back
    out.append(('chain3', D3, [{'op': 'clsSetParam', 'c': 0, 'n': 'z', 'd': 3, 'hi': None}], 'end'))
    out.append(('chain3', D3, [R(0), R(1), {'op': 'clsSetParam', 'c': 0, 'n': 'z', 'd': 3, 'hi': None}], 'end'))
    out.append(('chain3', D3, [R(2), {'op': 'clsSetParam', 'c': 1, 'n': 'x', 'd': 2, 'hi': None}], 'end'))
    out.append(('chain3', D3, [{'op': 'clsSetParam', 'c': 1, 'n': 'x', 'd': 9, 'hi': None}], 'end'))
    out.append(('chain3', D3, [R(1), R(2), {'op': 'clsSetParam', 'c': 1, 'n': 'x', 'd': 9, 'hi': None}], 'end'))
    out.append(('chain3', D3, [R(2), {'op': 'clsSetParam', 'c': 0, 'n': 'z', 'd': 2, 'hi': 6}, {'op': 'newInst', 'c': 2, 'kw': [['z', 4]]},
                               {'op': 'instSet', 'i': 0, 'n': 'z', 'v': 7}, {'op': 'clsSetParam', 'c': 1, 'n': 'z', 'd': 9, 'hi': None},
                               {'op': 'instParam', 'i': 0, 'n': 'z'}, {'op': 'clsSet', 'c': 2, 'n': 'z', 'v': 1}], 'all'))
    # per-instance copy, then the class Parameter is replaced underneath it
    for shape in SHAPES:
        n = len(SHAPES[shape])
        decls = [[['x', 1, 5], ['_y', 2, None]] if not SHAPES[shape][k] else [] for k in range(n)]
        ops = [R(n - 1), {'op': 'newInst', 'c': n - 1, 'kw': []}, {'op': 'instParam', 'i': 0, 'n': '_y'},
               {'op': 'clsSet', 'c': n - 2, 'n': '_y', 'v': 4}, {'op': 'addParam', 'c': 0, 'n': 'z', 'd': 1, 'hi': None},
               {'op': 'addParam', 'c': n - 2, 'n': '_y', 'd': 3, 'hi': None}, {'op': 'instSet', 'i': 0, 'n': '_y', 'v': 3},
               {'op': 'clsSet', 'c': n - 1, 'n': 'z', 'v': 2}]
        out.append((shape, decls, ops, 'all'))
        out.append((shape, decls, ops, 'end'))
    # Dynamic Parameter type: values() of an instance reads the per-instance copy's default
    out2 = [('chain3', D3, [{'op': 'newInst', 'c': 2, 'kw': []}, {'op': 'instParam', 'i': 0, 'n': '_y'},
                            {'op': 'clsSet', 'c': 0, 'n': '_y', 'v': 4}], 'end'),
            # an instance value that is None (-1) is a value, not "unset"
            ('chain3', D3, [{'op': 'newInst', 'c': 2, 'kw': [['_y', -1]]}, {'op': 'instSet', 'i': 0, 'n': 'x', 'v': -1},
                            {'op': 'clsSet', 'c': 0, 'n': '_y', 'v': 4}, {'op': 'clsSet', 'c': 1, 'n': 'x', 'v': -1},
                            {'op': 'newInst', 'c': 2, 'kw': []}, {'op': 'instSet', 'i': 1, 'n': 'x', 'v': 0}], 'all')]
    # validation that reads the namespace while a (rejected) class-level assignment is in progress
    nosy = [('chain3', D3, [{'op': 'clsSet', 'c': 2, 'n': 'x', 'v': 7}, {'op': 'clsSet', 'c': 1, 'n': 'x', 'v': 8},
                            {'op': 'clsSet', 'c': 1, 'n': 'x', 'v': 3}, {'op': 'clsSet', 'c': 2, 'n': 'x', 'v': 9},
                            {'op': 'newInst', 'c': 2, 'kw': [['x', 9]]}, {'op': 'newInst', 'c': 2, 'kw': [['x', 2]]},
                            {'op': 'instSet', 'i': 0, 'n': 'x', 'v': 9}, {'op': 'clsSet', 'c': 0, 'n': 'x', 'v': 9}], pol)
            for pol in ('all', 'end')]
    return [_finish(s, d, o, p) for s, d, o, p in out] + [_finish(s, d, o, p, kind='Nosy') for s, d, o, p in nosy] + \
           [_finish(s, d, o, p, kind='Integer') for s, d, o, p in out[:7] + out2] + \
           [_finish(s, d, o, p) for s, d, o, p in out2[1:]]


def _alphabet(ncls):
    ops = [{'op': 'read', 'c': c} for c in range(ncls)]
    for c in range(ncls):
        ops += [{'op': 'clsSet', 'c': c, 'n': 'x', 'v': 3}, {'op': 'clsSet', 'c': c, 'n': '_y', 'v': 7},
                {'op': 'clsSet', 'c': c, 'n': 'x', 'v': 8},
                {'op': 'addParam', 'c': c, 'n': 'x', 'd': 2, 'hi': None}, {'op': 'addParam', 'c': c, 'n': 'z', 'd': 4, 'hi': None},
                {'op': 'addParam', 'c': c, 'n': 'x', 'd': 9, 'hi': None}]
    ops += [{'op': 'newInst', 'c': ncls - 1, 'kw': []}, {'op': 'newInst', 'c': 1, 'kw': [['x', 4]]},
            {'op': 'instSet', 'i': 0, 'n': 'x', 'v': 2}, {'op': 'instSet', 'i': 0, 'n': '_y', 'v': 6},
            {'op': 'instParam', 'i': 0, 'n': 'x'}, {'op': 'instParam', 'i': 0, 'n': 'z'}, {'op': 'instBlock', 'i': 0},
            {'op': 'watchCls', 'c': ncls - 1, 'n': 'z'}, {'op': 'watchInst', 'i': 0, 'n': 'z'}]
    return ops


def _random_case(rng):
    shape = rng.choice(list(SHAPES))
    bases = SHAPES[shape]
    ncls = len(bases)
    decls = []
    for k in range(ncls):
        d = []
        for n in NAMES:
            p = 0.6 if not bases[k] else 0.2
            if rng.random() < p:
                d.append([n, rng.randint(0, 3), rng.choice([None, None, 4, 5, 6])])
        decls.append(d)
    ops, ninst = [], 0
    for _ in range(rng.randint(1, 25)):
        r = rng.random()
        c = rng.randrange(ncls)
        n = rng.choice(NAMES)
        if r < 0.2:
            op = {'op': 'read', 'c': c}
        elif r < 0.42:
            op = {'op': 'clsSet', 'c': c, 'n': n, 'v': -1 if rng.random() < 0.1 else rng.randint(0, 8)}
        elif r < 0.62:
            hi = rng.choice([None, None, None, 5, 7])
            d = rng.randint(0, 4) if rng.random() < 0.8 else rng.randint(5, 9)
            op = {'op': 'addParam' if rng.random() < 0.7 else 'clsSetParam', 'c': c, 'n': n, 'd': d, 'hi': hi}
        elif r < 0.72 or ninst == 0:
            kw = [[m, -1 if rng.random() < 0.15 else rng.randint(0, 7)] for m in NAMES if rng.random() < 0.3]
            if rng.random() < 0.05:
                kw.append(['q', 1])
            op = {'op': 'newInst', 'c': c, 'kw': kw}
            ninst += 1
        elif r < 0.88:
            op = {'op': 'instSet', 'i': rng.randrange(ninst), 'n': n, 'v': -1 if rng.random() < 0.2 else rng.randint(0, 8)}
        elif r < 0.94:
            op = {'op': 'instParam', 'i': rng.randrange(ninst), 'n': n}
        elif r < 0.97:
            op = ({'op': 'watchInst', 'i': rng.randrange(ninst), 'n': n} if rng.random() < 0.5
                  else {'op': 'watchCls', 'c': c, 'n': n})
        else:
            op = {'op': 'instBlock', 'i': rng.randrange(ninst)}
        ops.append(op)
    return _finish(shape, decls, ops, 'random', rng, kind=rng.choice(['Integer', 'Integer', 'String', 'String', 'Nosy']))


def cases(rng, tier, worker, nworkers):
    import glob
    import json
    import os
    if worker == 0:
        for f in sorted(glob.glob(os.path.join(os.path.dirname(__file__), '..', '..', 'corpus', 'C13', '*.json'))):
            yield json.load(open(f))['case']
        for c in _directed():
            yield c
    depth = 2 if tier == 'quick' else 3
    i = 0
    for shape, decls in (('chain3', [[['x', 1, 5], ['_y', 2, None]], [], []]),
                         ('diamond', [[['x', 1, 5]], [['_y', 2, None]], [], []])):
        alpha = _alphabet(len(SHAPES[shape]))
        if depth == 3:      # the third position only takes the mutators that change what lookup finds
            alpha3 = [o for o in alpha if o['op'] in ('clsSet', 'addParam', 'instSet')]
        for n in range(1, depth + 1):
            pools = [alpha] * min(n, 2) + ([alpha3] if n == 3 else [])
            for combo in itertools.product(*pools):
                for policy in ('all', 'end'):
                    i += 1
                    if i % nworkers == worker:
                        yield _finish(shape, decls, list(combo), policy)
    n_random = 2500 if tier == 'quick' else 48000 // nworkers
    for _ in range(n_random):
        yield _random_case(rng)


def tags(case, impl):
    t = ['shape:' + case['shape'], 'kind:' + case['kind'], f'len={min(len(case["steps"]), 10)}' + ('+' if len(case['steps']) >= 10 else '')]
    for st in case['steps']:
        if st['op'] == 'instSet' and st['v'] == -1 or st['op'] == 'newInst' and any(v == -1 for _, v in st['kw']):
            t.append('value:None-on-instance')
        if st['op'] == 'clsSet' and st['v'] == -1:
            t.append('value:None-class-default')
    dirty = False   # a mutation happened while some step did not observe everything: caches may have been stale/unfilled
    for st in case['steps']:
        if st['op'] in ('clsSet', 'addParam') and dirty:
            t.append('obs:stale-window')
        dirty = len(st['oc']) < len(case['classes'])
    return t


def nontrivial(case, impl, resp):
    if 'steps' not in impl:
        return False
    seen_read = False
    for st, o in zip(case['steps'], impl['steps']):
        if seen_read and st['op'] in ('clsSet', 'addParam', 'instSet') and o['res'] == 'ok':
            return resp.get('checked_steps', 0) >= 1
        if st['op'] in ('read', 'newInst', 'instParam') or st['oc'] or st['oi']:
            seen_read = True
    return False


def shrink(case):
    steps = case['steps']
    rebuild = lambda ss: dict(case, steps=ss)
    ncls = len(case['classes'])
    for k in range(len(steps)):
        rest = [dict(s) for s in steps[:k] + steps[k + 1:]]
        if steps[k]['op'] == 'newInst':
            # instance indices above the removed one shift down; its own uses disappear
            idx = sum(1 for s in steps[:k] if s['op'] == 'newInst')
            rest2 = []
            for j, s in enumerate(rest):
                if j >= k and 'i' in s:
                    if s['i'] == idx:
                        continue
                    if s['i'] > idx:
                        s['i'] -= 1
                if j >= k:
                    s['oi'] = [i - 1 if i > idx else i for i in s['oi'] if i != idx]
                rest2.append(s)
            rest = rest2
        if rest:
            rest[-1]['oc'] = list(range(ncls))
            yield rebuild(rest)
    # observe less
    for k in range(len(steps) - 1):
        if steps[k]['oc'] or steps[k]['oi']:
            ss = [dict(s) for s in steps]
            ss[k]['oc'], ss[k]['oi'] = [], []
            yield rebuild(ss)
    for k in range(len(steps)):
        if steps[k]['op'] == 'newInst' and steps[k]['kw']:
            ss = [dict(s) for s in steps]
            ss[k]['kw'] = []
            yield rebuild(ss)
    # fewer declarations
    for c, cd in enumerate(case['classes']):
        for j in range(len(cd['decl'])):
            cl = [dict(x) for x in case['classes']]
            cl[c]['decl'] = cd['decl'][:j] + cd['decl'][j + 1:]
            yield dict(case, classes=cl)


def classify(case, impl, fail):
    """no open finding for C13 (all recorded ones are repaired in /repo; their histories are in corpus/C13)"""
    return None
