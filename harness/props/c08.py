"""C08 — a linked parameter mirrors its reference until it is overridden (shared model
lean/ParamVerif/Refs, shared driver Driver/Refs.lean, shared runner harness/refs_impl.py)."""
import glob
import itertools
import json
import os

from .. import refs_impl as R
from . import c02 as _c02

ID = 'C08'
PROPS_FILE = 'ParamVerif/Props/C08.lean'
DRIVER = 'Driver/Refs.lean'
SOURCES = _c02.SOURCES
BUDGET_S = {'quick': 50, 'thorough': 420}
TRUSTED = [
    'statements in lean/ParamVerif/Props/C08.lean',
    'spec-side oracle lean/ParamVerif/Refs/Spec.lean (specC08: the expected value of every live link is recomputed from the observed source '
    'values and the observed refs table; watcher exactness from the observed refs after every step; every target value and class default '
    'satisfies its constraints; link state after override / relink / leaving an update context; a source update reaches exactly the '
    'dependent links)',
] + _c02.TRUSTED[2:]
ASSUMPTIONS = _c02.ASSUMPTIONS[:3] + [
    'a bound function / rx expression is the opaque function k + sum(dependencies); rx and bind references are the same to the model '
    '(_rx_transform turns an rx into a bound function of its parameters)',
    'the universal watcher logs (parameter, new value); event.old is the business of C03',
]
RULE = ('2-3 source objects, 1-2 targets with 2-6 allow_refs parameters (bounded / free / pair with nested_refs / constant / readonly / '
        'without allow_refs); histories of 0-14 operations: link in the constructor or later with a Parameter, bind function, rx expression '
        'or nested container, source updates (a few of them making a linked value invalid), relink, plain override, update (several keys), '
        'update contexts (enter / exit), class-level assignment, optionally a probe suffix updating every source parameter; directed grid = '
        'every link kind x ctor|late x every follow-up pair; after every step the oracle recomputes every linked value from the observed '
        'sources and checks the _sync_refs watchers of every source against the observed refs. non-trivial = at least one source update '
        'was propagated into a target; distinct = distinct canonical case')
COVERAGE_TARGETS = ['ctor:par', 'ctor:fn', 'ctor:fn-kw', 'ctor:fn-nested', 'ctor:fn-nestedkw', 'ctor:fn-dep', 'ctor:fn-nesteddep', 'ctor:fn-nestedkwdep', 'late:fn-kw:ok', 'late:fn-nested:ok', 'late:fn-nestedkw:ok', 'ctor:rx', 'ctor:nested', 'ctor:nested2', 'late:nested2:ok', 'ctor:skipfn', 'late:par:ok', 'late:fn:ok', 'late:rx:ok', 'late:nested:ok',
                    'late:skipfn:ok', 'set:ref:linked:skip', 'set:ref:free:skip',
                    'set:ref:free:ok', 'set:ref:linked:ok', 'set:plain:linked:ok', 'srcSet:synced:ok', 'srcSet:sync:ValueError',
                    'srcSet:quiet:ok', 'ctxEnter:ok', 'ctxExit:ok', 'update:ok', 'setCls:ok', 'ctxEnter:form:kw', 'ctxEnter:form:dict', 'ctxEnter:form:pos',
                    'update:form:kw', 'update:form:dict', 'update:form:pos',
                    'hook:fired', 'lock:ok', 'trigger:ok', 'event-watchers', 'falsy-sources', 'hooks', 'shared:ctor-link', 'shared:set:ref:ok', 'shared:set:plain:ok', 'shared:update:ok', 'shared:ctxEnter:ok']
PROP = 'C08'

run_impl = R.run_impl
compare = R.compare
tags = R.tags
shrink = R.shrink


def nontrivial(case, impl, resp):
    if not isinstance(impl, dict) or not impl.get('steps') or not resp.get('applicable', False):
        return False
    return any(op['op'] == 'srcSet' and any(e[0] == 't' for e in st['log']) for op, st in zip(case['ops'], impl['steps']))


def directed():
    src0 = [[1, 2], [3, 4], [0, 5]]
    links = {
        'par': R.par(0, 0),
        'fn': R.fn([[0, 0], [1, 1]], 1),
        'fn-kw': R.fn([[0, 0], [1, 1]], 1, shape='kw'),
        'fn-nested': R.fn([[0, 0], [1, 1]], 1, shape='nested'),
        'fn-nestedkw': R.fn([[0, 0], [1, 1]], 1, shape='nestedkw'),
        'fn-dep': R.fn([[0, 0], [1, 1]], 1, shape='dep'),
        'fn-nesteddep': R.fn([[0, 0], [1, 1]], 1, shape='nesteddep'),
        'fn-nestedkwdep': R.fn([[0, 0], [1, 1]], 1, shape='nestedkwdep'),
        'rx': R.fn([[0, 0], [2, 0]], 2, True),
        'nested': R.cont(R.par(0, 0), R.fn([[1, 0]], 0, True)),
        'nested2': R.cont2([R.par(0, 0), R.lit(7)], [R.fn([[1, 0]], 0), R.fn([[0, 0], [2, 0]], 1, shape='kw')]),
        'skipfn': R.fn([[0, 0]], 0, sk=2),          # raises Skip now (S0.v0 = 1), yields a value from 2 on
    }
    def follow(slot, other):
        pair = slot == 2
        plain = R.cont(R.lit(4), R.lit(5)) if pair else R.lit(4)
        new = R.cont(R.par(2, 1), R.lit(1)) if pair else R.par(2, 1)
        skipping = R.cont(R.fn([[2, 1]], 0, sk=9), R.lit(1)) if pair else R.fn([[2, 1]], 0, sk=9)   # S2.v1 = 5: Skip
        return {
            'relink-skip': [{'op': 'set', 't': 0, 'p': slot, 'rhs': skipping}],
            'unskip': [{'op': 'srcSet', 's': 2, 'i': 1, 'v': 9}],
            'src-dep': [{'op': 'srcSet', 's': 0, 'i': 0, 'v': 4}],
            'src-other': [{'op': 'srcSet', 's': 2, 'i': 1, 'v': 3}, {'op': 'srcSet', 's': 1, 'i': 0, 'v': 5}],
            'src-same': [{'op': 'srcSet', 's': 0, 'i': 0, 'v': 1}],
            'override': [{'op': 'set', 't': 0, 'p': slot, 'rhs': plain}],
            'relink': [{'op': 'set', 't': 0, 'p': slot, 'rhs': new}],
            'relink-other': [{'op': 'set', 't': 0, 'p': other, 'rhs': R.fn([[2, 1]], 0)}],
            'update': [{'op': 'update', 't': 0, 'kvs': [[other, R.par(2, 0)], [slot, plain]], 'form': 'kw'}],
            'ctx': [{'op': 'ctxEnter', 't': 0, 'kvs': [[slot, plain]], 'form': 'dict'}, {'op': 'srcSet', 's': 0, 'i': 0, 'v': 5}, {'op': 'ctxExit'}],
            'ctx-link': [{'op': 'ctxEnter', 't': 0, 'kvs': [[other, R.par(2, 1)]], 'form': 'kw'}, {'op': 'srcSet', 's': 2, 'i': 1, 'v': 2}, {'op': 'ctxExit'}],
            'cls': [{'op': 'setCls', 't': 0, 'p': other, 'rhs': R.lit(6)}],
            'src-bad': [{'op': 'srcSet', 's': 0, 'i': 0, 'v': 30}, {'op': 'srcSet', 's': 0, 'i': 0, 'v': 2}],
        }
    probe = [{'op': 'srcSet', 's': s, 'i': i, 'v': v, 'note': 'probe'} for s, i, v in
             ((0, 0, 3), (0, 1, 1), (1, 0, 2), (1, 1, 0), (2, 0, 1), (2, 1, 4), (0, 0, 0))]
    npi = 0
    for (lk, ref), late, two in itertools.product(links.items(), (False, True), (False, True)):
        slot = 2 if lk == 'nested' else 6 if lk == 'nested2' else 0
        other = 1
        names = list(follow(slot, other))
        for a, b in itertools.product(names, names):
            if (lk.startswith('fn-') or lk == 'nested2') and (a, b) not in (('src-dep', 'src-other'), ('src-other', 'src-dep'), ('override', 'src-dep'), ('relink', 'src-dep'), ('ctx', 'src-dep')):
                continue
            if two and (a, b) not in (('src-dep', 'override'), ('relink', 'src-dep'), ('override', 'relink'), ('src-bad', 'src-dep'),
                                      ('relink-skip', 'src-dep'), ('relink-skip', 'unskip')):
                continue
            ctor, ops = [[1, R.par(1, 0)]], []
            if late:
                ops.append({'op': 'set', 't': 0, 'p': slot, 'rhs': ref})
            else:
                ctor.append([slot, ref])
            # every other case of the grid declares the parameters with per_instance=False (the instance has no
            # Parameter copy of its own: the link machinery must still work on the instance)
            npi += 1
            targets = [{'params': R.shared_params(R.STD) if npi % 2 else [dict(p) for p in R.STD], 'ctor': ctor}]
            if two:
                targets.append({'params': [R.P(), R.P(lo=0, hi=10)], 'ctor': [[0, R.par(0, 0)], [1, R.fn([[0, 0]], 0, lk == 'rx')]]})
            ops = ops + [dict(o) for o in follow(slot, other)[a]] + [dict(o) for o in follow(slot, other)[b]] + [dict(o) for o in probe]
            yield R.mk_case(PROP, src0, targets, ops, falsy_src=(npi % 3 == 0))


def directed_constants():
    """a constant=True, allow_refs=True parameter built with a reference: successful and FAILING syncs (the source
    emits a value the target rejects), then a plain assignment to the constant, which must still raise TypeError"""
    src0 = [[1, 2], [3, 4]]
    for ref, shared, sib in itertools.product((R.par(0, 0), R.fn([[0, 0], [1, 0]], 0), R.fn([[0, 0]], 1, True)), (False, True), (False, True)):
        ctor = [[3, ref]] + ([[0, R.par(0, 0)]] if sib else [])
        pds = R.shared_params(R.STD) if shared else [dict(p) for p in R.STD]
        for bad in (40, -7):
            ops = [{'op': 'srcSet', 's': 0, 'i': 0, 'v': 2},
                   {'op': 'srcSet', 's': 0, 'i': 0, 'v': bad, 'note': 'failing-sync-into-constant'},
                   {'op': 'set', 't': 0, 'p': 3, 'rhs': R.lit(9), 'note': 'rebind-constant'},
                   {'op': 'update', 't': 0, 'kvs': [[3, R.lit(8)]], 'form': 'kw'},
                   {'op': 'srcSet', 's': 0, 'i': 0, 'v': 4},
                   {'op': 'set', 't': 0, 'p': 3, 'rhs': R.lit(7)},
                   {'op': 'srcSet', 's': 1, 'i': 0, 'v': 1}]
            yield R.mk_case(PROP, src0, [{'params': pds, 'ctor': ctor}], ops)


def directed_watchers_and_locks():
    """user watchers that assign a plain value to a linked sibling (during a plain assignment, an update, and inside
    the flush of a sync — with the sibling outside and inside the batch being synced), parameters made constant
    on the instance only and then synced, sources whose truth value is False"""
    src0 = [[1, 2], [3, 4]]
    two = [dict(p) for p in R.STD]
    for late, falsy, b_src in itertools.product((False, True), (False, True), ((1, 0), (0, 0))):
        links = [[0, R.par(0, 0)], [1, R.par(*b_src)]]
        ctor = [] if late else links
        pre = [{'op': 'set', 't': 0, 'p': p, 'rhs': r} for p, r in links] if late else []
        for k in (7, 50):
            hooks = [{'t': 0, 'a': 0, 'b': 1, 'k': k}]
            tails = {
                'sync': [{'op': 'srcSet', 's': 0, 'i': 0, 'v': 4}],
                'set': [{'op': 'set', 't': 0, 'p': 0, 'rhs': R.lit(5)}],
                'update': [{'op': 'update', 't': 0, 'kvs': [[0, R.fn([[1, 1]], 0)], [2, R.cont(R.lit(1), R.lit(2))]], 'form': 'kw'}],
            }
            for name, ops in tails.items():
                probe = [{'op': 'srcSet', 's': s, 'i': i, 'v': v, 'note': 'probe'} for s, i, v in ((1, 0, 5), (0, 0, 6), (1, 0, 2), (0, 1, 0))]
                yield R.mk_case(PROP, src0, [{'params': two, 'ctor': ctor}], pre + ops + probe, hooks=hooks, falsy_src=falsy)
        # constant on the instance only, then synced (alone, and together with a sibling link of the same source)
        for sib in (False, True):
            ops = pre + [{'op': 'lock', 't': 0, 'p': 0}] + ([{'op': 'set', 't': 0, 'p': 1, 'rhs': R.fn([[0, 0]], 1)}] if sib else []) + \
                  [{'op': 'srcSet', 's': 0, 'i': 0, 'v': 4}, {'op': 'set', 't': 0, 'p': 0, 'rhs': R.lit(9), 'note': 'rebind-locked'},
                   {'op': 'srcSet', 's': 0, 'i': 0, 'v': 5}, {'op': 'set', 't': 0, 'p': 0, 'rhs': R.lit(5)},
                   {'op': 'srcSet', 's': 0, 'i': 0, 'v': 2}, {'op': 'srcSet', 's': 1, 'i': 0, 'v': 1}]
            yield R.mk_case(PROP, src0, [{'params': two, 'ctor': ctor}], ops, falsy_src=falsy)
    # the Event parameter: a watcher of it makes a rejected assignment to it while it is being dispatched
    # (fix 9d1d30e); directly triggered and named in an update
    for ops in ([{'op': 'trigger', 't': 0}],
                [{'op': 'set', 't': 0, 'p': 0, 'rhs': R.par(0, 0)}, {'op': 'trigger', 't': 0}, {'op': 'srcSet', 's': 0, 'i': 0, 'v': 3}],
                [{'op': 'update', 't': 0, 'kvs': [[1, R.lit(3)]], 'form': 'kw', 'ev': 'first'}, {'op': 'trigger', 't': 0}]):
        yield R.mk_case(PROP, src0, [{'params': two, 'ctor': []}], ops, ev_watch=True)
    # a readonly allow_refs parameter given a reference that raises Skip: accepted and linked (finding)
    yield R.mk_case(PROP, src0, [{'params': two, 'ctor': []}],
                    [{'op': 'set', 't': 0, 'p': 4, 'rhs': R.fn([[0, 0]], 0, sk=5)}, {'op': 'srcSet', 's': 0, 'i': 0, 'v': 7},
                     {'op': 'srcSet', 's': 0, 'i': 0, 'v': 2}])


def cases(rng, tier, worker, nworkers):
    if worker == 0:
        for f in sorted(glob.glob(os.path.join(os.path.dirname(__file__), '..', '..', 'corpus', 'C08', '*.json'))):
            yield dict(json.load(open(f))['case'], prop=PROP)
    for i, c in enumerate(itertools.chain(directed_constants(), directed_watchers_and_locks(), directed())):
        if i % nworkers == worker:
            yield c
    n = 1200 if tier == 'quick' else 60000 // nworkers
    for _ in range(n):
        yield R.gen_case(rng, PROP, max_ops=10)


def classify(case, impl, fail):
    why = str(fail.get('why', ''))
    if fail.get('kind') != 'counterexample':
        return None
    for key in ('failed-sync-leaves-valid-links-stale', 'watcher-assignment-during-own-sync-keeps-link',
                'readonly-parameter-linked-through-skipping-reference'):
        if why.startswith(f'finding:{key}:'):
            return key
    return None
