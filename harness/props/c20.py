"""C20 — `pprint` / `script_repr` output rebuilds an equal object.
Correspondence: Lean `ParamVerif.Repr.pp` (token-wise) vs the real `.param.pprint()` / `script_repr()`;
oracles: (direct) the real text is `eval`-ed and compared with the original, (Lean) `evalTT` on the
bracket-matched tokens of the real text."""
import copy
import io
import math
import re
import tokenize
import types
from fractions import Fraction

ID = 'C20'
PROPS_FILE = 'ParamVerif/Props/C20.lean'
DRIVER = 'Driver/C20.lean'
SOURCES = [('param/parameterized.py', 'Parameters.pprint'), ('param/parameterized.py', 'Parameters._pprint'),
           ('param/parameterized.py', 'Parameters.values'), ('param/parameterized.py', 'pprint'),
           ('param/parameterized.py', 'script_repr'), ('param/parameterized.py', 'container_script_repr'),
           ('param/parameterized.py', 'Comparator'), ('param/parameterized.py', 'Parameterized.__repr__'),
           ('param/_utils.py', '_is_auto_name')]
BUDGET_S = {'quick': 45, 'thorough': 400}
EXHAUSTIVE = {'quick': False, 'thorough': False}
TRUSTED = [
    'statements in lean/ParamVerif/Props/C20.lean (WF = "literal-valued object of a class whose constructor forwards '
    'its arguments to the parameters of the same name")',
    'spec side lean/ParamVerif/Repr/Model.lean evalTT/construct (Python\'s reading of (), (e), (e,), [..], {..}, set(), '
    'C(a, k=v) and argument binding) and Repr/Spec.lean sEqv',
    'atoms are opaque: an atom is the token list of its repr; that eval(repr(atom)) == atom is checked only by the '
    'direct oracle (real eval of the real text with inf/nan bound)',
    'harness/props/c20.py adapter: tokenize + bracket matching into a token tree (the driver checks that the tree '
    'flattens to the very tokens), state_of() reading the object through .param.values()',
    'correspondence is differential testing: model = code only on the objects generated',
]
ASSUMPTIONS = [
    'constructors forward every argument unchanged to the parameter of the same name; argument names are parameter names',
    'dict keys and set elements are atoms; no complex numbers, frozensets, functions, types',
    'a sub-object occurring twice in the object graph is printed twice and rebuilt as two equal objects: the '
    'comparison is by parameter values, object identity (sharing) is not part of the property',
    'two threads only in this form: when the top object has a string-valued parameter, its text is taken on the '
    'main thread while a second thread is parked inside pprint() of the same object (the string is a str subclass '
    'whose repr waits); other interleavings are not exercised',
    'script_repr() text is a script: its import lines are executed (the case\'s modules registered in sys.modules) '
    'and its expression evaluated in the resulting namespace plus inf/nan, '
    '.param.pprint() text with the class names bound; the Lean reader accepts both spellings',
    'states are those reachable by one constructor call, possibly after class-level defaults were re-assigned '
    '(only on classes whose constructors, and those of their subclasses, take **params: otherwise an existing '
    'object keeps a value its constructor cannot be given)',
    'names of the generated form <ClassName><at least five digits> count as auto-generated ("auto-generated '
    'names aside"); an explicit name with fewer digits that pprint drops is reported (known finding)',
    'theorem: signature without *args and without keyword-only arguments, with **params, `name` not positional, '
    'no Parameterized objects inside dict values (those are executed and checked by both oracles, not proved)',
]
RULE = ('directed prefix (escapes, negative numbers, inf/nan, empty and singleton containers, explicit / auto-like names, '
        'positional + keyword signatures, signature default equal/different from the Parameter default, precedence '
        'ordering, nested objects in parameters / lists / dicts, keyword-only, *args, no **params) + random: 1-3 classes '
        'built with type(...), 1-5 Parameters each with random literal defaults and precedences, random constructor '
        'signatures, single inheritance (constructors inherited), histories before the object is built (classes '
        'used, class-level defaults re-assigned also on ancestors), nested Parameterized values, random constructor calls. For both .param.pprint() and '
        'script_repr(): tokens compared with the model, text eval-ed in a namespace with the classes (direct oracle) '
        'and read by the Lean evaluator. non-trivial = both printers applicable and at least one printed argument; '
        'distinct = distinct canonical recipe')
COVERAGE_TARGETS = ['ptype:number', 'number:zero-vs-nonzero-default', 'shared-object', 'sig:published', 'pre:pprint', 'pre:sig', 'hierarchy', 'pre:use', 'pre:set', 'pre:set-on-ancestor', 'atom:num', 'atom:str', 'atom:bytes', 'atom:none', 'atom:negative', 'list', 'list:empty', 'tuple',
                    'tuple:empty', 'tuple:singleton', 'set', 'set:empty', 'dict', 'dict:empty', 'in-dict:obj',
                    'obj:nested', 'sig:default', 'sig:custom', 'sig:posargs', 'sig:kwargs', 'sig:kwonly',
                    'sig:varargs', 'sig:no-varkw', 'name:auto', 'name:auto-like', 'name:explicit',
                    'suppressed:default', 'suppressed:sig-default', 'printed:equals-param-default']

INF, NAN = math.inf, math.nan
MODULES = ['c20ns', 'c20pkg.sub']


# ---------------------------------------------------------------- values <-> JSON

def _toks(text):
    out = []
    for t in tokenize.generate_tokens(io.StringIO(text).readline):
        if t.type in (tokenize.NAME, tokenize.NUMBER, tokenize.STRING, tokenize.OP, tokenize.ERRORTOKEN):
            if t.string.strip():
                out.append(t.string)
    return out


def enc_atom(v):
    """typed, JSON-able, lossless; `toks`/`eq` are what the Lean side uses"""
    if v is None:
        kind, py, eq = 'none', ['n'], 'None'
    elif isinstance(v, bool):
        kind, py, eq = 'num', ['b', v], f'{int(v)}/1'
    elif isinstance(v, int):
        kind, py, eq = 'num', ['i', str(v)], f'{v}/1'
    elif isinstance(v, float):
        kind = 'num'
        if math.isnan(v):
            py, eq = ['f', 'nan'], 'nan'
        elif math.isinf(v):
            py, eq = ['f', 'inf' if v > 0 else '-inf'], 'inf' if v > 0 else '-inf'
        else:
            fr = Fraction(v)
            py, eq = ['f', v.hex()], f'{fr.numerator}/{fr.denominator}'
    elif isinstance(v, str):
        kind, py, eq = 'str', ['s', v], 's' + v
    elif isinstance(v, bytes):
        kind, py, eq = 'bytes', ['y', list(v)], 'b' + v.decode('latin1')
    else:
        raise TypeError(f'not an atom: {v!r}')
    return {'kind': kind, 'toks': _toks(repr(v)), 'eq': eq, 'v': py}


def dec_atom(a):
    t = a['v']
    if t[0] == 'n':
        return None
    if t[0] == 'b':
        return bool(t[1])
    if t[0] == 'i':
        return int(t[1])
    if t[0] == 'f':
        return {'nan': NAN, 'inf': INF, '-inf': -INF}.get(t[1]) if t[1] in ('nan', 'inf', '-inf') else float.fromhex(t[1])
    if t[0] == 's':
        return t[1]
    if t[0] == 'y':
        return bytes(t[1])
    raise ValueError(t)


def is_atom(v):
    return v is None or isinstance(v, (bool, int, float, str, bytes))


class Env:
    """the classes of one case, built on the real library"""

    def __init__(self, case):
        import param
        self.param = param
        self.case = case
        self.classes = []
        self.cur_sig = []
        self.ns = {'inf': INF, 'nan': NAN}
        mods = {}
        for ci, d in enumerate(case['classes']):
            body = {'__module__': d['module']}
            for p in d['params']:
                PT = param.Number if p.get('ptype') == 'number' else param.Parameter     # Number: Dynamic family
                extra = {'allow_None': True} if PT is param.Number else {}
                body[p['name']] = PT(default=self.build(p['default']), precedence=p['prec'], instantiate=True, **extra)
            sig = d['sig']
            self.cur_sig.append(sig)
            if sig.get('published'):
                # generic constructor that binds its arguments through the signature it publishes
                # (`__init__.__signature__`, which pprint reads; it may be re-published later)
                holder = []
                body['__init__'] = self._published_init(holder, sig)
            elif sig['custom']:
                holder = []
                g = {'_H': holder, '_super': super}
                parts, fwd = ['self'], []
                nd = len(sig['defaults'])
                npos = len(sig['args']) - nd
                for i, a in enumerate(sig['args']):
                    if i < npos:
                        parts.append(a)
                    else:
                        g[f'_d{i}'] = self.build(sig['defaults'][i - npos])
                        parts.append(f'{a}=_d{i}')
                    fwd.append(f'{a}={a}')
                if sig['varargs']:
                    parts.append('*' + sig['varargs'])
                elif sig['kwonly']:
                    parts.append('*')
                for j, (k, dflt) in enumerate(sig['kwonly']):
                    if dflt is None:
                        parts.append(k)
                    else:
                        g[f'_k{j}'] = self.build(dflt)
                        parts.append(f'{k}=_k{j}')
                    fwd.append(f'{k}={k}')
                if sig['varkw']:
                    parts.append('**params')
                    fwd.append('**params')
                src = f'def __init__({", ".join(parts)}):\n    _super(_H[0], self).__init__({", ".join(fwd)})\n'
                exec(src, g)
                body['__init__'] = g['__init__']
            base = self.classes[d['base']] if d.get('base') is not None else param.Parameterized
            cls = type(d['name'], (base,), body)
            if sig['custom'] or sig.get('published'):
                holder.append(cls)
            self.classes.append(cls)
            self.ns[d['name']] = cls
            # module path for qualified names
            path = d['module'].split('.')
            root = mods.setdefault(path[0], types.SimpleNamespace())
            self.ns[path[0]] = root
            cur = root
            for part in path[1:]:
                if not hasattr(cur, part):
                    setattr(cur, part, types.SimpleNamespace())
                cur = getattr(cur, part)
            setattr(cur, d['name'], cls)
        # objects that will occur more than once in the object graph
        self.lets = []
        for r in case.get('lets', []):
            self.lets.append(self.build(r))
        # history before the object is built: classes get used (their parameter namespace is read and
        # cached), class-level defaults are re-assigned, possibly on a class in the middle of a hierarchy
        for step in case.get('pre', []):
            cls = self.classes[step['cls']]
            if step['op'] == 'use':
                list(cls.param.objects('existing').items())
                cls.param.values()
            elif step['op'] == 'set':
                setattr(cls, step['p'], self.build(step['v']))
            elif step['op'] == 'pprint':
                o = self.build(step['build'])
                o.param.pprint()
                param.script_repr(o, show_imports=False)
            elif step['op'] == 'sig':
                cls.__init__.__signature__ = self._signature(step['sig'])
                self.cur_sig[step['cls']] = step['sig']
            else:
                raise ValueError(step)

    def _signature(self, sig):
        import inspect
        P = inspect.Parameter
        ps = [P('self', P.POSITIONAL_OR_KEYWORD)]
        npos = len(sig['args']) - len(sig['defaults'])
        for i, a in enumerate(sig['args']):
            ps.append(P(a, P.POSITIONAL_OR_KEYWORD,
                        default=P.empty if i < npos else self.build(sig['defaults'][i - npos])))
        ps.append(P('params', P.VAR_KEYWORD))
        return inspect.Signature(ps)

    def _published_init(self, holder, sig):
        import inspect

        def __init__(self, *a, **kw):
            b = inspect.signature(holder[0].__init__).bind(self, *a, **kw)
            b.apply_defaults()
            args = dict(b.arguments)
            args.pop('self')
            extra = args.pop('params', {})
            super(holder[0], self).__init__(**args, **extra)
        __init__.__signature__ = self._signature(sig)
        return __init__

    def modules_registered(self):
        """context manager: the case's module names importable (`import c20pkg.sub` works)"""
        import contextlib
        import sys

        @contextlib.contextmanager
        def cm():
            added = []
            try:
                for d, cls in zip(self.case['classes'], self.classes):
                    parts = d['module'].split('.')
                    for i in range(1, len(parts) + 1):
                        name = '.'.join(parts[:i])
                        if name not in sys.modules:
                            sys.modules[name] = types.ModuleType(name)
                            added.append(name)
                        if i > 1:
                            setattr(sys.modules['.'.join(parts[:i - 1])], parts[i - 1], sys.modules[name])
                    setattr(sys.modules[d['module']], d['name'], cls)
                yield
            finally:
                for name in added:
                    sys.modules.pop(name, None)
        return cm()

    def build(self, r):
        """recipe -> Python value"""
        if 'a' in r:
            return dec_atom(r['a'])
        if 'l' in r:
            return [self.build(x) for x in r['l']]
        if 't' in r:
            return tuple(self.build(x) for x in r['t'])
        if 's' in r:
            return {dec_atom(x) for x in r['s']}
        if 'd' in r:
            return {dec_atom(k): self.build(v) for k, v in r['d']}
        if 'o' in r:
            ci, pos, kw = r['o']
            return self.classes[ci](*[self.build(x) for x in pos], **{k: self.build(v) for k, v in kw})
        if 'ref' in r:
            return self.lets[r['ref']]          # the very same object again (aliasing, no cycle)
        raise ValueError(r)

    def state_of(self, v):
        """Python value -> literal for the Lean side (objects: every parameter value, 'name' first)"""
        param = self.param
        if isinstance(v, param.Parameterized):
            ci = self.classes.index(type(v))
            # attribute access, not .param.values(): the state must not depend on the machinery under test
            return {'o': [ci, [self.state_of(getattr(v, k)) for k in v.param.objects('existing')]]}
        if is_atom(v):
            return {'a': enc_atom(v)}
        if isinstance(v, list):
            return {'l': [self.state_of(x) for x in v]}
        if isinstance(v, tuple):
            return {'t': [self.state_of(x) for x in v]}
        if isinstance(v, set):
            return {'s': [enc_atom(x) for x in v]}
        if isinstance(v, dict):
            return {'d': [[enc_atom(k), self.state_of(x)] for k, x in v.items()]}
        raise TypeError(f'not a literal: {v!r}')

    def _current_sig(self, ci):
        d = self.case['classes'][ci]
        if d['sig']['custom'] or d['sig'].get('published') or d.get('base') is None:
            return self.cur_sig[ci]
        return self._current_sig(d['base'])

    def class_table(self):
        out = []
        for d, cls in zip(self.case['classes'], self.classes):
            params = []
            for name, p in cls.param.objects('existing').items():
                # the default a new instance really gets: class attribute lookup
                params.append({'name': name, 'default': self.state_of(getattr(cls, name)), 'prec': p.precedence})
            sig = self._current_sig(self.case['classes'].index(d))
            out.append({'name': d['name'], 'qual': _toks(d['module'] + '.'), 'params': params,
                        'sig': {'args': sig['args'],
                                'defaults': [self.state_of(self.build(x)) for x in sig['defaults']],
                                'kwonly': [[k, None if x is None else self.state_of(self.build(x))] for k, x in sig['kwonly']],
                                'varargs': sig['varargs'],
                                'varkw': sig['varkw'] if (sig['custom'] or sig.get('published')) else True}})
        return out


def _effective_sig(classes, ci):
    """a class without its own __init__ inherits the constructor of its base"""
    d = classes[ci]
    if d['sig']['custom'] or d['sig'].get('published') or d.get('base') is None:
        return d.get('sig_final') or d['sig']
    return _effective_sig(classes, d['base'])


def _flat(classes, ci):
    """class description with inherited parameters and the effective constructor signature"""
    d = classes[ci]
    params = []
    if d.get('base') is not None:
        own = {p['name'] for p in d['params']}
        params = [p for p in _flat(classes, d['base'])['params'] if p['name'] not in own]
    return {'name': d['name'], 'module': d['module'], 'params': params + d['params'], 'sig': _effective_sig(classes, ci)}


# ---------------------------------------------------------------- text -> token tree

class _Unreadable(Exception):
    pass


_CLOSE = {'[': ']', '(': ')', '{': '}'}


def to_tree(toks):
    pos = [0]

    def peek(k=0):
        return toks[pos[0] + k] if pos[0] + k < len(toks) else None

    def take(expect=None):
        t = peek()
        if t is None or (expect is not None and t != expect):
            raise _Unreadable(f'expected {expect!r}, got {t!r}')
        pos[0] += 1
        return t

    def items(close):
        out, trail = [], False
        while peek() != close:
            out.append(expr())
            trail = False
            if peek() == ',':
                take()
                trail = True
            elif peek() != close:
                raise _Unreadable(f'expected , or {close}, got {peek()!r}')
        take(close)
        return out, trail

    def is_name(t):
        return t is not None and re.fullmatch(r'[A-Za-z_]\w*', t) is not None

    def expr():
        t = peek()
        if t == '[':
            take()
            it, _ = items(']')
            return {'b': it}
        if t == '(':
            take()
            it, trail = items(')')
            return {'p': it, 't': trail}
        if t == '{':
            take()
            if peek() == '}':
                take()
                return {'d': []}
            first = expr()
            if peek() == ':':
                take()
                kvs = [[first, expr()]]
                while peek() == ',':
                    take()
                    if peek() == '}':
                        break
                    k = expr()
                    take(':')
                    kvs.append([k, expr()])
                take('}')
                return {'d': kvs}
            it = [first]
            while peek() == ',':
                take()
                if peek() == '}':
                    break
                it.append(expr())
            take('}')
            return {'s': it}
        if is_name(t) and peek(1) in ('(', '.'):
            qual = []
            while peek(1) == '.':
                qual += [take(), take('.')]
            fn = take()
            if not is_name(fn):
                raise _Unreadable(f'bad callee {fn!r}')
            take('(')
            posa, kwn, kwv, star = [], [], [], None
            while peek() != ')':
                if peek() == '**':
                    take()
                    star = take()
                elif is_name(peek()) and peek(1) == '=':
                    kwn.append(take())
                    take('=')
                    kwv.append(expr())
                else:
                    if kwn or star:
                        raise _Unreadable('positional after keyword')
                    posa.append(expr())
                if peek() == ',':
                    take()
                elif peek() != ')':
                    raise _Unreadable(f'expected , or ) got {peek()!r}')
            take(')')
            return {'c': {'q': qual, 'f': fn, 'pos': posa, 'kwn': kwn, 'kwv': kwv, 'star': star}}
        # atom: optional '-' then one token that is not punctuation
        out = []
        if t == '-':
            out.append(take())
        t = peek()
        if t is None or t in ',()[]{}:=' or t in ('**', '.', '<', '>', '?', '+', '*'):
            raise _Unreadable(f'unexpected {t!r}')
        out.append(take())
        return {'a': out}

    tree = expr()
    if pos[0] != len(toks):
        raise _Unreadable(f'trailing tokens {toks[pos[0]:][:3]!r}')
    return tree


# ---------------------------------------------------------------- direct oracle

def _autolike(clsname, name):
    """shape of a generated name: '%s%05d' % (class name, counter), i.e. at least five digits"""
    return isinstance(name, str) and re.fullmatch(re.escape(clsname) + r'[0-9]{5,}\n?', name) is not None


def _dropped_by_pprint(clsname, name):
    """what `_pprint` suppresses: the class name followed by any number of digits"""
    return isinstance(name, str) and re.match('^' + clsname + '[0-9]+$', name) is not None


def _same(param, a, b, path='value'):
    """None if `b` (rebuilt) equals `a` (original) in the property's sense, else a reason"""
    if isinstance(a, param.Parameterized) or isinstance(b, param.Parameterized):
        if type(a) is not type(b):
            return f'{path}: class {type(b).__name__} instead of {type(a).__name__}'
        va = {k: getattr(a, k) for k in a.param.objects('existing')}
        vb = {k: getattr(b, k) for k in b.param.objects('existing')}
        for k in va:
            if k == 'name':
                if not _autolike(type(a).__name__, va[k]) and va[k] != vb[k]:
                    return f'{path}.name: {vb[k]!r} instead of {va[k]!r}'
                continue
            d = _same(param, va[k], vb[k], f'{path}.{k}')
            if d:
                return d
        return None
    if isinstance(a, float) and isinstance(b, float) and math.isnan(a) and math.isnan(b):
        return None
    if isinstance(a, (list, tuple)) and type(a) is type(b) and len(a) == len(b):
        for i, (x, y) in enumerate(zip(a, b)):
            d = _same(param, x, y, f'{path}[{i}]')
            if d:
                return d
        return None
    if isinstance(a, dict) and isinstance(b, dict) and len(a) == len(b):
        for k in a:
            if k not in b:
                return f'{path}: key {k!r} missing'
            d = _same(param, a[k], b[k], f'{path}[{k!r}]')
            if d:
                return d
        return None
    if type(a) is type(b) or (isinstance(a, (int, float)) and isinstance(b, (int, float))) \
            or (isinstance(a, str) and isinstance(b, str)):
        if a == b:
            return None
    return f'{path}: {b!r} instead of {a!r}'[:200]


class _Gate(str):
    """a string value whose repr() parks the helper thread: lets the main thread print an object while another
    thread is in the middle of printing the very same object (deterministically, no timing involved)"""
    helper = None
    parked = None
    release = None

    def __repr__(self):
        import threading
        if _Gate.helper is not None and threading.current_thread() is _Gate.helper and not _Gate.parked.is_set():
            _Gate.parked.set()
            _Gate.release.wait(5)
        return str.__repr__(self)


def _gated(param, obj, fn):
    """fn(obj) on the main thread while a second thread is parked inside obj.param.pprint()"""
    import threading
    _Gate.parked, _Gate.release = threading.Event(), threading.Event()
    done = []
    th = threading.Thread(target=lambda: done.append(obj.param.pprint()))
    _Gate.helper = th
    th.start()
    try:
        while not _Gate.parked.is_set() and th.is_alive():       # parked, or finished without meeting the gate
            _Gate.parked.wait(0.0005)
        return fn(obj)
    finally:
        _Gate.release.set()
        th.join(5)
        _Gate.helper = None


def run_impl(case):
    try:
        env = Env(case)
        param = env.param
        obj = env.build(case['build'])
        # one plain-string parameter value of the top object becomes a gate (equal string, same repr)
        gate = None
        for k in obj.param.objects('existing'):
            v = getattr(obj, k)
            if k != 'name' and type(v) is str and not obj.param[k].constant:
                setattr(obj, k, _Gate(v))
                gate = k
                break
        out = {'classes': env.class_table(), 'state': env.state_of(obj)}
        for key, fn in (('pp', lambda o: o.param.pprint()),
                        ('sr', lambda o: param.script_repr(o))):
            try:
                text = _gated(param, obj, fn) if gate else fn(obj)
            except Exception as e:
                out[key] = {'toks': [], 'tt': None, 'direct': f'printer raised {type(e).__name__}'}
                continue
            header = ''
            if key == 'sr':
                # the script: import lines, an empty line, the expression
                header, _, text = text.partition('\n\n')
            toks = _toks(text)
            try:
                tt = to_tree(toks)
            except _Unreadable:
                tt = None
            try:
                # script_repr is evaluated strictly: only what the script's own imports provide (the module
                # roots), not the bare class names; pprint() with the class names in scope
                if key == 'pp':
                    ns = dict(env.ns)
                else:
                    # run the script's own import lines (the case's modules are registered in sys.modules for
                    # the duration); only `inf` / `nan` are added
                    ns = {'inf': INF, 'nan': NAN}
                    with env.modules_registered():
                        exec(header, ns)
                rebuilt = eval(text, ns)
                direct = _same(param, obj, rebuilt)
            except Exception as e:
                direct = f'eval raised {type(e).__name__}'
            out[key] = {'toks': toks, 'tt': tt, 'direct': direct}
        return out
    except Exception as e:
        return {'crash': f'{type(e).__name__}: {e}'[:300]}


def compare(impl, model):
    for key in ('pp', 'sr'):
        m = model[key]
        if 'rejected' in m:
            continue
        if impl[key]['toks'] != m['toks']:
            a, b = impl[key]['toks'], m['toks']
            i = next((i for i, (x, y) in enumerate(zip(a, b)) if x != y), min(len(a), len(b)))
            return f'$.{key}.toks[{i}]: impl {" ".join(a[max(0, i - 3):i + 4])!r} vs model {" ".join(b[max(0, i - 3):i + 4])!r}'
    return None


# ---------------------------------------------------------------- generation

def A(v):
    return {'a': enc_atom(v)}


def L(*xs):
    return {'l': list(xs)}


def Tu(*xs):
    return {'t': list(xs)}


def S(*vs):
    return {'s': [enc_atom(v) for v in vs]}


def D(*kvs):
    return {'d': [[enc_atom(k), v] for k, v in kvs]}


def O(ci, *pos, **kw):
    return {'o': [ci, list(pos), [[k, v] for k, v in kw.items()]]}


def P(name, default, prec=None, ptype='parameter'):
    return {'name': name, 'default': default, 'prec': prec, 'ptype': ptype}


def SIG(args=(), defaults=(), kwonly=(), varargs=None, varkw=True, custom=True):
    return {'custom': custom, 'args': list(args), 'defaults': list(defaults), 'kwonly': [list(x) for x in kwonly],
            'varargs': varargs, 'varkw': varkw}


DEFAULT_SIG = SIG(custom=False)


def C(name, params, sig=DEFAULT_SIG, module='c20ns', base=None):
    return {'name': name, 'module': module, 'params': params, 'sig': copy.deepcopy(sig), 'base': base}


def PSIG(args=(), defaults=()):
    """constructor `def __init__(self, *a, **kw)` that binds through its published `__signature__`"""
    return {'custom': False, 'published': True, 'args': list(args), 'defaults': list(defaults), 'kwonly': [],
            'varargs': None, 'varkw': True}


def PPRINT(ci, build):
    return {'op': 'pprint', 'cls': ci, 'build': build}


def RESIG(ci, sig):
    return {'op': 'sig', 'cls': ci, 'sig': sig}


def USE(ci):
    return {'op': 'use', 'cls': ci}


def SET(ci, pname, v):
    return {'op': 'set', 'cls': ci, 'p': pname, 'v': v}


def REF(i):
    return {'ref': i}


def _mk(classes, build, pre=(), lets=()):
    return {'classes': classes, 'pre': list(pre), 'lets': list(lets), 'build': build}


def _directed():
    IN = C('In', [P('q', A(0))])
    Acls = C('A', [P('n', A(1.0), 2), P('s', A('x'), -1), P('l', L()), P('p', A(None), 2), P('sub', A(None))])
    B = C('B', Acls['params'], SIG(['n', 's'], [A('zz')]))
    cl = [IN, Acls, B]
    yield _mk(cl, O(1))
    for s in ['a"b\'c\n\\', '', "it's", 'tab\t\x00é', '\\', '"', "'", 'A00012']:
        yield _mk(cl, O(1, s=A(s)))
    for n in [-5, -2.5, -INF, INF, NAN, -0.0, 10 ** 30, 1e-07, 1e22, True, False, 1, 1.0]:
        yield _mk(cl, O(1, n=A(n)))
        yield _mk(cl, O(1, p=L(A(n), Tu(A(n)))))
    yield _mk(cl, O(1, l=L(A(1), A('a'), Tu(A(2)), L()), p=Tu(Tu(), A('x')), sub=D(('k', L(A(1))), ('j', D(('a', Tu()))))))
    yield _mk(cl, O(1, p=Tu(A(1))))
    yield _mk(cl, O(1, p=Tu(Tu(A(1)), Tu(), Tu(Tu()))))
    yield _mk(cl, O(1, l=L(Tu(A(-1)))))
    yield _mk(cl, O(1, p=S()))
    yield _mk(cl, O(1, p=S(1, 'a', -2.5)))
    yield _mk(cl, O(1, p=D()))
    yield _mk(cl, O(1, p=D((1, Tu(A(1))), ('k', S()), (None, A(b'a\x00')))))
    yield _mk(cl, O(1, p=A(b"q'\xff")))
    # nested objects: in a parameter, in a list, in a dict value
    yield _mk(cl, O(1, sub=O(0, q=A(3))))
    yield _mk(cl, O(1, l=L(O(0, q=A(2)), L(O(0))), sub=O(0, q=A(1))))
    yield _mk(cl, O(1, p=D(('k', O(0, q=A(2))), ('j', L(O(0, name=A('nm')))))))
    yield _mk(cl, O(1, sub=O(1, sub=O(0, name=A('deep')), name=A('mid'))))
    # names
    for nm in ['foo', 'A1', 'A00012', 'A123456', 'A1\n', 'A', 'Ax1', 'a1', ' A1', 'A1 ', 'A00012\n']:
        yield _mk(cl, O(1, name=A(nm), n=A(2)))
    # precedence ordering
    yield _mk(cl, O(1, n=A(2), s=A('q'), l=L(A(1)), p=A(3), name=A('zed')))
    # custom signature: positional + keyword with default
    yield _mk(cl, O(2, A(5)))
    yield _mk(cl, O(2, A(5), A('q'), l=L(A(1))))
    yield _mk(cl, O(2, A(5), s=A('zz')))
    yield _mk(cl, O(2, A(5), s=A('x')))                 # equals the Parameter default, differs from the signature's
    yield _mk(cl, O(2, A(1.0), s=A('x'), name=A('B7')))
    yield _mk(cl, O(2, O(0, q=A(1)), L(O(0))))
    # signature default vs Parameter default, containers
    B2 = C('B2', Acls['params'], SIG(['n', 's', 'l'], [A('zz'), L(A(1), A(2))]))
    yield _mk([IN, Acls, B2], O(2, A(5)))
    yield _mk([IN, Acls, B2], O(2, A(5), l=L()))
    yield _mk([IN, Acls, B2], O(2, A(5), l=L(A(1.0), A(2))))
    yield _mk([IN, Acls, B2], O(2, A(5), l=L(A(2), A(1))))
    # all positional, qualified module with a dot
    B3 = C('B3', Acls['params'], SIG(['l', 'n']), module='c20pkg.sub')
    yield _mk([IN, Acls, B3], O(2, L(A(1)), A(2), sub=O(0)))
    # keyword-only arguments
    KO = C('KO', Acls['params'], SIG(['n'], [], [['s', A('zz')]]))
    yield _mk([IN, Acls, KO], O(2, A(5), s=A('q')))
    yield _mk([IN, Acls, KO], O(2, A(5)))
    yield _mk([IN, Acls, KO], O(2, A(5), s=A('x')))     # known finding
    KO2 = C('KO2', Acls['params'], SIG(['n'], [], [['s', None]]))
    yield _mk([IN, Acls, KO2], O(2, A(5), s=A('q')))
    KO3 = C('KO3', Acls['params'], SIG(['n'], [], [['s', A('x')]]))
    yield _mk([IN, Acls, KO3], O(2, A(5), s=A('x')))
    # *args
    VA = C('VA', Acls['params'], SIG([], [], [], 'args'))
    yield _mk([IN, Acls, VA], O(2, n=A(3)))             # known finding
    # no **params
    NK = C('NK', Acls['params'], SIG(['n', 's'], [A('zz')], varkw=False))
    yield _mk([IN, Acls, NK], O(2, A(5)))
    yield _mk([IN, Acls, NK], O(2, A(5), A('q')))
    # hierarchy Base -> Mid -> Leaf; the leaf is used, then a default is re-assigned on the class in the middle;
    # a leaf object holding the OLD default must still print it (the rebuilt object would get the new one)
    BASE = C('Base', [P('scale', A(1.5)), P('tags', L(A('a'))), P('title', A('base'))])
    MID = C('Mid', [], base=0)
    LEAF = C('Leaf', [P('depth', A(0))], SIG(['depth'], [A(0)]), base=1)
    H = [BASE, MID, LEAF]
    yield _mk(H, O(2, A(3), scale=A(-4.0), title=A('it\'s "q"\n')))
    yield _mk(H, O(2, scale=A(1.5)), [USE(2), SET(1, 'scale', A(-2.5))])
    yield _mk(H, O(2, A(2), tags=L(A('a')), title=A('base')), [USE(2), USE(1), SET(1, 'tags', L()), SET(1, 'title', A('mid'))])
    yield _mk(H, O(2, scale=A(-2.5)), [USE(2), SET(1, 'scale', A(-2.5))])
    yield _mk(H, O(1, scale=A(1.5)), [USE(2), USE(1), SET(0, 'scale', A(7)), SET(1, 'scale', A(-2.5))])
    yield _mk(H, O(0, scale=A(1.5), tags=L(O(2, scale=A(1.5)), O(1, scale=A(1.5)))), [USE(2), SET(1, 'scale', A(-2.5)), USE(0)])
    yield _mk(H, O(2, depth=A(0)), [USE(2), SET(2, 'depth', A(9)), SET(0, 'title', A('x'))])
    # a constructor that publishes its signature (`__init__.__signature__`) and re-publishes another one after
    # objects have been printed: the later text must follow the signature in force
    PB = C('PB', Acls['params'], PSIG(['n', 's'], [A('zz')]))
    yield _mk([IN, Acls, PB], O(2, A(5), A('q'), l=L(A(1))))
    pb2 = copy.deepcopy(PB)
    pb2['sig_final'] = PSIG(['s', 'n', 'l'], [L(A(1))])
    yield _mk([IN, Acls, pb2], O(2, A('q'), A(7)), [PPRINT(2, O(2, A(5))), RESIG(2, pb2['sig_final'])])
    pb3 = copy.deepcopy(PB)
    pb3['sig_final'] = PSIG(['s'], [A('x')])
    yield _mk([IN, Acls, pb3], O(2, n=A(2)), [PPRINT(2, O(2, A(5), A('x'))), RESIG(2, pb3['sig_final']),
                                              PPRINT(2, O(2, A('k'), n=A(1)))])
    # Number (Dynamic family) parameters holding falsy values that differ from a truthy default
    FIL = C('Filter', [P('gain', A(1.5), None, 'number'), P('order', A(3), 1, 'number'), P('bias', A(None), None, 'number'),
                       P('tag', A('f'))])
    yield _mk([FIL], O(0, gain=A(0)))
    yield _mk([FIL], O(0, gain=A(0.0), order=A(0), bias=A(0)))
    yield _mk([FIL], O(0, gain=A(-0.0), order=A(3), bias=A(None), tag=A('')))
    FIL2 = C('Filter2', FIL['params'], SIG(['gain', 'order'], [A(3)]))
    yield _mk([FIL2], O(0, A(0)))
    yield _mk([FIL2], O(0, A(0), A(0), bias=A(0.0)))
    # the same object reachable twice without a cycle: two parameters, twice in a list, once in each of two
    # branches, in a dict value; the rebuilt graph may hold two equal objects instead (values are compared)
    PAIR = C('Pair', [P('left', A(None)), P('right', A(None)), P('items', L())])
    yield _mk([IN, PAIR], O(1, left=REF(0), right=REF(0)), lets=[O(0, q=A(3))])
    yield _mk([IN, PAIR], O(1, items=L(REF(0), REF(0), Tu(REF(0)))), lets=[O(0, q=A(3), name=A('shared'))])
    yield _mk([IN, PAIR], O(1, left=O(1, left=REF(0)), right=O(1, items=L(REF(0))), items=D(('k', REF(0)))),
              lets=[O(0, q=A(-1))])
    yield _mk([IN, PAIR], O(1, left=REF(1), right=REF(1), items=L(REF(0))),
              lets=[O(0, q=A(2)), O(1, left=REF(0), right=REF(0))])
    # name as a keyword argument of the signature
    NM = C('NM', Acls['params'], SIG(['n', 'name'], [A('fixed')]))
    yield _mk([IN, Acls, NM], O(2, A(5)))
    yield _mk([IN, Acls, NM], O(2, A(5), name=A('other')))


_STRS = ['', 'x', 'abc', 'a"b', "it's", 'a\nb', 'back\\slash', 'tab\t', 'é', '\x00', "both'\"q", 'None', 'inf', '1']
_BYTES = [b'', b'ab', b'\x00\xff', b"q'", b'"']
_INTS = [0, 1, -1, -5, 7, 10 ** 30, 255, -2 ** 40]
_FLOATS = [0.5, -2.5, 1e-07, 1e+22, -0.0, 3.0, 1.0, 0.1, INF, -INF, NAN]
_PNAMES = ['a', 'b', 'c', 'n', 's', 'x', 'lst', 'inf', 'p1', 'z', 'k_w']


def _atom(rng):
    r = rng.random()
    if r < 0.3:
        return rng.choice(_INTS)
    if r < 0.5:
        return rng.choice(_FLOATS)
    if r < 0.75:
        return rng.choice(_STRS)
    if r < 0.83:
        return rng.choice(_BYTES)
    if r < 0.92:
        return rng.choice([True, False])
    return None


def _key(rng):
    return rng.choice(['k', 'j', 'a b', '', 1, 0, -3, 2.5, None, 'it\'s'])


_NUMS = [0, 0.0, -0.0, 1, -5, 1.5, 2.5, -2.5, 7, 10 ** 30, 1e-07, INF, -INF]


def _num(rng):
    return A(rng.choice(_NUMS) if rng.random() < 0.95 else None)


def _ptype(d, pname):
    return next((p.get('ptype') for p in d['params'] if p['name'] == pname), None)


_LETS = []      # (class index, position in case['lets']) of the objects that may be referred to again


def _value(rng, depth, nobj):
    """a recipe; nobj = number of classes that may be instantiated (indices < nobj)"""
    refs = [i for c, i in _LETS if c < nobj]
    if refs and depth > 0 and rng.random() < 0.25:
        return REF(rng.choice(refs))
    r = rng.random()
    if depth <= 0 or r < 0.45:
        return A(_atom(rng))
    if r < 0.6:
        return L(*[_value(rng, depth - 1, nobj) for _ in range(rng.choice([0, 1, 1, 2, 3]))])
    if r < 0.75:
        return Tu(*[_value(rng, depth - 1, nobj) for _ in range(rng.choice([0, 1, 1, 2, 3]))])
    if r < 0.8:
        seen, out = set(), []
        for _ in range(rng.choice([0, 1, 2, 3])):
            v = rng.choice(_INTS[:6] + _STRS[:6] + [2.5, None])
            if v not in seen:
                seen.add(v)
                out.append(v)
        return S(*out)
    if r < 0.9:
        seen, out = set(), []
        for _ in range(rng.choice([0, 1, 2, 3])):
            k = _key(rng)
            if k not in seen:
                seen.add(k)
                out.append((k, _value(rng, depth - 1, nobj)))
        return D(*out)
    if nobj:
        return _call(rng, rng.randrange(nobj), depth - 1, None)
    return A(_atom(rng))


_CLASSES_FOR_CALL = []


def _call(rng, ci, depth, classes):
    classes = classes if classes is not None else _CLASSES_FOR_CALL[0]
    d = _flat(classes, ci)
    sig = d['sig']
    pnames = [p['name'] for p in d['params']]
    nd = len(sig['defaults'])
    npos = len(sig['args']) - nd
    pos, kw = [], {}
    for a in sig['args'][:npos]:
        pos.append(_name_value(rng, d) if a == 'name' else
                   (_num(rng) if _ptype(d, a) == 'number' else _value(rng, depth, ci)))
    rest = sig['args'][npos:]
    if rest and rng.random() < 0.3:               # some defaulted arguments given positionally
        for a in rest[:rng.randint(1, len(rest))]:
            pos.append(_name_value(rng, d) if a == 'name' else _maybe_default(rng, d, a, depth, ci))
    given = set(sig['args'][:len(pos)])
    for k, dflt in sig['kwonly']:
        if dflt is None or rng.random() < 0.6:
            kw[k] = _maybe_default(rng, d, k, depth, ci)
            given.add(k)
    settable = [a for a in sig['args'] if a not in given]
    if sig['varkw'] or not sig['custom']:
        settable += [n for n in pnames if n not in given and n not in sig['args'] and n != 'name']
    for n in settable:
        if rng.random() < 0.5:
            kw[n] = _name_value(rng, d) if n == 'name' else _maybe_default(rng, d, n, depth, ci)
    if (sig['varkw'] or not sig['custom']) and 'name' not in given and 'name' not in kw and rng.random() < 0.3:
        kw['name'] = _name_value(rng, d)
    return O(ci, *pos, **kw)


def _maybe_default(rng, d, pname, depth, ci):
    """sometimes exactly the Parameter default or the signature default (suppression paths)"""
    r = rng.random()
    republished = any(c.get('sig_final') for c in _CLASSES_FOR_CALL[0])
    if r < 0.2:
        for p in d['params']:
            # (a default holding objects was written for the signatures in force when the class was made)
            if p['name'] == pname and not (republished and _has_obj(p['default'])):
                return copy.deepcopy(p['default'])
    if r < 0.35:
        sig = d['sig']
        nd = len(sig['defaults'])
        for a, x in list(zip(sig['args'][len(sig['args']) - nd:], sig['defaults'])) + [(k, x) for k, x in sig['kwonly'] if x]:
            if a == pname:
                return copy.deepcopy(x)
    if _ptype(d, pname) == 'number':
        return _num(rng)
    return _value(rng, depth, ci)


def _name_value(rng, d):
    c = d['name']
    return A(rng.choice(['foo', 'bar baz', c + '1', c + '00012', c + '123456', c + '1\n', c, c + 'x1', c.lower() + '1',
                         'it\'s', '']))


def _has_obj(r):
    if 'o' in r or 'ref' in r:
        return True
    return any(_has_obj(x) for x in r.get('l', r.get('t', [kv[1] for kv in r.get('d', [])])))


def _random_case(rng):
    ncls = rng.choice([1, 2, 2, 3])
    classes = []
    _CLASSES_FOR_CALL[:] = [classes]
    _LETS[:] = []
    for ci in range(ncls):
        names = rng.sample(_PNAMES, rng.randint(1, 5))
        params = []
        for n in names:
            if rng.random() < 0.25:
                params.append(P(n, _num(rng), rng.choice([None, None, None, 0, 1, -1, 5, 2]), 'number'))
            else:
                params.append(P(n, _value(rng, 2, ci), rng.choice([None, None, None, 0, 1, -1, 5, 2])))
        base = None
        if ci > 0 and rng.random() < 0.35:
            base = ci - 1
            # an overriding Parameter keeps the kind of the one it overrides (the inherited constructor
            # passes values written for that kind)
            for p in params:
                bt = _ptype(_flat(classes, base), p['name'])
                if bt is not None and bt != p['ptype']:
                    p['ptype'] = bt
                    p['default'] = _num(rng) if bt == 'number' else _value(rng, 2, 0)
            if rng.random() < 0.4:
                params = params[:rng.randint(0, len(params))]      # often only inherits
        r = rng.random()
        if r < 0.35 or (base is not None and (_effective_sig(classes, base)['custom']
                                              or _effective_sig(classes, base).get('published') or not params)):
            sig = copy.deepcopy(DEFAULT_SIG)
        else:
            names = [p['name'] for p in params]
            k = rng.randint(1, len(names))
            args = rng.sample(names, k)
            if rng.random() < 0.06:
                args.insert(rng.randint(0, len(args)), 'name')
            nd = rng.randint(0, len(args))
            if 'name' in args[:len(args) - nd] and rng.random() < 0.7:
                nd = len(args) - args.index('name')
            defaults = []
            for a in args[len(args) - nd:]:
                pd = next((p['default'] for p in params if p['name'] == a), A('nm'))
                isnum = any(p['name'] == a and p.get('ptype') == 'number' for p in params)
                defaults.append(copy.deepcopy(pd) if rng.random() < 0.5 and a != 'name' and not _has_obj(pd) else
                                (A(rng.choice(['fixed', 'Q1'])) if a == 'name' else
                                 (_num(rng) if isnum else _value(rng, 2, 0))))
            kwonly, varargs, varkw = [], None, True
            r2 = rng.random()
            left = [n for n in names if n not in args]
            if r2 < 0.1 and left:
                for n in rng.sample(left, rng.randint(1, min(2, len(left)))):
                    pd = next(p['default'] for p in params if p['name'] == n)
                    isnum = any(p['name'] == n and p.get('ptype') == 'number' for p in params)
                    fresh = (lambda: _num(rng)) if isnum else (lambda: _value(rng, 1, 0))
                    kwonly.append([n, rng.choice([None, fresh() if _has_obj(pd) else copy.deepcopy(pd), fresh()])])
            elif r2 < 0.16:
                varargs = rng.choice(['args', 'rest'])
            elif r2 < 0.26:
                varkw = False
            sig = SIG(args, defaults, kwonly, varargs, varkw)
            if base is None and not kwonly and not varargs and varkw and 'name' not in args and rng.random() < 0.2:
                sig = PSIG(args, defaults)
        classes.append(C(rng.choice(['A', 'Bc', 'In', 'K9', 'X_y'][ci:ci + 3] or ['Z']) + ('' if ci == 0 else str(ci)),
                         params, sig, rng.choice(MODULES), base))
    pre = []
    if rng.random() < 0.35:
        for _ in range(rng.randint(1, 4)):
            cj = rng.randrange(ncls)
            pn = [p['name'] for p in _flat(classes, cj)['params']]
            def is_desc(k):
                while k is not None:
                    if k == cj:
                        return True
                    k = classes[k].get('base')
                return False
            # objects that exist already (defaults of other classes) keep the old value: it must stay printable,
            # i.e. every affected constructor takes **params
            open_sig = all(not _effective_sig(classes, k)['custom'] or _effective_sig(classes, k)['varkw']
                           for k in range(ncls) if is_desc(k))
            if rng.random() < 0.5 or not pn or not open_sig:
                pre.append(USE(rng.randrange(ncls)))
            else:
                pname = rng.choice(pn)
                pre.append(SET(cj, pname, _num(rng) if _ptype(_flat(classes, cj), pname) == 'number' else _value(rng, 2, 0)))
    lets = []
    if ncls > 1 and rng.random() < 0.3:
        # objects that occur more than once in the object graph (the same object, not a copy)
        for _ in range(rng.randint(1, 2)):
            cj = rng.randrange(ncls - 1)
            lets.append(_call(rng, cj, 2, classes))
            _LETS.append((cj, len(lets) - 1))
    pub = [k for k in range(ncls) if classes[k]['sig'].get('published')]
    if pub and rng.random() < 0.7:
        k = rng.choice(pub)
        pre.append(PPRINT(k, _call(rng, k, 2, classes)))           # printed under the first signature
        pn = [p['name'] for p in classes[k]['params']]
        args = rng.sample(pn, rng.randint(0, len(pn)))
        nd = rng.randint(0, len(args))
        new = PSIG(args, [_num(rng) if _ptype(classes[k], a) == 'number' else _value(rng, 1, 0)
                          for a in args[len(args) - nd:]])
        pre.append(RESIG(k, new))
        classes[k]['sig_final'] = new
    build = _call(rng, ncls - 1, 3, classes)
    _LETS[:] = []
    return _mk(classes, build, pre, lets)


def cases(rng, tier, worker, nworkers):
    import glob
    import json
    import os
    if worker == 0:
        for f in sorted(glob.glob(os.path.join(os.path.dirname(__file__), '..', '..', 'corpus', 'C20', '*.json'))):
            yield json.load(open(f))['case']
        for c in _directed():
            yield c
    n_random = 2500 if tier == 'quick' else 60000 // nworkers
    for _ in range(n_random):
        yield _random_case(rng)


# ---------------------------------------------------------------- bookkeeping

def _objs(classes, lit, in_dict=False):
    """(class description, values, printed via pprint?) of every object in a state literal"""
    if 'o' in lit:
        ci, vals = lit['o']
        yield classes[ci], vals, not in_dict
        for v in vals:
            yield from _objs(classes, v, in_dict)
    elif 'l' in lit or 't' in lit:
        for v in lit.get('l', lit.get('t')):
            yield from _objs(classes, v, in_dict)
    elif 'd' in lit:
        for _, v in lit['d']:
            yield from _objs(classes, v, True)


def tags(case, impl):
    t = [f'classes={len(case["classes"])}']
    if any(d.get('base') is not None for d in case['classes']):
        t.append('hierarchy')
    if any(d['sig'].get('published') for d in case['classes']):
        t.append('sig:published')
    if any(p.get('ptype') == 'number' for d in case['classes'] for p in d['params']):
        t.append('ptype:number')
    import json as _json
    if '"ref"' in _json.dumps(case['build']):
        t.append('shared-object')
    if isinstance(impl, dict) and 'state' in impl:
        top = case['classes'][case['build']['o'][0]]
        cls = impl['classes'][impl['state']['o'][0]]
        for p, v in zip(cls['params'], impl['state']['o'][1]):
            if _ptype(top, p['name']) == 'number' and 'a' in v and v['a']['eq'] == '0/1' \
                    and p['default'].get('a', {}).get('eq') not in ('0/1', None):
                t.append('number:zero-vs-nonzero-default')
    for st in case.get('pre', []):
        t.append('pre:' + st['op'])
        top = case['build']['o'][0]
        anc, c = [], case['classes'][top].get('base')
        while c is not None:
            anc.append(c)
            c = case['classes'][c].get('base')
        if st['op'] == 'set' and st['cls'] in anc:
            t.append('pre:set-on-ancestor')
    if isinstance(impl, dict) and 'state' in impl:
        for key in ('pp', 'sr'):
            t.append(f'{key}:' + ('ok' if impl[key]['direct'] is None else 'direct-fails'))
            if impl[key]['tt'] is None:
                t.append(f'{key}:unreadable')
        toks = impl['pp']['toks']
        t.append(f'toks={min(len(toks), 80) // 20 * 20}+')
        # suppression paths of the top-level object
        cls = impl['classes'][impl['state']['o'][0]]
        vals = impl['state']['o'][1]
        sig = cls['sig']
        nd = len(sig['defaults'])
        kwd = dict(zip(sig['args'][len(sig['args']) - nd:], map(_canon_lit, sig['defaults'])))
        printed = set(impl['pp']['tt']['c']['kwn']) if impl['pp']['tt'] and 'c' in impl['pp']['tt'] else set()
        for p, v in zip(cls['params'], vals):
            if p['name'] == 'name':
                continue
            if p['name'] in kwd and kwd[p['name']] == _canon_lit(v) and p['name'] not in printed:
                t.append('suppressed:sig-default')
            elif _canon_lit(p['default']) == _canon_lit(v) and p['name'] not in printed and p['name'] not in sig['args']:
                t.append('suppressed:default')
            elif _canon_lit(p['default']) == _canon_lit(v) and p['name'] in printed:
                t.append('printed:equals-param-default')
    return sorted(set(t))


def _canon_lit(lit):
    import json

    def strip(x):
        if isinstance(x, dict):
            if 'kind' in x and 'toks' in x:
                return {'toks': x['toks']}
            return {k: strip(v) for k, v in x.items()}
        if isinstance(x, list):
            return [strip(v) for v in x]
        return x
    return json.dumps(strip(lit), sort_keys=True)


def nontrivial(case, impl, resp):
    if 'state' not in impl or not resp.get('applicable'):
        return False
    tt = impl['pp']['tt']
    return bool(tt and 'c' in tt and (tt['c']['pos'] or tt['c']['kwn']))


def shrink(case):
    b = case['build']
    pre = case.get('pre', [])
    for i in range(len(pre)):
        if pre[i]['op'] != 'sig':          # the object is built for the signature in force at the end
            yield dict(case, pre=pre[:i] + pre[i + 1:])

    def variants(r):
        """smaller recipes"""
        if 'o' in r:
            ci, pos, kw = r['o']
            for i in range(len(kw)):
                yield {'o': [ci, pos, kw[:i] + kw[i + 1:]]}
            for i, (k, v) in enumerate(kw):
                for v2 in variants(v):
                    yield {'o': [ci, pos, kw[:i] + [[k, v2]] + kw[i + 1:]]}
            for i, v in enumerate(pos):
                for v2 in variants(v):
                    yield {'o': [ci, pos[:i] + [v2] + pos[i + 1:], kw]}
        elif 'l' in r or 't' in r:
            key = 'l' if 'l' in r else 't'
            xs = r[key]
            for i in range(len(xs)):
                yield {key: xs[:i] + xs[i + 1:]}
            for i, v in enumerate(xs):
                for v2 in variants(v):
                    yield {key: xs[:i] + [v2] + xs[i + 1:]}
        elif 'd' in r:
            kvs = r['d']
            for i in range(len(kvs)):
                yield {'d': kvs[:i] + kvs[i + 1:]}
            for i, (k, v) in enumerate(kvs):
                for v2 in variants(v):
                    yield {'d': kvs[:i] + [[k, v2]] + kvs[i + 1:]}
        elif 's' in r and r['s']:
            yield {'s': r['s'][1:]}
    for v in variants(b):
        yield dict(case, build=v)
    # a nested object on its own
    def subobjs(r):
        if 'o' in r:
            for v in r['o'][1] + [x[1] for x in r['o'][2]]:
                if 'o' in v:
                    yield v
                yield from subobjs(v)
        else:
            for v in r.get('l', r.get('t', [x[1] for x in r.get('d', [])])):
                if isinstance(v, dict):
                    if 'o' in v:
                        yield v
                    yield from subobjs(v)
    for o in subobjs(b):
        yield dict(case, build=o)


def _dec_lit(lit):
    if 'a' in lit:
        return dec_atom(lit['a'])
    if 'l' in lit:
        return [_dec_lit(x) for x in lit['l']]
    if 't' in lit:
        return tuple(_dec_lit(x) for x in lit['t'])
    if 's' in lit:
        return {dec_atom(x) for x in lit['s']}
    if 'd' in lit:
        return {dec_atom(k): _dec_lit(v) for k, v in lit['d']}
    return object()          # a Parameterized object: equal to nothing


def _lit_eq(a, b):
    try:
        return bool(_dec_lit(a) == _dec_lit(b))
    except Exception:
        return False


def _obj_in_container(lit, inside=False):
    if 'o' in lit:
        return inside or any(_obj_in_container(v, False) for v in lit['o'][1])
    if 'l' in lit or 't' in lit:
        return any(_obj_in_container(v, True) for v in lit.get('l', lit.get('t')))
    if 'd' in lit:
        return any(_obj_in_container(v, True) for _, v in lit['d'])
    return False


def classify(case, impl, fail):
    """two known defects of `_pprint`, each recognised only on the exact configuration that triggers it"""
    if fail.get('kind') != 'counterexample' or not isinstance(impl, dict) or 'state' not in impl:
        return None
    keys = set()
    for cls, vals, printed in _objs(impl['classes'], impl['state']):
        if not printed:
            # inside a dict value the object is printed with repr(): ClassName(name=..., every=parameter);
            # a constructor without **params cannot take that
            if not cls['sig']['varkw']:
                keys.add('dict-value-printed-with-repr')
            continue
        sig = cls['sig']
        nm = vals[0].get('a', {})
        if cls['params'][0]['name'] == 'name' and nm.get('kind') == 'str' and nm.get('v') == ['s', cls['name']]:
            # the class-level default of `name` is the class name: an explicit name equal to it counts as unchanged
            keys.add('name-equals-class-name')
        if nm.get('kind') == 'str' and _dropped_by_pprint(cls['name'], nm['v'][1]) and not _autolike(cls['name'], nm['v'][1]):
            # an explicit name `<Class><1-4 digits>` is taken for a generated one and dropped
            keys.add('short-digit-name-suppressed')
        npos = len(sig['args']) - len(sig['defaults'])
        if 'name' in sig['args'][:npos] and nm.get('kind') == 'str' and _dropped_by_pprint(cls['name'], nm['v'][1]):
            # the auto-name filter `continue`s before the positional list is filled: later positionals shift
            keys.add('positional-name-suppressed')
        if sig['varargs'] is not None:
            # `**<varargs>` is appended to the argument list: NameError on eval
            if any(['**', sig['varargs']] == impl[k]['toks'][i:i + 2] for k in ('pp', 'sr') for i in range(len(impl[k]['toks']))):
                keys.add('varargs-printed-as-double-star')
        for k, dflt in sig['kwonly']:
            i = [p['name'] for p in cls['params']].index(k)
            v, pd = vals[i], cls['params'][i]['default']
            # value equals the Parameter default (so it is not printed) but the keyword-only argument is
            # required, or its default differs
            if _lit_eq(v, pd) and (dflt is None or not _lit_eq(v, dflt)):
                keys.add('kwonly-default-not-consulted')
    # script_repr evaluated strictly: objects inside list / tuple / dict values are printed without the module
    if impl['pp']['direct'] is None and impl['sr']['direct'] == 'eval raised NameError' and _obj_in_container(impl['state']):
        keys.add('container-items-not-qualified')
    # several known triggers may be present in one object graph: report the first (all are listed findings)
    return sorted(keys)[0] if keys else None
