"""C12 — instances and classes do not leak values or metadata into each other.
Correspondence: Lean `ParamVerif.Objects.step` (heap of containers, Parameter records per class /
per instance) vs real Parameterized classes built with `type()`; oracle = ownership rules of
lean/ParamVerif/Store/ObjectsSpec.lean evaluated on what the real code showed after every step."""
import glob
import itertools
import json
import os
import re

ID = 'C12'
PROPS_FILE = 'ParamVerif/Props/C12.lean'
DRIVER = 'Driver/C12.lean'
SOURCES = [('param/parameterized.py', 'Parameter.__get__'), ('param/parameterized.py', 'Parameter.__set__'),
           ('param/parameterized.py', '_instantiate_param_obj'), ('param/parameterized.py', '_instantiated_parameter'),
           ('param/parameterized.py', 'instance_descriptor'), ('param/parameterized.py', 'Parameters._instantiate_param'),
           ('param/parameterized.py', 'Parameters._setup_params'), ('param/parameterized.py', 'Parameters.__getitem__'),
           ('param/parameterized.py', 'Parameterized.__init__'), ('param/parameterized.py', 'ParameterizedMetaclass.__setattr__'),
           ('param/parameterized.py', 'ParameterizedMetaclass.get_param_descriptor'),
           ('param/parameters.py', 'Selector._validate'), ('param/parameters.py', 'Selector._ensure_value_is_in_objects'),
           ('param/parameters.py', 'ListProxy.append')]
BUDGET_S = {'quick': 50, 'thorough': 400}
EXHAUSTIVE = {'quick': False, 'thorough': False}
TRUSTED = [
    'statements in lean/ParamVerif/Props/C12.lean (Inv, heldOutside, the footprint reading of "what X sees")',
    'spec-side oracle lean/ParamVerif/Store/ObjectsSpec.lean (ownership rules on snapshots: stateOK, stepOK)',
    'harness/props/c12.py adapter: snapshot of K.param[x] (checked identical to the MRO lookup in the class __dict__s), '
    'obj._param__private.values / .params (read without triggering creation of a per-instance copy), getattr(obj, x); '
    'containers named by first observation (identity table), never id()',
    'correspondence is differential testing: model = code only on the histories executed',
    'CPython: small ints identical iff equal, copy.copy / copy.deepcopy of list and dict of ints, attribute lookup along __mro__',
]
ASSUMPTIONS = [
    'values are None, small ints, lists of ints and tuples of (distinct) lists of ints — one level of nesting, so that copy.deepcopy and a shallow copy differ; Parameter types Parameter / Integer / Selector(list-declared objects); '
    'subclasses add new names only (an inherited Parameter is overridden only by class-level assignment)',
    'ListSelector, names-declared Selectors, watchers, references (except: one constructor keyword per instance may be a '
    'reference without a value, which assigns nothing), disable_instance_params, set-before-super().__init__ '
    'and assignment of `.default`/`.per_instance`/`.instantiate` on a Parameter are outside the model',
]
RULE = ('directed prefix (every operation kind, order dependence of the first `obj.param.x`, copy-on-write, the constructor '
        'leak) + all operation pairs (triples in thorough) from a fixed alphabet after a fixed two-class preamble + random '
        'interleavings of <=20 operations over 1-3 classes with instantiate / per_instance / constant / check_on_set / bounds '
        'variations; after EVERY step everything readable from every class and instance is compared with the model '
        '(containers as (id, contents)) and checked by the oracle. non-trivial = >=3 oracle-checked steps, at least one '
        'instance and one successful instance- or class-level write; distinct = distinct canonical case')
COVERAGE_TARGETS = [
    'mkClass:root:ok', 'mkClass:sub:ok', 'mkInst:plain:ok', 'mkInst:kwargs:ok', 'mkInst:kwargs:ValueError',
    'setVal:cls:own:ok', 'setVal:cls:copy-on-write:ok', 'setVal:cls:copy-on-write:ValueError',
    'setVal:inst:first-touch:ok', 'setVal:inst:has-copy:ok', 'setVal:inst:first-touch:ValueError', 'setVal:inst:has-copy:TypeError',
    'mutVal:inst:ok', 'mutVal:cls:ok', 'mutVal:inst:AttributeError', 'decl:plain:none-default:inst', 'decl:plain:none-default:const',
    'access:creates-copy:ok', 'access:existing:ok', 'access:shared-per_instance=False:ok',
    'slotSet:inst:boundsTup:ok', 'slotSet:inst:boundsList:ok', 'slotSet:inst:objects:ok', 'slotSet:inst:constant:ok',
    'slotSet:inst:precedence:ok', 'slotSet:cls:boundsList:ok', 'slotSet:cls:objects:ok', 'slotSet:cls:constant:ok',
    'slotMut:inst:objectsAppend:ok', 'slotMut:inst:namesInsert:ok', 'slotMut:inst:boundsSetHi:ok', 'slotMut:inst:boundsSetHi:TypeError',
    'slotMut:cls:objectsAppend:ok', 'slotMut:cls:namesInsert:ok', 'slotMut:cls:boundsSetHi:ok', 'slotSet:inst:objects:AttributeError',
    'decl:readonly', 'setVal:cls:copy-on-write:TypeError', 'setVal:cls:own:TypeError', 'mkInst:kwargs:TypeError', 'mutItem:inst:ok', 'mutItem:cls:ok', 'decl:tuple-of-lists:inst=1', 'decl:tuple-of-lists:inst=0',
    'leaky-ctor-kwarg', 'skipped:no-instance', 'mkInst:pending-ref:ok', 'sharedFail:ok', 'decl:tagged-parameter-subclass', 'decl:refs:pi=0', 'decl:container-subclass', 'class:falsy-instances', 'setVal:via-update',
]

ERRS = (ValueError, TypeError, AttributeError)


# ------------------------------------------------------------------ implementation side

def _skip(ready):
    import param
    raise param.Skip


_SRC = []


def _pending_ref():
    """a reference that has no value now (its function skips): depends on a parameter of a source object"""
    import param
    if not _SRC:
        _SRC.append(type('Src', (param.Parameterized,), {'ready': param.Boolean(False)}))
    return param.bind(_skip, _SRC[0]().param.ready)


_TAGGED = []


def _tagged_class():
    """a Parameter subclass whose __getstate__ blanks a list-valued slot (as Path does with search_paths) and a scalar one
    (`precedence`): copies of the Parameter made through copy.copy must take both from the original again"""
    import param
    if not _TAGGED:
        class Tagged(param.Parameter):
            __slots__ = ['tags']
            _slot_defaults = dict(param.Parameter._slot_defaults, tags=None)

            def __init__(self, default=param.Undefined, *, tags=param.Undefined, **kw):
                super().__init__(default=default, **kw)
                self.tags = tags

            def __getstate__(self):
                state = super().__getstate__()
                if 'tags' in state:
                    state['tags'] = []          # "don't want to pickle the tags"
                if 'precedence' in state:
                    state['precedence'] = None  # a scalar slot blanked as well
                return state
        _TAGGED.append(Tagged)
    return _TAGGED[0]


class _L(list):
    """a list subclass: a mutable container all the same (container values of Parameter attributes may be of any
    MutableSequence / MutableMapping type)"""


def _mk_param(param, d):
    lst = _L if d.get('lsub') else list
    kw = {'instantiate': d['inst'], 'constant': d['const'], 'per_instance': d['pi']}
    if d.get('refs'):
        kw['allow_refs'] = True
    if d.get('ro'):
        kw['readonly'] = True
    default = _lit(d['default'])
    if d['kind'] == 'plain':
        if d.get('tags') is not None:
            return _tagged_class()(default=default, tags=lst(d['tags']), **kw)
        return param.Parameter(default=default, **kw)
    if d['kind'] == 'number':
        if d['btup'] is not None:
            kw['bounds'] = tuple(d['btup'])
        elif d['blist'] is not None:
            kw['bounds'] = lst(d['blist'])
        return param.Integer(default=default, **kw)
    return param.Selector(objects=lst(d['objects']), default=default, check_on_set=d['cos'], **kw)


class _World:
    def __init__(self, param):
        self.param = param
        self.classes = []
        self.insts = []           # successfully created, in order
        self.amap = []            # creation attempt -> index in insts | None
        self.cells = []           # identity table of containers, by first observation

    def cid(self, o):
        for i, c in enumerate(self.cells):
            if c is o:
                return i
        self.cells.append(o)
        return len(self.cells) - 1

    def val(self, v):
        if v is None:
            return None
        if isinstance(v, tuple):
            # a tuple of lists: immutable itself, its items are containers with an identity
            if not all(type(x) in (list, _L) and all(type(y) is int for y in x) for x in v):
                raise RuntimeError(f'value outside the modelled universe: {v!r}')
            return {'t': [{'c': self.cid(x), 'v': list(x)} for x in v]}
        if isinstance(v, bool) or not isinstance(v, (int, list)):
            raise RuntimeError(f'value outside the modelled universe: {v!r}')
        if isinstance(v, int):
            return v
        return {'c': self.cid(v), 'v': list(v)}

    def owner(self, o):
        for k, K in enumerate(self.classes):
            if o is K:
                return ['cls', k]
        for i, I in enumerate(self.insts):
            if o is I:
                return ['inst', i]
        raise RuntimeError(f'Parameter owner {o!r} is none of the objects of the case')

    def pobj(self, p):
        param = self.param
        kind = 'selector' if isinstance(p, param.Selector) else 'number' if isinstance(p, param.Integer) else 'plain'
        ms, btup = [], None
        if kind == 'number':
            b = p.bounds
            if isinstance(b, list):
                ms.append(['bounds', {'c': self.cid(b), 'v': list(b)}])
            elif b is not None:
                btup = list(b)
        if kind == 'selector':
            names = object.__getattribute__(p, 'names')
            if not isinstance(names, dict) or any(k != f'k{v}' for k, v in names.items()):
                raise RuntimeError(f'names outside the modelled shape: {names!r}')
            ms.append(['names', {'c': self.cid(names), 'v': list(names.values())}])
            objs = p._objects
            ms.append(['objects', {'c': self.cid(objs), 'v': list(objs)}])
        if _TAGGED and isinstance(p, _TAGGED[0]):
            if not isinstance(p.tags, list):
                raise RuntimeError(f'tags outside the modelled shape: {p.tags!r}')
            ms.append(['tags', {'c': self.cid(p.tags), 'v': list(p.tags)}])
        return {'kind': kind, 'owner': self.owner(p.owner), 'default': self.val(p.default), 'inst': bool(p.instantiate),
                'const': bool(p.constant), 'pi': bool(p.per_instance), 'cos': bool(getattr(p, 'check_on_set', False)),
                'refs': bool(p.allow_refs), 'ro': bool(p.readonly),
                'prec': p.precedence, 'btup': btup, 'ms': ms}

    def names_of(self, K):
        return sorted(int(n[1:]) for n in K.param if n != 'name')

    def snapshot(self, err):
        param = self.param
        classes = []
        for K in self.classes:
            row = []
            for x in self.names_of(K):
                # what the class sees is what its `.param` namespace serves (C13 checks that this is the Parameter found
                # along the MRO; here a disagreement shows as an instance not reading the class default it should follow)
                row.append([x, self.pobj(K.param[f'p{x}'])])
            classes.append(row)
        insts = []
        for I in self.insts:
            priv = I._param__private
            K = type(I)
            insts.append({'cls': self.classes.index(K),
                          'values': [[int(n[1:]), self.val(v)] for n, v in sorted(priv.values.items(), key=lambda kv: (len(kv[0]), kv[0])) if n != 'name'],
                          'params': [[int(n[1:]), self.pobj(p)] for n, p in sorted(priv.params.items(), key=lambda kv: (len(kv[0]), kv[0])) if n != 'name'],
                          'get': [[x, self.val(getattr(I, f'p{x}'))] for x in self.names_of(K)]})
        return {'err': err, 'classes': classes, 'insts': insts}

    def target(self, t):
        if t[0] == 'cls':
            return self.classes[t[1]]
        i = self.amap[t[1]] if t[1] < len(self.amap) else None
        return None if i is None else self.insts[i]


def _lit(v):
    if v == 'pending':
        # a reference that has no value now: assigns nothing when given to the constructor of an allow_refs parameter
        return _pending_ref()
    if isinstance(v, dict):
        return tuple(list(l) for l in v['tup'])          # a tuple display of list displays: new objects every time
    return list(v) if isinstance(v, list) else v


def _apply(w, op):
    """execute one operation; returns error name | None | 'NoInstance'"""
    param = w.param
    o = op['op']
    if o == 'mkClass':
        k = len(w.classes)
        base = w.classes[op['mro'][0]] if op['mro'] else param.Parameterized
        body = {f'p{d["name"]}': _mk_param(param, d) for d in op['decls']}
        if op.get('falsy'):
            # instances that are falsy (an empty collection-like object): nothing may depend on their truth value
            body['__len__'] = lambda self: 0
        K = type(f'K{k}', (base,), body)
        got = [w.classes.index(c) for c in K.__mro__[1:] if c in w.classes]
        if got != list(op['mro']):
            raise RuntimeError(f'mro of the case {op["mro"]} is not the real one {got}')
        w.classes.append(K)
        return None
    if o == 'sharedFail':
        try:
            with param.shared_parameters():
                raise KeyError('left by an exception')
        except KeyError:
            pass
        return None
    if o == 'mkInst':
        try:
            I = w.classes[op['k']](**{f'p{x}': _lit(v) for x, v in op['kwargs']})
        except ERRS as e:
            w.amap.append(None)
            return type(e).__name__
        w.insts.append(I)
        w.amap.append(len(w.insts) - 1)
        return None
    tgt = w.target(op['t'] if 't' in op else ['inst', op['i']])
    if tgt is None:
        return 'NoInstance'
    name = f'p{op["x"]}'
    try:
        if o == 'setVal':
            if op.get('via') == 'update' and op['t'][0] == 'inst':
                tgt.param.update(**{name: _lit(op['v'])})        # the same assignment through the .param namespace
            else:
                setattr(tgt, name, _lit(op['v']))
        elif o == 'mutVal':
            getattr(tgt, name).append(op['v'])
        elif o == 'mutItem':
            getattr(tgt, name)[op['i']].append(op['v'])
        elif o == 'access':
            tgt.param[name]
        elif o == 'slotSet':
            P = tgt.param[name]
            s = op['s']
            if 'btup' in s:
                P.bounds = None if s['btup'] is None else tuple(s['btup'])
            elif 'blist' in s:
                P.bounds = (_L if s.get('lsub') else list)(s['blist'])
            elif 'objects' in s:
                P.objects = (_L if s.get('lsub') else list)(s['objects'])
            elif 'constant' in s:
                P.constant = s['constant']
            else:
                P.precedence = s['precedence']
        elif o == 'slotMut':
            P = tgt.param[name]
            m = op['m']
            if 'objectsAppend' in m:
                P.objects.append(m['objectsAppend'])
            elif 'namesInsert' in m:
                P.objects          # AttributeError for a non-Selector, as `.names` would be
                P.names[f'k{m["namesInsert"]}'] = m['namesInsert']
            else:
                P.bounds[1] = m['boundsSetHi']
        else:
            raise RuntimeError(o)
    except ERRS as e:
        return type(e).__name__
    return None


def run_impl(case):
    import param
    # cases are independent of each other: the process-wide sharing state starts clean
    param.parameterized.shared_parameters._share = False
    param.parameterized.shared_parameters._shared_cache = {}
    w = _World(param)
    steps = []
    prev = {'err': None, 'classes': [], 'insts': []}
    try:
        for op in case['ops']:
            err = _apply(w, op)
            if err == 'NoInstance':
                snap = dict(prev, err='NoInstance')
            else:
                snap = w.snapshot(err)
                prev = snap
            steps.append(snap)
        return {'steps': steps}
    except Exception as e:  # the adapter itself could not read the state: report, do not hide
        return {'crash': f'{type(e).__name__}: {e}'[:300]}


# ------------------------------------------------------------------ comparison

def _canon(obs):
    """rename container ids by first appearance along a fixed traversal"""
    table = {}

    def ren(c):
        if c not in table:
            table[c] = len(table)
        return table[c]

    def val(v):
        if isinstance(v, dict) and 't' in v:
            return {'t': [{'c': ren(x['c']), 'v': x['v']} for x in v['t']]}
        return {'c': ren(v['c']), 'v': v['v']} if isinstance(v, dict) else v

    def pobj(p):
        return dict(p, default=val(p['default']), ms=[[s, val(c)] for s, c in p['ms']])

    out = []
    for st in obs['steps']:
        out.append({'err': st['err'],
                    'classes': [[[x, pobj(p)] for x, p in row] for row in st['classes']],
                    'insts': [{'cls': I['cls'], 'values': [[x, val(v)] for x, v in I['values']],
                               'params': [[x, pobj(p)] for x, p in I['params']],
                               'get': [[x, val(v)] for x, v in I['get']]} for I in st['insts']]})
    return out


def _diff(a, b, path='$'):
    if type(a) != type(b):
        return f'{path}: impl {a!r} vs model {b!r}'[:300]
    if isinstance(a, dict):
        for k in sorted(set(a) | set(b)):
            if k not in a or k not in b:
                return f'{path}.{k}: impl {a.get(k, "<absent>")!r} vs model {b.get(k, "<absent>")!r}'[:300]
            d = _diff(a[k], b[k], f'{path}.{k}')
            if d:
                return d
        return None
    if isinstance(a, list):
        if len(a) != len(b):
            return f'{path}: length impl {len(a)} vs model {len(b)}: impl {a!r} vs model {b!r}'[:300]
        for i, (x, y) in enumerate(zip(a, b)):
            d = _diff(x, y, f'{path}[{i}]')
            if d:
                return d
        return None
    return None if a == b else f'{path}: impl {a!r} vs model {b!r}'[:300]


def compare(impl, model):
    return _diff(_canon(impl), _canon(model), '$.steps')


# ------------------------------------------------------------------ generation

def D(name, kind, default, inst=False, const=False, pi=True, cos=False, btup=None, blist=None, objects=None, refs=False, tags=None):
    return {'name': name, 'kind': kind, 'default': default, 'inst': inst, 'const': const, 'pi': pi, 'cos': cos,
            'btup': btup, 'blist': blist, 'objects': objects, 'refs': refs, 'tags': tags}


SHARED_FAIL = {'op': 'sharedFail'}


def mkClass(mro, decls, falsy=False):
    return {'op': 'mkClass', 'mro': mro, 'decls': decls, 'falsy': falsy}


def mkInst(k, kwargs=()):
    return {'op': 'mkInst', 'k': k, 'kwargs': [list(p) for p in kwargs]}


def setV(t, x, v):
    return {'op': 'setVal', 't': list(t), 'x': x, 'v': v}


def mutV(t, x, v):
    return {'op': 'mutVal', 't': list(t), 'x': x, 'v': v}


def mutI(t, x, i, v):
    return {'op': 'mutItem', 't': list(t), 'x': x, 'i': i, 'v': v}


def TUP(*ls):
    return {'tup': [list(l) for l in ls]}


def acc(i, x):
    return {'op': 'access', 'i': i, 'x': x}


def sset(t, x, **s):
    return {'op': 'slotSet', 't': list(t), 'x': x, 's': s}


def smut(t, x, **m):
    return {'op': 'slotMut', 't': list(t), 'x': x, 'm': m}


I, C = (lambda i: ('inst', i)), (lambda k: ('cls', k))

# the fixed preamble of the directed and exhaustive parts: p0 Integer(list bounds), p1 Selector without check_on_set,
# p2 list default copied per instance, p3 constant list default, p4 shared list default, p5 Integer per_instance=False
BASE = [mkClass([], [D(0, 'number', 5, blist=[0, 10]), D(1, 'selector', 1, cos=False, objects=[1, 2]),
                     D(2, 'plain', [1, 2], inst=True), D(3, 'plain', [7], const=True), D(4, 'plain', [4]),
                     D(5, 'number', 1, btup=[0, 9], pi=False)]),
        mkClass([0], [D(6, 'selector', 3, cos=True, objects=[3, 4])])]
WITNESS = BASE[:1] + [mkInst(0), mkInst(0, [(1, 99)])]


def directed():
    two = BASE + [mkInst(0), mkInst(1)]
    yield WITNESS                                                        # the constructor leak
    yield BASE + [mkInst(1, [(1, 77)]), mkInst(0)]
    yield two + [setV(I(0), 1, 77), setV(I(1), 1, 78), setV(C(1), 1, 88), setV(C(0), 1, 55)]
    # order dependence of the first obj.param.x
    yield two + [acc(0, 0), sset(C(0), 0, blist=[0, 50]), acc(1, 0), setV(I(0), 0, 40), setV(I(1), 0, 40)]
    yield two + [sset(C(0), 0, blist=[0, 50]), acc(0, 0), acc(1, 0), setV(I(0), 0, 40), smut(C(0), 0, boundsSetHi=7), setV(I(1), 0, 9)]
    yield two + [smut(I(0), 0, boundsSetHi=100), setV(I(0), 0, 60), setV(I(1), 0, 60), setV(C(0), 0, 60), setV(C(1), 0, 11)]
    yield two + [sset(I(0), 0, btup=[0, 3]), smut(I(0), 0, boundsSetHi=5), sset(I(0), 0, btup=None), setV(I(0), 0, 1000)]
    # values: own vs class default, copy-on-write on the subclass
    yield two + [setV(C(0), 0, 7), setV(I(0), 0, 2), setV(C(0), 0, 8), setV(C(1), 0, 9), setV(C(0), 0, 3), mkInst(1)]
    yield two + [mutV(I(0), 2, 3), mutV(C(0), 2, 9), mkInst(0), mutV(I(1), 2, 5), setV(C(1), 2, [8]), mkInst(1)]
    yield two + [mutV(I(0), 4, 5), mutV(C(1), 4, 6), setV(I(0), 4, [0]), mutV(I(0), 4, 1), setV(C(0), 4, [9]), mutV(I(1), 4, 2)]
    yield two + [setV(C(0), 3, [8]), mutV(I(0), 3, 1), mkInst(0), setV(I(0), 3, [7]), setV(C(1), 3, 5), mkInst(1, [(3, [1])]), mutV(I(3), 3, 2)]
    yield two + [sset(I(0), 4, constant=True), setV(I(0), 4, [1]), setV(C(0), 4, [2]), sset(I(0), 4, constant=False), setV(I(0), 4, [3])]
    yield two + [sset(C(0), 0, constant=True), setV(I(0), 0, 6), acc(1, 0), setV(I(1), 0, 5), setV(I(1), 0, 6), mkInst(0, [(0, 6)])]
    # Parameter attributes on an instance / on a class / through a subclass
    yield two + [smut(I(0), 1, objectsAppend=9), smut(I(0), 1, namesInsert=9), smut(C(1), 1, objectsAppend=8), smut(C(0), 1, namesInsert=8), acc(1, 1)]
    yield two + [sset(I(0), 1, objects=[5, 6]), setV(I(0), 1, 7), sset(C(1), 1, objects=[3]), setV(C(1), 1, 4), setV(C(0), 1, 5), acc(1, 1)]
    yield two + [setV(C(1), 6, 9), setV(C(1), 6, 4), setV(I(1), 6, 5), sset(I(1), 6, objects=[5]), setV(I(1), 6, 5), sset(I(0), 1, precedence=3),
                 sset(C(0), 1, precedence=4), sset(C(1), 0, precedence=5)]
    yield two + [setV(C(1), 1, 9), smut(C(1), 1, objectsAppend=6), smut(C(0), 1, objectsAppend=5), mkInst(1), acc(2, 1), smut(I(2), 1, objectsAppend=4)]
    # per_instance=False: the class Parameter is the instance's
    yield two + [acc(0, 5), sset(I(0), 5, btup=[0, 100]), setV(I(1), 5, 50), sset(I(1), 5, precedence=2), sset(I(0), 5, blist=[0, 5]),
                 smut(I(1), 5, boundsSetHi=6), setV(I(0), 5, 6)]
    # errors
    yield two + [setV(I(0), 0, 11), setV(I(0), 0, [1]), mutV(I(0), 0, 1), smut(I(0), 2, objectsAppend=1), sset(I(0), 1, blist=[0, 1]),
                 sset(I(0), 0, objects=[1]), smut(I(0), 5, boundsSetHi=3), smut(I(0), 1, boundsSetHi=3), mkInst(0, [(0, 99)]), setV(I(2), 0, 1), acc(2, 0),
                 mkInst(0, [(1, 50), (0, 99)]), mkInst(1, [(6, 9)]), setV(C(1), 6, 9), setV(C(1), 0, 99), mkInst(0, [(9, 1)])]
    yield two + [mkClass([1, 0], [D(7, 'plain', 0)]), mkInst(2), setV(C(2), 1, 5), setV(C(1), 1, 6), setV(I(2), 7, [1]), mutV(I(2), 7, 2), setV(C(2), 7, 1)]
    # a chain of four classes whose lowest class has answered `.param` already (instance made, Parameter read) when a class
    # in the middle gets its own copy by assignment: every class below it must see the new Parameter, not a cached one
    yield [mkClass([], [D(0, 'number', 5, blist=[0, 10]), D(1, 'plain', [1], inst=True)]), mkClass([0], []), mkClass([1, 0], []),
           mkClass([2, 1, 0], []), mkInst(3), acc(0, 0), mkInst(2), setV(C(1), 0, 7), mkInst(3), setV(C(1), 1, [2, 3]), mkInst(3), mkInst(2),
           sset(C(3), 0, blist=[0, 8]), setV(C(2), 0, 6), acc(2, 0), mkInst(3), setV(C(3), 1, [4]), setV(C(0), 0, 1), mkInst(3)]
    # a constructor keyword that is a reference without a value assigns nothing: the instantiate=True default is still copied
    yield [mkClass([], [D(0, 'plain', [1, 2], inst=True, refs=True), D(1, 'plain', [3], inst=True, refs=True, const=True), D(2, 'plain', 4, refs=True)]),
           mkInst(0, [(0, 'pending')]), mkInst(0), mkInst(0, [(0, 'pending'), (1, 'pending'), (2, 'pending')]), mutV(I(0), 0, 9), mutV(I(2), 1, 8),
           setV(C(0), 0, [5]), mkInst(0, [(0, [6]), (1, 'pending')]), mutV(I(3), 1, 7), setV(C(0), 2, 5)]
    # a Parameter subclass whose __getstate__ blanks a slot: per-instance and subclass copies still hold the class's value
    yield [mkClass([], [D(0, 'plain', 5, tags=[1, 2]), D(1, 'plain', [3], inst=True, tags=[4])]), mkClass([0], []), mkInst(0), mkInst(1),
           acc(0, 0), setV(I(1), 1, 7), setV(C(1), 0, 6), acc(1, 0), setV(C(0), 0, 8), mkInst(1), acc(2, 1)]
    # … and its scalar attributes (precedence, also blanked by that __getstate__)
    yield [mkClass([], [D(0, 'plain', 5, tags=[1, 2]), D(1, 'plain', [3], inst=True, tags=[4])]), mkClass([0], []), sset(C(0), 0, precedence=3),
           sset(C(0), 1, precedence=4), mkInst(0), mkInst(1), acc(0, 0), setV(I(1), 1, 7), setV(C(1), 0, 6), acc(1, 0), sset(I(0), 1, constant=True), acc(1, 1)]
    # class-level writes on a subclass stay on the subclass: in-place changes of its Parameter's containers do not reach the parent
    yield BASE + [setV(C(1), 1, 2), smut(C(1), 1, objectsAppend=9), smut(C(1), 1, namesInsert=9), smut(C(0), 1, objectsAppend=8),
                  setV(C(1), 0, 3), smut(C(1), 0, boundsSetHi=50), setV(C(0), 0, 40), setV(C(1), 0, 40), mkInst(1), mkInst(0), acc(0, 1), acc(1, 0)]
    # container subclasses as attribute values; falsy instances assigned through .param.update
    yield [mkClass([], [dict(D(0, 'number', 5, blist=[0, 10]), lsub=True), dict(D(1, 'selector', 1, cos=False, objects=[1, 2]), lsub=True),
                        dict(D(2, 'plain', 3, tags=[7]), lsub=True)], falsy=True), mkClass([0], []), mkInst(0), mkInst(1), acc(0, 0), acc(0, 1), acc(0, 2),
           smut(I(0), 1, objectsAppend=9), smut(I(0), 0, boundsSetHi=50), dict(setV(I(1), 0, 7), via='update'), dict(setV(I(1), 1, 8), via='update'),
           dict(setV(I(0), 2, 4), via='update'), setV(C(1), 1, 2), smut(C(1), 1, objectsAppend=6), dict(sset(I(1), 0, blist=[0, 30]), s={'blist': [0, 30], 'lsub': True}),
           smut(I(1), 0, boundsSetHi=31), mkInst(0, [(1, 1)]), dict(setV(I(2), 1, 12), via='update')]
    # a shared_parameters block left by an exception leaves no sharing behind
    yield BASE + [SHARED_FAIL, mkInst(0), mkInst(0), mkInst(1), mutV(I(0), 2, 9), setV(C(0), 2, [8]), mkInst(0), SHARED_FAIL, mkInst(1), mutV(I(3), 2, 1)]
    # defaults that are None at construction time and filled in on the class later
    yield [mkClass([], [D(0, 'plain', None, inst=True), D(1, 'plain', None, const=True), D(2, 'plain', None), D(3, 'plain', None, inst=True, const=True)]),
           mkClass([0], []), mkInst(0), mkInst(1), setV(C(0), 0, [1, 2]), setV(C(0), 1, 7), setV(C(0), 2, [3]), setV(C(1), 3, [4]), mutV(C(0), 0, 9),
           mkInst(0), mkInst(1, [(0, None), (2, None)]), setV(I(2), 0, None), setV(I(0), 2, None), setV(C(0), 2, None), mutV(I(0), 0, 1), mutV(I(2), 0, 5),
           setV(I(0), 1, None), setV(I(0), 1, 3)]
    yield [mkClass([], [D(0, 'number', 1, btup=[0, 5], inst=True, const=True), D(1, 'plain', [1], inst=True, const=True)]), mkInst(0), mkInst(0, [(0, 2), (1, [5])]),
           setV(C(0), 1, [2]), mutV(C(0), 1, 3), mutV(I(0), 1, 4), setV(I(1), 0, 2), setV(I(1), 0, 3)]


def directed_nested():
    # tuples of lists as defaults: immutable themselves, their items are not. instantiate=True -> deepcopy rebuilds the tuple
    # around NEW lists for every instance; otherwise the items are shared by identity
    yield [mkClass([], [D(0, 'plain', TUP([0, 0], [0, 0]), inst=True), D(1, 'plain', TUP([1], [2])), D(2, 'plain', TUP([3], [4]), const=True)]),
           mkClass([0], []), mkInst(0), mkInst(1), mutI(I(0), 0, 0, 9), mutI(C(0), 0, 1, 8), mkInst(0), mutI(I(1), 0, 0, 7), mutI(C(1), 0, 0, 6),
           mutI(I(0), 1, 0, 5), mutI(I(1), 2, 1, 4), setV(C(1), 0, TUP([5], [6])), mkInst(1), mutI(I(3), 0, 0, 1), setV(I(0), 0, TUP([1], [1])),
           mutI(I(0), 0, 1, 2), mutV(I(0), 0, 3), mkInst(0, [(0, TUP([7], [8]))]), mutI(I(4), 0, 0, 9), setV(I(0), 2, TUP([1], [1]))]
    yield [mkClass([], [D(0, 'plain', TUP([1, 2], []), inst=True, pi=False), D(1, 'plain', TUP([], [3]), inst=True, const=True)]), mkInst(0), mkInst(0),
           mutI(I(0), 0, 1, 5), mutI(I(1), 1, 0, 6), mutI(C(0), 1, 1, 7), acc(0, 0), mutI(I(0), 0, 0, 8), mkInst(0), setV(C(0), 0, TUP([9], [9])), mkInst(0)]


def directed_readonly():
    # read-only Parameters: every assignment raises TypeError — after validation, which may already have appended to a
    # Selector's objects; a class that only inherits the Parameter goes on inheriting it (the copy made for the assignment is
    # removed whatever the exception type)
    yield [mkClass([], [dict(D(0, 'number', 5, blist=[0, 10]), ro=True), dict(D(1, 'selector', 1, objects=[1, 2]), ro=True),
                        dict(D(2, 'plain', [1]), ro=True), D(3, 'number', 2)]), mkClass([0], []), mkInst(0), mkInst(1),
           setV(C(1), 0, 7), setV(C(0), 0, 8), mkInst(1), setV(C(0), 3, 4), setV(I(0), 0, 3), setV(I(1), 1, 9), setV(C(1), 1, 8), setV(C(0), 1, 7),
           mkInst(1, [(0, 3)]), mkInst(0, [(1, 5)]), setV(C(1), 2, [3]), mutV(I(0), 2, 4), sset(I(0), 0, constant=False), setV(I(0), 0, 4),
           acc(1, 0), setV(C(1), 0, 99), smut(C(0), 0, boundsSetHi=20), setV(I(1), 0, 15), mkInst(1), sset(C(1), 2, constant=False), setV(C(1), 2, 5)]
    # the object a constant parameter "holds" is what the attribute reads: after the class default changed, an instance that
    # never set it holds the NEW default — not the snapshot in its own Parameter copy
    yield BASE + [mkInst(0), mkInst(1), acc(0, 0), sset(I(0), 0, constant=True), sset(I(1), 0, constant=True), setV(C(0), 0, 7), setV(I(0), 0, 7),
                  setV(I(0), 0, 5), setV(I(1), 0, 5), setV(I(1), 0, 7), setV(C(1), 0, 3), setV(I(1), 0, 3), setV(I(0), 0, 3), acc(1, 0)]


def _alphabet():
    ops = []
    for t in (I(0), I(1), C(0), C(1)):
        ops += [setV(t, 0, 7), setV(t, 1, 9), setV(t, 4, [3]), mutV(t, 2, 6), mutV(t, 4, 6),
                sset(t, 0, blist=[0, 20]), sset(t, 1, objects=[6]), sset(t, 0, constant=True),
                smut(t, 1, objectsAppend=8), smut(t, 0, boundsSetHi=6), smut(t, 1, namesInsert=8)]
    ops += [acc(0, 0), acc(0, 1), acc(1, 1), mkInst(0), mkInst(1, [(1, 44)]), setV(I(0), 0, 15), setV(I(0), 5, 4), sset(I(0), 5, precedence=1)]
    return ops


KINDS = ('plain', 'number', 'selector')


def _tuple_lit(rng):
    return TUP(*[[rng.randint(1, 9) for _ in range(rng.randint(0, 2))] for _ in range(2)])


def _rand_decl(rng, name):
    kind = rng.choice(KINDS)
    pi = rng.random() < 0.85
    const = rng.random() < 0.2
    if rng.random() < 0.07:
        return dict(_rand_decl(rng, name), ro=True)
    if kind == 'plain' and rng.random() < 0.15:
        # a tuple of two lists; such a parameter holds 2-tuples of lists throughout the case
        return dict(D(name, kind, _tuple_lit(rng), inst=rng.random() < 0.6, const=const, pi=pi), tupd=True)
    if kind == 'plain':
        if rng.random() < 0.2:
            return D(name, kind, None, inst=rng.random() < 0.5, const=rng.random() < 0.4, pi=pi)
        if rng.random() < 0.65:
            return D(name, kind, [rng.randint(1, 9) for _ in range(rng.randint(0, 2))], inst=rng.random() < 0.5, const=const, pi=pi,
                     refs=rng.random() < 0.25, tags=[rng.randint(1, 9)] if rng.random() < 0.2 else None)
        return D(name, kind, rng.randint(0, 9), inst=rng.random() < 0.3, const=const, pi=pi,
                 tags=[rng.randint(1, 9), rng.randint(1, 9)] if rng.random() < 0.25 else None)
    if kind == 'number':
        r = rng.random()
        b = [0, rng.randint(5, 12)]
        return D(name, kind, rng.randint(0, 5), const=const, pi=pi, btup=b if r < 0.35 else None, blist=b if 0.35 <= r < 0.85 else None)
    objs = rng.sample(range(1, 9), rng.randint(1, 3))
    return D(name, kind, objs[0], const=const, pi=pi, cos=rng.random() < 0.5, objects=objs)


def _random_case(rng, leaky):
    ops, classes = [], []          # classes: (mro, {name: kind}) with inherited names merged
    nparams = 0

    def add_class(mro):
        nonlocal nparams
        n = rng.randint(2, 4) if not mro else rng.randint(0, 1)
        decls = [dict(_rand_decl(rng, nparams + j), lsub=rng.random() < 0.3) for j in range(n)]
        nparams += n
        vis = dict(classes[mro[0]][1]) if mro else {}
        vis.update({d['name']: d for d in decls})
        classes.append((mro, vis))
        ops.append(mkClass(mro, decls, falsy=(falsy_case if not mro else False)))

    falsy_case = rng.random() < 0.25
    add_class([])
    attempts = []                  # class of every creation attempt
    n_ops = rng.randint(3, 20)
    while len(ops) < n_ops:
        r = rng.random()
        if r > 0.985:
            ops.append(dict(SHARED_FAIL))
            continue
        if r < 0.07 and len(classes) < 3:
            p = rng.randrange(len(classes))
            add_class([p] + classes[p][0])
            continue
        if r < 0.22 or not attempts:
            k = rng.randrange(len(classes))
            kw = []
            pend = False
            for x, d in classes[k][1].items():
                # at most one pending reference per instance: dropping one link re-resolves the others
                # (param's reference machinery, C08), which is not part of this model
                if d.get('refs') and not pend and rng.random() < 0.5:
                    kw.append((x, 'pending'))
                    pend = True
                elif rng.random() < 0.3:
                    kw.append((x, _value(rng, d, safe=not leaky)))
            ops.append(mkInst(k, kw))
            attempts.append(k)
            continue
        if rng.random() < 0.68:
            a = rng.randrange(len(attempts))
            t, vis = I(a), classes[attempts[a]][1]
        else:
            k = rng.randrange(len(classes))
            t, vis = C(k), classes[k][1]
        if not vis:
            continue
        x, d = rng.choice(sorted(vis.items()))
        r = rng.random()
        if r < 0.3:
            op = setV(t, x, _value(rng, d, safe=False))
            if t[0] == 'inst' and rng.random() < 0.35:
                op['via'] = 'update'
            ops.append(op)
        elif r < 0.42:
            if d.get('tupd') and rng.random() < 0.85:
                ops.append(mutI(t, x, rng.randrange(2), rng.randint(1, 9)))
            else:
                ops.append(mutV(t, x, rng.randint(1, 9)))
        elif r < 0.55 and t[0] == 'inst':
            ops.append(acc(t[1], x))
        elif r < 0.78:
            c = rng.random()
            if c < 0.25 or d['kind'] == 'plain':
                s = rng.choice([{'constant': rng.random() < 0.6}, {'precedence': rng.randint(1, 5)}])
            elif d['kind'] == 'number':
                hi = rng.randint(3, 30)
                s = rng.choice([{'btup': [0, hi]}, {'btup': None}, {'blist': [0, hi]}, {'blist': [0, hi]}])
            else:
                s = {'objects': rng.sample(range(1, 12), rng.randint(1, 3))}
            ops.append(sset(t, x, **s))
        else:
            if d['kind'] == 'number' or (d['kind'] == 'plain' and rng.random() < 0.1):
                m = {'boundsSetHi': rng.randint(2, 40)}
            elif d['kind'] == 'selector' or rng.random() < 0.1:
                m = rng.choice([{'objectsAppend': rng.randint(1, 14)}, {'objectsAppend': rng.randint(1, 14)}, {'namesInsert': rng.randint(1, 14)}])
            else:
                continue
            ops.append(smut(t, x, **m))
    return ops


def _value(rng, d, safe):
    if d.get('tupd'):
        return _tuple_lit(rng)
    if d['kind'] == 'plain':
        if rng.random() < 0.12:
            return None
        return [rng.randint(1, 9) for _ in range(rng.randint(0, 2))] if rng.random() < 0.5 else rng.randint(0, 9)
    if d['kind'] == 'number':
        return rng.randint(0, 5) if safe or rng.random() < 0.7 else rng.randint(0, 40)
    if safe or rng.random() < 0.5:
        return rng.choice(d['objects'])
    return rng.randint(1, 14)


def cases(rng, tier, worker, nworkers):
    if worker == 0:
        for f in sorted(glob.glob(os.path.join(os.path.dirname(__file__), '..', '..', 'corpus', 'C12', '*.json'))):
            yield json.load(open(f))['case']
        for ops in directed():
            yield {'ops': [dict(o) for o in ops]}
        for ops in directed_nested():
            yield {'ops': [dict(o) for o in ops]}
        for ops in directed_readonly():
            yield {'ops': [dict(o) for o in ops]}
    pre = BASE + [mkInst(0), mkInst(1)]
    alpha = _alphabet()
    depth = 2 if tier == 'quick' else 3
    i = 0
    for n in range(1, depth + 1):
        for combo in itertools.product(alpha, repeat=n):
            i += 1
            if n == 3 and i % 4:          # a quarter of the triples
                continue
            if (i // 4 if n == 3 else i) % nworkers == worker:
                yield {'ops': [dict(o) for o in pre + list(combo)]}
    n_random = 450 if tier == 'quick' else 24000 // nworkers
    for j in range(n_random):
        yield {'ops': _random_case(rng, leaky=(j % 12 == 0))}


# ------------------------------------------------------------------ reporting

def _leaky_steps(case, impl):
    """indices of the constructor calls that pass, for a Selector without check_on_set, a value that is not
    among the objects the class Parameter lists at that moment"""
    out = []
    if not isinstance(impl, dict) or 'steps' not in impl:
        return out
    prev = {'classes': []}
    for n, (op, st) in enumerate(zip(case['ops'], impl['steps'])):
        if op['op'] == 'mkInst' and op['k'] < len(prev['classes']):
            row = dict((x, p) for x, p in prev['classes'][op['k']])
            for x, v in op['kwargs']:
                p = row.get(x)
                if p and p['kind'] == 'selector' and not p['cos'] and not isinstance(v, list) and v is not None:
                    objs = next(c['v'] for s, c in p['ms'] if s == 'objects')
                    if v not in objs and n not in out:
                        out.append(n)
        if st['err'] != 'NoInstance':
            prev = st
    return out


def tags(case, impl):
    t = [f'len={min(len(case["ops"]) // 5 * 5, 20)}+']
    if isinstance(impl, dict) and 'steps' in impl:
        t.append(f'classes={len(impl["steps"][-1]["classes"])}' if impl['steps'] else 'classes=0')
        t.append(f'insts={min(len(impl["steps"][-1]["insts"]), 4)}' if impl['steps'] else 'insts=0')
        if _leaky_steps(case, impl):
            t.append('leaky-ctor-kwarg')
        for op in case['ops']:
            if op['op'] == 'setVal' and op.get('via') == 'update':
                t.append('setVal:via-update')
            if op['op'] == 'mkClass' and op.get('falsy'):
                t.append('class:falsy-instances')
            if op['op'] == 'mkClass':
                for d in op['decls']:
                    t.append(f'decl:{d["kind"]}:inst={int(d["inst"])}:const={int(d["const"])}:pi={int(d["pi"])}')
                    if d.get('tags') is not None:
                        t.append('decl:tagged-parameter-subclass')
                    if d.get('lsub') and (d.get('tags') is not None or d.get('blist') is not None or d.get('objects') is not None):
                        t.append('decl:container-subclass')
                    if d.get('refs') and not d['pi']:
                        t.append('decl:refs:pi=0')
                    if d.get('ro'):
                        t.append('decl:readonly')
                    if isinstance(d['default'], dict):
                        t.append(f'decl:tuple-of-lists:inst={int(d["inst"])}')
                    if d['default'] is None:
                        t += [f'decl:plain:none-default:{k}' for k in ('inst', 'const') if d[k]]
    return t


def nontrivial(case, impl, resp):
    if 'steps' not in impl or not impl['steps']:
        return False
    last = impl['steps'][-1]
    writes = sum(1 for op, st in zip(case['ops'], impl['steps'])
                 if op['op'] in ('setVal', 'mutVal', 'mutItem', 'slotSet', 'slotMut') and st['err'] is None)
    return resp.get('checked_steps', 0) >= 3 and len(last['insts']) >= 1 and writes >= 1


def _refs_inst(op):
    if op['op'] == 'access':
        return op['i']
    t = op.get('t')
    return t[1] if t and t[0] == 'inst' else None


def _renumber(op, removed):
    op = json.loads(json.dumps(op))
    if op['op'] == 'access' and op['i'] > removed:
        op['i'] -= 1
    elif op.get('t') and op['t'][0] == 'inst' and op['t'][1] > removed:
        op['t'][1] -= 1
    return op


def shrink(case):
    ops = case['ops']
    # drop a suffix first (a violation is decided at its step)
    for cut in range(len(ops) - 1, 0, -1):
        yield {'ops': ops[:cut]}
    attempt = -1
    for i, op in enumerate(ops):
        if op['op'] == 'mkClass':
            continue
        if op['op'] == 'mkInst':
            attempt += 1
            a = attempt
            rest = [_renumber(o, a) for o in ops[i + 1:] if _refs_inst(o) != a]
            yield {'ops': ops[:i] + rest}
            if op['kwargs']:
                for j in range(len(op['kwargs'])):
                    yield {'ops': ops[:i] + [dict(op, kwargs=op['kwargs'][:j] + op['kwargs'][j + 1:])] + ops[i + 1:]}
        else:
            yield {'ops': ops[:i] + ops[i + 1:]}
    for i, op in enumerate(ops):
        if op['op'] == 'mkClass' and len(op['decls']) > 1:
            used = {o.get('x') for o in ops} | {x for o in ops if o['op'] == 'mkInst' for x, _ in o['kwargs']}
            for j, d in enumerate(op['decls']):
                if d['name'] not in used:
                    yield {'ops': ops[:i] + [dict(op, decls=op['decls'][:j] + op['decls'][j + 1:])] + ops[i + 1:]}


def classify(case, impl, fail):
    why = str(fail.get('why', ''))
    m = re.match(r'step (\d+): creating an instance changed what a class sees', why)
    if fail.get('kind') == 'counterexample' and m:
        # `step n` counts oracle-checked steps; skipped (NoInstance) steps are not counted
        n, live = int(m.group(1)), -1
        for idx, st in enumerate(impl.get('steps', [])):
            if st['err'] != 'NoInstance':
                live += 1
            if live == n:
                if idx in _leaky_steps(case, impl):
                    return 'ctor-kwarg-appended-to-class-objects'
                return None
    return None
