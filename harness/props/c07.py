"""C07 — sub-object dependencies follow the object currently attached.
Correspondence: Lean `ParamVerif.Depends.runStep` (Paths.lean) vs object graphs built on the real
`param`; oracle: `ParamVerif.Depends.specHistoryP` (PathsSpec.lean)."""
import glob
import json
import os
import re

ID = 'C07'
PROPS_FILE = 'ParamVerif/Props/C07.lean'
DRIVER = 'Driver/C07.lean'
SOURCES = [('param/parameterized.py', 'Parameter.__set__'), ('param/parameterized.py', 'Parameters._update_deps'),
           ('param/parameterized.py', 'Parameters._resolve_dynamic_deps'), ('param/parameterized.py', 'Parameters._watch_group'),
           ('param/parameterized.py', 'Parameters._spec_to_obj'), ('param/parameterized.py', '_resolve_mcs_deps'),
           ('param/parameterized.py', '_skip_event'), ('param/parameterized.py', '_sync_caller'),
           ('param/parameterized.py', '_m_caller'), ('param/parameterized.py', '_getattrr'),
           ('param/parameterized.py', 'Comparator'), ('param/parameterized.py', 'Parameters._call_watcher'),
           ('param/parameterized.py', 'Parameters._register_watcher'), ('param/parameterized.py', 'Parameters.unwatch'),
           ('param/parameterized.py', 'Parameterized.__init__'), ('param/parameterized.py', '_params_depended_on'),
           ('param/parameterized.py', 'ParameterizedMetaclass.__init__')]
BUDGET_S = {'quick': 50, 'thorough': 400}
TRUSTED = [
    'statements in lean/ParamVerif/Props/C07.lean',
    'spec-side oracle lean/ParamVerif/Depends/PathsSpec.lean (own copy of the object graph; touched / reached-value-changed / current-chain predicates)',
    'harness/props/c07.py adapter (generated methods log owner, name and the values read through each path; reads obj._param__private.watchers and dynamic_watchers of every object ever created, identifies a watcher by fn.keywords of the _sync_caller partial)',
    'correspondence is differential testing: model = code only on the histories executed',
    'CPython attribute access, dict/defaultdict insertion order, sorted() returning a copy',
]
ASSUMPTIONS = [
    'object graphs stay forests: an object is attached at one place at a time and never below itself (sharing and cycles are outside)',
    'only one class has dependent methods (declared on it or inherited from a base class made for the case); sub-objects have none; methods only log and, on chosen invocations, raise (caught by the harness around the triggering assignment); values are integers, object names come from a small set; classes may be falsy (__len__ == 0); an object-valued parameter of the owner may have a class-level default (an object made earlier, shared: instantiate=False; the model is given it as an explicit constructor argument)',
    'path elements are object-valued parameters, the leaf is an integer parameter, an object-valued parameter, or `param` (only at depth 1); no slots (a.x:bounds); batching only as param.update / batch_call_watchers / discard_events on one object around assignments to that object (keys may repeat in a batch_call_watchers block), no nesting',
]
RULE = ('directed histories (the design probes p5, p23 and their variants) + random histories: 1-2 dependent methods with 1-3 path '
        'specs of depth 1-3 under the same or different sub-objects (leaf x / y / param), 3-6 initial objects, a top object '
        'constructed with or without attachments, then 6-20 steps of attach / replace / detach at every level, creation of '
        'fresh objects, leaf assignments on attached and detached objects (same and different values), and batched / discarded '
        'groups of assignments on one object (param.update, batch_call_watchers with repeated keys, discard_events); the methods '
        'are declared on the owner class or inherited from a base class, classes are sometimes falsy.  After every step '
        'the invocation log (with the values read) and the watcher tables and dynamic_watchers of all objects are compared with '
        'the model and judged by the oracle.  non-trivial = a method fired at least once and >=3 steps judged')
COVERAGE_TARGETS = ['step:reattach-same', 'attach:class-default', 'step:discard', 'step:batch-repeated-key', 'decl:inherited', 'decl:own', 'objects:falsy', 'leaf:object', 'step:update', 'step:batch', 'step:method-raised', 'depth:1', 'depth:2', 'depth:3', 'deps:one', 'deps:several', 'leaf:param', 'fired',
                    'step:attach', 'step:replace', 'step:detach', 'step:leaf-attached', 'step:leaf-detached', 'step:replace-equal']

LOG = []


def _jval(v, objs):
    if v is None or isinstance(v, int):
        return v
    return objs[v['ref']]


def _spec_str(s):
    return '.'.join(s['path'] + [s['leaf']])


class Boom(Exception):
    """raised by a generated dependent method on the invocations the case asks for"""


COUNT = {}


def _mk_method(param, name, specs, ids, raises=()):
    def f(self):
        reads = []
        for s in specs:
            if s['leaf'] == 'param':
                reads.append(None)
                continue
            v = self
            for n in s['path'] + [s['leaf']]:
                v = getattr(v, n, None) if isinstance(v, param.Parameterized) else None
            reads.append(v if (v is None or isinstance(v, int)) else 'obj')
        LOG.append([ids[id(self)], name, reads])
        k = COUNT[(ids[id(self)], name)] = COUNT.get((ids[id(self)], name), 0) + 1
        if k in raises:
            raise Boom(name)
    f.__name__ = name
    return param.depends(*[_spec_str(s) for s in specs], watch=True)(f)


def _observe(case, K, objs, ids):
    ws = []
    dyn = []
    for o_idx, o in enumerate(objs):
        c = case['classes'][case['_cls_of'][o_idx]]
        for q in ['name'] + c['objParams'] + c['intParams']:
            for w in o._param__private.watchers.get(q, {}).get('value', []):
                kw = getattr(w.fn, 'keywords', None)
                if kw is None or 'function' not in kw:
                    ws.append([o_idx, q, -1, '?', None, False, list(w.parameter_names)])
                    continue
                owner = ids.get(id(kw['function'].__self__), -1)
                ch = kw['changed']
                ch = [[k, v] for k, v in ch.items()] if isinstance(ch, dict) else ch
                ws.append([o_idx, q, owner, w.fn._watcher_name, ch, kw['callback'] is not None,
                           list(w.parameter_names)])
        for m in c['methods']:
            dyn.append([o_idx, m['name'], [[ids.get(id(w.inst), -1), list(w.parameter_names)]
                                           for w in o._param__private.dynamic_watchers.get(m['name'], [])]])
    return ws, dyn


def run_impl(case):
    import param
    try:
        ids = {}
        K = {}
        objs = []

        def build(k):
            """the class is made when its first object is: a class-level default of an object-valued parameter (shared by
            the instances, instantiate=False) is an object created earlier in the history"""
            if k in K:
                return K[k]
            c = case['classes'][k]
            ns = {}
            dflt = c.get('defaults', {})
            for p in c['objParams']:
                d = _jval(dflt[p], objs) if p in dflt else None
                ns[p] = param.ClassSelector(class_=param.Parameterized, default=d, allow_None=True, instantiate=False)
            for p in c['intParams']:
                ns[p] = param.Number(default=0)
            if c.get('falsy'):
                # a container-like class that is empty: instances are falsy (`bool(obj) is False`)
                ns['__len__'] = lambda self: 0
            meths = {m['name']: _mk_method(param, m['name'], m['specs'], ids, tuple(m.get('raises', ())))
                     for m in c['methods']}
            nbase = c.get('nbase', 0)
            if nbase:
                # the first `nbase` methods are declared on a base class and only INHERITED by the class the
                # objects are made from (`_depends['watch']` lists inherited entries first: same order)
                ns.update({m['name']: meths[m['name']] for m in c['methods'][:nbase]})
                base = type(f'B{k}', (param.Parameterized,), ns)
                sub = {m['name']: meths[m['name']] for m in c['methods'][nbase:]}
                sub['extra'] = param.Number(default=0)
                K[k] = type(f'C{k}', (base,), sub)
            else:
                ns.update(meths)
                K[k] = type(f'C{k}', (param.Parameterized,), ns)
            return K[k]
        COUNT.clear()
        case = dict(case, _cls_of=[])
        steps = []
        for st in case['steps']:
            del LOG[:]
            raised = False
            try:
                if st['op'] == 'new':
                    kw = {}
                    for n, v in st['vals']:
                        if n in st.get('use_default', ()):
                            continue            # not passed: the class-level default (the same object) is what is attached
                        kw[n] = f'n{v}' if n == 'name' else _jval(v, objs)
                    o = build(st['cls'])(**kw)
                    ids[id(o)] = len(objs)
                    objs.append(o)
                    case['_cls_of'].append(st['cls'])
                elif st['op'] == 'update':
                    tgt = objs[st['o']]
                    kvs = [(k, _jval(v, objs)) for k, v in st['kvs']]
                    if st.get('via') == 'batch':
                        with param.parameterized.batch_call_watchers(tgt):
                            for k, v in kvs:          # a key may repeat
                                setattr(tgt, k, v)
                    else:
                        tgt.param.update(**dict(kvs))
                elif st['op'] == 'discard':
                    tgt = objs[st['o']]
                    with param.parameterized.discard_events(tgt):
                        for k, v in st['kvs']:
                            setattr(tgt, k, _jval(v, objs))
                else:
                    setattr(objs[st['o']], st['p'], f"n{st['v']}" if st['p'] == 'name' else _jval(st['v'], objs))
            except Boom:
                raised = True       # a dependent method's body raised: the history goes on
            except (ValueError, TypeError, AttributeError) as e:
                steps.append({'err': type(e).__name__})
                break
            ws, dyn = _observe(case, K, objs, ids)
            steps.append({'err': None, 'calls': [list(c) for c in LOG], 'watchers': ws, 'dyn': dyn, 'raised': raised})
        return {'steps': steps}
    except Exception as e:
        return {'crash': f'{type(e).__name__}: {e}'[:300]}


# ------------------------------------------------------------------ generation

OBJP = ['a', 'b']
INTP = ['x', 'y']


def _classes(methods, nbase=0, falsy=(False, False)):
    out = [{'objParams': OBJP, 'intParams': INTP, 'methods': []},
           {'objParams': OBJP, 'intParams': INTP, 'methods': methods}]
    if nbase:
        out[1]['nbase'] = min(nbase, len(methods))
    for c, f in zip(out, falsy):
        if f:
            c['falsy'] = True
    return out


def _with_methods(case, ms):
    """the case with class 1's methods replaced (flags kept; `nbase` clipped)"""
    c1 = dict(case['classes'][1], methods=ms)
    if 'nbase' in c1:
        c1['nbase'] = min(c1['nbase'], len(ms))
    return dict(case, classes=[case['classes'][0], c1])


def _new(cls, name=0, a=None, b=None, x=0, y=0):
    r = lambda v: None if v is None else {'ref': v}
    return {'op': 'new', 'cls': cls, 'vals': [['name', name], ['a', r(a)], ['b', r(b)], ['x', x], ['y', y]]}


def _set(o, p, v):
    return {'op': 'set', 'o': o, 'p': p, 'v': v}


def _upd(o, via='update', **kv):
    return {'op': 'update', 'o': o, 'kvs': [[k, v] for k, v in kv.items()], 'via': via}


def _upd2(o, *kvs):
    """a batch block whose assignments may repeat a key"""
    return {'op': 'update', 'o': o, 'kvs': [list(kv) for kv in kvs], 'via': 'batch'}


def _ref(o):
    return None if o is None else {'ref': o}


def _spec(s):
    parts = s.split('.')
    return {'path': parts[:-1], 'leaf': parts[-1]}


def _m(name, *specs, raises=None):
    m = {'name': name, 'specs': [_spec(s) for s in specs]}
    if raises:
        m['raises'] = list(raises)
    return m


class _Shadow:
    """generator-side copy of the graph, only used to draw meaningful steps and keep the graph a forest"""

    def __init__(self):
        self.cls, self.vals, self.parent = [], [], []

    def new(self, step):
        i = len(self.cls)
        self.cls.append(step['cls'])
        v = {k: x for k, x in step['vals']}
        self.vals.append(v)
        self.parent.append(None)
        for p in OBJP:
            if v[p] is not None:
                self.parent[v[p]['ref']] = (i, p)
        return i

    def set(self, o, p, v):
        old = self.vals[o][p]
        if p in OBJP:
            if old is not None:
                self.parent[old['ref']] = None
            if v is not None:
                self.parent[v['ref']] = (o, p)
        self.vals[o][p] = v

    def root_of(self, o):
        seen = set()
        while self.parent[o] is not None and o not in seen:
            seen.add(o)
            o = self.parent[o][0]
        return o

    def free(self, holder):
        """objects that can be attached under `holder`: unattached, not the tree holding `holder`, no methods"""
        r = self.root_of(holder)
        return [i for i in range(len(self.cls)) if self.parent[i] is None and i != r and self.cls[i] == 0]

    def reachable(self, t):
        out, todo = [], [t]
        while todo:
            o = todo.pop()
            if o in out:
                continue
            out.append(o)
            for p in OBJP:
                if self.vals[o][p] is not None:
                    todo.append(self.vals[o][p]['ref'])
        return out


def _gen_specs(rng):
    depth = rng.choice([1, 1, 2, 2, 3])
    n = rng.choice([1, 1, 2, 2, 3])
    specs = []
    shared = [rng.choice(OBJP) for _ in range(depth)]
    for _ in range(n):
        if rng.random() < 0.6:
            path = list(shared[:rng.randint(1, depth)]) if rng.random() < 0.4 else list(shared)
        else:
            path = [rng.choice(OBJP) for _ in range(rng.randint(1, depth))]
        r = rng.random()
        # mostly an integer leaf; sometimes `param`, sometimes a sub-object-valued parameter itself ('a.b')
        leaf = 'param' if (len(path) == 1 and r < 0.12) else (rng.choice(OBJP) if r > 0.85 else rng.choice(INTP))
        s = {'path': path, 'leaf': leaf}
        if s not in specs:
            specs.append(s)
    return specs


def _gen_case(rng):
    methods = [{'name': 'm0', 'specs': _gen_specs(rng)}]
    if rng.random() < 0.25:
        methods.append({'name': 'm1', 'specs': _gen_specs(rng)})
    for m in methods:
        if rng.random() < 0.3:
            m['raises'] = sorted(rng.sample(range(1, 7), rng.randint(1, 3)))
    sh = _Shadow()
    steps = []

    def emit_new(cls, attach=True, holder_root=None, defaults=None):
        kw = {'name': rng.choice([0, 0, 1]), 'x': rng.choice([0, 1, 2]), 'y': rng.choice([0, 1, 2])}
        used = list((defaults or {}).values())
        kw.update(defaults or {})
        for p in OBJP:
            if p in (defaults or {}):
                continue
            if attach and rng.random() < 0.5:
                cand = [i for i in range(len(sh.cls)) if sh.parent[i] is None and sh.cls[i] == 0 and i not in used]
                if cand:
                    kw[p] = rng.choice(cand)
                    used.append(kw[p])
        st = _new(cls, **kw)
        if defaults:
            st['use_default'] = sorted(defaults)
        steps.append(st)
        return sh.new(st)

    for _ in range(rng.randint(2, 5)):
        emit_new(0)
    # sometimes a sub-object is the CLASS-LEVEL default of the owner's parameter (an object made before the class,
    # shared, instantiate=False) and the owner is constructed without passing it
    dflt = {}
    if rng.random() < 0.25:
        cand = [i for i in range(len(sh.cls)) if sh.parent[i] is None]
        for p in OBJP:
            if cand and rng.random() < 0.6:
                dflt[p] = rng.choice(cand)
                cand.remove(dflt[p])
    top = emit_new(1, defaults=dflt)
    for _ in range(rng.randint(6, 20)):
        r = rng.random()
        reach = sh.reachable(top)
        detached = [i for i in range(len(sh.cls)) if i not in reach]
        if r < 0.12:
            emit_new(0, attach=rng.random() < 0.6)
        elif r < 0.30:
            # a batch of assignments on one object: param.update / batch_call_watchers
            holder = rng.choice(reach) if (rng.random() < 0.9 or not detached) else rng.choice(detached)
            keys = rng.sample(OBJP + INTP, rng.randint(2, 3))
            kvs = []
            used = []
            for k in keys:
                if k in OBJP:
                    old = sh.vals[holder][k]
                    q = rng.random()
                    if q < 0.15:
                        v = None
                    else:
                        # often an equal-valued replacement: a fresh object copying the attached one's values
                        kw = {'name': rng.choice([0, 0, 1]), 'x': rng.choice([0, 1, 2]), 'y': rng.choice([0, 1, 2])}
                        if old is not None and rng.random() < 0.5:
                            ov = sh.vals[old['ref']]
                            kw = {'name': ov['name'], 'x': ov['x'], 'y': ov['y']}
                        st = _new(0, **kw)
                        steps.append(st)
                        v = _ref(sh.new(st))
                else:
                    v = sh.vals[holder][k] if rng.random() < 0.25 else rng.choice([0, 1, 2, 3])
                kvs.append([k, v])
            via = rng.choice(['update', 'update', 'batch', 'batch', 'discard'])
            objk = [k for k in keys if k in OBJP]
            if via == 'batch' and objk and rng.random() < 0.4:
                # the same sub-object parameter assigned a second time inside the block
                st2 = _new(0, name=rng.choice([0, 0, 1]), x=rng.choice([0, 1, 2]), y=rng.choice([0, 1, 2]))
                steps.append(st2)
                kvs.append([rng.choice(objk), _ref(sh.new(st2))])
            if via == 'discard':
                st = {'op': 'discard', 'o': holder, 'kvs': kvs[:rng.randint(1, len(kvs))]}
            else:
                st = {'op': 'update', 'o': holder, 'kvs': kvs, 'via': via}
            steps.append(st)
            _apply(sh, st)
        elif r < 0.55:
            # attach / replace / detach at some level
            holder = rng.choice(reach) if (rng.random() < 0.85 or not detached) else rng.choice(detached)
            # prefer parameters that lie on a declared path
            onpath = [s['path'][0] for m in methods for s in m['specs']] if holder == top else OBJP
            p = rng.choice(onpath) if rng.random() < 0.7 else rng.choice(OBJP)
            free = sh.free(holder)
            q = rng.random()
            if q < 0.12 and sh.vals[holder][p] is not None and all(sp['leaf'] in INTP for m in methods for sp in m['specs']):
                # the object already attached is assigned again (only with integer leaves: the comparator never finds a
                # Parameterized equal, not even to itself, so object-valued leaves below a re-attached object always "change")
                v = sh.vals[holder][p]
            elif q < 0.3 or not free:
                v = None
            else:
                v = _ref(rng.choice(free))
            steps.append(_set(holder, p, v))
            sh.set(holder, p, v)
        else:
            pool = reach if (rng.random() < 0.75 or not detached) else detached
            o = rng.choice(pool)
            p = rng.choice(INTP)
            v = sh.vals[o][p] if rng.random() < 0.2 else rng.choice([0, 1, 2, 3])
            steps.append(_set(o, p, v))
            sh.set(o, p, v)
    # where the methods are declared (own class / all inherited / the first one inherited) and whether the
    # sub-objects / the owner are falsy: neither may make a difference
    nbase = rng.choice([0, 0, 0, len(methods), 1])
    falsy = (rng.random() < 0.2, rng.random() < 0.15)
    cl = _classes(methods, nbase, falsy)
    if dflt:
        cl[1]['defaults'] = {p: _ref(d) for p, d in dflt.items()}
    return {'classes': cl, 'steps': steps}


def _directed():
    # p5: two dependencies through the same sub-object
    yield {'classes': _classes([_m('m0', 'a.x', 'a.y')]), 'steps': [
        _new(0, x=1, y=1), _new(0, x=1, y=2), _new(0, x=5, y=2), _new(0, x=5, y=7), _new(0, x=5, y=7), _new(1),
        _set(5, 'a', _ref(0)), _set(0, 'x', 2), _set(5, 'a', _ref(1)), _set(0, 'x', 9), _set(5, 'a', _ref(2)),
        _set(5, 'a', _ref(3)), _set(5, 'a', _ref(4)), _set(4, 'x', 1), _set(5, 'a', None)]}
    # p23: depth 2
    yield {'classes': _classes([_m('m0', 'a.b.x')]), 'steps': [
        _new(0, x=1), _new(0, b=0), _new(1, a=1), _set(0, 'x', 2), _new(0, x=5), _set(1, 'b', _ref(3)),
        _new(0, x=5), _new(0, b=4), _set(2, 'a', _ref(5)), _set(3, 'x', 9), _new(0, x=100), _set(1, 'b', _ref(6)),
        _set(4, 'x', 6), _new(0, x=7), _new(0, b=7), _set(2, 'a', _ref(8)), _set(8, 'b', None), _set(8, 'b', _ref(7))]}
    # different sub-objects
    yield {'classes': _classes([_m('m0', 'a.x', 'b.y')]), 'steps': [
        _new(0), _new(0), _new(0, x=4), _new(1, a=0, b=1), _set(1, 'y', 1), _set(3, 'a', _ref(2)), _set(1, 'y', 2),
        _new(0, y=9), _set(3, 'b', _ref(4)), _set(2, 'x', 7)]}
    # same root, different depths
    yield {'classes': _classes([_m('m0', 'a.x', 'a.b.y')]), 'steps': [
        _new(0, y=1), _new(0, b=0), _new(1, a=1), _new(0, y=2), _new(0, b=3), _set(2, 'a', _ref(4)),
        _new(0, y=5), _set(4, 'b', _ref(5)), _set(4, 'x', 5), _set(5, 'y', 6)]}
    # a.param
    yield {'classes': _classes([_m('m0', 'a.param')]), 'steps': [
        _new(0, x=1), _new(1, a=0), _new(0, x=1), _set(1, 'a', _ref(2)), _new(0, x=1, y=3), _set(1, 'a', _ref(3)),
        _set(3, 'y', 4), _set(3, 'y', 4), _new(0, name=1, x=1, y=4), _set(1, 'a', _ref(4)), _new(0), _set(4, 'b', _ref(5)),
        _set(4, 'b', _ref(5)), _set(1, 'a', None), _set(4, 'x', 3)]}
    # depth 3, two methods
    yield {'classes': _classes([_m('m0', 'a.b.a.x'), _m('m1', 'a.y', 'b.x')]), 'steps': [
        _new(0, x=1), _new(0, a=0), _new(0, b=1), _new(1, a=2), _set(0, 'x', 2), _new(0, x=2), _set(1, 'a', _ref(4)),
        _set(0, 'x', 3), _set(4, 'x', 3), _set(2, 'y', 1), _new(0, x=1), _set(3, 'b', _ref(5)), _set(2, 'y', 2),
        _set(5, 'x', 2), _set(2, 'b', None), _set(2, 'b', _ref(1))]}
    # a dependent method raises while a nested object is replaced: the dependencies are rebound all the same
    yield {'classes': _classes([_m('m0', 'a.b.x', raises=[2])]), 'steps': [
        _new(0, x=1), _new(0, b=0), _new(1, a=1), _set(0, 'x', 5), _new(0, x=2), _set(1, 'b', _ref(3)),
        _set(3, 'x', 7), _set(0, 'x', 9), _set(3, 'x', 8)]}
    yield {'classes': _classes([_m('m0', 'a.x', 'a.y', raises=[1, 3]), _m('m1', 'a.y', raises=[2])]), 'steps': [
        _new(0, x=1), _new(0, x=2, y=2), _new(1, a=0), _set(2, 'a', _ref(1)), _set(1, 'y', 3), _set(0, 'y', 4),
        _set(1, 'y', 5), _set(2, 'a', _ref(0)), _set(0, 'x', 3)]}
    # one watcher covering several parameters of a sub-object; batched changes whose FIRST event is an
    # equal-valued replacement while another one really changes
    yield {'classes': _classes([_m('m0', 'a.a.x', 'a.b.x', 'a.y')]), 'steps': [
        _new(0, x=1), _new(0, x=10), _new(0, a=0, b=1, y=100), _new(1, a=2),
        _new(0, x=1), _new(0, x=12), _upd(2, a=_ref(4), b=_ref(5)),
        _new(0, x=1), _upd(2, a=_ref(6), y=101),
        _new(0, x=1), _upd(2, 'batch', a=_ref(7), y=102),
        _new(0, x=1), _new(0, x=12), _upd(2, a=_ref(8), b=_ref(9)),
        _set(8, 'x', 2), _set(9, 'x', 13), _set(5, 'x', 0)]}
    # two top-level sub-objects of one method replaced in a single batch
    yield {'classes': _classes([_m('m0', 'a.x', 'b.y')]), 'steps': [
        _new(0, x=1), _new(0, y=1), _new(1, a=0, b=1), _new(0, x=2), _new(0, y=2), _upd(2, a=_ref(3), b=_ref(4)),
        _new(0, x=2), _new(0, y=3), _upd(2, a=_ref(5), b=_ref(6)), _new(0, x=2), _new(0, y=3), _upd(2, 'batch', a=_ref(7), b=_ref(8))]}
    # a dependency on a sub-object parameter itself and, declared after it, on a leaf beneath it (and the
    # opposite order): replacing the sub-object by a different one with the same leaf value must fire
    for specs in (('a.b', 'a.b.x'), ('a.b.x', 'a.b')):
        yield {'classes': _classes([_m('m0', *specs)]), 'steps': [
            _new(0, x=1), _new(0, b=0), _new(1, a=1), _new(0, x=1), _set(1, 'b', _ref(3)), _set(3, 'x', 2),
            _new(0, x=5), _set(1, 'b', _ref(4)), _set(1, 'b', None), _set(0, 'x', 9), _new(0, x=5), _set(1, 'b', _ref(5))]}
    # the dependent method is only inherited by the owner's class / declared partly on a base class: replacing
    # the root sub-object and nested ones re-resolves exactly as on the declaring class
    for nbase in (1, 2):
        yield {'classes': _classes([_m('m0', 'a.x'), _m('m1', 'a.b.y', 'b.x')], nbase=nbase), 'steps': [
            _new(0, x=1), _new(0, y=1), _new(0, x=1, b=1), _new(1, a=2, b=0), _new(0, x=2), _set(3, 'a', _ref(4)),
            _set(4, 'x', 3), _set(2, 'x', 9), _new(0, x=3), _set(3, 'a', _ref(5)), _set(5, 'x', 4), _set(4, 'x', 0),
            _new(0, y=5), _set(5, 'b', _ref(6)), _set(6, 'y', 6), _new(0, x=1), _set(3, 'b', _ref(7)), _set(7, 'x', 2),
            _set(0, 'x', 5)]}
    # the attached sub-object is the class-level default of the parameter (declared on the class / on the base class the
    # method is inherited from); it is followed and replaced like any other
    for nbase in (0, 1):
        cl = _classes([_m('m0', 'a.x', 'a.b.y')], nbase=nbase)
        cl[1]['defaults'] = {'a': _ref(1)}
        yield {'classes': cl, 'steps': [
            _new(0, y=1), _new(0, x=1, b=0), dict(_new(1, a=1), use_default=['a']), _set(1, 'x', 2), _set(0, 'y', 2),
            _new(0, x=2), _set(2, 'a', _ref(3)), _set(1, 'x', 9), _set(3, 'x', 3), _set(2, 'a', _ref(1)), _set(1, 'x', 4)]}
    # falsy objects (empty containers) on the path, as owner and as holders of intermediate links
    for falsy in ((True, False), (False, True), (True, True)):
        yield {'classes': _classes([_m('m0', 'a.b.x')], falsy=falsy), 'steps': [
            _new(0, x=1), _new(0, b=0), _new(1, a=1), _set(0, 'x', 2), _new(0, x=2), _set(1, 'b', _ref(3)),
            _set(3, 'x', 3), _set(0, 'x', 50), _new(0, x=7), _set(1, 'b', _ref(4)), _set(4, 'x', 8),
            _new(0, x=8), _new(0, b=5), _set(2, 'a', _ref(6)), _set(5, 'x', 9), _set(4, 'x', 1)]}
    # one root assigned twice inside one batch block (clean-tree observations: called twice / a real change skipped)
    yield {'classes': _classes([_m('m0', 'a.x')]), 'steps': [
        _new(0, x=0), _new(1, a=0), _new(0, x=1), _new(0, x=2), _upd2(1, ['a', _ref(2)], ['a', _ref(3)]), _set(3, 'x', 5)]}
    yield {'classes': _classes([_m('m0', 'a.x')]), 'steps': [
        _new(0, x=1), _new(1, a=0), _new(0, x=0), _new(0, x=0), _upd2(1, ['a', _ref(2)], ['a', _ref(3)]), _set(3, 'x', 5)]}
    # discard_events: on the owner (own dependencies are re-resolved by the setter), on an intermediate object
    yield {'classes': _classes([_m('m0', 'a.b.x')]), 'steps': [
        _new(0, x=0), _new(0, b=0), _new(1, a=1), _new(0, x=0), _new(0, b=3),
        {'op': 'discard', 'o': 2, 'kvs': [['a', _ref(4)]]}, _set(3, 'x', 1), _set(0, 'x', 7),
        _new(0, x=1), {'op': 'discard', 'o': 4, 'kvs': [['b', _ref(5)]]}, _set(5, 'x', 2), _set(3, 'x', 9)]}
    # assigning the object that is already attached re-resolves the path: after something below it changed without
    # the owner being told (discard_events on the middle object) the owner follows the current objects again
    yield {'classes': _classes([_m('m0', 'a.b.x')]), 'steps': [
        _new(0, x=1), _new(0, b=0), _new(1, a=1), _new(0, x=1), {'op': 'discard', 'o': 1, 'kvs': [['b', _ref(3)]]},
        _set(2, 'a', _ref(1)), _set(3, 'x', 5), _set(0, 'x', 9), _set(2, 'a', _ref(1)), _set(3, 'x', 6)]}
    # rejected values end the history
    yield {'classes': _classes([_m('m0', 'a.x')]), 'steps': [_new(0), _new(1, a=0), _set(1, 'a', 3)]}
    yield {'classes': _classes([_m('m0', 'a.x')]), 'steps': [_new(0), _new(1, a=0), _set(0, 'name', 1)]}


def cases(rng, tier, worker, nworkers):
    if worker == 0:
        for f in sorted(glob.glob(os.path.join(os.path.dirname(__file__), '..', '..', 'corpus', 'C07', '*.json'))):
            yield json.load(open(f))['case']
        for c in _directed():
            yield c
    n = 900 if tier == 'quick' else 20000 // nworkers
    for _ in range(n):
        yield _gen_case(rng)


# ------------------------------------------------------------------ reporting

def _apply(sh, st):
    if st['op'] == 'new':
        return sh.new(st)
    if st['op'] in ('update', 'discard'):
        for k, v in st['kvs']:
            sh.set(st['o'], k, v)
    else:
        sh.set(st['o'], st['p'], st['v'])


def _replay_shadow(case, upto):
    sh = _Shadow()
    for st in case['steps'][:upto]:
        _apply(sh, st)
    return sh


def tags(case, impl):
    t = [f'steps={min(len(case["steps"]) // 5 * 5, 25)}']
    c1 = case['classes'][1]
    t.append('decl:inherited' if c1.get('nbase') else 'decl:own')
    if any(c.get('falsy') for c in case['classes']):
        t.append('objects:falsy')
    if c1.get('defaults'):
        t.append('attach:class-default')
    sh = _Shadow()
    tops = []
    ok = [x for x in impl.get('steps', []) if not x.get('err')] if isinstance(impl, dict) else []
    for i, st in enumerate(case['steps'][:len(ok)]):
        if st['op'] == 'new':
            o = sh.new(st)
            if st['cls'] == 1:
                tops.append(o)
            continue
        if st['op'] in ('update', 'discard'):
            t.append('step:discard' if st['op'] == 'discard' else 'step:update' if st.get('via') != 'batch' else 'step:batch')
            ks = [k for k, _ in st['kvs']]
            if len(set(ks)) < len(ks):
                t.append('step:batch-repeated-key')
            _apply(sh, st)
            continue
        reach = [x for tp in tops for x in sh.reachable(tp)]
        old = sh.vals[st['o']][st['p']]
        if st['p'] in OBJP:
            if st['o'] in reach:
                if old is None and st['v'] is not None:
                    t.append('step:attach')
                elif old is not None and st['v'] is None:
                    t.append('step:detach')
                elif old is not None and st['v'] is not None:
                    t.append('step:reattach-same' if old == st['v'] else 'step:replace')
                    a, b = sh.vals[old['ref']], sh.vals[st['v']['ref']]
                    if all(a[k] == b[k] for k in INTP):
                        t.append('step:replace-equal')
        elif st['p'] in INTP:
            t.append('step:leaf-attached' if st['o'] in reach else 'step:leaf-detached')
        sh.set(st['o'], st['p'], st['v'])
    return sorted(set(t))


def nontrivial(case, impl, resp):
    if not isinstance(impl, dict) or 'steps' not in impl:
        return False
    return resp.get('checked_steps', 0) >= 3 and any(st.get('calls') for st in impl['steps'])


def shrink(case):
    steps = case['steps']
    # dropping a step must keep object numbering: only `set` steps and trailing steps are dropped
    for i in range(len(steps) - 1, -1, -1):
        if steps[i]['op'] in ('update', 'discard') and len(steps[i]['kvs']) > 1:
            for j in range(len(steps[i]['kvs'])):
                kv = steps[i]['kvs']
                yield dict(case, steps=steps[:i] + [dict(steps[i], kvs=kv[:j] + kv[j + 1:])] + steps[i + 1:])
        if steps[i]['op'] in ('set', 'update', 'discard'):
            yield dict(case, steps=steps[:i] + steps[i + 1:])
    if steps:
        yield dict(case, steps=steps[:-1])
    ms = case['classes'][1]['methods']
    if len(ms) > 1:
        for j in range(len(ms)):
            yield _with_methods(case, ms[:j] + ms[j + 1:])
    for j, m in enumerate(ms):
        if len(m['specs']) > 1:
            for s in range(len(m['specs'])):
                m2 = dict(m, specs=m['specs'][:s] + m['specs'][s + 1:])
                yield _with_methods(case, ms[:j] + [m2] + ms[j + 1:])
    if any(c.get('defaults') for c in case['classes']):
        # the class-level defaults passed explicitly instead (same object graph)
        yield dict(case, classes=[{q: v for q, v in c.items() if q != 'defaults'} for c in case['classes']],
                   steps=[{q: v for q, v in st.items() if q != 'use_default'} for st in steps])
    for k, c in enumerate(case['classes']):
        for flag in ('nbase', 'falsy'):
            if c.get(flag):
                c2 = {q: v for q, v in c.items() if q != flag}
                yield dict(case, classes=[c2 if i == k else x for i, x in enumerate(case['classes'])])


_WHY = re.compile(r'(fires|detached|leftover|missing) step=(\d+) owner=(\d+) method=(\S+)')


def _chain(sh, t, spec):
    """objects visited while resolving the spec from t (t first), as far as it resolves"""
    out, cur = [t], t
    for n in spec['path']:
        v = sh.vals[cur][n]
        if not isinstance(v, dict):
            break
        cur = v['ref']
        out.append(cur)
    return out


def classify(case, impl, fail):
    """one finding is recorded for C07: an object attached below itself along a declared path
    (`_resolve_dynamic_deps` locates a holder by the FIRST position of the object in the chain).  The two
    defects found earlier (group[0]-only filter/callback, rebinding one root dropping the watchers below the
    others) were fixed: they classify to None, a regression is a violation."""
    if fail.get('kind') != 'counterexample':
        return None
    why = str(fail.get('why', ''))
    if 'model differs from implementation' in why:
        return None
    m = _WHY.search(why)
    if not m:
        return None
    kind, step, owner, name = m.group(1), int(m.group(2)), int(m.group(3)), m.group(4)
    meth = next((x for c in case['classes'] for x in c['methods'] if x['name'] == name), None)
    if meth is None or step >= len(case['steps']):
        return None
    # an exception raised by ANOTHER dependent method left the setter's dispatch loop before the watcher
    # carrying this method's rebinding callback was reached: this method keeps its watchers on the old path
    st_obs = impl.get('steps', [])[step] if isinstance(impl, dict) and step < len(impl.get('steps', [])) else {}
    if kind in ('leftover', 'missing') and st_obs.get('raised') and st_obs.get('calls'):
        raiser = st_obs['calls'][-1][1]
        if raiser != name and len([x for c in case['classes'] for x in c['methods']]) >= 2:
            return 'raise-in-one-method-skips-rebinding-of-another'
    # two (or more) root attributes of the method assigned on the owner in ONE batch: the watcher rebuilt by
    # the first assignment's _update_deps is queued, the second assignment's _update_deps removes it and
    # queues its own — the flush runs both, the method is called twice
    st = case['steps'][step]
    mc = re.search(r'expected(?:=|<=)1 got=(\d+)', why)
    if kind == 'fires' and st['op'] == 'update' and mc:
        roots = {sp['path'][0] for sp in meth['specs']}
        hit = [k for k, _ in st['kvs'] if k in roots]
        # (the same root assigned twice in a batch block counts as two)
        if st['o'] == owner and 'expected=0' not in why and len(hit) >= 2 and 2 <= int(mc.group(1)) <= len(hit):
            return 'batch-two-roots-stale-queued-watcher'
    # a sub-object parameter on a declared path assigned more than once in ONE batch block: the flush hands every
    # watcher the LAST event of the parameter, whose `old` is the intermediate value — _skip_event compares the
    # intermediate with the final sub-object instead of the one attached before the batch: a real change is
    # skipped, or a call is made although the reached value is what it was
    if kind == 'fires' and st['op'] == 'update' and st.get('via') == 'batch':
        ks = [k for k, _ in st['kvs']]
        rep = {k for k in ks if ks.count(k) > 1}
        sh = _replay_shadow(case, step)
        for spec in meth['specs']:
            ch = _chain(sh, owner, spec)
            for j, o in enumerate(ch):
                if o == st['o'] and j < len(spec['path']) and spec['path'][j] in rep:
                    return 'batch-repeated-key-compares-intermediate-object'
    # `with discard_events(o): o.k = …` on an object BELOW the owner, on a declared path: the owner's watcher on
    # (o, k) carries the rebinding callback; it is dropped from the queue with the event, so the owner stays
    # bound to the detached object
    if kind in ('leftover', 'missing') and st['op'] == 'discard' and st['o'] != owner:
        sh = _replay_shadow(case, step)
        for spec in meth['specs']:
            ch = _chain(sh, owner, spec)
            for j, o in enumerate(ch):
                if j > 0 and o == st['o'] and j < len(spec['path']) and any(k == spec['path'][j] for k, _ in st['kvs']):
                    return 'discard-events-on-intermediate-loses-rebinding'
    # the graph before and after the failing step
    for upto in (step, step + 1):
        sh = _replay_shadow(case, upto)
        if owner >= len(sh.cls):
            continue
        for spec in meth['specs']:
            ch = _chain(sh, owner, spec)
            if len(set(ch)) < len(ch):
                return 'object-attached-below-itself'
    return None
