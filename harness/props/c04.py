"""C04 — watcher dispatch (shared model lean/ParamVerif/Dispatch, shared driver Driver/Dispatch.lean)."""
import glob
import json
import os

from .. import dispatch_impl as D

ID = 'C04'
PROPS_FILE = 'ParamVerif/Props/C04.lean'
DRIVER = 'Driver/Dispatch.lean'
SOURCES = [('param/parameterized.py', 'Parameter.__set__'), ('param/parameterized.py', 'Parameter._trigger_event'), ('param/parameterized.py', 'Parameter._held_value'), ('param/parameterized.py', 'Parameters._call_watcher'),
           ('param/parameterized.py', 'Parameters._batch_call_watchers'), ('param/parameterized.py', 'Parameters._execute_watcher'),
           ('param/parameterized.py', 'Parameters._update'), ('param/parameterized.py', 'Parameters.trigger'),
           ('param/parameterized.py', 'Parameters._update_event_type'), ('param/parameterized.py', 'batch_call_watchers'),
           ('param/parameterized.py', '_batch_call_watchers'), ('param/parameterized.py', 'discard_events'),
           ('param/parameterized.py', '_ParametersRestorer'), ('param/parameterized.py', 'Comparator')]
BUDGET_S = {'quick': 50, 'thorough': 420}
TRUSTED = [
    'statements in lean/ParamVerif/Props/C04.lean',
    'spec-side oracle lean/ParamVerif/Dispatch/Spec.lean (decidable node-local restatement of the theorem conclusions over the observation tree)',
    'harness/dispatch_impl.py (statement interpreter on the real library; callbacks log enter/exit, events, snapshot; reads _BATCH_WATCH/_TRIGGER/_events/_state_watchers and the per-parameter watcher lists for observation only; caller frame name distinguishes direct dispatch from flush)',
    'correspondence is differential testing: model = code only on the programs executed',
    'CPython: sorted() stability, try/finally, generator-based context managers',
]
ASSUMPTIONS = [
    'one Parameterized object (an instance or the class itself), Integer and Event parameters (equality = integer equality; the Comparator is modelled separately in C03); value watchers in args and kwargs mode, watchers of the Parameter attributes precedence/step',
    'several objects at once (a callback assigning to another object), async callbacks, Skip, depends() and references are outside this model (C06-C10 have their own)',
    'callback cascades are acyclic (a body assigns only parameters of lower index than those its watchers watch); callbacks may (un)register watchers, the watchers they register have empty callbacks',
    'a Watcher object is identified by the order of its creation (uid): the model and the harness both count registrations',
    'values are integers, plus (on parameters without bounds) callables held by the Dynamic numeric parameter: one fixed function object per model value 100+k producing k; Comparator.is_equal has no rule for functions, so they never compare equal (Dispatch.same)',
    'class-level assignment of a default while the program works on an instance (clsSet) only for ordinary parameters and only when the case has one object; the instance follows the class default until it is assigned itself (World.owned)',
]
RULE = ('programs whose statements are nested batch/update/discard/trigger/update-context blocks (depth <=3) around assignments, '
        'repeated assignments to one parameter, multi-parameter watchers, mixed onlychanged; the oracle checks that no callback runs '
        'inside an open batch and that the first flush round after every outermost batch/update/trigger runs each qualifying watcher '
        'once, in precedence order, with one final-valued event per qualifying parameter. non-trivial = at least one callback ran')
COVERAGE_TARGETS = ['call:flush', 'stmt:batch', 'stmt:batch:batched', 'stmt:discard', 'stmt:discard:batched', 'stmt:trigger',
                    'stmt:trigger:batched', 'stmt:update', 'stmt:updateCtx', 'stmt:key:batched']
PROP = 'C04'
FAULTS = False

run_impl = D.run_impl
compare = D.compare
crash_excused = D.crash_excused
tags = D.tags
nontrivial = D.nontrivial
shrink = D.shrink


def cases(rng, tier, worker, nworkers):
    if worker == 0:
        for f in sorted(glob.glob(os.path.join(os.path.dirname(__file__), '..', '..', 'corpus', 'dispatch', '*.json'))):
            yield dict(json.load(open(f))['case'], prop=PROP)
    n = 1200 if tier == 'quick' else 240000 // nworkers
    for i in range(n):
        yield D.gen_case(rng, PROP, faults=FAULTS or (i % 5 == 0), size=8 if i % 3 else 14)


def classify(case, impl, fail):
    why = str(fail.get('why', ''))
    if 'also received the unchanged event' in why and 'queued on behalf of another watcher' in why:
        return 'flush-foreign-same-value-event'
    return None
