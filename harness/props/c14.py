"""C14 — constant and read-only parameters cannot be rebound after construction.
Correspondence: Lean `ParamVerif.Store.Const.step` vs the real setter guard / edit_constant / constructor."""
import itertools

ID = 'C14'
PROPS_FILE = 'ParamVerif/Props/C14.lean'
DRIVER = 'Driver/C14.lean'
SOURCES = [('param/parameterized.py', 'Parameter.__set__'), ('param/parameterized.py', 'Parameter.__init__'),
           ('param/parameterized.py', 'edit_constant'), ('param/parameterized.py', 'as_uninitialized'),
           ('param/parameterized.py', 'instance_descriptor'), ('param/parameterized.py', '_instantiated_parameter'),
           ('param/parameterized.py', '_instantiate_param_obj'), ('param/parameterized.py', 'Parameterized.__init__'),
           ('param/parameterized.py', 'Parameters._setup_params'), ('param/parameterized.py', 'Parameters._instantiate_param'),
           ('param/parameterized.py', 'Parameters._generate_name'), ('param/parameterized.py', 'Parameters._set_name'),
           ('param/parameterized.py', 'Parameters.update'), ('param/parameterized.py', 'Parameters._update'),
           ('param/parameterized.py', 'Parameters.__getitem__'),
           ('param/parameterized.py', 'ParameterizedMetaclass.__setattr__'),
           ('param/parameterized.py', 'ParameterizedMetaclass.get_param_descriptor')]
BUDGET_S = {'quick': 45, 'thorough': 400}
EXHAUSTIVE = {'quick': False, 'thorough': False}
TRUSTED = [
    'statements in lean/ParamVerif/Props/C14.lean',
    'spec-side oracle lean/ParamVerif/Store/ConstSpec.lean (decidable restatement of the theorem conclusions on observations)',
    'harness/props/c14.py adapter (after every top-level step: identity of getattr(obj, n) and of values[n] for every instance/name, '
    'getattr_static Parameter of every class/name, constant/readonly/default of every Parameter object ever created, exception class)',
    'correspondence is differential testing: model = code only on the histories executed',
    'CPython identity (`is`), attribute lookup along the MRO (sent with the case), dict order, copy.copy, contextlib generators',
]
ASSUMPTIONS = [
    'single inheritance (chains, trees): with multiple inheritance a class-level assignment on one base shadows the Parameter another base contributes (plain Python attribute shadowing)',
    'declared Parameters are plain param.Parameter(default=<object>, constant=, readonly=, allow_refs=) with all flags explicit; values are str objects identified by creation index '
    '(pairs of equal but non-identical strings in the pool), None (one pool index) and one int object that only `name` (a String) rejects with ValueError — validation runs before the guard',
    'asynchronous references: only `async def f(): return v` assigned with no event loop running (resolved synchronously inside the assignment) to allow_refs=True parameters; '
    'a running loop, async generators and Parameter/rx references are outside the model (C08/C10); one further object is a `param.depends` function raising param.Skip, '
    'used only as a constructor keyword (a reference with nothing to deliver yet: an allow_refs parameter stores nothing); later successful assignments to the '
    'allow_refs parameters of such an instance (relinking instantiates the Parameters of its other links) are redirected by the generator and outside the model',
    'the namespace cache coincides with attribute lookup (C13; no add_parameter here); watchers, references, per_instance=False and '
    'no_instance_params classes, Parameter-valued class assignment and edits of `readonly` are outside the model',
    'blocks are observed as one step (the state inside a body is not observed)',
    'as_uninitialized on a constructed object is exercised through obj.param._set_name(v) / obj.param._generate_name() (what the per-instance deep copy of a '
    'Parameterized default of an instantiate=True parameter and ParameterizedFunction.__new__ do); a non-string value makes the wrapped call raise ValueError and the object must stay locked',
    'failingEntry: a raising watcher of the `constant` attribute of one per-instance Parameter at the entry of an otherwise empty edit_constant block; other watchers are outside the model',
]
RULE = ('directed prefix (the design-round scenarios, the repaired edit_constant defect, nested / failing blocks, copies created early/late/inside, '
        'equal-but-not-identical objects, class-level sets on declaring class and subclass, name) + all histories of length <=2 (<=3 in thorough, '
        'third position restricted) over a fixed alphabet after a fixed two-instance prefix + random histories of length <=22 with bodies nested to '
        'depth 3 (80% of bodies touch only the block\'s own instance). After every top-level step the full observation is compared with the model '
        'and checked by the oracle. non-trivial = at least one forbidden attempt was rejected or one edit_constant block ran, with >=1 checked step; '
        'distinct = distinct canonical case')
COVERAGE_TARGETS = [
    'instSet:TypeError:constant:makes-copy', 'instSet:TypeError:constant:has-copy', 'instSet:ok:constant:has-copy', 'instSet:TypeError:readonly:makes-copy',
    'instSet:ok:plain:makes-copy', 'instSet:ok:plain:has-copy', 'instSetSame:ok:constant', 'instSetSame:TypeError:readonly',
    'update:ok', 'update:TypeError', 'update:ValueError', 'clsSet:ok:own:constant', 'clsSet:ok:copy-on-write:constant', 'clsSet:TypeError:own:readonly',
    'clsSet:TypeError:copy-on-write:readonly', 'clsSet:ok:own:plain', 'newInst:ok', 'newInst:ok:kwargs', 'newInst:TypeError:kwargs',
    'flag:ok:makes-copy', 'flag:ok:has-copy', 'clsFlag:ok', 'getParam:ok:makes-copy', 'getParam:KeyError:makes-copy',
    'block:ok:depth1', 'block:ok:depth2', 'block:RuntimeError:depth1', 'block:RuntimeError:depth2', 'block:TypeError:depth1', 'block:ok:depth3',
    'body:local', 'body:foreign-instance', 'body:class-set', 'body:copy-created-inside', 'assign:equal-not-identical', 'assign:identical',
    'shape:chain2', 'shape:chain3', 'shape:fork', 'shape:tree', 'default:None-constant', 'kwarg:silent-reference',
    'setName:ok', 'setName:ValueError:invalid', 'genName:ok', 'failingEntry:RuntimeError:constant', 'failingEntry:ok:plain',
    'instSet:ValueError:constant:makes-copy', 'instSetAsync:TypeError:constant', 'instSetAsync:ok:constant', 'instSetAsync:ok:plain', 'instSetAsync:skip:constant',
]

NAMES = ['c', 'r', 'v', 'a', 'b', 'name']
NPOOL = 10
NONE = NPOOL - 1     # the pool object with this index is None itself
BAD = NPOOL - 2      # the pool object with this index is an int: the String parameter `name` rejects it
SILENT = NPOOL       # one more object past the pool the generators draw values from: a `param.depends` function that raises
                     # param.Skip — a reference with nothing to deliver yet (only ever used as a constructor keyword)
SHAPES = {'chain2': [[], [0]], 'chain3': [[], [0], [1]], 'fork': [[], [0], [0]], 'tree': [[], [0], [0], [1]]}


def _mro(bases):
    ks = []
    for bs in bases:
        ks.append(type('M', tuple(ks[b] for b in bs) or (object,), {}))
    return [[ks.index(c) for c in k.__mro__ if c in ks] for k in ks]


_MRO = {k: _mro(v) for k, v in SHAPES.items()}
# root declares a constant, a read-only and a plain parameter, and a constant and a plain one with allow_refs=True
STD = [['c', True, False, 0, False], ['r', False, True, 2, False], ['v', False, False, 4, False],
       ['a', True, False, 6, True], ['b', False, False, 7, True]]
# the same with the constants left at a None default
STDN = [['c', True, False, NONE, False], ['r', False, True, 2, False], ['v', False, False, 4, False],
        ['a', True, False, NONE, True], ['b', False, False, 7, True]]


def _mk(shape, decls, steps):
    bases = SHAPES[shape]
    return {'shape': shape, 'names': NAMES, 'npool': NPOOL + 1, 'bad': [BAD, SILENT], 'silent': [SILENT],
            'classes': [{'bases': bases[k], 'mro': _MRO[shape][k], 'decl': decls[k]} for k in range(len(bases))],
            'steps': steps}


class _Stuck(Exception):
    pass


def run_impl(case):
    import inspect
    import param
    from param.parameterized import edit_constant
    names = case['names']
    # value objects: pool[2j] == pool[2j+1] but they are different objects
    okeep = [''.join(['v', str(k // 2)]) for k in range(case['npool'])]
    none_idx = case['npool'] - 1 - len(case.get('silent', []))
    okeep[none_idx] = None                   # a pool object that is None (a value, not "absent")
    for k in case.get('bad', []):
        okeep[k] = int('31337') + k           # not a string: rejected by `name` (a String), accepted by the others
    if case.get('silent'):
        class _Src(param.Parameterized):
            v = param.Parameter(0)
        _src = _Src()

        @param.depends(_src.param.v)
        def _silent(v):
            raise param.Skip
        for k in case['silent']:
            okeep[k] = _silent                # a reference with nothing to deliver yet
    ABSENT = object()
    oreg = {id(o): k for k, o in enumerate(okeep)}
    if len(oreg) != len(okeep):
        return {'crash': 'pool objects are not distinct'}
    preg, pkeep = {}, []

    def oid(o):
        if o is ABSENT:
            return None
        k = oreg.get(id(o))
        if k is None:
            k = oreg[id(o)] = len(okeep)
            okeep.append(o)
        return k

    def preg_add(p):
        preg[id(p)] = len(pkeep)
        pkeep.append(p)

    def pid(p):
        return None if p is None else preg.get(id(p), -1)

    try:
        classes, insts = [], []
        for k, cd in enumerate(case['classes']):
            ns = {}
            for n, const, ro, d, refs in cd['decl']:
                ns[n] = param.Parameter(default=okeep[d], constant=const, readonly=ro, allow_refs=refs)
                preg_add(ns[n])
            cls = type(f'K{k}', tuple(classes[b] for b in cd['bases']) or (param.Parameterized,), ns)
            classes.append(cls)
            if 'name' not in vars(cls):
                return {'crash': 'class has no own name Parameter'}
            preg_add(vars(cls)['name'])
            if oid(vars(cls)['name'].default) != case['npool'] + k:
                return {'crash': 'class-name object numbering'}
        for k, cd in enumerate(case['classes']):
            if [classes.index(c) for c in classes[k].__mro__ if c in classes] != cd['mro']:
                return {'crash': f'MRO of class {k} differs from the case'}

        def static(cls, n):
            st = inspect.getattr_static(cls, n, None)
            return st if isinstance(st, param.Parameter) else None

        def scan():
            # Parameter objects created inside param (copy-on-write, per-instance copies), in creation order:
            # one primitive statement creates either one class-level copy or copies in a single instance
            for cls in classes:
                for n, v in vars(cls).items():
                    if isinstance(v, param.Parameter) and id(v) not in preg:
                        preg_add(v)
            for o in insts:
                for n, v in o._param__private.params.items():
                    if id(v) not in preg:
                        preg_add(v)

        def inst(i):
            if i >= len(insts):
                raise _Stuck()
            return insts[i]

        def exec_op(op):
            o, res = op['op'], 'ok'
            try:
                if o == 'newInst':
                    x = classes[op['c']](**{n: okeep[v] for n, v in op['kw']})
                    insts.append(x)
                    oid(x.name)
                elif o == 'instSet':
                    x = inst(op['i'])
                    if type(x).get_param_descriptor(op['n'])[0] is None:
                        res = 'skip'
                    else:
                        own = x._param__private.params.get(op['n'])
                        gov = own if own is not None else type(x).get_param_descriptor(op['n'])[0]
                        if op.get('asref') and gov.allow_refs and (gov.constant or gov.readonly) and x._param__private.initialized \
                                and getattr(x, op['n']) is not okeep[op['v']]:
                            # the same assignment made with a REFERENCE that resolves to the object (a Parameter of a
                            # source object holding it), only where the governing Parameter is locked right now and the
                            # object is not the one held: the guard must refuse it as it refuses the plain object, and a
                            # refused assignment installs no link - the source is re-assigned straight away and the
                            # locked parameter must not follow it (the model knows nothing of the source)
                            src = _ref_source(okeep[op['v']])
                            refused = False
                            try:
                                setattr(x, op['n'], src.param.v)
                            except TypeError:
                                refused = True
                                raise
                            finally:
                                if refused:
                                    src.v = _Fresh()
                        else:
                            setattr(x, op['n'], okeep[op['v']])
                elif o == 'instSetSame':
                    x = inst(op['i'])
                    if type(x).get_param_descriptor(op['n'])[0] is None:
                        res = 'skip'
                    else:
                        setattr(x, op['n'], getattr(x, op['n']))
                elif o == 'instSetAsync':
                    x = inst(op['i'])
                    desc = type(x).get_param_descriptor(op['n'])[0]
                    own = x._param__private.params.get(op['n'])
                    gov = own if own is not None else desc
                    if gov is None or not gov.allow_refs:
                        res = 'skip'
                    else:
                        result = okeep[op['v']]

                        async def later():
                            return result
                        # no running loop: param's async_executor creates a loop and resolves the reference inside
                        # the assignment; the loop is closed here (param leaves that to the garbage collector)
                        import asyncio
                        made, orig = [], asyncio.new_event_loop

                        def recording():
                            made.append(orig())
                            return made[-1]
                        asyncio.new_event_loop = recording
                        try:
                            setattr(x, op['n'], later)
                        finally:
                            asyncio.new_event_loop = orig
                            for lp in made:
                                lp.close()
                elif o == 'update':
                    inst(op['i']).param.update(**{n: okeep[v] for n, v in op['kvs']})
                elif o == 'clsSet':
                    if classes[op['c']].get_param_descriptor(op['n'])[0] is None:
                        res = 'skip'
                    else:
                        setattr(classes[op['c']], op['n'], okeep[op['v']])
                elif o == 'flag':
                    inst(op['i']).param[op['n']].constant = op['b']
                elif o == 'clsFlag':
                    classes[op['c']].param[op['n']].constant = op['b']
                elif o == 'getParam':
                    inst(op['i']).param[op['n']]
                elif o == 'setName':
                    inst(op['i']).param._set_name(okeep[op['v']])      # as_uninitialized on a constructed object
                elif o == 'genName':
                    x = inst(op['i'])
                    x.param._generate_name()
                    oid(x.name)
                elif o == 'failingEntry':
                    x = inst(op['i'])

                    def boom(event):
                        raise RuntimeError('watcher of the constant flag')
                    w = x.param.watch(boom, op['n'], what='constant')     # ValueError for an unknown name
                    try:
                        with edit_constant(x):
                            pass
                    finally:
                        x.param.unwatch(w)
                elif o == 'raise':
                    raise RuntimeError('body')
                elif o == 'block':
                    with edit_constant(inst(op['i'])):
                        for b in op['body']:
                            exec_op(b)
                else:
                    raise AssertionError(o)
            finally:
                if o != 'block':
                    scan()
            return res

        def observe(res):
            return {'res': res,
                    'params': [[bool(p.constant), bool(p.readonly), oid(p.default)] for p in pkeep],
                    'cls': [[pid(static(c, n)) for n in names] for c in classes],
                    'inst': [{'c': classes.index(type(x)),
                              'rows': [[oid(getattr(x, n)) if static(type(x), n) is not None else None,
                                        oid(x._param__private.values.get(n, ABSENT)), pid(x._param__private.params.get(n))]
                                       for n in names]} for x in insts]}

        out = {'init': observe('init'), 'steps': []}
        for op in case['steps']:
            try:
                res = exec_op(op)
            except (TypeError, ValueError, KeyError, RuntimeError) as e:
                res = type(e).__name__
            except _Stuck:
                res = 'stuck'
            out['steps'].append(observe(res))
        return out
    except Exception as e:  # the views themselves blew up: report, do not hide
        return {'crash': f'{type(e).__name__}: {e}'[:300]}


# ---------------------------------------------------------------- generation

def B(i, *body):
    return {'op': 'block', 'i': i, 'body': list(body)}


def S(i, n, v):
    return {'op': 'instSet', 'i': i, 'n': n, 'v': v}


def N(c, *kw):
    return {'op': 'newInst', 'c': c, 'kw': [list(x) for x in kw]}


RAISE = {'op': 'raise'}


def G(i, n):
    return {'op': 'getParam', 'i': i, 'n': n}


def F(i, n, b):
    return {'op': 'flag', 'i': i, 'n': n, 'b': b}


def CS(c, n, v):
    return {'op': 'clsSet', 'c': c, 'n': n, 'v': v}


def U(i, *kvs):
    return {'op': 'update', 'i': i, 'kvs': [list(x) for x in kvs]}


def A(i, n, v):
    return {'op': 'instSetAsync', 'i': i, 'n': n, 'v': v}


def SN(i, v):
    return {'op': 'setName', 'i': i, 'v': v}


def GN(i):
    return {'op': 'genName', 'i': i}


def FE(i, n):
    return {'op': 'failingEntry', 'i': i, 'n': n}


def SS(i, n):
    return {'op': 'instSetSame', 'i': i, 'n': n}


def _directed():
    D2 = [STD, []]
    D3 = [STD, [], [['v', True, False, 6, False]]]
    out = []
    # design round, p11
    out.append(('chain2', D2, [N(1), S(0, 'c', 6), SS(0, 'c'), CS(1, 'c', 7), CS(1, 'r', 7), S(0, 'r', 7), U(0, ('c', 8)),
                               B(0, S(0, 'c', 9), RAISE), S(0, 'c', 6), B(0, B(0, S(0, 'c', 7)), S(0, 'c', 8)), S(0, 'c', 6),
                               S(0, 'name', 6), N(1), S(1, 'c', 3), {'op': 'clsFlag', 'c': 1, 'n': 'c', 'b': False}, S(1, 'c', 3)]))
    # the repaired defect (p12): instance-level constant, class-level not
    out.append(('chain2', D2, [N(0), F(0, 'v', True), B(0, S(0, 'v', 6)), N(0), S(1, 'v', 7), S(0, 'v', 8)]))
    out.append(('chain2', D2, [N(0), F(0, 'c', False), B(0, S(0, 'c', 6)), S(0, 'c', 7), N(0), S(1, 'c', 7)]))
    # copies created early / late / inside; exceptional exits at two depths
    out.append(('chain3', D3, [N(2), G(0, 'c'), B(0, S(0, 'c', 6)), S(0, 'c', 7), N(2), B(1, S(1, 'c', 6)), S(1, 'c', 7),
                               N(2), B(2, G(2, 'c'), B(2, S(2, 'v', 8), RAISE), S(2, 'c', 9)), S(2, 'c', 6), S(2, 'v', 6),
                               B(2, B(2, B(2, S(2, 'c', 1)))), B(2, S(2, 'r', 1)), B(2, S(2, 'c', 6), S(2, 'r', 1), S(2, 'c', 7))]))
    # equal but not identical; identical
    out.append(('chain2', D2, [N(1), S(0, 'c', 1), S(0, 'c', 0), SS(0, 'c'), U(0, ('c', 0), ('v', 5)), U(0, ('c', 1)),
                               U(0, ('v', 6), ('q', 1)), U(0, ('v', 7), ('r', 2)), U(0, ('r', 3)), N(1, ('c', 1), ('v', 3)),
                               N(1, ('r', 2)), N(1, ('q', 2)), N(1, ('name', 6)), S(1, 'name', 7), S(1, 'name', 6), SS(1, 'name'),
                               G(0, 'q'), S(0, 'q', 1), S(7, 'c', 1), G(7, 'c')]))
    # class-level sets on declaring class and subclasses, then protection
    out.append(('chain3', D3, [N(2), N(1), CS(0, 'c', 6), CS(1, 'c', 7), CS(2, 'c', 8), S(0, 'c', 6), S(1, 'c', 6), N(2), S(2, 'c', 6),
                               CS(2, 'r', 6), CS(0, 'r', 6), CS(1, 'v', 6), CS(2, 'v', 7), CS(0, 'q', 1)]))
    # blocks that touch something else (known leaks), instance created inside a block
    out.append(('chain2', D2, [N(1), N(1), B(0, G(1, 'c'))]))
    out.append(('chain2', D2, [N(1), B(0, CS(1, 'c', 6))]))
    out.append(('chain2', D2, [N(1), N(1), B(0, S(1, 'c', 6), B(1, S(1, 'c', 7)))]))
    out.append(('chain2', D2, [N(1), B(0, N(1)), CS(0, 'c', 6)]))
    # name
    out.append(('chain2', D2, [N(1), CS(1, 'name', 6), N(1), CS(1, 'name', 7), S(0, 'name', 6), S(1, 'name', 6),
                               B(0, S(0, 'name', 8)), S(0, 'name', 9)]))
    # constants left at a None default are referenced on the instance like any other
    out.append(('chain2', [STDN, []], [N(1), N(1, ('c', 1)), CS(1, 'c', 6), CS(0, 'a', 3), N(1), S(0, 'c', 6), S(0, 'c', NONE),
                                        SS(0, 'c'), CS(0, 'c', NONE), S(2, 'c', NONE), U(0, ('v', NONE), ('c', NONE))]))
    out.append(('chain3', [STDN, [], []], [N(2), CS(0, 'c', 6), CS(1, 'c', 5), CS(2, 'c', 4), S(0, 'c', 4)]))
    # an asynchronous reference is just another assignment
    out.append(('chain2', D2, [N(1), A(0, 'a', 3), A(0, 'b', 3), A(0, 'a', 6), A(0, 'c', 1), A(0, 'q', 1), U(0, ('a', 3)),
                               B(0, A(0, 'a', 5)), A(0, 'a', 5), A(0, 'a', 4), G(0, 'a'), N(1), A(1, 'a', 2), A(7, 'a', 2),
                               F(1, 'b', True), A(1, 'b', 2), A(1, 'b', 7)]))
    # the library's own renaming of a constructed object (as_uninitialized) leaves it locked
    out.append(('chain2', D2, [N(1), GN(0), S(0, 'c', 6), S(0, 'name', 6), SN(0, 5), S(0, 'c', 6), S(0, 'name', 6), SS(0, 'name'),
                               G(0, 'name'), SN(0, 4), S(0, 'name', 4), U(0, ('c', 6)), B(0, GN(0), S(0, 'c', 7)), S(0, 'c', 8),
                               N(1), GN(1), A(1, 'a', 3), GN(7), SN(7, 1)]))
    # a constructor keyword that is a reference with nothing to deliver yet: constants are referenced all the same
    out.append(('chain2', D2, [N(1, ('a', SILENT)), N(1, ('a', SILENT), ('b', SILENT), ('c', 1)), CS(0, 'a', 3), CS(1, 'a', 5),
                               S(0, 'a', 5), S(0, 'a', 6), S(1, 'a', 2), N(1, ('c', SILENT)), N(1, ('name', SILENT)),
                               N(1, ('r', SILENT)), B(0, N(1, ('a', SILENT))), CS(0, 'b', 1), S(0, 'c', 6), G(0, 'b'),
                               F(1, 'b', True), CS(1, 'b', 2)]))
    # the guard compares with what the attribute reads (_held_value, e80cc81): class default re-assigned under an existing
    # per-instance copy, then the identical object is accepted and the copy's stale default refused
    out.append(('chain2', D2, [N(1), G(0, 'v'), CS(1, 'v', 6), F(0, 'v', True), SS(0, 'v'), S(0, 'v', 6), S(0, 'v', 4),
                               U(0, ('v', 6)), U(0, ('v', 4)), CS(0, 'v', 7), SS(0, 'v'), S(0, 'v', 6),
                               N(1), G(1, 'c'), F(1, 'c', False), F(1, 'c', True), CS(0, 'c', 3), S(1, 'c', 0), SS(1, 'c')]))
    # validation comes before the guard; a rejected renaming leaves the object locked (0d30e59)
    out.append(('chain2', D2, [N(1), SN(0, BAD), S(0, 'c', 6), S(0, 'name', 6), S(0, 'name', BAD), S(0, 'v', BAD), S(0, 'c', BAD),
                               U(0, ('v', 1), ('name', BAD), ('c', 6)), CS(1, 'name', BAD), CS(1, 'c', BAD), N(1, ('name', BAD)),
                               N(1, ('name', BAD), ('r', 1)), N(1, ('r', 1), ('name', BAD)), B(0, S(0, 'name', BAD), S(0, 'c', 7)),
                               B(0, SN(0, BAD)), S(0, 'c', 6), GN(0), SN(0, BAD), S(0, 'name', 5)]))
    # edit_constant whose entry is interrupted by a raising watcher of the flag restores what it had cleared (e2d814e)
    out.append(('chain2', D2, [N(1), N(1), FE(0, 'c'), S(0, 'c', 6), S(1, 'name', 6), S(1, 'c', 6), FE(0, 'v'), FE(0, 'a'),
                               FE(0, 'q'), FE(1, 'name'), S(1, 'name', 6), B(0, FE(0, 'c'), S(0, 'c', 7)), S(0, 'c', 8), FE(7, 'c'),
                               F(1, 'c', False), FE(1, 'c'), S(1, 'c', 5)]))
    out.append(('fork', [STD, [], []], [N(1), N(2), F(0, 'v', True), CS(0, 'v', 6), S(0, 'v', 6), S(0, 'v', 7), S(1, 'v', 7)]))
    return [_mk(s, d, o) for s, d, o in out]


def _alphabet():
    """top-level statements after the prefix [K1(), K1(c=...)] on chain2"""
    a = [N(1, ('a', SILENT)), GN(0), SN(0, 5), SN(0, BAD), FE(0, 'c'), FE(0, 'a'), A(0, 'a', 3), A(0, 'b', 3), B(0, A(0, 'a', 3)), S(0, 'c', 6), S(0, 'c', 0), S(0, 'c', 1), S(0, 'r', 6), S(0, 'v', 6), S(1, 'c', 6), SS(0, 'c'), SS(0, 'r'),
         U(0, ('c', 6)), U(0, ('v', 6), ('c', 7)), CS(0, 'c', 6), CS(1, 'c', 7), CS(1, 'r', 6), CS(1, 'v', 6),
         G(0, 'c'), G(1, 'c'), F(0, 'c', False), F(0, 'v', True), {'op': 'clsFlag', 'c': 1, 'n': 'c', 'b': False},
         N(1), N(1, ('r', 6)),
         B(0, S(0, 'c', 6)), B(0, S(0, 'c', 7), RAISE), B(0, S(0, 'r', 6), S(0, 'c', 7)), B(0, B(0, S(0, 'c', 8))),
         B(0, B(0, RAISE), S(0, 'c', 8)), B(0, G(0, 'c')), B(0, U(0, ('c', 6), ('v', 7))), B(1, S(1, 'c', 8)),
         B(0, S(1, 'c', 8)), B(0, CS(1, 'c', 8))]
    return a


def _local_op(rng, i, depth):
    r = rng.random()
    n = rng.choice(NAMES)
    v = rng.randrange(NPOOL)
    if r < 0.33:
        return S(i, n, v)
    if r < 0.34:
        return FE(i, rng.choice(NAMES))
    if r < 0.36:
        return GN(i) if rng.random() < 0.4 else SN(i, BAD if rng.random() < 0.4 else v)
    if r < 0.4:
        return A(i, rng.choice(['a', 'b']), v)
    if r < 0.48:
        return SS(i, n)
    if r < 0.6:
        return U(i, *[(m, rng.randrange(NPOOL)) for m in rng.sample(NAMES, rng.randint(1, 2))])
    if r < 0.7:
        return G(i, n)
    if r < 0.78:
        return dict(RAISE)
    if depth < 3 and r < 0.95:
        return _block(rng, i, depth + 1, None)
    return S(i, 'c', v)


def _block(rng, i, depth, ctx):
    body = []
    local = ctx is None or rng.random() < 0.8
    for _ in range(rng.randint(1, 4)):
        if local:
            body.append(_local_op(rng, i, depth))
        else:
            body.append(_any_op(rng, ctx, depth, in_body=True))
    return B(i, *body)


def _any_op(rng, ctx, depth=0, in_body=False):
    ncls, ninst = ctx['ncls'], ctx['ninst']
    r = rng.random()
    n = rng.choice(NAMES)
    v = rng.randrange(NPOOL)
    i = rng.randrange(ninst) if ninst else 0
    c = rng.randrange(ncls)
    if r < 0.12 or ninst == 0:
        if in_body and rng.random() < 0.8:
            return S(i, n, v)
        kw = [[m, SILENT if m in ('a', 'b') and ctx.get('silent') and rng.random() < 0.5 else rng.randrange(NPOOL)]
              for m in NAMES if rng.random() < (0.4 if ctx.get('silent') and m in ('a', 'b') else 0.2)]
        if rng.random() < 0.04:
            kw.append(['q', 1])
        ctx['ninst'] += 1
        return {'op': 'newInst', 'c': c, 'kw': kw}
    if r < 0.30:
        return S(i, n, v)
    if r < 0.31:
        return FE(i, rng.choice(NAMES))
    if r < 0.33:
        return GN(i) if rng.random() < 0.4 else SN(i, BAD if rng.random() < 0.4 else v)
    if r < 0.36:
        return A(i, rng.choice(['a', 'a', 'b', 'c']), v)
    if r < 0.42:
        return SS(i, n)
    if r < 0.5:
        return U(i, *[(m, rng.randrange(NPOOL)) for m in rng.sample(NAMES, rng.randint(1, 3))])
    if r < 0.62:
        return CS(c, n, v)
    if r < 0.69:
        return G(i, n)
    if r < 0.75 and not in_body:
        return F(i, rng.choice(['c', 'v', 'name']), rng.random() < 0.5)
    if r < 0.78 and not in_body:
        return {'op': 'clsFlag', 'c': c, 'n': rng.choice(['c', 'v']), 'b': rng.random() < 0.5}
    if depth < 3:
        return _block(rng, i, depth + 1, ctx)
    return S(i, n, v)


def _sanitize(ops):
    """An instance constructed with a silent reference keeps that link; a later *successful* assignment to one of its
    allow_refs parameters relinks (`_update_ref`), which also instantiates the Parameters of the remaining links — outside
    the model.  Instance indices shift when a constructor call of the history fails, so in a history that contains such a
    constructor call every assignment to the allow_refs parameters `a`/`b` is redirected to the plain parameter `v`."""
    def has_silent(ops):
        return any((op['op'] == 'newInst' and any(v == SILENT for _, v in op['kw'])) or
                   (op['op'] == 'block' and has_silent(op['body'])) for op in ops)

    def fix(ops):
        out = []
        for op in ops:
            op = dict(op)
            o = op['op']
            if o == 'block':
                op['body'] = fix(op['body'])
            elif o in ('instSet', 'instSetSame') and op['n'] in ('a', 'b'):
                op['n'] = 'v'
            elif o == 'instSetAsync':
                op = S(op['i'], 'v', op['v'])
            elif o == 'update':
                op['kvs'] = [kv for kv in op['kvs'] if kv[0] not in ('a', 'b')] or [['v', 0]]
            out.append(op)
        return out
    return fix(ops) if has_silent(ops) else ops


def _random_case(rng):
    shape = rng.choice(list(SHAPES))
    ncls = len(SHAPES[shape])
    decls = [[list(d) for d in (STDN if rng.random() < 0.3 else STD)]]
    for k in range(1, ncls):
        d = []
        if rng.random() < 0.3:
            d.append([rng.choice(['c', 'v', 'a']), rng.random() < 0.5, False, rng.randrange(NPOOL), rng.random() < 0.5])
        if rng.random() < 0.1:
            d.append(['r', False, rng.random() < 0.7, rng.randrange(NPOOL), False])
        decls.append(d)
    ctx = {'ncls': ncls, 'ninst': 0, 'silent': rng.random() < 0.15}
    ops = [_any_op(rng, ctx) for _ in range(rng.randint(2, 22))]
    return _mk(shape, decls, _sanitize(ops))


class _Fresh:
    """an object no case knows: what a source is re-assigned after a refused reference assignment"""


def _ref_source(value):
    import param
    global _RefSource
    if '_RefSource' not in globals():
        _RefSource = type('_RefSource', (param.Parameterized,), {'v': param.Parameter()})
    return _RefSource(v=value)


def _with_refs(case, rng):
    """half of the plain assignments to the allow_refs parameters become assignments of a reference (harness only)"""
    for op, _d, _o, _os in _walk(case['steps']):
        if op['op'] == 'instSet' and op.get('n') in ('a', 'b') and rng.random() < 0.5:
            op['asref'] = True
    return case


def cases(rng, tier, worker, nworkers):
    import glob
    import json
    import os
    if worker == 0:
        for f in sorted(glob.glob(os.path.join(os.path.dirname(__file__), '..', '..', 'corpus', 'C14', '*.json'))):
            yield json.load(open(f))['case']
        for c in _directed():
            yield c
    alpha = _alphabet()
    prefix = [N(1), N(1, ('c', 1))]
    depth = 2 if tier == 'quick' else 3
    alpha3 = [o for o in alpha if o['op'] in ('instSet', 'clsSet', 'update')]
    i = 0
    for n in range(1, depth + 1):
        pools = [alpha] * min(n, 2) + ([alpha3] if n == 3 else [])
        for combo in itertools.product(*pools):
            i += 1
            if i % nworkers == worker:
                yield _mk('chain2', [STD, []], _sanitize([dict(o) for o in prefix + list(combo)]))
    n_random = 2500 if tier == 'quick' else 48000 // nworkers
    for _ in range(n_random):
        yield _with_refs(_random_case(rng), rng)


def _walk(ops, depth=0, owner=None, owners=()):
    """every statement with its nesting depth, the instance of the innermost enclosing block and of all enclosing blocks"""
    for op in ops:
        yield op, depth, owner, owners
        if op['op'] == 'block':
            yield from _walk(op['body'], depth + 1, op['i'], owners + (op['i'],))


def _touches(op):
    """instance index an elementary statement works on"""
    return op.get('i') if op['op'] in ('instSet', 'instSetAsync', 'instSetSame', 'update', 'getParam', 'flag', 'block', 'setName', 'genName', 'failingEntry') else None


def tags(case, impl):
    t = ['shape:' + case['shape'], f'len={min(len(case["steps"]), 10)}' + ('+' if len(case['steps']) >= 10 else '')]
    if any(d[0] in ('c', 'a') and d[1] and d[3] == NONE for cd in case['classes'] for d in cd['decl']):
        t.append('default:None-constant')
    if any(op['op'] == 'newInst' and any(v == SILENT for _, v in op['kw']) for op, _, _, _ in _walk(case['steps'])):
        t.append('kwarg:silent-reference')
    if False:
        t.append('default:None-constant')
    for op, depth, owner, _ in _walk(case['steps']):
        if depth:
            if op['op'] == 'clsSet':
                t.append('body:class-set')
            elif op['op'] == 'newInst':
                t.append('body:new-instance')
            elif _touches(op) is not None and _touches(op) != owner:
                t.append('body:foreign-instance')
            else:
                t.append('body:local')
    if isinstance(impl, dict) and 'steps' in impl:
        prev = impl['init']
        for op, o in zip(case['steps'], impl['steps']):
            if op['op'] == 'block' and len(o['params']) > len(prev['params']):
                t.append('body:copy-created-inside')
            if op['op'] == 'instSet' and op['i'] < len(prev['inst']) and op['n'] in case['names']:
                h = prev['inst'][op['i']]['rows'][case['names'].index(op['n'])][0]
                if h is not None and op['v'] != h and op['v'] // 2 == h // 2 and max(h, op['v']) < BAD:
                    t.append('assign:equal-not-identical')
                if h == op['v']:
                    t.append('assign:identical')
            prev = o
    return t


def nontrivial(case, impl, resp):
    if 'steps' not in impl or resp.get('checked_steps', 0) < 1:
        return False
    return any(op['op'] == 'block' or o['res'] == 'TypeError' for op, o in zip(case['steps'], impl['steps']))


def _shrink_ops(ops):
    """smaller statement lists: drop a statement, replace a block by its body, shrink a body"""
    for k in range(len(ops)):
        yield ops[:k] + ops[k + 1:]
    for k, op in enumerate(ops):
        if op['op'] == 'block':
            yield ops[:k] + op['body'] + ops[k + 1:]
            for b in _shrink_ops(op['body']):
                yield ops[:k] + [dict(op, body=b)] + ops[k + 1:]
        if op['op'] == 'newInst' and op['kw']:
            yield ops[:k] + [dict(op, kw=[])] + ops[k + 1:]
        if op['op'] == 'update' and len(op['kvs']) > 1:
            for j in range(len(op['kvs'])):
                yield ops[:k] + [dict(op, kvs=op['kvs'][:j] + op['kvs'][j + 1:])] + ops[k + 1:]


def _renumber(ops, idx):
    """drop every use of instance idx, shift the higher ones"""
    out = []
    for op in ops:
        op = dict(op)
        if op['op'] == 'block':
            op['body'] = _renumber(op['body'], idx)
        if 'i' in op:
            if op['i'] == idx:
                continue
            if op['i'] > idx:
                op['i'] -= 1
        out.append(op)
    return out


def shrink(case):
    steps = case['steps']
    for k, op in enumerate(steps):
        if op['op'] == 'newInst':
            idx = sum(1 for s in steps[:k] if s['op'] == 'newInst')
            yield dict(case, steps=steps[:k] + _renumber(steps[k + 1:], idx))
    for ss in _shrink_ops(steps):
        yield dict(case, steps=ss)
    for c, cd in enumerate(case['classes']):
        for j in range(len(cd['decl'])):
            cl = [dict(x) for x in case['classes']]
            cl[c]['decl'] = cd['decl'][:j] + cd['decl'][j + 1:]
            yield dict(case, classes=cl)


def classify(case, impl, fail):
    """narrow keys of KNOWN_FINDINGS.txt"""
    import re
    if fail.get('kind') != 'counterexample' or not isinstance(impl, dict) or 'steps' not in impl:
        return None
    why = str(fail.get('why'))
    m = re.match(r'step (\d+): ([\w-]+): (class|instance) (\d+) \'(\w+)\'', why)
    if not m:
        return None
    k, check, what, idx, name = int(m.group(1)), m.group(2), m.group(3), int(m.group(4)), m.group(5)
    if k >= len(case['steps']):
        return None
    op = case['steps'][k]
    before = impl['steps'][k - 1] if k else impl['init']
    col = case['names'].index(name) if name in case['names'] else None
    if check == 'restore-governing' and op['op'] == 'block':
        inner = list(_walk(op['body'], 1, op['i'], (op['i'],)))
        # a class-level assignment inside the block copied the temporarily editable Parameter onto a subclass
        if any(o['op'] == 'clsSet' and o['n'] == name for o, _, _, _ in inner):
            return 'edit-constant-copy-on-write-inside-block-stays-editable'
        # a block of some other instance was open while this instance's per-instance copy was taken from the
        # temporarily editable class Parameter
        if what == 'instance' and any(_touches(o) == idx and any(w != idx for w in owners)
                                      for o, _, _, owners in inner if o['op'] != 'block'):
            return 'edit-constant-copy-of-other-instance-stays-editable'
        return None
    if check == 'constant' and op['op'] == 'clsSet' and op['n'] == name and col is not None and idx < len(before['inst']):
        # a class-level assignment reached an instance that holds no own reference to its constant value
        if before['inst'][idx]['rows'][col][1] is not None:
            return None
        if name == 'name':
            return 'name-not-referenced-on-instance-when-class-name-overridden'
        created_in_block = [o for o, d, _, _ in _walk(case['steps'][:k]) if d and o['op'] == 'newInst']
        late_flag = [o for o, _, _, _ in _walk(case['steps'][:k]) if o['op'] in ('flag', 'clsFlag') and o['n'] == name and o['b']]
        # an instance born (by a top-level constructor call) under a class-level constant Parameter must hold a reference
        obs = [impl['init']] + impl['steps']
        for j, st in enumerate(case['steps'][:k]):
            if st['op'] == 'newInst' and len(obs[j]['inst']) == idx and len(obs[j + 1]['inst']) == idx + 1:
                cpid = obs[j]['cls'][st['c']][col]
                if cpid is not None and obs[j]['params'][cpid][0]:
                    return None
        if late_flag:
            return 'constant-flag-set-later-value-not-referenced-on-instance'
        if created_in_block:
            return 'instance-created-inside-edit-constant-misses-constant-references'
    return None
