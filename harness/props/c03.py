"""C03 — watcher dispatch (shared model lean/ParamVerif/Dispatch, shared driver Driver/Dispatch.lean)."""
import glob
import json
import os

from .. import dispatch_impl as D

ID = 'C03'
PROPS_FILE = 'ParamVerif/Props/C03.lean'
DRIVER = 'Driver/Dispatch.lean'
SOURCES = [('param/parameterized.py', 'Parameter.__set__'), ('param/parameterized.py', 'Parameter._trigger_event'), ('param/parameterized.py', 'Parameter._held_value'), ('param/parameterized.py', 'Parameters._call_watcher'),
           ('param/parameterized.py', 'Parameters._batch_call_watchers'), ('param/parameterized.py', 'Parameters._execute_watcher'),
           ('param/parameterized.py', 'Parameters._update'), ('param/parameterized.py', 'Parameters.trigger'),
           ('param/parameterized.py', 'Parameters._update_event_type'), ('param/parameterized.py', 'batch_call_watchers'),
           ('param/parameterized.py', '_batch_call_watchers'), ('param/parameterized.py', 'discard_events'),
           ('param/parameterized.py', '_ParametersRestorer'), ('param/parameterized.py', 'Comparator')]
BUDGET_S = {'quick': 50, 'thorough': 420}
TRUSTED = [
    'statements in lean/ParamVerif/Props/C03.lean',
    'spec-side oracle lean/ParamVerif/Dispatch/Spec.lean (decidable node-local restatement of the theorem conclusions over the observation tree)',
    'harness/dispatch_impl.py (statement interpreter on the real library; callbacks log enter/exit, events, snapshot; reads _BATCH_WATCH/_TRIGGER/_events/_state_watchers and the per-parameter watcher lists for observation only; caller frame name distinguishes direct dispatch from flush)',
    'correspondence is differential testing: model = code only on the programs executed',
    'CPython: sorted() stability, try/finally, generator-based context managers',
]
ASSUMPTIONS = [
    'one Parameterized object (an instance or the class itself), Integer and Event parameters (equality = integer equality; the Comparator is modelled separately in C03); value watchers in args and kwargs mode, watchers of the Parameter attributes precedence/step',
    'several objects at once (a callback assigning to another object), async callbacks, Skip, depends() and references are outside this model (C06-C10 have their own)',
    'callback cascades are acyclic (a body assigns only parameters of lower index than those its watchers watch); callbacks may (un)register watchers, the watchers they register have empty callbacks',
    'a Watcher object is identified by the order of its creation (uid): the model and the harness both count registrations',
    'values are integers, plus (on parameters without bounds) callables held by the Dynamic numeric parameter: one fixed function object per model value 100+k producing k; Comparator.is_equal has no rule for functions, so they never compare equal (Dispatch.same)',
    'class-level assignment of a default while the program works on an instance (clsSet) only for ordinary parameters and only when the case has one object; the instance follows the class default until it is assigned itself (World.owned)',
]
RULE = ('directed programs (each statement kind, precedence ties, queued callbacks, nested assignments, unwatch) + random programs: '
        '1-4 parameters, 1-5 watchers (random subsets, onlychanged, queued, precedence with ties), callback bodies of depth <=2 that '
        'assign/update/trigger/batch, 1-8 top-level statements; every callback invocation, its events, the values it saw and every '
        'statement (flags at entry, registered watchers) are logged as a tree and compared with the model; the oracle checks every '
        'assignment node. non-trivial = at least one callback ran; distinct = distinct canonical case')
COVERAGE_TARGETS = ['equal:plain', 'equal:other', 'equal:dict', 'equal:set', 'equal:is_equal=True,py_eq=True',
                    'equal:is_equal=False,py_eq=True', 'equal:is_equal=False,py_eq=False', 'call:direct', 'call:flush', 'stmt:set', 'stmt:set:batched', 'stmt:update', 'stmt:trigger', 'stmt:batch',
                    'stmt:discard', 'stmt:set:raised', 'top:ValueError']
PROP = 'C03'
FAULTS = False

import datetime as _dt
import math as _math


def _py(v, others):
    t = v['t']
    if t == 'none':
        return None
    if t == 'num':
        return {'int': int, 'float': float, 'bool': bool}[v.get('py', 'int')](v['v'])
    if t == 'nan':
        return float('nan')      # a fresh object: container equality short-cuts on identity
    if t == 'str':
        return v['v']
    if t == 'bytes':
        return v['v'].encode()
    if t == 'date':
        return _dt.date.fromordinal(730000 + v['v'])
    if t == 'datetime':
        return _dt.datetime(2000, 1, 1) + _dt.timedelta(microseconds=v['v'])
    if t == 'list':
        return [_py(x, others) for x in v['v']]
    if t == 'tuple':
        return tuple(_py(x, others) for x in v['v'])
    if t == 'set':
        return set(_py(x, others) for x in v['v'])
    if t == 'dict':
        return {k: _py(x, others) for k, x in v['v']}
    if t == 'other':
        return others.setdefault(v['id'], object())
    raise RuntimeError(t)


def _gen_pv(rng, depth, plain_only=False):
    kinds = ['none', 'num', 'num', 'num', 'str', 'bytes', 'date', 'datetime', 'list', 'tuple', 'dict']
    if not plain_only:
        kinds += ['nan', 'set', 'other']
    if depth <= 0:
        kinds = [k for k in kinds if k not in ('list', 'tuple', 'dict', 'set')]
    t = rng.choice(kinds)
    if t == 'num':
        val = rng.choice([0, 1, 1, 2, 3])
        return {'t': 'num', 'v': val, 'py': rng.choice(['int', 'float', 'bool'] if val in (0, 1) else ['int', 'float'])}
    if t == 'str':
        return {'t': 'str', 'v': rng.choice(['', 'a', 'b'])}
    if t == 'bytes':
        return {'t': 'bytes', 'v': rng.choice(['', 'a'])}
    if t in ('date', 'datetime'):
        return {'t': t, 'v': rng.choice([0, 1])}
    if t in ('list', 'tuple'):
        return {'t': t, 'v': [_gen_pv(rng, depth - 1, plain_only) for _ in range(rng.randint(0, 3))]}
    if t == 'set':
        # integer elements only: their iteration order does not depend on the hash seed
        elems = rng.sample([0, 1, 8, 16, 3], rng.randint(0, 3))
        order = list(set(elems)) if rng.random() < 0.5 else list({x: 0 for x in elems})  # informational
        s = set()
        for x in elems:
            s.add(x)
        return {'t': 'set', 'v': [{'t': 'num', 'v': x, 'py': 'int'} for x in s], 'built': elems}
    if t == 'dict':
        ks = rng.sample(['a', 'b', 'c', 'k'], rng.randint(0, 3))
        return {'t': 'dict', 'v': [[k, rng.choice([{'t': 'none'}, _gen_pv(rng, depth - 1, plain_only)])] for k in ks]}
    if t == 'other':
        return {'t': 'other', 'id': rng.choice([1, 2])}
    return {'t': t}


def _mutate(rng, v):
    """a value close to v: equal copy, reordered dict, one leaf changed, different key set …"""
    import copy
    w = copy.deepcopy(v)
    r = rng.random()
    if r < 0.45:
        return w
    if w['t'] == 'dict' and r >= 0.9:
        # one key more, or one key less: a strict sub-/super-mapping
        if w['v'] and rng.random() < 0.5:
            w['v'].pop(rng.randrange(len(w['v'])))
        else:
            fresh = [k for k in ['a', 'b', 'c', 'k', 'z'] if k not in {k for k, _ in w['v']}]
            w['v'].insert(rng.randrange(len(w['v']) + 1), [rng.choice(fresh), _gen_pv(rng, 0, True)])
        return w
    if w['t'] in ('list', 'tuple') and r >= 0.93:
        w['v'].insert(rng.randrange(len(w['v']) + 1), _gen_pv(rng, 0, True))       # one element more
        return w
    if w['t'] == 'dict' and w['v']:
        if r < 0.6:
            rng.shuffle(w['v'])
        elif r < 0.8:
            w['v'][rng.randrange(len(w['v']))][0] = rng.choice(['a', 'b', 'z'])
            if len({k for k, _ in w['v']}) != len(w['v']):
                return copy.deepcopy(v)
        else:
            i = rng.randrange(len(w['v']))
            w['v'][i][1] = _mutate(rng, w['v'][i][1])
        return w
    if w['t'] in ('list', 'tuple') and w['v']:
        i = rng.randrange(len(w['v']))
        if r < 0.7:
            w['v'][i] = _mutate(rng, w['v'][i])
        elif r < 0.85:
            w['v'].pop(i)
        else:
            w['t'] = 'list' if w['t'] == 'tuple' else 'tuple'
        return w
    if w['t'] == 'num':
        if r < 0.7:
            w['py'] = rng.choice(['int', 'float'] + (['bool'] if w['v'] in (0, 1) else []))
        else:
            w['v'] += 1
            w['py'] = 'int'
        return w
    if w['t'] == 'set':
        # same elements inserted in another order may iterate differently
        elems = list(v.get('built', []))
        rng.shuffle(elems)
        s = set()
        for x in reversed(elems):
            s.add(x)
        return {'t': 'set', 'v': [{'t': 'num', 'v': x, 'py': 'int'} for x in s], 'built': elems}
    if w['t'] == 'date':
        return {'t': 'datetime', 'v': 0} if r < 0.7 else {'t': 'date', 'v': w['v'] + 1}
    return _gen_pv(rng, 1)


def run_impl(case):
    if case.get('kind') == 'equal':
        import param  # noqa: F401
        from param.parameterized import Comparator
        others = {}
        a, b = _py(case['a'], others), _py(case['b'], others)
        try:
            return {'is_equal': bool(Comparator.is_equal(a, b)), 'py_eq': bool(a == b)}
        except Exception as e:
            return {'crash': f'{type(e).__name__}: {e}'}
    return D.run_impl(case)


crash_excused = D.crash_excused


def compare(impl, model):
    if 'is_equal' in impl:
        from ..run import first_diff
        return first_diff(impl, model)
    return D.compare(impl, model)


def tags(case, impl):
    if case.get('kind') == 'equal':
        return ['equal:' + case['a']['t'], 'equal:is_equal=%s,py_eq=%s' % (impl.get('is_equal'), impl.get('py_eq'))]
    return D.tags(case, impl)


def nontrivial(case, impl, resp):
    if case.get('kind') == 'equal':
        return case['a']['t'] in ('list', 'tuple', 'dict', 'set') or case['a'] != case['b']
    return D.nontrivial(case, impl, resp)


def shrink(case):
    if case.get('kind') == 'equal':
        for side in ('a', 'b'):
            v = case[side]
            if v['t'] in ('list', 'tuple', 'set', 'dict') and v['v']:
                for i in range(len(v['v'])):
                    yield dict(case, **{side: dict(v, v=v['v'][:i] + v['v'][i + 1:])})
        return
    yield from D.shrink(case)


def cases(rng, tier, worker, nworkers):
    if worker == 0:
        for f in sorted(glob.glob(os.path.join(os.path.dirname(__file__), '..', '..', 'corpus', 'dispatch', '*.json'))):
            yield dict(json.load(open(f))['case'], prop=PROP)
    n = 1200 if tier == 'quick' else 240000 // nworkers
    for i in range(n):
        yield D.gen_case(rng, PROP, faults=FAULTS or (i % 5 == 0), size=8 if i % 3 else 14)
    # the changes-only test itself: Comparator.is_equal against the model, Python == against the spec
    if worker == 0:
        n1, n2, s1 = {'t': 'num', 'v': 1, 'py': 'int'}, {'t': 'num', 'v': 2, 'py': 'int'}, {'t': 'str', 'v': 'a'}
        small = [{'t': 'dict', 'v': []}, {'t': 'dict', 'v': [['a', n1]]}, {'t': 'dict', 'v': [['a', n1], ['b', n2]]},
                 {'t': 'dict', 'v': [['b', n2], ['a', n1]]}, {'t': 'dict', 'v': [['a', n1], ['b', {'t': 'none'}]]},
                 {'t': 'dict', 'v': [['a', {'t': 'none'}]]}, {'t': 'dict', 'v': [['z', n1]]},
                 {'t': 'list', 'v': []}, {'t': 'list', 'v': [n1]}, {'t': 'list', 'v': [n1, n2]}, {'t': 'tuple', 'v': [n1]},
                 {'t': 'tuple', 'v': [n1, n2]}, {'t': 'list', 'v': [{'t': 'dict', 'v': [['a', n1]]}]},
                 {'t': 'list', 'v': [{'t': 'dict', 'v': [['a', n1], ['b', n2]]}]}, n1, s1, {'t': 'none'}]
        for a in small:                 # every ordered pair of a few small containers: sub-/super-mappings, prefixes …
            for b in small:
                yield {'prop': 'C03', 'kind': 'equal', 'a': a, 'b': b}
    for i in range(2500 if tier == 'quick' else 400000 // nworkers):
        a = _gen_pv(rng, 2, plain_only=(i % 3 == 0))
        yield {'prop': 'C03', 'kind': 'equal', 'a': a, 'b': _mutate(rng, a)}


def classify(case, impl, fail):
    why = str(fail.get('why', ''))
    if 'also received the unchanged event' in why and 'queued on behalf of another watcher' in why:
        return 'flush-foreign-same-value-event'
    return None
