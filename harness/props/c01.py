"""C01 — accepted values always satisfy the parameter's declared constraints.

One case = one declaration (parameter type + constructor arguments) and a list of
candidate values.  `run_impl` builds the Parameter on the real `param`, records the
constructor outcome and the constraint slots it ended up with, then attempts every
value through the five assignment routes (constructor keyword, instance attribute,
`param.update`, class attribute, `deserialize_parameters` + constructor) and records
accepted / ValueError / TypeError / other:<Name> plus whether the value read back is
the assigned one.  The Lean driver (Driver/C01.lean) returns the model's verdict for
the same case and evaluates the declarative predicate `Sat` (the oracle) on what the
implementation did.

Values cross the boundary as tagged JSON (floats / Fraction / Decimal as exact
[numerator, denominator] pairs or "nan" / "inf" / "-inf"; dates as ordinals,
datetimes as microseconds; functions, classes and instances by id).
"""
import datetime as dt
import itertools
import json
import math
import re
import types
from decimal import Decimal
from fractions import Fraction

ID = 'C01'
PROPS_FILE = 'ParamVerif/Props/C01.lean'
DRIVER = 'Driver/C01.lean'
SOURCES = [('param/parameterized.py', 'Parameter.__set__'), ('param/parameterized.py', 'Parameter._validate'),
           ('param/parameterized.py', 'Parameter._set_allow_None'), ('param/parameterized.py', 'String'),
           ('param/parameters.py', 'Bytes'), ('param/parameters.py', 'Number'), ('param/parameters.py', 'Integer'),
           ('param/parameters.py', 'Magnitude'), ('param/parameters.py', 'Date'), ('param/parameters.py', 'CalendarDate'),
           ('param/parameters.py', 'Boolean'), ('param/parameters.py', 'Event'), ('param/parameters.py', 'Tuple'),
           ('param/parameters.py', 'NumericTuple'), ('param/parameters.py', 'XYCoordinates'), ('param/parameters.py', 'Range'),
           ('param/parameters.py', 'DateRange'), ('param/parameters.py', 'CalendarDateRange'),
           ('param/parameters.py', 'Callable'), ('param/parameters.py', 'List'), ('param/parameters.py', 'HookList'),
           ('param/parameters.py', 'Selector'), ('param/parameters.py', 'ListSelector'),
           ('param/parameters.py', 'ClassSelector'), ('param/parameters.py', 'Dict'), ('param/parameters.py', 'Color'),
           ('param/_utils.py', '_is_number'), ('param/_utils.py', '_to_datetime')]
BUDGET_S = {'quick': 75, 'thorough': 420}
EXHAUSTIVE = {'quick': False, 'thorough': False}
THOROUGH_WORKERS = 8
TRUSTED = [
    'statements in lean/ParamVerif/Props/C01.lean',
    'spec-side definitions lean/ParamVerif/Validate/Spec.lean (Sat, specCfg, CtorSat, WF; judgeAssign/judgeCtor are the oracle)',
    'lean/ParamVerif/Py/Value.lean: Python ordering/equality/isinstance on the value universe (exact mixed int/float/Fraction/Decimal '
    'comparison, nan unordered, date-vs-datetime ordering raises TypeError, a >= b is b <= a)',
    'harness/props/c01.py adapter: value codec, exception-class mapping, read-back by identity via param.get_value_generator',
    're.match for String/Bytes regexes is an oracle bit computed by the harness with the re module (not modelled)',
    'deserialisation route: the model deserialises the JSON-decoded value itself for the Tuple family (list -> tuple, null) and the '
    'identity types; for the date types (strptime) it validates the value deserialize_parameters returned (trusts C15)',
    'correspondence is differential testing: model = code only on the (declaration, value, route) triples executed',
]
ASSUMPTIONS = [
    'out of scope: Path/Filename/Foldername, FileSelector/MultiFileSelector, Array/DataFrame/Series (no numpy/pandas), Composite',
    'non-constant, non-readonly parameters without references (guards are C14/C02/C08)',
    'value domain: None, bool, int, float (nan, +-inf), Fraction, finite/infinite Decimal, str, bytes, list, tuple, dict, naive '
    'date/datetime, plain functions, generator functions, user classes and their instances; excluded: complex, Decimal("nan") '
    'and a Decimal next to a float NaN in one Range pair (ordering them raises decimal.InvalidOperation), tz-aware datetimes, numpy scalars, callables that refuse attribute assignment '
    '(Dynamic documents that requirement)',
    'declarations: hard bounds are bool/int/float (Number family) or date/datetime; softbounds, Number/Date step, set_hook, '
    'compute_default_fn, NaN among Selector objects, dict-declared Selector objects other than hashable ones with string names are not exercised',
    'colour strings are ASCII (str.lower is modelled on ASCII)',
    'inclusive_bounds are booleans (Number tests `is True`, so a truthy non-bool would be exclusive: not exercised)',
    'mutation of constraint slots after the declaration is exercised for Selector.objects only (not p.bounds = ..., p.item_type = ...)',
    'Range declared with a one-item default (the constructor raises IndexError from val[1], not ValueError) is not exercised',
    'Selector/ListSelector declared with a default but with empty objects and no explicit check_on_set is not exercised: the '
    'check_on_set slot is computed lazily, after the default has been appended to the objects, and ends up True',
]
RULE = ('directed prefix (one case per validator branch, the witnesses of the five repaired deviations, invalid defaults) + exhaustive small-scope grid: '
        'Number/Integer bounds from {None,-1,0,1,2,-inf,inf}^2 x 4 inclusivities x allow_None on/off x ~60 values (None, bools, ints, '
        'floats incl. nan/inf and the float neighbours of every bound, Fraction, Decimal, big ints, str, bytes, containers, dates, '
        'callables, classes, instances; Integer with a 38-value pool in the quick tier); Range the same bounds x step {None,1,-1} x ~90 pairs (every third declaration in the quick tier); length grids for the Tuple family and List, '
        'item types, Selector object lists x check_on_set x allow_None, class lattices for ClassSelector, date bounds for the four date '
        'types, every CSS3 colour name x case variants + hex strings of length 0..8, regexes; every value through 5 routes; objects stream: list- and dict-declared Selector/ListSelector whose `.objects` is edited positionally (setitem/append/insert/extend) or by key after the declaration, then old and new objects assigned through the 5 routes - membership is judged against the list as it is then; aliasing stream: for List/HookList/ListSelector/Selector/Dict/ClassSelector a fresh container is assigned, the object the parameter then holds is mutated in place (append/extend/insert/setitem/pop/clear) and the identical object is assigned again through instance attribute, param.update and class attribute - the verdict must be the one for its content at that moment. thorough adds '
        'float-valued bounds and random declarations/values. non-trivial = constructor succeeded, at least one value accepted and one '
        'rejected, every attempt oracle-checked; distinct = distinct canonical case')

PTYPES = ['String', 'Bytes', 'Number', 'Integer', 'Magnitude', 'Date', 'CalendarDate', 'Boolean', 'Event', 'Tuple',
          'NumericTuple', 'XYCoordinates', 'Range', 'DateRange', 'CalendarDateRange', 'Callable', 'Action', 'List',
          'HookList', 'Selector', 'ListSelector', 'ClassSelector', 'Dict', 'Color']
COVERAGE_TARGETS = [f'{t}:ok' for t in PTYPES] + [f'{t}:ValueError' for t in PTYPES] + \
    [f'{t}:TypeError' for t in ('Number', 'DateRange', 'CalendarDateRange', 'List', 'ClassSelector')] + \
    ['ctor:ok', 'ctor:ValueError', 'route:deser', 'nan-vs-bounds', 'boundary:inclusive', 'boundary:exclusive',
     'allow_None:on', 'allow_None:off', 'alias:reassign-accepted', 'alias:reassign-rejected']

DAY_US = 86400 * 10**6


# ------------------------------------------------------------------ value codec

class FN:
    def __init__(self, id, gen=False):
        self.id, self.gen = id, gen


class CLS:
    def __init__(self, id):
        self.id = id


class OBJ:
    def __init__(self, cid, id):
        self.cid, self.id = cid, id


def _ratio(x):
    if isinstance(x, float):
        if math.isnan(x):
            return 'nan'
        if math.isinf(x):
            return 'inf' if x > 0 else '-inf'
    if isinstance(x, Decimal):
        if x.is_nan():
            raise ValueError('Decimal nan is outside the value domain')
        if x.is_infinite():
            return 'inf' if x > 0 else '-inf'
    n, d = x.as_integer_ratio()
    return [n, d]


def E(v):
    """Python value (or FN/CLS/OBJ marker) -> tagged JSON"""
    if v is None:
        return None
    if isinstance(v, bool):
        return {'b': v}
    if isinstance(v, int):
        return {'i': v}
    if isinstance(v, float):
        return {'f': _ratio(v)}
    if isinstance(v, Fraction):
        return {'q': _ratio(v)}
    if isinstance(v, Decimal):
        return {'d': _ratio(v)}
    if isinstance(v, str):
        return {'s': v}
    if isinstance(v, bytes):
        return {'y': v.decode('latin1')}
    if isinstance(v, list):
        return {'l': [E(x) for x in v]}
    if isinstance(v, tuple):
        return {'t': [E(x) for x in v]}
    if isinstance(v, dict):
        return {'m': [[E(k), E(x)] for k, x in v.items()]}
    if isinstance(v, dt.datetime):
        if v.tzinfo is not None:
            raise ValueError('tz-aware')
        return {'T': v.toordinal() * DAY_US + ((v.hour * 60 + v.minute) * 60 + v.second) * 10**6 + v.microsecond}
    if isinstance(v, dt.date):
        return {'D': v.toordinal()}
    if isinstance(v, FN):
        return {'fn': v.id, 'gen': v.gen}
    if isinstance(v, CLS):
        return {'c': v.id}
    if isinstance(v, OBJ):
        return {'o': [v.cid, v.id]}
    raise ValueError(f'unencodable {type(v)}')


BUILTIN = {0: object, 1: int, 2: bool, 3: float, 4: str, 5: bytes, 6: list, 7: tuple, 8: dict, 9: type(None),
           10: dt.date, 11: dt.datetime, 12: types.FunctionType, 13: type, 14: Fraction, 15: Decimal}
BUILTIN_ID = {c: i for i, c in BUILTIN.items()}
# user classes: 100 A; 101 B(A); 102 C(B); 103 D; 104 E(A, D)
USER_BASES = {100: (), 101: (100,), 102: (101,), 103: (), 104: (100, 103)}
MRO = [[100, [100, 0]], [101, [101, 100, 0]], [102, [102, 101, 100, 0]], [103, [103, 0]], [104, [104, 100, 103, 0]]]


class Env:
    """per-case Python objects behind the ids (fresh functions/classes per case:
    Dynamic parameters write attributes on the callables they are given)"""

    def __init__(self):
        self.fns, self.classes, self.objs = {}, {}, {}
        self.hooks = []
        self.rev = {}

    def cls(self, cid):
        if cid in BUILTIN:
            return BUILTIN[cid]
        if cid not in self.classes:
            bases = tuple(self.cls(b) for b in USER_BASES[cid]) or (object,)
            self.classes[cid] = type(f'U{cid}', bases, {})
            self.rev[id(self.classes[cid])] = {'c': cid}
        return self.classes[cid]

    def fn(self, fid, gen):
        if fid not in self.fns:
            if gen:
                def f():
                    yield 1
            else:
                def f():
                    return 1
            self.fns[fid] = f
            self.rev[id(f)] = {'fn': fid, 'gen': gen}
        return self.fns[fid]

    def obj(self, cid, oid):
        if (cid, oid) not in self.objs:
            o = self.cls(cid)()
            self.objs[(cid, oid)] = o
            self.rev[id(o)] = {'o': [cid, oid]}
        return self.objs[(cid, oid)]

    def dec(self, j):
        if j is None:
            return None
        (k, v), = [(k, v) for k, v in j.items() if k != 'gen']
        if k == 'b' or k == 'i' or k == 's':
            return v
        if k in 'fqd':
            if isinstance(v, str):
                return {'f': float, 'd': Decimal}[k](v if k == 'f' else {'inf': 'Infinity', '-inf': '-Infinity'}[v])
            n, d = v
            if k == 'f':
                x = n / d                      # int / int is correctly rounded
            elif k == 'q':
                x = Fraction(n, d)
            else:
                import decimal
                with decimal.localcontext() as ctx:
                    ctx.prec = 2000
                    x = Decimal(n) / Decimal(d)
            assert tuple(x.as_integer_ratio()) == (n, d), (k, n, d)
            return x
        if k == 'y':
            return v.encode('latin1')
        if k == 'l':
            return [self.dec(x) for x in v]
        if k == 't':
            return tuple(self.dec(x) for x in v)
        if k == 'm':
            return {self.dec(a): self.dec(b) for a, b in v}
        if k == 'D':
            return dt.date.fromordinal(v)
        if k == 'T':
            return dt.datetime.fromordinal(v // DAY_US) + dt.timedelta(microseconds=v % DAY_US)
        if k == 'fn':
            return self.fn(v, j.get('gen', False))
        if k == 'c':
            return self.cls(v)
        if k == 'o':
            return self.obj(*v)
        raise ValueError(j)

    def enc(self, v):
        """Python -> tagged JSON for values that came back from the implementation"""
        if id(v) in self.rev:
            return self.rev[id(v)]
        if isinstance(v, type) and v in BUILTIN_ID:
            return {'c': BUILTIN_ID[v]}
        if isinstance(v, list):
            return {'l': [self.enc(x) for x in v]}
        if isinstance(v, tuple):
            return {'t': [self.enc(x) for x in v]}
        if isinstance(v, dict):
            return {'m': [[self.enc(k), self.enc(x)] for k, x in v.items()]}
        return E(v)


# ------------------------------------------------------------------ implementation side

def _ename(e):
    if isinstance(e, ValueError):
        return 'ValueError'
    if isinstance(e, TypeError):
        return 'TypeError'
    return 'other:' + type(e).__name__


def _classes(ids, env):
    return env.cls(ids[0]) if len(ids) == 1 else tuple(env.cls(i) for i in ids)


HOOK_TYPES = ('Number', 'Integer', 'Magnitude', 'Date', 'CalendarDate')


def _hook(h, env):
    """the small family of `set_hook`s the model knows (Driver/C01.lean parseHook, Model.lean applyHook)"""
    kind = h['hook']
    if kind == 'ident':
        f = lambda obj, v: v
    elif kind == 'double':
        f = lambda obj, v: v * 2 if type(v) in (bool, int, float) else v
    elif kind == 'neg':
        f = lambda obj, v: -v if type(v) in (bool, int, float) else v
    elif kind == 'const':
        k = env.dec(h['k'])
        f = lambda obj, v: k
    else:
        raise ValueError(h)
    env.hooks.append(f)          # in construction order: [hook of p1, hook of p2]
    return f


def _hooked(case):
    h = case['args'].get('set_hook', {}).get('v')
    return bool(h) and h['hook'] != 'ident' and case['ptype'] in HOOK_TYPES


def _class_ids(t, env):
    """class or tuple of classes -> list of ids (None stays None)"""
    if t is None:
        return None
    out = []
    for c in (t if isinstance(t, tuple) else (t,)):
        out.append(BUILTIN_ID[c] if c in BUILTIN_ID else env.rev[id(c)]['c'])
    return out


def _kwargs(ptype, args, env):
    kw = {}
    for k, w in args.items():
        v = w['v']
        if k == 'default' or k == 'step':
            kw[k] = env.dec(v)
        elif k == 'bounds':
            if v is None:
                kw[k] = None
            elif ptype in ('List', 'HookList'):
                kw[k] = tuple(v)
            else:
                kw[k] = tuple(env.dec(b) for b in v)
        elif k == 'inclusive_bounds':
            kw[k] = tuple(v)
        elif k == 'regex':
            kw[k] = v if ptype == 'String' else v.encode('latin1')
        elif k in ('item_type', 'class_'):
            kw[k] = None if v is None else _classes(v, env)
        elif k == 'objects':
            kw[k] = [env.dec(o) for o in v]
            if 'names' in args:                       # dict-declared: {name: object}
                kw[k] = dict(zip(args['names']['v'], kw[k]))
        elif k == 'names':
            continue
        elif k == 'softbounds':
            kw[k] = None if v is None else tuple(env.dec(b) for b in v)
        elif k == 'set_hook':
            kw[k] = _hook(v, env)
        else:
            kw[k] = v
    return kw


HAS_LEN = ('Tuple', 'NumericTuple', 'XYCoordinates', 'Range', 'DateRange', 'CalendarDateRange')
HAS_BOUNDS = ('Number', 'Integer', 'Magnitude', 'Date', 'CalendarDate', 'Range', 'DateRange', 'CalendarDateRange')


def _attempt(do, read, v, eq=False):
    try:
        do()
    except Exception as e:
        return [_ename(e), None]
    try:
        rb = read()
    except Exception as e:
        return ['ok', 'readerr:' + type(e).__name__]
    same = rb is v or (eq and type(rb) is type(v) and rb == v)
    return ['ok', 'same' if same else 'diff']


def apply_ops(obj, ops, dec):
    """in-place mutation of a held list / dict (plain Python, no param involved)"""
    for op in ops:
        k = op[0]
        if k == 'append':
            obj.append(dec(op[1]))
        elif k == 'extend':
            obj.extend([dec(x) for x in op[1]])
        elif k == 'insert0':
            obj.insert(0, dec(op[1]))
        elif k == 'pop':
            obj.pop()
        elif k == 'clear':
            obj.clear()
        elif k == 'setitem':
            obj[op[1] if isinstance(obj, list) or isinstance(op[1], (int, str)) else dec(op[1])] = dec(op[2])
        elif k == 'del':
            del obj[dec(op[1])]
        else:
            raise ValueError(op)
    return obj


class _AliasBroken(Exception):
    pass


def _run_alias(case, env, C1, C2):
    """aliasing stream: per route, assign a fresh container, take the object the parameter now HOLDS,
    mutate it in place, assign that identical object again.  -> [first outcome, second outcome, read-back]"""
    out = []
    for ac in case.get('alias', []):
        o = {}
        for route in ('inst', 'upd', 'cls'):
            h = env.dec(ac['start'])
            if route == 'cls':
                target, do = C2, (lambda v: setattr(C2, 'p', v))
            else:
                target = C1()
                do = (lambda v, t=target: setattr(t, 'p', v)) if route == 'inst' else (lambda v, t=target: t.param.update(p=v))
            read = lambda t=target: t.param.get_value_generator('p')
            first = _attempt(lambda: do(h), read, h)
            if first[0] != 'ok':
                o[route] = [first[0], None, None]
                continue
            held = read()
            if not isinstance(held, (list, dict)):
                raise _AliasBroken(f'held value is {type(held).__name__}')
            apply_ops(held, ac['ops'], env.dec)
            if env.enc(held) != ac['after']:
                raise _AliasBroken(f'content after the in-place mutation is {env.enc(held)!r}, expected {ac["after"]!r}')
            second = _attempt(lambda: do(held), read, held)
            o[route] = [first[0] if first[1] == 'same' else 'ok-copied', second[0], second[1]]
        out.append(o)
    return out


def run_impl(case):
    import param
    ptype, args = case['ptype'], case['args']
    env = Env()
    P = getattr(param, ptype)
    try:
        try:
            p1 = P(**_kwargs(ptype, args, env))
        except Exception as e:
            return {'ctor': _ename(e), 'slots': None, 'vals': [], 'alias': []}
        p2 = P(**_kwargs(ptype, args, env))
        slots = {'allow_None': bool(p1.allow_None),
                 'length': p1.length if ptype in HAS_LEN else None,
                 'bounds': ([p1.bounds[0] is not None, p1.bounds[1] is not None]
                            if ptype in HAS_BOUNDS and p1.bounds is not None else None),
                 'check_on_set': bool(p1.check_on_set) if ptype in ('Selector', 'ListSelector') else None,
                 'constant': bool(p1.constant), 'readonly': bool(p1.readonly),
                 'item_type': _class_ids(p1.item_type, env) if ptype in ('List', 'HookList') else None}
        C1 = type('C1', (param.Parameterized,), {'p': p1})
        C2 = type('C2', (param.Parameterized,), {'p': p2})
        if case.get('obj_ops'):
            # edits of the objects list after the declaration: the constraint in force is the list as it is now
            for C in (C1, C2):
                apply_ops(C.param.p.objects, case['obj_ops'], env.dec)
                if [env.enc(o) for o in C.param.p.objects] != case['objects_after']:
                    raise _AliasBroken(f'objects after the edits: {[env.enc(o) for o in C.param.p.objects]!r}')
        inst, inst2 = C1(), C1()
        hooked = _hooked(case)
        hk1, hk2 = (env.hooks[0], env.hooks[1]) if len(env.hooks) == 2 and ptype in HOOK_TYPES else (None, None)
        out = []
        for j in case['values']:
            v = env.dec(j)
            o = {}
            box = {}

            def kw():
                box['o'] = C1(p=v)

            def route(do, read, hk):
                # `same`: the object that reaches the constant guard (the hook's output) is the one already
                # held; a fact about Python object identity, established here, not by param
                try:
                    same = read() is (hk(None, v) if hk else v)
                except Exception:
                    same = False
                r = _attempt(do, read, v)
                if hooked and r[0] == 'ok' and not str(r[1]).startswith('readerr'):
                    r[1] = {'val': env.enc(read())}
                return r + [same]
            o['kw'] = _attempt(kw, lambda: box['o'].param.get_value_generator('p'), v)
            if hooked and o['kw'][0] == 'ok':
                o['kw'][1] = {'val': env.enc(box['o'].param.get_value_generator('p'))}
            o['kw'].append(False)
            o['inst'] = route(lambda: setattr(inst, 'p', v), lambda: inst.param.get_value_generator('p'), hk1)
            o['upd'] = route(lambda: inst2.param.update(p=v), lambda: inst2.param.get_value_generator('p'), hk1)
            o['cls'] = route(lambda: setattr(C2, 'p', v), lambda: C2.param.get_value_generator('p'), hk2)
            o['cupd'] = route(lambda: C2.param.update(p=v), lambda: C2.param.get_value_generator('p'), hk2)
            # deserialisation route, where the value has a JSON form
            o['deser'] = None
            try:
                try:
                    payload = json.dumps({'p': P.serialize(v)})
                except Exception:
                    payload = json.dumps({'p': v})
                dv = C1.param.deserialize_parameters(payload)['p']
                jv = env.enc(json.loads(payload)['p'])
                dj = env.enc(dv)
            except Exception:
                dj = Ellipsis
            if dj is not Ellipsis:
                def de():
                    box['d'] = C1(p=dv)
                rd = _attempt(de, lambda: box['d'].param.get_value_generator('p'), dv, eq=True)
                if hooked and rd[0] == 'ok':
                    rd[1] = {'val': env.enc(box['d'].param.get_value_generator('p'))}
                o['deser'] = rd + [dj, jv]
            out.append(o)
        return {'ctor': 'ok', 'slots': slots, 'vals': out, 'alias': _run_alias(case, env, C1, C2)}
    except Exception as e:  # the harness itself could not drive the object: report, do not hide
        return {'crash': f'{type(e).__name__}: {e}'[:300]}


# ------------------------------------------------------------------ case construction

def A(**kw):
    """constructor arguments: only the ones passed"""
    return {k: {'v': v} for k, v in kw.items()}


def _rx_bit(ptype, args, j):
    if 'regex' not in args or j is None:
        return False
    pat = args['regex']['v']
    if ptype == 'String' and set(j) == {'s'}:
        return re.match(pat, j['s']) is not None
    if ptype == 'Bytes' and set(j) == {'y'}:
        return re.match(pat.encode('latin1'), j['y'].encode('latin1')) is not None
    return False


def mk(ptype, args, values, alias=(), obj_ops=None):
    d = args['default']['v'] if 'default' in args else ({'s': ''} if ptype == 'String' else {'y': ''} if ptype == 'Bytes' else None)
    c = {'ptype': ptype, 'args': args, 'mro': MRO, 'values': values,
         'rx': [_rx_bit(ptype, args, j) for j in values], 'rx_default': _rx_bit(ptype, args, d)}
    if alias:
        c['alias'] = [al(a['start'], a['ops']) for a in alias]
    if obj_ops:
        # positional / key edits of Selector.objects after the declaration; `objects_after` is what a list
        # (positional ops) resp. an insertion-ordered mapping (key ops) holds afterwards -- plain Python
        env = Env()
        objs = [env.dec(o) for o in args['objects']['v']]
        names = list(args['names']['v']) if 'names' in args else None
        for op in obj_ops:
            if op[0] == 'setitem' and isinstance(op[1], str):
                if op[1] in names:
                    objs[names.index(op[1])] = env.dec(op[2])
                else:
                    names.append(op[1])
                    objs.append(env.dec(op[2]))
            else:
                apply_ops(objs, [op], env.dec)
        c['obj_ops'] = obj_ops
        c['objects_after'] = [env.enc(o) for o in objs]
    return c


def al(start, ops):
    """alias entry: start container (tagged), in-place ops (tagged operands), and the content after them"""
    env = Env()
    return {'start': start, 'ops': ops, 'after': env.enc(apply_ops(env.dec(start), ops, env.dec))}


INF = float('inf')
NAN = float('nan')
D0, D1, D2, D3 = dt.date(2020, 1, 1), dt.date(2020, 6, 1), dt.date(2020, 12, 31), dt.date(2021, 6, 1)
T0, T1, T2, T3 = (dt.datetime(2020, 1, 1), dt.datetime(2020, 6, 1, 12), dt.datetime(2020, 12, 31), dt.datetime(2021, 6, 1, 0, 0, 1))
F1, F2, GEN = FN(1), FN(2), FN(3, True)
UA, UB, UC, UD = CLS(100), CLS(101), CLS(102), CLS(103)
OA, OB, OD = OBJ(100, 1), OBJ(101, 2), OBJ(103, 3)

JUNK = ['1', b'1', (), [], {}, (1,), [1], {'a': 1}, D1, T1, F1, GEN, UA, OA]


def _neighbours(b):
    return [math.nextafter(float(b), -INF), math.nextafter(float(b), INF)]


def numeric_pool(bounds=(-1, 0, 1, 2)):
    vals = [None, True, False, -2, -1, 0, 1, 2, 3, -1.0, -0.0, 0.0, 0.5, 1.0, 1.5, 2.0, 2.5, NAN, INF, -INF,
            Fraction(1, 2), Fraction(1), Fraction(2), Fraction(-1), Fraction(5, 2), Decimal('0.5'), Decimal('1'), Decimal('2'),
            Decimal('-1'), Decimal('Infinity'), Decimal('-Infinity'), 10**30, -10**30, 2**53 + 1, 1e308, 5e-324]
    for b in bounds:
        vals += _neighbours(b)
    return vals + JUNK


def _inside(x, lo, hi, il, ih):
    """generator-side helper to pick a usable default (not the oracle)"""
    if lo is not None and not (x >= lo if il else x > lo):
        return False
    if hi is not None and not (x <= hi if ih else x < hi):
        return False
    return True


def _pick_default(lo, hi, il, ih, integer=False):
    cands = [0, 1, -1, 2, 3, -2, 10**6, -10**6] + ([] if integer else [0.5, 1.5, -0.5])
    for b in (lo, hi):
        if b is not None and not math.isinf(b):
            cands += [b, b + 1, b - 1] if integer else [b, b + 0.5, b - 0.5]
    for x in cands:
        if _inside(x, lo, hi, il, ih):
            return x
    return None


BOUND_VALUES = [None, -1, 0, 1, 2, -INF, INF]
INCL = [(True, True), (True, False), (False, True), (False, False)]


def integer_pool():
    vals = [None, True, False, -2, -1, 0, 1, 2, 3, -1.0, 0.0, 1.0, 2.0, 0.5, NAN, INF, -INF, Fraction(1), Fraction(1, 2), Decimal(1),
            10**30, 2**53 + 1, math.nextafter(1.0, INF), math.nextafter(0.0, -INF)]
    return vals + JUNK


def number_grid(ptype, bound_values=BOUND_VALUES, pool=None):
    pool = pool or [E(v) for v in numeric_pool()]
    k = 0
    for lo, hi in [('absent', None)] + list(itertools.product(bound_values, bound_values)):
        for incl in INCL:
            for allow_none in (False, True):
                k += 1
                args = {}
                il, ih = incl
                if lo == 'absent':
                    l, h = (0.0, 1.0) if ptype == 'Magnitude' else (None, None)
                else:
                    l, h = lo, hi
                    args.update(A(bounds=[E(l), E(h)]))
                if incl != (True, True) or k % 3 == 0:
                    args.update(A(inclusive_bounds=list(incl)))
                if allow_none:
                    args.update(A(allow_None=True))
                d = _pick_default(l, h, il, ih, integer=(ptype == 'Integer'))
                if d is None or k % 5 == 0:
                    args.update(A(default=E(F2)))          # a Dynamic default is valid under any bounds
                elif k % 7 == 0 and allow_none:
                    args.update(A(default=None))
                else:
                    args.update(A(default=E(d)))
                yield mk(ptype, args, pool)


def pair_pool():
    atoms = [-2, -1, 0, 1, 2, 3, 0.5, NAN, INF, -INF, True, Fraction(1, 2), Decimal('1.5'),
             math.nextafter(0.0, -INF), math.nextafter(1.0, INF)]
    pairs = [(a, b) for a in atoms[:6] for b in atoms[:6]]
    pairs += [(a, b) for a in atoms[6:] for b in (0, 1)] + [(a, b) for b in atoms[6:] for a in (0, 1)]
    pairs += [(NAN, NAN), (INF, INF), (-INF, INF), (INF, -INF), (0.5, 0.5)]
    other = [None, (), (1,), (0, 1, 2), [0, 1], (0, None), (None, None), ('0', '1'), (D0, D1), 5, '01', b'01', {0: 1, 1: 2},
             (F1, F1), F1, GEN, UA, OA, (0, 1.0), ((0, 1),)]
    return pairs + other


def range_grid(bound_values=BOUND_VALUES, steps=('absent', 1, -1), thin=1):
    pool = [E(v) for v in pair_pool()]
    k = 0
    for ib, (lo, hi) in enumerate([('absent', None)] + list(itertools.product(bound_values, bound_values))):
        for ii, incl in enumerate(INCL):
            for ist, step in enumerate(steps):
                k += 1
                # thinning must not line up with any one loop: a diagonal keeps every step / inclusivity
                # for a third of the bounds each (k % thin would keep a single step value)
                if (ib + ii + ist) % thin:
                    continue
                args = {}
                l = h = None
                if lo != 'absent':
                    l, h = lo, hi
                    args.update(A(bounds=[E(l), E(h)]))
                if incl != (True, True) or k % 3 == 0:
                    args.update(A(inclusive_bounds=list(incl)))
                if step != 'absent':
                    args.update(A(step=E(step)))
                d = _pick_default(l, h, incl[0], incl[1])
                if d is not None and k % 2 == 0:
                    args.update(A(default=E((d, d))))
                    if k % 4 == 0:
                        args.update(A(allow_None=True))
                yield mk('Range', args, pool)


def seq_values(items, maxlen=3, as_tuple=False):
    out = []
    for n in range(maxlen + 1):
        for combo in itertools.islice(itertools.product(items, repeat=n), 0, 40):
            out.append(tuple(combo) if as_tuple else list(combo))
    return out


def tuple_cases():
    pool = [E(v) for v in ([None, (), (1,), (1, 2), (1, 2, 3), (1, 2, 3, 4), (True, 2.5), (NAN, INF), (Fraction(1, 2), Decimal('1')),
                            ('a', 'b'), (None, None), (1, 'a'), ([1], (2,)), (F1, UA), [1, 2], 'ab', b'ab', 5, {1: 2, 3: 4}, D0, F1, UA, OA])]
    for ptype in ('Tuple', 'NumericTuple'):
        yield mk(ptype, {}, pool)
        for n in range(0, 4):
            yield mk(ptype, A(default=None, length=n), pool)
            yield mk(ptype, A(default=E(tuple(range(n)))), pool)
            yield mk(ptype, A(default=E(tuple(range(n))), allow_None=True), pool)
            yield mk(ptype, A(default=E(tuple(range(n))), length=n), pool)
            yield mk(ptype, A(length=n), pool)
        yield mk(ptype, A(default=None), pool)                       # length must be given
        yield mk(ptype, A(default=E((1, 2, 3)), length=2), pool)     # the length of a non-empty default wins (docstring)
        yield mk(ptype, A(default=E(('a', 'b'))), pool)
    for kw in ({}, A(allow_None=True), A(default=None), A(default=E((1.5, -2))), A(default=E((1, 2, 3))),
               A(default=E((1,))), A(default=E(('a', 'b')))):
        yield mk('XYCoordinates', kw, pool)


def string_cases():
    strs = ['', 'a', 'ab', 'ba', 'A', '1', '12a', 'a\n', '\na', ' ', 'é']
    other = [None, 1, 1.5, True, b'a', ['a'], ('a',), {'a': 1}, D0, F1, UA, OA]
    for regex in (None, '^a', 'a$', '[0-9]+', '', 'a|b', '^$'):
        for kw in ({}, A(allow_None=True), A(default=None), A(default=E('a')), A(default=E('zz'))):
            for ptype, conv in (('String', lambda s: s), ('Bytes', lambda s: s.encode('latin1'))):
                args = dict(kw)
                if 'default' in args and args['default']['v'] is not None:
                    args['default'] = {'v': E(conv(args['default']['v']['s']))}
                if regex is not None:
                    args.update(A(regex=regex))
                vals = [E(conv(s)) for s in strs] + [E(v) for v in other] + [E('a' if ptype == 'Bytes' else b'a')]
                yield mk(ptype, args, vals)


def boolean_cases():
    pool = [E(v) for v in [None, True, False, 0, 1, 0.0, 1.0, 'True', b'', [], (), {}, NAN, D0, F1, UA, OA, Fraction(1), Decimal(1)]]
    for ptype in ('Boolean', 'Event'):
        for kw in ({}, A(allow_None=True), A(default=E(True)), A(default=E(True), allow_None=True), A(default=E(1))) + \
                ((A(default=None),) if ptype == 'Boolean' else ()):
            yield mk(ptype, kw, pool)


def callable_cases():
    pool = [E(v) for v in [None, F1, GEN, UA, UD, OA, 1, 'f', [], (F1,), [F1], {}, True, D0, CLS(1), CLS(4)]]
    for ptype in ('Callable', 'Action'):
        for kw in ({}, A(allow_None=True), A(default=E(F2)), A(default=E(F2), allow_None=True), A(default=E(F2), allow_None=False),
                   A(default=E(5)), A(default=E(UA))):
            yield mk(ptype, kw, pool)


def list_cases():
    items = [1, 'a', True, None, 1.5, F1, UA, UB, OA, OB, OD, CLS(1), CLS(2)]
    vals = [None, (), (1,), 'ab', 5, {1: 2}, F1, UA, OA] + [[]] + [[x] for x in items] + \
           [[x, y] for x in items[:6] for y in items[:6]] + [[1, 2, 3], [1, 'a', 2], ['a', 'b', 'c'], [1, 2, 3, 4], [F1, F2], [F1, GEN, UA],
                                                              [UA, UB], [UB, UC], [UD], [OA, OB], [OB, OD], [[1]], [True, False, 1]]
    pool = [E(v) for v in vals]
    item_types = [None, [1], [4], [1, 4], [2], [0], [100], [101], [100, 103], [12]]
    k = 0
    for mn, mx in [('absent', None), (None, None), ('none', None)] + [(a, b) for a in (None, 0, 1, 2) for b in (None, 0, 1, 2, 3)]:
        for it in item_types:
            for is_inst in (True, False):
                k += 1
                if not is_inst and it is None:
                    continue
                if ((k - 1) // 2) % 2 and mn not in ('absent', 0):      # every other (bounds, item type) pair, both is_instance
                    continue
                args = {}
                if mn == 'none':
                    args.update(A(bounds=None))
                elif mn != 'absent':
                    args.update(A(bounds=[mn, mx]))
                if it is not None:
                    args.update(A(item_type=it))
                if not is_inst:
                    args.update(A(is_instance=False))
                if k % 3 == 0:
                    args.update(A(allow_None=True))
                lo = 0 if mn in ('absent', 'none', None) else mn
                hi = 99 if mn in ('absent', 'none') or mx is None else mx
                if lo <= hi and lo > 0:
                    if it is None or is_inst and it in ([1], [1, 4], [0]):
                        args.update(A(default=E([1] * lo)))
                    elif is_inst and it in ([100], [100, 103]):
                        args.update(A(default=E([OA] * lo)))
                    elif not is_inst and it in ([100], [0], [100, 103]):
                        args.update(A(default=E([UA] * lo)))
                    else:
                        args.update(A(default=None))
                elif k % 5 == 0:
                    args.update(A(default=None))
                yield mk('List', args, pool)
    # the deprecated alias `class_` of item_type, alone and together with item_type
    for kw in (A(class_=[1]), A(class_=[1], item_type=[4]), A(class_=[1], item_type=None), A(item_type=None), A(class_=[100]),
               A(class_=[1, 4], bounds=[0, 2]), A(class_=[100], is_instance=False), A(class_=[4], default=E(['a'])),
               A(class_=[4], default=E([1]))):
        yield mk('List', kw, pool)
    hpool = [E(v) for v in [None, [], [F1], [F1, F2], [F1, GEN, UA], [F1, 1], [1], ['f'], [OA], [None], (F1,), F1, 5, 'f', {}, [F1, F2, F1]]]
    for kw in ({}, A(allow_None=True), A(default=None), A(default=E([F2])), A(default=E([1])), A(bounds=[1, 2], default=E([F2])),
               A(bounds=[None, 1]), A(bounds=[2, None], default=E([F1, F2]), allow_None=True), A(bounds=None)):
        yield mk('HookList', kw, hpool)


def selector_cases():
    object_lists = [[], [1, 2, 3], ['a', 'b'], [1, 'a', None], [None], [1.5, (1, 2), [3]], [True, 2], [0, ''], [UA, F1, OA], [D0, T0],
                    [[1], [1, 2]], [2.0, 'A']]
    vals = [None, 1, 2, 3, 4, 1.0, 2.0, True, False, 0, 'a', 'b', 'A', '', 1.5, (1, 2), [3], [1], [1, 2], (1,), [], Fraction(1), Decimal(2),
            NAN, UA, UB, F1, F2, OA, OB, D0, T0, dt.date(2020, 1, 2), b'a', {}, 10**30]
    pool = [E(v) for v in vals]
    lvals = [None, [], 5, 'a', (1,), {}, F1] + [[v] for v in vals if not isinstance(v, float) or v == v] + \
            [[1, 2], [2, 1, 1], [1, 4], [4, 1], ['a', 1], [None, 1], [1, None], [None, None], [1.0, True], [[3]], [[1], [1, 2]], [UA, OA]]
    lpool = [E(v) for v in lvals]
    for objs in object_lists:
        for cos in ('absent', True, False):
            for an in ('absent', True, False):
                args = A(objects=[E(o) for o in objs])
                if cos != 'absent':
                    args.update(A(check_on_set=cos))
                if an != 'absent':
                    args.update(A(allow_None=an))
                yield mk('Selector', dict(args), pool)
                yield mk('ListSelector', dict(args), lpool)
                if objs:
                    yield mk('Selector', dict(args, **A(default=E(objs[-1]))), pool)
                    yield mk('Selector', dict(args, **A(default=None)), pool)
                    yield mk('ListSelector', dict(args, **A(default=E([objs[-1]]))), lpool)
                if objs or cos != 'absent':
                    # (objects=[] + default + no explicit check_on_set is outside the domain: see ASSUMPTIONS)
                    yield mk('Selector', dict(args, **A(default=E(77))), pool)
                    yield mk('ListSelector', dict(args, **A(default=E([77]))), lpool)
                    yield mk('ListSelector', dict(args, **A(default=E(77))), lpool)
    yield mk('Selector', {}, pool)
    yield mk('ListSelector', {}, lpool)


def classselector_cases():
    vals = [None, 1, True, 1.5, 'a', b'a', [], (), {}, {'a': 1}, D0, T0, F1, GEN, UA, UB, UC, UD, CLS(104), OA, OB, OBJ(102, 4), OD,
            OBJ(104, 5), CLS(1), CLS(2), CLS(4), CLS(0), CLS(8), CLS(10), CLS(11), Fraction(1), Decimal(1), NAN]
    pool = [E(v) for v in vals]
    for cl in ([1], [2], [4], [1, 4], [0], [8], [10], [11], [100], [101], [102], [103], [104], [100, 103], [101, 8], [13], [12]):
        for is_inst in ('absent', True, False):
            for kw in ({}, A(allow_None=True), A(allow_None=False)):
                args = dict(A(class_=cl), **kw)
                if is_inst != 'absent':
                    args.update(A(is_instance=is_inst))
                yield mk('ClassSelector', args, pool)
        yield mk('ClassSelector', dict(A(class_=cl, default=E(1))), pool)
        yield mk('ClassSelector', dict(A(class_=cl, default=E(OB))), pool)
        yield mk('ClassSelector', dict(A(class_=cl, default=E(UB), is_instance=False)), pool)
        yield mk('ClassSelector', dict(A(class_=cl, default=E(UB), is_instance=False, allow_None=True)), pool)
    dvals = [None, {}, {'a': 1}, {1: [2]}, [], [('a', 1)], (), 'a', 1, F1, CLS(8), OA, {'a': {'b': None}}]
    dpool = [E(v) for v in dvals]
    for kw in ({}, A(allow_None=True), A(default=E({})), A(default=E({'a': 1}), allow_None=True), A(default=E([])), A(default=E({}), allow_None=False)):
        yield mk('Dict', kw, dpool)


def date_cases():
    near = [dt.date(2019, 12, 31), D0, dt.date(2020, 1, 2), D1, dt.date(2020, 12, 30), D2, dt.date(2021, 1, 1), D3,
            dt.datetime(2019, 12, 31, 23, 59, 59, 999999), T0, dt.datetime(2020, 1, 1, 0, 0, 0, 1), T1,
            dt.datetime(2020, 12, 30, 23, 59, 59, 999999), T2, dt.datetime(2020, 12, 31, 0, 0, 0, 1), T3]
    other = [None, 0, 1.5, True, '2020-01-01', b'', (), [], {}, (D0,), F1, GEN, UA, OA, CLS(10), NAN, 737425]
    pool = [E(v) for v in near + other]
    bsets = [('absent', None), (None, None), (D0, D2), (T0, T2), (D0, None), (None, D2), (T0, None), (None, T2), (D0, T2), (T0, D2),
             (D2, D0), (D1, D1), (T1, T1)]
    k = 0
    for ptype in ('Date', 'CalendarDate'):
        for lo, hi in bsets:
            for incl in INCL:
                k += 1
                args = {}
                if lo != 'absent':
                    if ptype == 'CalendarDate' and (isinstance(lo, dt.datetime) or isinstance(hi, dt.datetime)):
                        continue                      # CalendarDate bounds are plain dates
                    args.update(A(bounds=[E(lo), E(hi)]))
                if incl != (True, True):
                    args.update(A(inclusive_bounds=list(incl)))
                if k % 3 == 0:
                    args.update(A(allow_None=True))
                if k % 4 == 0:
                    args.update(A(default=E(D1)))     # may violate the bounds: then the constructor must refuse
                elif k % 4 == 1 and ptype == 'Date':
                    args.update(A(default=E(T1)))
                yield mk(ptype, args, pool)
    pairs = [(a, b) for a in (D0, D1, D2, D3, dt.date(2019, 12, 31)) for b in (D0, D1, D2, D3)] + \
            [(a, b) for a in (T0, T1, T2, T3, dt.datetime(2019, 12, 31, 23, 59, 59, 999999)) for b in (T0, T1, T2, dt.datetime(2020, 12, 31, 0, 0, 0, 1))] + \
            [(D0, T1), (T0, D1), (D1, T0), (T1, D0), (D0, T0), (T0, D0)]
    rother = [None, (), (D0,), (D0, D1, D2), (D0, None), (None, None), (1, 2), ('a', 'b'), D0, T0, 5, 'ab', '', b'ab', F1, UA, OA,
              (D0, 1), (T0, T1, T2), {1: 2}, [1, 2], (NAN, NAN)]
    rpool = [E(v) for v in pairs + rother]
    for ptype in ('DateRange', 'CalendarDateRange'):
        for lo, hi in bsets:
            for incl in INCL:
                k += 1
                if ((k - 1) // 4) % 2 and incl not in ((True, True), (False, False)):   # every other bounds pair
                    continue
                args = {}
                if lo != 'absent':
                    args.update(A(bounds=[E(lo), E(hi)]))
                if incl != (True, True):
                    args.update(A(inclusive_bounds=list(incl)))
                if k % 4 == 0:
                    args.update(A(default=E((D1, D1)), allow_None=(k % 8 == 0)))
                elif k % 4 == 1:
                    args.update(A(default=E((T1, T1))))
                yield mk(ptype, args, rpool)
    lists = [E(v) for v in [[D0, D1], [T0, T1], [D1, D0], [D0], {D0: 1, D1: 2}, {D0: 1}, [D0, T1], [1, 2], []]]
    for ptype in ('DateRange', 'CalendarDateRange'):
        yield mk(ptype, {}, lists)
        yield mk(ptype, A(bounds=[E(D0), E(D2)]), lists)


CSS_NAMES = None


def color_cases():
    # independent of param: the CSS3 extended colour keywords come from the Lean spec side; here only
    # strings are generated.  (147 names are embedded in the Lean model; the sample below covers both sides.)
    names = ['red', 'Red', 'RED', 'rEd', 'aliceblue', 'AliceBlue', 'yellowgreen', 'darkgrey', 'darkgray', 'rebeccapurple', 'reds',
             're', ' red', 'red ', 'grey', 'transparent', 'none', 'lightgoldenrodyellow', 'LIGHTGOLDENRODYELLOW', 'whitesmoke', 'tan']
    hexd = '0123456789abcdefABCDEF'
    hexes = []
    for n in range(0, 9):
        body = ''.join(hexd[(7 * i + n) % len(hexd)] for i in range(n))
        hexes += [body, '#' + body]
    bad = ['#ggg', 'ggg', '#12345g', '12 456', '##fff', '#fff#', 'fff\n', '#ffffff\n', 'red\n', '\nfff', '#fff\n\n', '#', '', '0x123456',
           '#ｆｆｆ', '#fff ', ' #fff']
    other = [None, 1, 0xfff, 1.5, True, b'#fff', b'red', ['red'], ('#fff',), {}, D0, F1, UA, OA]
    pool = [E(v) for v in names + hexes + bad + other]
    for kw in ({}, A(allow_None=True), A(default=E('#fff')), A(default=E('red')), A(default=E('red'), allow_named=False),
               A(allow_named=False), A(allow_named=False, default=E('#abcdef'), allow_None=True), A(allow_named=True, default=E('nocolor')),
               A(default=E('#fff'), allow_None=False), A(default=E(5))):
        yield mk('Color', kw, pool)


def all_names_case(names):
    vals = []
    for n in names:
        vals += [n, n.upper(), n.capitalize(), n + 'x', n[:-1]]
    return [mk('Color', A(default=E('#000')), [E(v) for v in vals]),
            mk('Color', A(default=E('#000'), allow_named=False), [E(v) for v in vals[::5]])]


CSS3 = ('aliceblue antiquewhite aqua aquamarine azure beige bisque black blanchedalmond blue blueviolet brown burlywood cadetblue chartreuse '
        'chocolate coral cornflowerblue cornsilk crimson cyan darkblue darkcyan darkgoldenrod darkgray darkgrey darkgreen darkkhaki darkmagenta '
        'darkolivegreen darkorange darkorchid darkred darksalmon darkseagreen darkslateblue darkslategray darkslategrey darkturquoise darkviolet '
        'deeppink deepskyblue dimgray dimgrey dodgerblue firebrick floralwhite forestgreen fuchsia gainsboro ghostwhite gold goldenrod gray grey '
        'green greenyellow honeydew hotpink indianred indigo ivory khaki lavender lavenderblush lawngreen lemonchiffon lightblue lightcoral '
        'lightcyan lightgoldenrodyellow lightgray lightgrey lightgreen lightpink lightsalmon lightseagreen lightskyblue lightslategray '
        'lightslategrey lightsteelblue lightyellow lime limegreen linen magenta maroon mediumaquamarine mediumblue mediumorchid mediumpurple '
        'mediumseagreen mediumslateblue mediumspringgreen mediumturquoise mediumvioletred midnightblue mintcream mistyrose moccasin navajowhite '
        'navy oldlace olive olivedrab orange orangered orchid palegoldenrod palegreen paleturquoise palevioletred papayawhip peachpuff peru pink '
        'plum powderblue purple red rosybrown royalblue saddlebrown salmon sandybrown seagreen seashell sienna silver skyblue slateblue slategray '
        'slategrey snow springgreen steelblue tan teal thistle tomato turquoise violet wheat white whitesmoke yellow yellowgreen').split()


def alias_cases():
    """aliasing stream: a container the parameter already holds is mutated in place and assigned back
    (the identical object).  The verdict must be the one for its content at that moment."""
    def a(start, *ops):
        return {'start': E(start), 'ops': [list(o) for o in ops]}
    ap = lambda v: ('append', E(v))
    # List: item type and length bounds
    la = [a([1], ap('a')), a([1], ap(2)), a([1, 2], ('extend', [E(3), E(4)])), a([1, 2, 3], ap(True)), a([], ap(1)),
          a([1, 2], ('setitem', 0, E('x'))), a([1, 2], ('pop',)), a([1], ('clear',)), a(['a'], ('clear',), ap(1)),
          a([1, 2, 3], ('insert0', E(None))), a([1.5], ('pop',))]
    for kw in (A(item_type=[1], bounds=[0, 3]), A(item_type=[1], bounds=[0, 3], default=E([1])), A(bounds=[1, 2], default=E([0])),
               A(item_type=[1, 4]), A(item_type=[1], allow_None=True, bounds=[1, None], default=None), A(bounds=None, item_type=[2])):
        yield mk('List', kw, [], la)
    yield mk('List', A(item_type=[100]), [], [a([OA], ap(OB)), a([OA], ap(OD)), a([OA, OB], ('setitem', 1, E(1))), a([], ap(UA))])
    yield mk('List', A(item_type=[100], is_instance=False), [], [a([UA], ap(UB)), a([UA], ap(UD)), a([UA], ap(OA))])
    yield mk('HookList', {}, [], [a([F1], ap(1)), a([F1], ap(F2)), a([], ap('f')), a([F1, F2], ('setitem', 0, E(None)))])
    yield mk('HookList', A(bounds=[0, 1]), [], [a([F1], ap(F2)), a([], ap(F1))])
    # ListSelector: allowed objects
    sa = [a([1], ap(4)), a([1], ap(2)), a([1, 2], ('setitem', 0, E('a'))), a([], ap(None)), a([3], ap(3.0)), a([1], ('clear',)),
          a([2], ('extend', [E(1), E(77)])), a([4], ('clear',))]
    for kw in (A(objects=[E(1), E(2), E(3)]), A(objects=[E(1), E(2), E(3)], allow_None=True),
               A(objects=[E(1), E(2), E(3)], default=E([1])), A(objects=[E(1), E(2), E(3)], check_on_set=False),
               A(objects=[E(1), E(None)], allow_None=True)):
        yield mk('ListSelector', kw, [], sa)
    # Selector whose objects are containers; class-typed containers (stay valid whatever the content)
    yield mk('Selector', A(objects=[E([3]), E([1, 2]), E(1.5)]), [], [a([3], ap(4)), a([1], ap(2)), a([1, 2], ('pop',), ap(2))])
    yield mk('Dict', {}, [], [a({'a': 1}, ('setitem', E('b'), E([2]))), a({}, ('setitem', E(1), E(None))), a({'a': 1}, ('del', E('a')))])
    yield mk('ClassSelector', A(class_=[6]), [], [a([], ap(1)), a([1], ('clear',))])
    yield mk('ClassSelector', A(class_=[8, 6], allow_None=True), [], [a({}, ('setitem', E('k'), E(1))), a([1], ap('x'))])


def hook_cases():
    """`Number.set_hook`: what is validated and stored is the hook's output"""
    vals = [None, True, False, -16, -8, -4, -1, 0, 1, 4, 5, 8, 10, 16, 2.5, 5.0, 8.0, -0.0, NAN, INF, -INF, 1e308, -1e308, 8.98846567431158e307,
            2**1023, -2**1023, 5e-324, Fraction(4), Decimal(4), 'a', (), [1], F1, GEN, UA]
    pool = [E(v) for v in vals]
    H = lambda kind, k=None: dict({'hook': kind}, **({'k': E(k)} if kind == 'const' else {}))
    hooks = [H('ident'), H('double'), H('neg'), H('const', 3), H('const', 16), H('const', 2.5), H('const', 'x'), H('const', None),
             H('const', NAN), H('const', True)]
    k = 0
    for ptype in ('Number', 'Integer', 'Magnitude'):
        for hook in hooks:
            for bounds in ('absent', [0, 10], [-10, 0], [None, 10], [0, None]):
                k += 1
                if ptype == 'Magnitude' and bounds not in ('absent', [0, 10]):
                    continue
                args = A(set_hook=hook)
                if bounds != 'absent':
                    args.update(A(bounds=[E(b) for b in bounds]))
                    if k % 3 == 0:
                        args.update(A(inclusive_bounds=[False, False]))
                if k % 4 == 0:
                    args.update(A(allow_None=True))
                if bounds == [-10, 0] or (bounds == [0, None] and k % 2):
                    args.update(A(default=E(F2)))
                elif ptype != 'Magnitude':
                    args.update(A(default=E(0 if ptype == 'Integer' else (0 if k % 3 else 0.0))))
                    if k % 3 == 0 and bounds != 'absent':
                        args['default'] = {'v': E(5 if bounds != [-10, 0] else -5)}
                yield mk(ptype, args, pool)
    dpool = [E(v) for v in [None, D0, D1, D3, T1, 1, 'a']]
    for ptype in ('Date', 'CalendarDate'):
        for hook in (H('const', D1), H('const', T1), H('const', D3), H('const', 5), H('double'), H('ident')):
            yield mk(ptype, A(set_hook=hook, bounds=[E(D0), E(D2)]), dpool)
            yield mk(ptype, A(set_hook=hook), dpool)
    # a hook on a type that has no set_hook slot is a constructor error of the library's own (TypeError): not declared here


def constant_cases():
    """constant / read-only declarations: validated on the routes that may set them, refused elsewhere"""
    decls = [('Number', A(bounds=[E(0), E(5)], default=E(1)), [E(v) for v in [1, 1.0, 3, 5, 6, -1, NAN, None, 'a', True, F1]]),
             ('Integer', A(bounds=[E(0), E(5)], default=E(1)), [E(v) for v in [1, 3, 6, 2.0, None, 'a', True]]),
             ('Integer', A(default=E(1), set_hook={'hook': 'double'}), [E(v) for v in [1, 3, 0.5, 'a']]),
             ('String', A(default=E('a'), regex='^a'), [E(v) for v in ['a', 'ab', 'b', '', None, 1]]),
             ('Boolean', {}, [E(v) for v in [True, False, None, 0, 1, 'a']]),
             ('List', A(item_type=[1], bounds=[0, 2], default=E([1])), [E(v) for v in [[1], [], [1, 2, 3], ['a'], None, (1,), 5]]),
             ('Tuple', A(default=E((1, 2))), [E(v) for v in [(1, 2), (3, 4), (1,), [1, 2], None]]),
             ('Range', A(default=E((0, 1)), bounds=[E(0), E(2)]), [E(v) for v in [(0, 1), (1, 2), (1, 3), (NAN, 1), None, (0,)]]),
             ('Selector', A(objects=[E(1), E(2), E('a')]), [E(v) for v in [1, 2, 'a', 3, None, 1.0]]),
             ('ListSelector', A(objects=[E(1), E(2)], default=E([1])), [E(v) for v in [[1], [2, 1], [3], [], None, 1]]),
             ('ClassSelector', A(class_=[1], default=E(1)), [E(v) for v in [1, True, 'a', None, 1.5]]),
             ('Color', A(default=E('#fff')), [E(v) for v in ['#fff', 'red', 'nocolor', None, 1]]),
             ('Date', A(default=E(D1), bounds=[E(D0), E(D2)]), [E(v) for v in [D1, D0, D3, T1, None, 1]]),
             ('Callable', A(default=E(F2)), [E(v) for v in [F1, None, 1]]),
             ('Dict', A(default=E({})), [E(v) for v in [{}, {'a': 1}, [], None]])]
    for ptype, args, pool in decls:
        yield mk(ptype, dict(args, **A(constant=True)), pool)
        yield mk(ptype, dict(args, **A(constant=True, allow_None=True)), pool)
        yield mk(ptype, dict(args, **A(readonly=True)), pool)
        yield mk(ptype, dict(args, **A(constant=False)), pool)
    yield mk('Number', A(constant=True, default=None, bounds=[E(0), E(1)]), [E(v) for v in [None, 0, 1, 2, 0.5]])
    yield mk('Number', A(constant=True, default=E(7), bounds=[E(0), E(1)]), [E(0)])          # invalid default
    yield mk('Number', A(readonly=True, constant=False, default=E(0.5)), [E(0.5), E('a')])


def step_cases():
    """`step` of the Number family and the soft bounds of a Range are type-checked by every `_validate` call:
    an ill-typed one means the constructor raises"""
    npool = [E(v) for v in [None, 0, 1, 0.5, 2, 'a', True, NAN]]
    for ptype, steps in (('Number', [1, 0.5, True, Fraction(1, 2), Decimal('0.1'), NAN, INF, 0, 'a', D0, [1], None, F1]),
                         ('Magnitude', [0.1, 1, 'a', None]),
                         ('Integer', [1, True, 0, -3, 10**30, 0.5, 2.0, 'a', Fraction(1), None, D0])):
        for st in steps:
            yield mk(ptype, A(step=E(st)), npool)
            yield mk(ptype, A(step=E(st), bounds=[E(0), E(1)], allow_None=True), npool)
    dpool = [E(v) for v in [None, D0, D1, T1, 1, 'a']]
    for ptype in ('Date', 'CalendarDate'):
        for st in (D0, T0, 1, 0.5, 'a', None, dt.timedelta and (1,)):
            yield mk(ptype, A(step=E(st)), dpool)
            yield mk(ptype, A(step=E(st), default=E(D1)), dpool)
    rpool = [E(v) for v in [None, (0, 1), (1, 0), (0, 5), (NAN, 1), (0,), 'a']]
    for sb in ([0, 1], [None, 2], [0, None], [0.5, True], [NAN, INF], ['a', 1], [0, 'b'], [D0, None], [None, [1]], [F1, 1]):
        yield mk('Range', A(softbounds=[E(b) for b in sb]), rpool)
        yield mk('Range', A(softbounds=[E(b) for b in sb], bounds=[E(0), E(2)], default=E((0, 1))), rpool)
    yield mk('Range', A(softbounds=None), rpool)
    drpool = [E(v) for v in [None, (D0, D1), (T0, T1), (D1, D0), (D0, T1), (1, 2)]]
    for ptype in ('DateRange', 'CalendarDateRange'):
        for sb in ([D0, D1], [T0, None], [None, T1], [D0, T1], [1, None], [None, 'a'], [0.5, D1]):
            yield mk(ptype, A(softbounds=[E(b) for b in sb]), drpool)
            yield mk(ptype, A(softbounds=[E(b) for b in sb], bounds=[E(D0), E(D2)]), drpool)


def edited_objects_cases():
    """the allowed objects are the list as it is at assignment time: declare (list- or dict-style), edit
    `.objects` positionally or by key, then assign old and new objects through every route"""
    vals = [E(v) for v in [1, 2, 3, 7, 8, 9, None, 'a', 1.0, 4]]
    lvals = [E(v) for v in [[1], [2], [3], [7], [8], [1, 7], [2, 3], [7, 8, 9], [], None, [4]]]
    pos = [[['setitem', 0, E(7)]], [['append', E(7)]], [['insert0', E(7)]], [['extend', [E(7), E(8)]]],
           [['setitem', 1, E(7)], ['append', E(8)]], [['setitem', 2, E(9)], ['setitem', 0, E(7)]]]
    key = [[['setitem', 'a', E(7)]], [['setitem', 'z', E(7)]], [['setitem', 'b', E(8)], ['setitem', 'y', E(9)]]]
    for ptype, pool in (('Selector', vals), ('ListSelector', lvals)):
        for extra in ({}, A(allow_None=True), A(default=E(3) if ptype == 'Selector' else E([3]))):
            base = dict(A(objects=[E(1), E(2), E(3)]), **extra)
            for ops in pos:
                yield mk(ptype, dict(base), pool, (), ops)                                   # list-declared, positional edit
                yield mk(ptype, dict(base, **A(names=['a', 'b', 'c'])), pool, (), ops)       # dict-declared, positional edit
            for ops in key:
                yield mk(ptype, dict(base, **A(names=['a', 'b', 'c'])), pool, (), ops)       # dict-declared, key edit
        yield mk(ptype, dict(A(objects=[E(1), E(2), E(3)], names=['a', 'b', 'c'])), pool)    # dict-declared, untouched


def random_alias_case(rng):
    atoms = [1, 2, 3, 4, 'a', True, None, 1.5, OA, OB, OD, F1, UA]
    def ops():
        out = []
        for _ in range(rng.randint(1, 3)):
            r = rng.random()
            if r < 0.5:
                out.append(['append', E(rng.choice(atoms))])
            elif r < 0.65:
                out.append(['extend', [E(rng.choice(atoms)) for _ in range(rng.randint(0, 3))]])
            elif r < 0.8:
                out.append(['insert0', E(rng.choice(atoms))])
            elif r < 0.9:
                out.append(['clear'])
            else:
                out.append(['extend', []])
        return out
    if rng.random() < 0.6:
        mn, mx = rng.choice([None, 0, 1, 2]), rng.choice([None, 1, 2, 3, 5])
        it = rng.choice([None, [1], [4], [1, 4], [100], [101], [0]])
        args = A(bounds=[mn, mx], default=None)
        if it is not None:
            args.update(A(item_type=it))
        base = {None: atoms, (1,): [1, 2, True], (4,): ['a'], (1, 4): [1, 'a'], (100,): [OA, OB], (101,): [OB], (0,): atoms}[tuple(it) if it else None]
        alias = [{'start': E([rng.choice(base) for _ in range(rng.randint(0, 3))]), 'ops': ops()} for _ in range(6)]
        return mk('List', args, [], alias)
    objs = rng.sample([1, 2, 3, 'a', None, 1.5, True], rng.randint(1, 4))
    args = A(objects=[E(o) for o in objs])
    if rng.random() < 0.4:
        args.update(A(allow_None=True))
    if rng.random() < 0.2:
        args.update(A(check_on_set=False))
    alias = [{'start': E([rng.choice(objs) for _ in range(rng.randint(0, 3))]), 'ops': ops()} for _ in range(6)]
    return mk('ListSelector', args, [], alias)


def directed():
    """one small case per validator branch / repaired deviation; runs first"""
    num = [E(v) for v in [None, 0, 1, 0.5, 1.0, math.nextafter(1.0, INF), NAN, True, F1, GEN, 'a', Fraction(1, 2), Decimal('0.5')]]
    yield mk('Number', A(default=E(0.5), bounds=[E(0), E(1)]), num)
    yield mk('Number', A(default=E(0.5), bounds=[E(0), E(1)], inclusive_bounds=[False, False]), num)
    yield mk('Number', A(default=E(0.5), bounds=[E(0), E(1)], allow_None=True), num)
    yield mk('Number', A(default=E(5), bounds=[E(0), E(1)]), num)                        # invalid default
    yield mk('Number', A(default=E(NAN), bounds=[E(0), None]), num)
    yield mk('Number', A(default=E(NAN)), num)
    yield mk('Number', A(default=E(0), bounds=[E(Fraction(0)), E(Fraction(1))]), num)    # Fraction bounds (outside the declared domain, still exact)
    yield mk('Number', A(default=None, bounds=[E(D0), None]), num)                       # ill-typed bound: the comparison raises TypeError
    yield mk('Integer', A(default=E(1), bounds=[E(0), E(5)]), num)
    yield mk('Integer', A(default=E(1)), [E(GEN)])                                       # repaired: generator function refused
    yield mk('Integer', A(default=E(GEN)), [E(1)])
    yield mk('Magnitude', {}, num)
    yield mk('Magnitude', A(bounds=None), num)
    yield mk('Magnitude', A(default=E(2.0)), num)
    yield mk('Magnitude', A(default=None, bounds=[E(0.25), E(0.75)], inclusive_bounds=[False, True]), num + [E(0.25), E(0.75)])
    rng = [E(v) for v in [None, (0, 1), (1, 0), (0.5, 0.5), (NAN, 0.5), (0.5, NAN), (0, 2), (-1, 1), (0,), (0, 1, 2), [0, 1], (0, 'a'), 5]]
    yield mk('Range', A(default=E((0, 1)), bounds=[E(0), E(1)]), rng)
    yield mk('Range', A(bounds=[E(0), E(1)], inclusive_bounds=[False, False]), rng)
    yield mk('Range', A(bounds=[E(0), None]), rng)                                        # one-sided: NaN must fail the bounded side
    yield mk('Range', A(bounds=[None, E(1)], inclusive_bounds=[True, False]), rng)
    yield mk('Range', A(default=E((0, 1)), step=E(1)), rng)
    yield mk('Range', A(default=E((1, 0)), step=E(-1)), rng)
    yield mk('Range', A(default=E((0, 1)), step=E(0)), rng)                               # step 0: constructor refuses
    yield mk('Range', A(default=E((0, 1, 2))), rng)
    yield mk('Range', A(default=E((5, 6)), bounds=[E(0), E(1)]), rng)
    yield mk('Range', A(default=E((0, 1)), allow_None=False), rng)
    yield mk('ListSelector', A(objects=[E(1), E(2)], allow_None=True), [E([None, 1]), E([None]), E([1]), E(None), E([3])])   # repaired: None items refused
    yield mk('CalendarDateRange', {}, [E([D0, D1]), E((D0, D1)), E({D0: 1, D1: 2}), E((T0, T1))])                                # repaired: tuples of plain dates only
    yield mk('Color', A(default=E('#fff')), [E('ff0000\n'), E('#fff\n'), E('#fff'), E('red\n')])                                # repaired: no trailing newline
    yield mk('XYCoordinates', A(default=E((1, 2, 3))), [E((1, 2)), E((1, 2, 3))])                                               # length follows a non-empty default (docstring)
    yield mk('Tuple', A(default=E((1, 2, 3)), length=2), [E((1, 2)), E((1, 2, 3))])                                             # idem
    yield mk('Bytes', A(default=E(b''), allow_None=True), [E(None), E(b'a'), E('a')])
    yield mk('Bytes', A(default=E(b'a'), regex='^a', allow_None=True), [E(None), E(b'a'), E(b'b'), E('a')])
    for c in all_names_case(CSS3):
        yield c


# ------------------------------------------------------------------ random (thorough, and a little in quick)

def _rand_number(rng, around=None):
    r = rng.random()
    base = rng.choice(around) if around and rng.random() < 0.7 else rng.choice([-3, -1, 0, 1, 2, 7, 100])
    if isinstance(base, float) and (math.isinf(base) or math.isnan(base)):
        base = 0
    if r < 0.2:
        return int(base) + rng.randint(-1, 1)
    if r < 0.45:
        x = float(base)
        for _ in range(rng.randint(0, 2)):
            x = math.nextafter(x, rng.choice([-INF, INF]))
        return x
    if r < 0.55:
        return float(base) + rng.choice([-0.5, 0.25, 1e-9, -1e-9, 0.1])
    if r < 0.65:
        return Fraction(int(base) * 1000 + rng.randint(-2, 2), 1000)
    if r < 0.75:
        return Decimal(int(base)) + Decimal(rng.choice(['0', '0.1', '-0.1', '1e-30', '-1e-30']))
    if r < 0.8:
        return rng.choice([NAN, INF, -INF])
    if r < 0.85:
        return rng.choice([True, False])
    if r < 0.9:
        return int(base) + rng.choice([2**53, -2**53, 10**20])
    return float(rng.uniform(-3, 3))


def _rand_bound(rng, floats=True):
    r = rng.random()
    if r < 0.2:
        return None
    if r < 0.5:
        return rng.randint(-3, 3)
    if r < 0.6:
        return rng.choice([-INF, INF])
    if r < 0.65:
        return rng.choice([True, False])
    return rng.choice([0.5, -0.5, 0.1, 1.0, 2.5, 1e-9, 1e300, 0.30000000000000004])


def random_case(rng):
    fam = rng.random()
    if fam < 0.45:
        ptype = rng.choice(['Number', 'Integer', 'Number', 'Magnitude'])
        lo, hi = _rand_bound(rng), _rand_bound(rng)
        incl = rng.choice(INCL)
        args = {}
        if rng.random() < 0.9 or ptype == 'Magnitude':
            if not (ptype == 'Magnitude' and rng.random() < 0.5):
                args.update(A(bounds=[E(lo), E(hi)]))
            else:
                lo, hi = 0.0, 1.0
        else:
            lo = hi = None
        if rng.random() < 0.8:
            args.update(A(inclusive_bounds=list(incl)))
        else:
            incl = (True, True)
        if rng.random() < 0.4:
            args.update(A(allow_None=rng.random() < 0.8))
        d = _pick_default(lo, hi, incl[0], incl[1], integer=(ptype == 'Integer'))
        r = rng.random()
        if d is None or r < 0.15:
            args.update(A(default=E(F2)))
        elif r < 0.25:
            args.update(A(default=None))
        elif r < 0.35:
            args.update(A(default=E(_rand_number(rng, [b for b in (lo, hi) if b is not None]))))
        else:
            args.update(A(default=E(d)))
        around = [b for b in (lo, hi) if b is not None]
        vals = [_rand_number(rng, around) for _ in range(30)] + rng.sample(JUNK + [None], 3)
        return mk(ptype, args, [E(v) for v in vals])
    if fam < 0.7:
        lo, hi = _rand_bound(rng), _rand_bound(rng)
        incl = rng.choice(INCL)
        args = {}
        if rng.random() < 0.9:
            args.update(A(bounds=[E(lo), E(hi)]))
        else:
            lo = hi = None
        if rng.random() < 0.8:
            args.update(A(inclusive_bounds=list(incl)))
        else:
            incl = (True, True)
        step = rng.choice(['absent', 'absent', 1, -1, 0.5, -2, INF, NAN])
        if step != 'absent':
            args.update(A(step=E(step)))
        d = _pick_default(lo, hi, incl[0], incl[1])
        if d is not None and rng.random() < 0.5:
            args.update(A(default=E((d, d))))
            if rng.random() < 0.3:
                args.update(A(allow_None=True))
        around = [b for b in (lo, hi) if b is not None]
        vals = [(_rand_number(rng, around), _rand_number(rng, around)) for _ in range(30)]
        # ordering a Decimal against a float NaN raises decimal.InvalidOperation: outside the value domain
        vals = [p for p in vals if not (any(isinstance(e, Decimal) for e in p) and any(isinstance(e, float) and e != e for e in p))]
        vals += [rng.choice([None, (), (1,), (0, 1, 2), [0, 1], 5, ('a', 1)])]
        return mk('Range', args, [E(v) for v in vals])
    if fam < 0.8:
        ptype = rng.choice(['Tuple', 'NumericTuple'])
        n = rng.randint(0, 4)
        args = rng.choice([A(default=None, length=n), A(default=E(tuple(range(n)))), A(length=n) if n == 2 else A(default=None, length=n)])
        atoms = [1, 2.5, True, NAN, 'a', None, (1,), F1, Fraction(1, 3)]
        vals = [tuple(rng.choice(atoms) for _ in range(rng.randint(0, 5))) for _ in range(20)] + [None, [1, 2], 'ab']
        return mk(ptype, args, [E(v) for v in vals])
    if fam < 0.9:
        mn, mx = rng.choice([None, 0, 1, 2, 3]), rng.choice([None, 0, 1, 2, 3, 5])
        it = rng.choice([None, [1], [4], [1, 4], [100], [101], [0], [3]])
        args = A(bounds=[mn, mx], default=None)
        if it is not None:
            args.update(A(item_type=it))
        atoms = [1, 'a', True, 1.5, None, OA, OB, OD, F1, UA]
        vals = [[rng.choice(atoms) for _ in range(rng.randint(0, 6))] for _ in range(25)] + [None, (1,), 'ab']
        return mk('List', args, [E(v) for v in vals])
    objs = rng.sample([1, 2, 3, 'a', 'b', None, 1.5, (1, 2), True, 0, 2.0, ''], rng.randint(0, 5))
    args = A(objects=[E(o) for o in objs])
    if rng.random() < 0.5:
        args.update(A(check_on_set=rng.random() < 0.7))
    if rng.random() < 0.5:
        args.update(A(allow_None=rng.random() < 0.6))
    universe = [1, 2, 3, 4, 'a', 'b', 'c', None, 1.5, (1, 2), True, False, 0, 2.0, '', 1.0, Fraction(2), Decimal(3), [1]]
    if rng.random() < 0.5:
        return mk('Selector', args, [E(v) for v in universe])
    vals = [[rng.choice(universe) for _ in range(rng.randint(0, 4))] for _ in range(25)] + [None, 5, (1,)]
    return mk('ListSelector', args, [E(v) for v in vals])


def cases(rng, tier, worker, nworkers):
    import glob
    import os
    if worker == 0:
        for f in sorted(glob.glob(os.path.join(os.path.dirname(__file__), '..', '..', 'corpus', 'C01', '*.json'))):
            yield json.load(open(f))['case']
    streams = [directed(), alias_cases(), edited_objects_cases(), hook_cases(), constant_cases(), step_cases(), string_cases(), boolean_cases(), callable_cases(), tuple_cases(), color_cases(),
               number_grid('Number'),
               number_grid('Integer', pool=[E(v) for v in integer_pool()] if tier == 'quick' else None),
               number_grid('Magnitude', [None, 0, 1]), range_grid(thin=3 if tier == 'quick' else 1),
               list_cases(), selector_cases(), classselector_cases(), date_cases()]
    if tier == 'thorough':
        fb = [None, -1, -0.5, 0.0, 0.1, 1, 1.5, -INF, INF, True]
        fpool = [E(v) for v in numeric_pool(bounds=(-1, -0.5, 0.1, 1, 1.5))]
        streams += [number_grid('Number', fb, fpool), number_grid('Integer', fb, fpool), number_grid('Magnitude', [None, 0, 0.25, 1, INF]),
                    range_grid(fb, steps=('absent', 0.5, -2, INF))]
    i = 0
    for s in streams:
        for c in s:
            i += 1
            if i % nworkers == worker:
                yield c
    n_random = 150 if tier == 'quick' else 64000 // nworkers
    for k in range(n_random):
        yield random_alias_case(rng) if k % 5 == 4 else random_case(rng)


# ------------------------------------------------------------------ source fragments (evidence only)

EXPECTED_FORMS = {
    'Number._validate_bounds': ['not val <= vmax', 'not val < vmax', 'not val >= vmin', 'not val > vmin'],
    'Range._validate_bounds': ['vmin is not None and (not (v >= vmin if incmin else v > vmin))',
                               'vmax is not None and (not (v <= vmax if incmax else v < vmax))'],
    'List._validate_bounds': ['not min_length <= l <= max_length', 'not min_length <= l', 'not l <= max_length'],
    'Range._validate_order': ['step is not None and step > 0 and (not start <= end)',
                              'step is not None and step < 0 and (not start >= end)'],
    'DateRange._validate_value': ['not end >= start'],
    'CalendarDateRange._validate_value': ['not end >= start'],
}


def extract():
    """comparison skeleton of the bounds validators, read from the current source: the forms the
    hand-written model mirrors.  Recorded in the evidence; `changed` lists the functions whose forms
    are no longer the ones the model was written against (the correspondence run is what decides)."""
    import ast
    import os
    from harness import common
    out = {}
    try:
        tree = ast.parse(open(os.path.join(common.REPO, 'param/parameters.py')).read())
        for qual in EXPECTED_FORMS:
            node = tree
            for part in qual.split('.'):
                node = next(n for n in ast.walk(node) if isinstance(n, (ast.FunctionDef, ast.ClassDef)) and n.name == part)
            forms = []
            for n in ast.walk(node):
                if isinstance(n, ast.If) and any(isinstance(x, ast.Compare) and any(isinstance(o, (ast.Lt, ast.LtE, ast.Gt, ast.GtE)) for o in x.ops)
                                                 for x in ast.walk(n.test)):
                    forms.append(ast.unparse(n.test))
                elif isinstance(n, ast.Assign) and isinstance(n.targets[0], ast.Name) and n.targets[0].id in ('too_low', 'too_high'):
                    forms.append(ast.unparse(n.value))
            out[qual] = forms
        out['changed'] = sorted(q for q in EXPECTED_FORMS if sorted(out.get(q, [])) != sorted(EXPECTED_FORMS[q]))
    except Exception as e:   # an unrecognised source shape is information, not an error
        out['unrecognised'] = f'{type(e).__name__}: {e}'[:200]
    return out


# ------------------------------------------------------------------ reporting hooks

def _has_bounds(case):
    b = case['args'].get('bounds', {}).get('v')
    return case['ptype'] in HAS_BOUNDS and b is not None and any(x is not None for x in b) or case['ptype'] == 'Magnitude' and 'bounds' not in case['args']


def tags(case, impl):
    t = [case['ptype'], 'ctor:' + str(impl.get('ctor', 'crash')) if isinstance(impl, dict) else 'ctor:crash']
    if not isinstance(impl, dict) or impl.get('ctor') != 'ok':
        return t
    t.append('allow_None:on' if impl['slots']['allow_None'] else 'allow_None:off')
    seen = set()
    bvals = [b for b in (case['args'].get('bounds', {}).get('v') or []) if isinstance(b, dict)]
    incl = case['args'].get('inclusive_bounds', {}).get('v', [True, True])
    for j, o in zip(case['values'], impl['vals']):
        seen.add(f'{case["ptype"]}:{o["inst"][0]}')
        if o.get('deser'):
            seen.add('route:deser')
        if isinstance(j, dict) and j.get('f') == 'nan' and _has_bounds(case):
            seen.add('nan-vs-bounds')
        if case['ptype'] in ('Number', 'Integer', 'Magnitude') and isinstance(j, dict) and len(bvals) == 2:
            for side, b in enumerate(case['args']['bounds']['v']):
                if b is not None and (j.get('i', j.get('f')) is not None) and _same_number(j, b):
                    seen.add('boundary:inclusive' if incl[side] else 'boundary:exclusive')
    for o in impl.get('alias', []):
        for route, r in o.items():
            if r[0] == 'ok':
                seen.add('alias:reassign-' + ('accepted' if r[1] == 'ok' else 'rejected'))
    return t + sorted(seen)


def _num(j):
    for k in ('i', 'b'):
        if k in j:
            return Fraction(int(j[k]))
    for k in ('f', 'q', 'd'):
        if k in j and isinstance(j[k], list):
            return Fraction(j[k][0], j[k][1])
    return None


def _same_number(a, b):
    x, y = _num(a), _num(b)
    return x is not None and x == y


def nontrivial(case, impl, resp):
    if not isinstance(impl, dict) or impl.get('ctor') != 'ok':
        return False
    rs = {o['inst'][0] for o in impl['vals']}
    if resp.get('checked_steps', 0) >= 1 and 'ok' in rs and len(rs) >= 2:
        return True
    return any(o['inst'][0] == 'ok' and o['inst'][1] is not None for o in impl.get('alias', []))


def shrink(case):
    """smaller cases.  The aliasing entries are re-executed from scratch by run_impl (fresh container ->
    held object -> in-place ops -> identical object assigned again), so identity survives shrinking."""
    vals = case['values']
    alias = case.get('alias', [])
    pt, args = case['ptype'], case['args']
    n = len(vals)
    oo = case.get('obj_ops')
    if oo and len(oo) > 1:
        for i in range(len(oo)):
            yield mk(pt, args, vals, alias, oo[:i] + oo[i + 1:])
    if alias and vals:
        yield mk(pt, args, [], alias, oo)
    if len(alias) > 1:
        for i in range(len(alias)):
            yield mk(pt, args, vals, alias[:i] + alias[i + 1:], oo)
    for i, a in enumerate(alias):
        for k in range(len(a['ops'])):
            yield mk(pt, args, vals, alias[:i] + [{'start': a['start'], 'ops': a['ops'][:k] + a['ops'][k + 1:]}] + alias[i + 1:], oo)
    if n > 1:
        for half in (vals[:n // 2], vals[n // 2:]):
            yield mk(pt, args, half, alias, oo)
        if n <= 12:
            for i in range(n):
                yield mk(pt, args, vals[:i] + vals[i + 1:], alias, oo)
    for k in list(args):
        if k in ('class_',) or (oo and k in ('objects', 'names')):
            continue
        a = {x: y for x, y in args.items() if x != k}
        yield mk(pt, a, vals, alias, oo)
    b = args.get('bounds', {}).get('v')
    if b and pt not in ('List', 'HookList'):
        for side in (0, 1):
            if b[side] is not None:
                nb = list(b)
                nb[side] = None
                yield mk(pt, dict(args, bounds={'v': nb}), vals, alias, oo)


def classify(case, impl, fail):
    """keys of KNOWN_FINDINGS.txt.  The five deviations found while building this check (Integer and
    generator functions, None items of a ListSelector, non-tuples / datetimes in CalendarDateRange, a hex
    colour followed by a newline) were repaired in /repo; the Tuple length being taken from a non-empty
    default is documented behaviour and part of the specification.  Nothing is classified any more:
    every failure is a new one."""
    return None
