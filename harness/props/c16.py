"""C16 — serialized state always validates against the generated JSON schema.
Correspondence: Lean `ParamVerif.Json.model16` (Schema.lean: schemaEntries; Codec.lean:
serializeParameters) vs the real `Cls.param.schema()` / `serialize_parameters()`; the
oracle is the Lean JSON-Schema validator (Validator.lean), cross-validated against the
`jsonschema` package in the thorough tier."""
import atexit
import glob
import itertools
import json
import math
import os
import re
import subprocess

from . import _c15c16 as G
from ._c15c16 import enc_val, single

ID = 'C16'
PROPS_FILE = 'ParamVerif/Props/C16.lean'
DRIVER = 'Driver/C16.lean'
EXTRA_MODULES = ('ParamVerif.Json.Transport',)
SOURCES = [('param/serializer.py', 'JSONNullable'), ('param/serializer.py', 'JSONSerialization.schema'),
           ('param/serializer.py', 'JSONSerialization.param_schema'), ('param/serializer.py', 'JSONSerialization._get_method'),
           ('param/serializer.py', 'JSONSerialization.class__schema'), ('param/serializer.py', 'JSONSerialization.classselector_schema'),
           ('param/serializer.py', 'JSONSerialization.dict_schema'), ('param/serializer.py', 'JSONSerialization.date_schema'),
           ('param/serializer.py', 'JSONSerialization.calendardate_schema'), ('param/serializer.py', 'JSONSerialization.tuple_schema'),
           ('param/serializer.py', 'JSONSerialization.number_schema'), ('param/serializer.py', 'JSONSerialization.declare_numeric_bounds'),
           ('param/serializer.py', 'JSONSerialization.integer_schema'), ('param/serializer.py', 'JSONSerialization.numerictuple_schema'),
           ('param/serializer.py', 'JSONSerialization.xycoordinates_schema'), ('param/serializer.py', 'JSONSerialization.range_schema'),
           ('param/serializer.py', 'JSONSerialization.list_schema'), ('param/serializer.py', 'JSONSerialization.selector_schema'),
           ('param/serializer.py', 'JSONSerialization.listselector_schema'), ('param/serializer.py', 'JSONSerialization.serialize_parameters'),
           ('param/parameterized.py', 'Parameter.schema'), ('param/parameterized.py', 'Parameter._set_allow_None'),
           ('param/parameters.py', 'Selector.__init__'), ('param/parameters.py', 'Tuple.__init__'),
           ('param/parameters.py', 'Number._validate_bounds')]
BUDGET_S = {'quick': 45, 'thorough': 400}
EXHAUSTIVE = {'quick': False, 'thorough': False}
TRUSTED = [
    'statements in lean/ParamVerif/Props/C16.lean (Valid = Param.validB / stateOK, SchemaOK side conditions)',
    'spec-side JSON-Schema validator and wellFormed in lean/ParamVerif/Json/Validator.lean (draft 6/7 semantics for the keyword subset; cross-validated against jsonschema.Draft7Validator in the thorough tier)',
    'spec-side oracle lean/ParamVerif/Json/Spec.lean spec16',
    'harness/props/c16.py + _c15c16.py adapter: param.schema() and json.loads(serialize_parameters()) as canonical trees (int vs float kept, floats as integer ratios), accept/reject of numeric probes through setattr',
    'correspondence is differential testing: model = code only on the cases executed',
]
ASSUMPTIONS = [
    'schema(safe=True) is modelled as refusal (Dict, untyped List, Selector with non-literal objects) or the same schema; finite numbers in the state (NaN/Infinity are not JSON values); single-level classes; single-line docs; non-empty labels',
    'class_/item_type drawn from int, float, str, NoneType, bool, dict, list and flat tuples of them; Selector objects are scalars',
    'the object-level schema is used as the tests of param use it: {"type": "object", "properties": Cls.param.schema()}',
]
RULE = ('corpus + directed prefix (witness of every known finding; every schema method once at class and instance level) + '
        'exhaustive grid Integer/Number x lower bound {None,0,0.5} x upper bound {None,5,5.5} x inclusivity^2 x '
        'allow_None x boundary values with boundary probes + random classes of 1-5 parameters over the 15 types with '
        'values accepted by the real Parameter; a quarter of the instance-level cases edit the instance\'s own Parameter '
        'objects (bounds / inclusive_bounds / allow_None / item_type) after construction and then assign values valid only under the '
        'edit; another quarter inherit the declaration through a chain of 1-3 classes, use the leaf class, then edit the '
        'Parameters of / assign plain values on one class of the chain; obj.param.schema() (the class\'s for class-level cases) is compared structurally with the model, the '
        'result of schema(safe=True) (refusal or schema) and every obj.param[name].schema() with the model, the serialized state with the model, accept/reject of every numeric probe with the model; the Lean validator '
        'judges well-formedness, validation of the state, rejection of out-of-bounds probes. non-trivial = oracle '
        'applicable and (a non-None value of a non-name parameter or an out-of-bounds probe); distinct = distinct canonical case')
COVERAGE_TARGETS = [f'{t}:value' for t in G.TYPES16] + [f'{t}:nullable' for t in G.TYPES16 if t not in ('Selector', 'ListSelector')] + \
                   [f'{t}:{lo}{hi}' for t in ('Integer', 'Number') for lo in ('lo-', 'lo[', 'lo(') for hi in ('hi-', 'hi]', 'hi)')] + \
                   ['Integer:nobounds', 'Range:lo[hi]', 'List:item_type', 'List:untyped', 'probe:out-of-bounds',
                    'Selector:none', 'ListSelector:none', 'level:class', 'level:instance',
                    'safe:answers', 'safe:refuses', 'instance-edits', 'class-edits', 'inherit:depth=2', 'inherit:depth=3', 'edit:bounds', 'edit:inclusive_bounds',
                    'edit:allow_None', 'edit:item_type', 'edit:default']

NONE = {'t': 'none'}
_XV = {}


def _xval_proc():
    p = _XV.get(os.getpid())
    if p is None or p.poll() is not None:
        code = (
            "import sys, json, math\n"
            "from jsonschema import Draft7Validator\n"
            "from jsonschema.exceptions import SchemaError\n"
            "def finite(x):\n"
            "    if isinstance(x, float): return math.isfinite(x)\n"
            "    if isinstance(x, list): return all(finite(e) for e in x)\n"
            "    if isinstance(x, dict): return all(finite(e) for e in x.values())\n"
            "    return True\n"
            "def wf(s):\n"
            "    try: Draft7Validator.check_schema(s)\n"
            "    except SchemaError: return False\n"
            "    return finite(s)\n"
            "def ok(s, i):\n"
            "    try: return Draft7Validator(s).is_valid(i)\n"
            "    except Exception as e: return 'error:' + type(e).__name__\n"
            "for line in sys.stdin:\n"
            "    q = json.loads(line)\n"
            "    sch, inst = q['schema'], q['inst']\n"
            "    out = {'wf': [[n, wf(s)] for n, s in sch], 'valid': [[n, ok(s, inst[n])] for n, s in sch if n in inst],\n"
            "           'probes': [ok(dict(sch)[n], v) if n in dict(sch) else None for n, v in q['probes']]}\n"
            "    sys.stdout.write(json.dumps(out) + '\\n'); sys.stdout.flush()\n")
        p = subprocess.Popen(['python3-vt', '-c', code], stdin=subprocess.PIPE, stdout=subprocess.PIPE, text=True, bufsize=1)
        _XV[os.getpid()] = p
        atexit.register(lambda: p.poll() is None and p.kill())
    return p


def _xval(schema_tree, ser_tree, probes):
    """ask jsonschema (python3-vt, pure JSON data) about the implementation's schema"""
    sch = [[n, G.dec_tree(s)] for n, s in schema_tree['o']]
    inst = {n: G.dec_tree(v) for n, v in ser_tree['o']} if ser_tree is not None else {}
    q = {'schema': sch, 'inst': inst, 'probes': [[n, G.dec_tree(v)] for n, v, _ in probes]}
    p = _xval_proc()
    p.stdin.write(json.dumps(q) + '\n')
    p.stdin.flush()
    line = p.stdout.readline()
    if not line:
        raise RuntimeError('jsonschema cross-validation process died')
    return json.loads(line)


def _res(f):
    try:
        return {'ok': f()}
    except G.Unsupported:
        raise
    except Exception as e:
        return {'err': G.exc_name(e)}


def run_impl(case):
    import param
    try:
        try:
            cls, obj, names = G.build_object(param, case)
        except (ValueError, TypeError):
            return {'invalid': True}
        types = {d['name']: d['type'] for d in case['params']}
        out = {'invalid': False}
        out['schema'] = _res(lambda: G.enc_fields(obj.param.schema(), {}))
        # the per-parameter entry point, called the way a user calls it (no arguments)
        out['param_schemas'] = [[n, _res(lambda: G.enc_tree(obj.param[n].schema()))] for n in names]
        out['schema_safe'] = _res(lambda: G.enc_fields(obj.param.schema(safe=True), {}))
        out['ser'] = _res(lambda: G.enc_fields(json.loads(obj.param.serialize_parameters()), types))
        out['allow_none'] = [[n, bool(obj.param[n].allow_None)] for n in names]
        probes = []
        if case['probes']:
            # probes go through the Parameter objects whose schema was taken: a fresh instance, or the
            # edited instance itself (its state has been recorded above)
            inst = obj if (case.get('edits') and not case.get('inherit')) else cls()
            for n, v in case['probes']:
                x = G.dec_tree(v)
                try:
                    setattr(inst, n, x)
                    acc = True
                except ValueError:
                    acc = False
                probes.append([n, v, acc])
        out['probes'] = probes
        out['js'] = None
        if case.get('xval') and 'ok' in out['schema']:
            out['js'] = _xval(out['schema']['ok'], out['ser'].get('ok'), probes)
        return out
    except G.Unsupported as e:
        return {'crash': f'adapter cannot encode: {e}'}
    except Exception as e:
        return {'crash': f'{type(e).__name__}: {e}'[:300]}


# ---------------------------------------------------------------- generation

def _num_tree(x):
    return {'i': x} if isinstance(x, int) else {'f': G.enc_fl(x)}


def add_probes(case, rng=None):
    probes = []
    for d in G.edited_params(case):
        if d['type'] in ('Integer', 'Number') and d.get('bounds') is not None:
            pts = set()
            for b in d['bounds']:
                if b is None:
                    continue
                x = G.dec_val(b)
                if isinstance(x, float) and (math.isinf(x) or math.isnan(x)):
                    continue
                for y in (x, x - 1, x + 1, x - 0.5, x + 0.5):
                    if d['type'] == 'Integer':
                        if float(y) == int(y):
                            pts.add(int(y))
                    else:
                        pts.add(y)
                        if float(y) == int(y):
                            pts.add(float(y))
                            pts.add(int(y))
            pts = sorted(pts, key=lambda v: (v, isinstance(v, float)))
            if rng is not None and len(pts) > 6:
                pts = rng.sample(pts, 6)
            probes += [[d['name'], _num_tree(v)] for v in pts]
    case['probes'] = probes
    return case


def grid():
    ev = enc_val
    for t in ('Integer', 'Number'):
        for lo, hi in itertools.product([None, 0, 0.5], [None, 5, 5.5]):
            for il, ih in itertools.product([True, False], repeat=2):
                for an in (None, True):
                    vals = [1, 2] + ([0] if lo == 0 and il else []) + ([5] if hi == 5 and ih else [])
                    if t == 'Number':
                        vals += [1.5, 3.0] + ([0.5] if lo == 0.5 and il else []) + ([5.5] if hi == 5.5 and ih else [])
                    if an:
                        vals.append(None)
                    b = None if lo is None and hi is None and il else [None if lo is None else ev(lo), None if hi is None else ev(hi)]
                    for v in vals:
                        yield add_probes(single({'type': t, 'bounds': b, 'inclusive': [il, ih], 'allow_None': an, 'default': ev(1)},
                                                ev(v)))


def directed():
    ev = enc_val
    inf = float('inf')
    tup = lambda *xs: {'t': 'tuple', 'v': list(xs)}
    simple = [
        # witnesses of the known findings and of the repaired defects (regression)
        ({'type': 'Number', 'bounds': [ev(inf), None], 'default': NONE}, NONE),
        ({'type': 'Integer', 'bounds': [None, ev(float('nan'))], 'default': NONE, 'allow_None': True}, NONE),
        ({'type': 'Number', 'bounds': [ev(inf), ev(3)], 'default': NONE}, NONE),
        ({'type': 'Number', 'bounds': [ev(-inf), ev(inf)], 'inclusive': [False, False]}, ev(2.5)),
        ({'type': 'Number', 'bounds': [ev(-inf), ev(3)]}, ev(1.5)),
        ({'type': 'Number', 'bounds': [ev(0), ev(inf)]}, ev(1.5)),
        ({'type': 'Range', 'bounds': [ev(-inf), None]}, ev((1, 2))),
        ({'type': 'Selector', 'objects': [], 'names': None, 'default': None}, NONE),
        ({'type': 'Integer'}, ev(True)), ({'type': 'Number'}, ev(False)),
        ({'type': 'List', 'item_type': 'int', 'min_len': 0, 'max_len': None}, ev([1, True])),
        ({'type': 'ClassSelector', 'class_': 'int'}, ev(True)),
        ({'type': 'Selector', 'objects': [ev(1), ev(2)], 'names': None}, ev(True)),
        ({'type': 'ListSelector', 'objects': [ev(1), ev(2), ev(3)], 'names': None, 'default': NONE}, NONE),
        ({'type': 'ListSelector', 'objects': [ev(1), ev(2), ev(3)], 'names': None, 'default': None}, ev([1])),
        ({'type': 'Selector', 'objects': [ev(1), ev(2)], 'names': None, 'default': NONE}, ev(1)),
        ({'type': 'ClassSelector', 'class_': 'bool'}, ev(True)), ({'type': 'ClassSelector', 'class_': 'list'}, ev([1])),
        ({'type': 'List', 'item_type': 'bool', 'min_len': 0, 'max_len': None}, ev([True])),
        # soft bounds must not reach the schema
        ({'type': 'Number', 'bounds': [ev(0), ev(10)], 'softbounds': [ev(0), ev(1)]}, ev(7.5)),
        ({'type': 'Number', 'softbounds': [ev(-1), ev(1)]}, ev(42)),
        ({'type': 'Integer', 'bounds': [None, ev(10)], 'softbounds': [ev(2), None], 'inclusive': [True, False]}, ev(-3)),
        ({'type': 'Range', 'bounds': [ev(0), ev(10)], 'softbounds': [ev(1), ev(2)]}, ev((0, 10))),
        # every schema method
        ({'type': 'Integer', 'bounds': [ev(0), ev(5)], 'inclusive': [True, False]}, ev(1)),
        ({'type': 'Number', 'bounds': [None, ev(3)], 'allow_None': True}, ev(1.5)),
        ({'type': 'Number', 'bounds': [None, ev(3)], 'allow_None': True}, NONE),
        ({'type': 'String'}, ev('x')), ({'type': 'String', 'allow_None': True}, NONE), ({'type': 'Boolean'}, ev(True)),
        ({'type': 'Tuple'}, ev((1, 'a', None))), ({'type': 'Tuple', 'length': 2}, NONE), ({'type': 'Tuple', 'length': 0}, ev(())),
        ({'type': 'NumericTuple'}, ev((1, 2.5))), ({'type': 'XYCoordinates'}, ev((0.0, 1.0))), ({'type': 'XYCoordinates'}, NONE),
        ({'type': 'Range', 'bounds': [ev(0), ev(10)], 'inclusive': [False, True]}, ev((1, 2))), ({'type': 'Range'}, NONE),
        ({'type': 'Date'}, {'t': 'datetime', 'v': [2020, 1, 2, 3, 4, 5, 6]}), ({'type': 'Date'}, NONE),
        ({'type': 'CalendarDate'}, {'t': 'date', 'v': [2020, 1, 2]}), ({'type': 'CalendarDate'}, NONE),
        ({'type': 'List', 'item_type': None, 'min_len': 1, 'max_len': 3}, ev([1, 'a'])),
        ({'type': 'List', 'item_type': ['int', 'str'], 'min_len': 0, 'max_len': None}, ev([1, 'a'])),
        ({'type': 'List', 'item_type': 'float', 'min_len': 0, 'max_len': None, 'allow_None': True}, NONE),
        ({'type': 'Dict'}, ev({'a': 1})), ({'type': 'Dict'}, NONE),
        ({'type': 'Selector', 'objects': [ev(1), ev('a'), NONE, ev(2.5)], 'names': None}, ev(2.5)),
        ({'type': 'Selector', 'objects': [ev(1), ev('a'), NONE, ev(2.5)], 'names': None}, NONE),
        ({'type': 'Selector', 'objects': [ev(1.5), ev(2)], 'names': ['k', 'j']}, ev(2)),
        ({'type': 'Selector', 'objects': [ev(True), ev(1)], 'names': None}, ev(True)),
        ({'type': 'Selector', 'objects': [ev(1), ev(2)], 'names': None, 'allow_None': True}, NONE),
        ({'type': 'Selector', 'objects': [ev(1), ev(2)], 'names': None}, ev(1.0)),
        ({'type': 'ListSelector', 'objects': [ev(1), ev(2), ev(3)], 'names': None}, ev([3, 1])),
        ({'type': 'ListSelector', 'objects': [], 'names': None}, ev([])),
        ({'type': 'ListSelector', 'objects': [ev(True)], 'names': None}, ev([True])),
        ({'type': 'ListSelector', 'objects': [ev(1)], 'names': None, 'allow_None': True}, NONE),
        ({'type': 'ClassSelector', 'class_': ['int', 'str']}, ev(3)), ({'type': 'ClassSelector', 'class_': 'dict'}, ev({})),
        ({'type': 'ClassSelector', 'class_': ['int', 'NoneType']}, NONE), ({'type': 'ClassSelector', 'class_': 'float'}, ev(1.5)),
        ({'type': 'ClassSelector', 'class_': 'str', 'allow_None': True}, NONE),
    ]
    for decl, v in simple:
        if not (decl['type'] == 'Selector' and decl['objects'] == []):   # see G.gen_case
            yield add_probes(single(decl, v))
        yield add_probes(single(decl, v, level='class'))
    yield add_probes(single({'type': 'Integer', 'doc': 'some words here', 'label': 'A label'}, enc_val(3)))
    # per-instance edits of the Parameter objects, then values valid only under the edit
    c = single({'type': 'Number', 'bounds': [ev(0), ev(10)], 'default': ev(1.5)}, ev(1.5))
    yield add_probes(dict(c, edits=[['p0', 'bounds', [ev(0), ev(100)]]], final=[['p0', ev(50)]]))
    c = single({'type': 'Integer', 'bounds': [ev(1), ev(5)], 'inclusive': [True, False], 'default': ev(3)}, ev(3))
    yield add_probes(dict(c, edits=[['p0', 'inclusive_bounds', [True, True]]], final=[['p0', ev(5)]]))
    c = single({'type': 'String', 'default': ev('x')}, ev('x'))
    yield add_probes(dict(c, edits=[['p0', 'allow_None', True]], final=[['p0', NONE]]))
    c = single({'type': 'Range', 'bounds': [ev(0), ev(10)], 'default': ev((1, 2))}, ev((1, 2)))
    yield add_probes(dict(c, edits=[['p0', 'bounds', None]], final=[['p0', ev((-5, 50.5))]]))
    c = single({'type': 'Number', 'bounds': [ev(0), ev(10)], 'default': ev(1.5)}, ev(1.5))
    yield add_probes(dict(c, edits=[['p0', 'bounds', [ev(0), ev(100)]], ['p0', 'allow_None', True]], final=[]))
    # the item type of an existing List Parameter re-assigned (instance's own Parameter, and the class's)
    lst = {'type': 'List', 'item_type': 'int', 'min_len': 0, 'max_len': None, 'default': ev([1])}
    c = single(lst, ev([1, 2]))
    yield add_probes(dict(c, edits=[['p0', 'item_type', ['str', 'float']]], final=[['p0', ev(['a', 2.5])]]))
    for depth, on in ((1, 0), (2, 0), (3, 1)):
        c = single(lst, ev(['b']), level='class')
        yield add_probes(dict(c, inherit={'depth': depth, 'on': on},
                              edits=[['p0', 'item_type', 'str'], ['p0', 'default', ev(['a'])]], final=[]))
    # inherited declarations: a plain value assigned on a class of the chain after the leaf class was used,
    # then a constraint of that class's Parameter changed; observed on the leaf class and its instances
    num = {'type': 'Number', 'bounds': [ev(0), ev(10)], 'default': ev(1.5)}
    for depth, on in ((1, 0), (2, 0), (2, 1), (3, 0), (3, 1), (3, 2)):
        c = single(num, ev(2.5), level='class')
        yield add_probes(dict(c, inherit={'depth': depth, 'on': on},
                              edits=[['p0', 'default', ev(7)], ['p0', 'bounds', [ev(0), ev(100)]], ['p0', 'default', ev(50)]], final=[]))
        c = single(num, ev(2.5))
        yield add_probes(dict(c, inherit={'depth': depth, 'on': on},
                              edits=[['p0', 'default', ev(7)], ['p0', 'bounds', [ev(0), ev(100)]]], final=[['p0', ev(50)]]))
    c = single({'type': 'String', 'default': ev('x')}, ev('x'), level='class')
    yield add_probes(dict(c, inherit={'depth': 3, 'on': 1}, edits=[['p0', 'default', ev('zzz')], ['p0', 'allow_None', True]], final=[]))


def cases(rng, tier, worker, nworkers):
    import param
    xval = tier == 'thorough'

    def fin(c):
        c['xval'] = xval
        return c
    if worker == 0:
        for f in sorted(glob.glob(os.path.join(os.path.dirname(__file__), '..', '..', 'corpus', 'C16', '*.json'))):
            yield fin(json.load(open(f))['case'])
        for c in directed():
            yield fin(c)
    for i, c in enumerate(grid()):
        if i % nworkers == worker:
            yield fin(c)
    n_random = 5000 if tier == 'quick' else 96000 // nworkers
    opts_clean = {'small_year': 0.0}
    opts_all = {'small_year': 0.0, 'findings': True, 'inf_bounds': 0.08}
    for i in range(n_random):
        c = G.gen_case(rng, param, G.TYPES16, opts_clean if i % 3 else opts_all)
        if i % 4 == 1:
            c = G.gen_edits(rng, param, c)
        elif i % 8 == 2:
            c = G.gen_history(rng, c)
        elif i % 4 == 3:
            c = G.gen_inherit(rng, param, c)
        yield fin(add_probes(c, rng))


def tags(case, impl):
    t = ['level:' + case['level'], f'nparams={len(case["params"]) - 1}']
    for d in case['params'][1:]:
        t.append('type:' + d['type'])
    if isinstance(impl, dict) and impl.get('invalid'):
        t.append('invalid-state')
    if case.get('added') or case.get('replaced'):
        t.append('history:add_parameter')
    if case.get('inherit'):
        t.append('inherit:depth=%d' % case['inherit']['depth'])
        t.append('class-edits')
    elif case.get('edits'):
        t.append('instance-edits')
    if case.get('edits'):
        t += ['edit:' + e[1] for e in case['edits']]
    if isinstance(impl, dict) and 'schema_safe' in impl:
        t.append('safe:' + ('answers' if 'ok' in impl['schema_safe'] else 'refuses'))
    if isinstance(impl, dict) and impl.get('js') is not None:
        t.append('jsonschema-cross-validated')
    return t


def nontrivial(case, impl, resp):
    if not isinstance(impl, dict) or impl.get('invalid') or 'ser' not in impl or not resp.get('applicable'):
        return False
    vals = [v for k, v in impl['ser'].get('ok', {'o': []})['o'] if k != 'name']
    return any(v is not None for v in vals) or any(not a for _, _, a in impl.get('probes', []))


def shrink(case):
    for c in G.shrink_case(case):
        names = {d['name'] for d in c['params']}
        c = dict(c, probes=[p for p in case.get('probes', []) if p[0] in names])
        yield c
    for i in range(len(case.get('probes', []))):
        yield dict(case, probes=case['probes'][:i] + case['probes'][i + 1:])
    # a simpler declaration of the same parameter
    for i, d in enumerate(case['params']):
        if i and d.get('label') != 'L':
            yield dict(case, params=case['params'][:i] + [dict(d, label='L')] + case['params'][i + 1:])


# ---------------------------------------------------------------- known findings

def _nonfinite(b):
    return b is not None and b['t'] == 'float' and b['v'] in ('inf', '-inf', 'nan')


def _atoms(spec):
    return spec if isinstance(spec, list) else ([] if spec is None else [spec])


def classify(case, impl, fail):
    if fail.get('kind') != 'counterexample':
        return None
    m = re.match(r'parameter (\w+): (.*)', fail.get('why') or '')
    if not m:
        return None
    pname, what = m.group(1), m.group(2)
    d = G.params_by_name(case).get(pname)
    if d is None:
        return None
    t = d['type']
    if what.startswith('schema is not a well-formed'):
        return None
    if not what.startswith('serialized value does not validate'):
        return None
    ser = dict((k, v) for k, v in impl.get('ser', {}).get('ok', {'o': []})['o'])
    if pname not in ser:
        return None
    sv = ser[pname]
    bools = [x for x in (sv if isinstance(sv, list) else [sv]) if isinstance(x, bool)]
    if sv is None:
        return None
    if t in ('ClassSelector', 'List'):
        atoms = _atoms(d.get('class_') if t == 'ClassSelector' else d.get('item_type'))
        elems = sv if t == 'List' else [sv]
        if ('bool' in atoms and bools) or ('list' in atoms and any(isinstance(x, list) for x in elems)):
            if not ('int' in atoms and bools):
                return 'class-bool-or-list-declared-object'
    if bools:
        if t in ('Integer', 'Number'):
            return 'bool-serialized-for-number'
        if t in ('ClassSelector', 'List'):
            atoms = _atoms(d.get('class_') if t == 'ClassSelector' else d.get('item_type'))
            if 'int' in atoms:
                return 'bool-serialized-for-number'
        if t == 'Selector' and not any(o['t'] == 'bool' for o in d['objects']):
            return 'bool-serialized-for-number'
    return None
