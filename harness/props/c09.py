"""C09 — reactive expressions evaluate to the plain-Python result on current inputs.

A case is a *program*: statements that create rx nodes on the real `param.rx`
(roots, operator / helper / method applications, bind, where), register
`.rx.watch` callbacks, update inputs and read `.rx.value`.  The Lean driver
replays the same program on the model (ParamVerif.Rx.Model) and evaluates the
oracle (ParamVerif.Rx.Spec): every read equals the direct evaluation of the
expression tree on the inputs current at that moment.

Node ids are the model's: `lit`, `rootp`, `bind`, `where` allocate one node;
`op` allocates two (the copy made by `_resolve_accessor`, then the derived
node); `meth` allocates three (two copies, then the derived node); `meth2`
(one accessor object called twice) allocates five.  Parameter
ids: `lit` allocates one (Wrapper.object), `obj` one per value, `where` one
(the Trigger's Event).
"""
import ast
import json
import operator
import os

ID = 'C09'
PROPS_FILE = 'ParamVerif/Props/C09.lean'
DRIVER = 'Driver/C09.lean'
EXTRA_MODULES = ('ParamVerif.Rx.Spec', 'ParamVerif.Util.Proto')
SOURCES = [('param/reactive.py', 'rx.__new__'), ('param/reactive.py', 'rx.__init__'),
           ('param/reactive.py', 'rx._compute_root'), ('param/reactive.py', 'rx._compute_fn_params'),
           ('param/reactive.py', 'rx._compute_params'), ('param/reactive.py', 'rx._setup_invalidations'),
           ('param/reactive.py', 'rx._invalidate_current'), ('param/reactive.py', 'rx._invalidate_obj'),
           ('param/reactive.py', 'rx._obj'), ('param/reactive.py', 'rx._current'),
           ('param/reactive.py', 'rx._resolve'), ('param/reactive.py', 'rx._eval_operation'),
           ('param/reactive.py', 'rx._apply_operator'), ('param/reactive.py', 'rx._resolve_accessor'),
           ('param/reactive.py', 'rx._clone'), ('param/reactive.py', 'rx.__getattribute__'),
           ('param/reactive.py', 'rx.__call__'), ('param/reactive.py', 'reactive_ops'),
           ('param/reactive.py', 'bind'), ('param/reactive.py', 'Trigger'), ('param/reactive.py', '_rx_transform'),
           ('param/parameterized.py', 'resolve_ref'), ('param/parameterized.py', 'resolve_value'),
           ('param/parameterized.py', 'eval_function_with_deps'), ('param/parameterized.py', 'Comparator'),
           ('param/depends.py', 'depends')]
BUDGET_S = {'quick': 50, 'thorough': 420}
EXHAUSTIVE = {'quick': False, 'thorough': False}
TRUSTED = [
    'statements in lean/ParamVerif/Props/C09.lean (Admissible = the hypotheses of the partial theorem; C09_full = the unrestricted statement, refuted)',
    'spec side lean/ParamVerif/Rx/Spec.lean: direct evaluator `eval` (pipeline object first, then operands left to right; helpers strict), `specStep`/`meets`/`checkProg` oracle',
    'Driver/C09.lean: Python semantics of the operators on None/bool/int/str/list (`pyApply`, `pyEq`, `truthy`) - every oracle verdict on the implementation exercises it against CPython',
    'harness/props/c09.py adapter (builds the program on the real param.rx, reports value / exception class of every read, callbacks per update) and extract() (ast walk over class rx)',
    'list of dunders Python can dispatch (Props/C09.lean `dispatchable`; excluded on purpose: __round__, __contains__, __iter__, __bool__, __len__, __call__ - see the docstring) and of helpers (`requiredHelpers`)',
    'correspondence is differential testing: model = code only on the programs executed; besides every observable outcome it compares, after every statement, the internal flags (_dirty, _error_state set, _root._dirty_obj) of every node that has a counterpart in the model (roots, the copy made by _resolve_accessor, derived nodes; not attribute accessors and the pipelines built on them - rendered with other copy / root nodes)',
    'CPython: operator dispatch to reflected dunders, small-int / bool / None identity for `is`',
]
ASSUMPTIONS = [
    'values are None / bool / int / str over {a,b,c} / lists of those; floats, tuples (divmod), pow, truediv, matmul appear only in the operator-table theorem',
    'an exception is identified by its class; when several sub-expressions fail, the one reported is that of pipeline-order evaluation (object, then operands left to right)',
    '.rx.and_/.rx.or_ and the other helpers are strict functions of their evaluated operands (no short-circuit claimed)',
    'operands that are containers of references (a list of rx / Parameters / literals, a slice lo:hi with such bounds) are modelled flattened: their references are collected and their values resolved left to right exactly as resolve_ref / resolve_value(recursive) do, and the semantics of the operation packs the values back (Driver/C09.lean pyApply, `#shape` suffix); only for operations (not bind / where / method-call arguments); tuples, dicts and deeper nesting are not generated',
    'bind(f, *args, **kwargs): keyword arguments are modelled as further operands after the positional ones (the dependency order and evaluation order of bind()), their names travel in the function name (`#k=x,y`) and the semantics of the two keyword-taking user functions kwpair / kwsub binds them by name (Driver/C09.lean pyApply)',
    'a @param.depends method of a Parameterized object as root (`rx(obj.m)`, statement rootm) is rendered in the model as the bound function mklist over the parameters it depends on (same `_fn_params`, evaluated by calling the method); keyword arguments of an operation (`expr.rx.pipe(f, y=b)`) are further operands after the positional ones, names in the function name, like for bind',
    'method calls: `expr.method(args)` (`meth`) and one accessor object called twice, `acc = expr.method; acc(a); acc(b)` (`meth2`); an accessor kept across other statements or called more than twice is not generated',
    'inputs are assigned fresh objects: mutating a list in place and re-assigning the same object is outside the model (param then sees old is new, nothing is invalidated - the documented onlychanged contract; use param.trigger)',
    'a Parameter(allow_refs=True) holding an expression as a reference (`ref` / `readref` statements): its `_sync_refs` watcher is modelled as a precedence -1 consumer that runs after all invalidations and before the precedence 0 watchers; the invalidation watchers of nodes created after the holder run again after it (their place in the real registration order; `invalidateFrom`); that the holder mirrors the expression is checked by correspondence and by the oracle, there is no theorem about it; when an exception escapes an update in a program with holders the program ends there (the real dispatch then also skips the invalidation watchers registered after the raising `_sync_refs`, which is not modelled; internal flags are not compared at that step)',
    'values also include floats (whole numbers and halves, exact as numerator/denominator) for round(expr) / round(expr, 0), ==, bool, str and .real/.imag only; read results are compared type-sensitively (True / 1 / 1.0 are different observations)',
    'plain attribute access `acc = expr.name` (int/bool/float data attributes real, imag, numerator, denominator) is rendered in the Lean model as the method-call statement with the total operation `attr:name` = getattr(value, name, value) and no operands (same reads, dependencies and values as the accessor node whose `_resolve` applies the pending `_method`; two unreachable extra nodes); an accessor may be read, used as operand / bind input / where branch / watched / referenced and be the subject of operators (each records the getattr on a private copy, /repo 2dee7d8); chained attribute / method access on an accessor is not generated',
    'not modelled: async / generator operations (internal Trigger), kwargs, raw bound functions (not wrapped in rx) as operands, rx.when/buffer/updating/resolve, batched updates of several parameters',
    'an input update is atomic for precedence -1 watchers (all invalidations run before any precedence 0 consumer) - checked by correspondence, not proved',
    'operator_table_complete (over the generated RxOps table) lives in the same module as the other theorems: a broken table makes the whole module fail to build, so the evidence then reports every C09 obligation as undischarged, not only that one',
    'the full statement is false of the code (C09_full_refuted); what is proved is C09_partial under H1 (no where result handed to a consumer), H2 (EqOK: every update that is_equal takes for unchanged stores the same value - a hypothesis on the history, satisfiable for Python\'s Comparator), H3 (no exception escapes an input update) - the three known findings; `x in expr` (Stmt.isin) must be the plain-Python result or be refused with TypeError (rx.__contains__ since /repo c09ac3d), never a wrong bool',
    'helpers_table_complete / operator_table_complete certify which function each helper / dunder hands to _apply_operator (generated tables); that the driver (formOp) and the harness (_apply_form, _sem) use the same functions is tied by correspondence',
]
RULE = ('corpus + directed prefix (every API form on a root of each type with literal / rx / Parameter operand, error-recovery, shared '
        'sub-expressions, input as root and operand, bind (positional and keyword arguments), where in both branches, a where with a shared prefix and two readers, watch, None roots, container operands, reference holders, an accessor called twice, attribute access on the argument side, round with float operands, minimal forms of the known findings) '
        '+ all histories of length <=3 (<=4 thorough) over a fixed alphabet for 6 expression shapes + random typed programs '
        '(1-6 inputs, <=9 user expressions = <=27 model nodes, 6-28 interleaved create/update/read/watch/ref/readref statements, list and slice operands holding references; 15% may hand a '
        'where result to a consumer, 4% cross bool/int updates, 6% ill-typed operations); every statement outcome is compared with the '
        'model and checked by the oracle. non-trivial = applicable program with >=3 oracle-checked steps and a successful read after '
        'an input update; distinct = distinct canonical program')

EXC = ('ZeroDivisionError', 'TypeError', 'IndexError', 'ValueError', 'AttributeError', 'KeyError', 'OverflowError')

# ---------------------------------------------------------------- operation forms
# API form -> (python callable taking (node, *args), semantic function name, reverse flag)
BINARY = ('add', 'sub', 'mul', 'floordiv', 'mod', 'lshift', 'rshift', 'and_', 'or_', 'xor')
COMPARE = ('eq', 'ne', 'lt', 'le', 'gt', 'ge')
UNARY = ('neg', 'pos', 'abs', 'inv')
METHODS = ('upper', 'count', 'index', 'bit_length')


def _user_fn(name):
    """functions handed to pipe / map / bind: plain operator functions and a few lambdas"""
    if name == 'mklist':
        return lambda *xs: list(xs)
    if name == 'str':
        return str
    if name == 'sum':
        return sum
    if name == 'len':
        return len
    if name in ('and', 'or'):
        return (lambda a, b: a and b) if name == 'and' else (lambda a, b: a or b)
    if name == 'kwpair':                 # functions taking keyword arguments (bind(f, x=a, y=b))
        return lambda x, y: [x, y]
    if name == 'kwsub':
        return lambda x, y: x - y
    return getattr(operator, name)


def enc(v):
    if v is None or isinstance(v, (bool, int, str)):
        return v
    if isinstance(v, float):
        return {'f': list(v.as_integer_ratio())} if v == v and abs(v) != float('inf') else {'?': 'nan/inf'}
    if isinstance(v, dict) and set(v) == {'f'}:
        return v                                       # already encoded
    if isinstance(v, list):
        return [enc(x) for x in v]
    if isinstance(v, tuple):
        return {'t': [enc(x) for x in v]}
    return {'?': type(v).__name__}


def dec(v):
    if isinstance(v, dict) and set(v) == {'f'}:
        return v['f'][0] / v['f'][1]
    return [dec(x) for x in v] if isinstance(v, list) else v


def exc_name(e):
    n = type(e).__name__
    return n if n in EXC else 'other:' + n


class _World:
    def __init__(self):
        self.nodes = []     # model node id -> rx or None (internal copies)
        self.params = []    # model param id -> ('w', rx_root) | ('o', inst, name) | ('t',)
        self.log = []
        self.nwatch = 0
        self.holders = []   # Parameterized instances whose parameter `v` holds an expression as a reference
        self.cmp = []       # (model node id, rx object) whose internal flags are compared with the model's
        self.accs = set()   # model ids of attribute accessors (rendered differently in the model)

    def arg(self, a):
        if 'L' in a:                      # a list holding references: resolve_ref(arg, recursive=True)
            return [self.arg(x) for x in a['L']]
        if 'S' in a:                      # a slice whose bounds are references
            return slice(self.arg(a['S'][0]), self.arg(a['S'][1]))
        if 'l' in a:
            return dec(a['l'])
        if 'n' in a:
            return self.nodes[a['n']]
        kind = self.params[a['p']]
        return kind[1].param[kind[2]]


def _apply_form(w, n, form, args, kw=None):
    """create the derived expression exactly as a user would write it"""
    if form in BINARY or form in COMPARE:
        return getattr(operator, form)(n, args[0])
    if form.startswith('r') and form[1:] in BINARY:
        return getattr(operator, form[1:])(args[0], n)      # Python dispatches to n.__rxxx__
    if form in UNARY:
        return getattr(operator, form)(n)
    if form == 'round':
        return round(n)
    if form == 'round0':
        return round(n, 0)
    if form == 'getitem':
        return n[args[0]]
    if form in ('len', 'bool', 'not_'):
        return getattr(n.rx, form)()
    if form in ('in_', 'is_', 'is_not'):
        return getattr(n.rx, form)(args[0])
    if form in ('rx_and', 'rx_or'):
        return getattr(n.rx, form[3:] + '_')(args[0])
    if form.startswith('pipe:'):
        return n.rx.pipe(_user_fn(form[5:]), *args, **(kw or {}))
    if form.startswith('map:'):
        return n.rx.map(_user_fn(form[4:]), *args)
    raise RuntimeError('unknown form ' + form)


def run_impl(case):
    import param
    from param import rx
    w = _World()
    steps = []
    try:
        flags = []

        def snap():
            # not compared: at an update that raised in a program with holders
            last = steps[len(flags)] if len(flags) < len(steps) else {}
            if last.get('k') == 'set' and last.get('e') and w.holders:
                flags.append([])
            else:
                flags.append([[i, bool(o._dirty), o._error_state is not None, bool(o._root._dirty_obj)] for i, o in w.cmp])
        for st in case['prog']:
            if len(flags) < len(steps):
                snap()
            s = st['s']
            if s in ('lit', 'rootp', 'rootm', 'op', 'meth', 'attr', 'meth2', 'bind', 'where'):
                try:
                    if s == 'lit':
                        r = rx(dec(st['v']))
                        w.params.append(('w', r))
                        w.nodes.append(r)
                    elif s == 'rootp':
                        kind = w.params[st['p']]
                        w.nodes.append(rx(kind[1].param[kind[2]]))
                    elif s == 'rootm':
                        w.nodes.append(rx(w.params[st['p']][1].m))      # a @depends method of a Parameterized as root
                    elif s == 'op':
                        d = _apply_form(w, w.nodes[st['n']], st['op'], [w.arg(a) for a in st['args']],
                                        {k: w.arg(a) for k, a in st.get('kw', [])})
                        w.nodes += [None, d]
                    elif s == 'meth':
                        d = getattr(w.nodes[st['n']], st['op'])(*[w.arg(a) for a in st['args']])
                        w.nodes += [None, None, d]
                    elif s == 'attr':
                        # plain attribute access: the accessor object itself is the expression
                        w.nodes += [None, None, getattr(w.nodes[st['n']], st['op'])]
                    elif s == 'meth2':
                        # one accessor object, called twice
                        acc = getattr(w.nodes[st['n']], st['op'])
                        d1 = acc(*[w.arg(a) for a in st['args']])
                        w.nodes += [None, None, d1]
                        d2 = acc(*[w.arg(a) for a in st['args2']])
                        w.nodes += [None, d2]
                    elif s == 'bind':
                        w.nodes.append(rx(param.bind(_user_fn(st['f']), *[w.arg(a) for a in st['args']],
                                                     **{k: w.arg(a) for k, a in st.get('kw', [])})))
                    else:
                        c = st['c']
                        if 'n' in c:
                            ops = w.nodes[c['n']].rx
                        else:
                            kind = w.params[c['p']]
                            ops = kind[1].param[kind[2]].rx
                        fn = ops.where(w.arg(st['x']), w.arg(st['y']))
                        w.params.append(('t',))
                        w.nodes.append(rx(fn))
                    base = len(w.nodes) - NODES_OF[s]
                    if s in ('op', 'meth', 'meth2', 'attr') and st['n'] in w.accs:
                        # a pipeline through an attribute accessor is rendered with other (copy / root) nodes in the
                        # model: its internal flags are not comparable
                        w.accs.update(range(base, len(w.nodes)))
                    elif s in ('lit', 'rootp', 'rootm', 'bind', 'where'):
                        w.cmp.append((base, w.nodes[base]))
                    elif s == 'op':
                        w.cmp.append((base, w.nodes[base + 1]._prev))   # the copy made by _resolve_accessor
                        w.cmp.append((base + 1, w.nodes[base + 1]))
                    elif s == 'meth':
                        w.cmp += [(base + 1, w.nodes[base + 2]._prev), (base + 2, w.nodes[base + 2])]
                    elif s == 'meth2':
                        w.cmp += [(base + 1, w.nodes[base + 2]._prev), (base + 2, w.nodes[base + 2]),
                                  (base + 3, w.nodes[base + 4]._prev), (base + 4, w.nodes[base + 4])]
                    elif s == 'attr':
                        w.accs.add(base + 2)
                    if not isinstance(w.nodes[-1], rx):
                        return {'crash': f'{s} did not produce an rx: {type(w.nodes[-1]).__name__}'}
                    steps.append({'k': 'created'})
                except Exception as e:
                    steps.append({'k': 'createErr', 'e': exc_name(e)})
                    break
            elif s == 'obj':
                vs = [dec(v) for v in st['vs']]
                names = [f'p{i}' for i in range(len(vs))]

                def m(self, names=names):
                    return [getattr(self, n) for n in names]
                body = {n: param.Parameter(default=None) for n in names}
                body['m'] = param.depends(*names)(m)        # a method depending on every parameter: rx(obj.m)
                cls = type('O', (param.Parameterized,), body)
                inst = cls(**{f'p{i}': v for i, v in enumerate(vs)})
                for i in range(len(vs)):
                    w.params.append(('o', inst, f'p{i}'))
                steps.append({'k': 'created'})
            elif s == 'watch':
                i = w.nwatch
                w.nwatch += 1
                w.nodes[st['n']].rx.watch(lambda v, i=i: w.log.append([i, enc(v)]))
                steps.append({'k': 'watch'})
            elif s == 'set':
                del w.log[:]
                err = None
                kind = w.params[st['p']]
                try:
                    if kind[0] == 'w':
                        kind[1].rx.value = dec(st['v'])
                    else:
                        setattr(kind[1], kind[2], dec(st['v']))
                except Exception as e:
                    err = exc_name(e)
                steps.append({'k': 'set', 'calls': list(w.log), 'e': err})
                if err and w.holders:
                    break        # the model ends a program with reference holders at an escaping exception
            elif s == 'read':
                try:
                    steps.append({'k': 'read', 'v': enc(w.nodes[st['n']].rx.value)})
                except Exception as e:
                    steps.append({'k': 'readErr', 'e': exc_name(e)})
            elif s == 'ref':
                from param.parameterized import resolve_ref
                node = w.nodes[st['n']]
                if not resolve_ref(node):
                    steps.append({'k': 'bad'})       # without dependencies the rx is stored as a plain value
                    break
                cls = type('H', (param.Parameterized,), {'v': param.Parameter(default=None, allow_refs=True)})
                try:
                    w.holders.append(cls(v=node))
                    steps.append({'k': 'created'})
                except Exception as e:
                    steps.append({'k': 'createErr', 'e': exc_name(e)})
                    break
            elif s == 'readref':
                steps.append({'k': 'read', 'v': enc(w.holders[st['h']].v)})
            elif s == 'isin':
                try:
                    steps.append({'k': 'read', 'v': enc(dec(st['v']) in w.nodes[st['n']])})   # the plain `in` operator
                except Exception as e:
                    steps.append({'k': 'readErr', 'e': exc_name(e)})
            else:
                raise RuntimeError('unknown statement ' + s)
        if len(flags) < len(steps):
            snap()
        return {'steps': steps, 'flags': flags}
    except Exception as e:
        return {'crash': f'{type(e).__name__}: {e}'[:300]}


# ---------------------------------------------------------------- bookkeeping shared by generator / shrinker / classifier

NODES_OF = {'lit': 1, 'rootp': 1, 'rootm': 1, 'op': 2, 'meth': 3, 'attr': 3, 'meth2': 5, 'bind': 1, 'where': 1}


def _allocs(st):
    """(number of node ids, number of parameter ids) a statement allocates"""
    s = st['s']
    return NODES_OF.get(s, 0), (1 if s in ('lit', 'where') else len(st['vs']) if s == 'obj' else 0)


def _flat(a):
    """atomic operands of an operand (containers are traversed like resolve_ref(recursive=True) does)"""
    if 'L' in a:
        return [y for x in a['L'] for y in _flat(x)]
    if 'S' in a:
        return [y for x in a['S'] for y in _flat(x)]
    return [a]


def _args_of(st):
    s = st['s']
    if s in ('op', 'meth', 'meth2', 'bind'):
        return [y for a in st['args'] for y in _flat(a)] + [a for _, a in st.get('kw', [])] + list(st.get('args2', []))
    if s == 'where':
        return [st['c'], st['x'], st['y']]
    return []


def where_family(prog):
    """node ids whose pipeline starts at a `where` (the where node, its copies and everything derived from it)"""
    fam, nid = set(), 0
    for st in prog:
        k, _ = _allocs(st)
        if st['s'] == 'where' or (st['s'] in ('op', 'meth', 'meth2', 'attr') and st['n'] in fam):
            fam.update(range(nid, nid + k))
        nid += k
    return fam


def where_refs(prog):
    """statements that hand a where-rooted expression to a consumer: as an operand, as a
    bind argument, as condition / branch of another where, or to .rx.watch"""
    fam = where_family(prog)
    out = []
    for i, st in enumerate(prog):
        if st['s'] in ('watch', 'ref') and st['n'] in fam:
            out.append(i)
        elif any('n' in a and a['n'] in fam for a in _args_of(st)):
            out.append(i)
    return out


def _py_equal_not_identical(a, b):
    a, b = dec(a), dec(b)
    if isinstance(a, list) and isinstance(b, list):
        return len(a) == len(b) and all(x == y for x, y in zip(a, b)) and \
            any(_py_equal_not_identical(x, y) for x, y in zip(a, b))
    return type(a) is not type(b) and isinstance(a, (bool, int, float)) and isinstance(b, (bool, int, float)) and a == b


def equal_updates(prog):
    """set statements whose new value compares equal (Comparator.is_equal) to the current one without being identical"""
    vals, out = [], []
    for i, st in enumerate(prog):
        if st['s'] == 'lit':
            vals.append(st['v'])
        elif st['s'] == 'obj':
            vals.extend(st['vs'])
        elif st['s'] == 'where':
            vals.append(None)
        elif st['s'] == 'set':
            if st['p'] < len(vals) and _py_equal_not_identical(vals[st['p']], st['v']):
                out.append(i)
            if st['p'] < len(vals):
                vals[st['p']] = st['v']
    return out


# ---------------------------------------------------------------- generator-side plain evaluation (steering only)

class _Shadow:
    """what the generator knows: current inputs and, per node id, a closure computing the plain-Python value.
    Used to keep values small and to make most creations succeed; never used as the oracle."""

    def __init__(self):
        self.vals = []        # param id -> value (None for triggers)
        self.ptype = []       # param id -> type tag
        self.kind = []        # param id -> 'lit' | 'obj' | 'trig'
        self.nodes = []       # node id -> (fn env->value) or None for copies (same as original)
        self.ntype = []       # node id -> type tag
        self.user = []        # node ids a user holds (not internal copies)
        self.lit_root = {}    # param id -> node id of its rx(v) root

    def ev(self, nid):
        return self.nodes[nid]()

    def arg_fn(self, a):
        if 'L' in a:
            fs = [self.arg_fn(x) for x in a['L']]
            return lambda fs=fs: [f() for f in fs]
        if 'S' in a:
            lo, hi = self.arg_fn(a['S'][0]), self.arg_fn(a['S'][1])
            return lambda lo=lo, hi=hi: slice(lo(), hi())
        if 'l' in a:
            return lambda v=a['l']: dec(v)
        if 'n' in a:
            return self.nodes[a['n']]
        return lambda p=a['p']: self.vals[p]

    def ok(self):
        """every node evaluates (or raises a modelled exception) to something small"""
        for nid in self.user:
            try:
                if not _small(self.ev(nid)):
                    return False
            except (ZeroDivisionError, TypeError, IndexError, ValueError, AttributeError):
                pass
            except Exception:
                return False
        return True


def _small(v, depth=0):
    if isinstance(v, bool) or v is None:
        return True
    if isinstance(v, int):
        return abs(v) < 10 ** 6
    if isinstance(v, float):
        return abs(v) < 10 ** 6 and v * 2 == int(v * 2)        # whole numbers and halves only
    if isinstance(v, str):
        return len(v) <= 40
    if isinstance(v, list):
        return depth < 2 and len(v) <= 40 and all(_small(x, depth + 1) for x in v)
    return False


def _sem(form):
    """python function with signature (obj, *args) for an API form"""
    if form in BINARY or form in COMPARE or form in UNARY:
        return getattr(operator, form)
    if form.startswith('r') and form[1:] in BINARY:
        f = getattr(operator, form[1:])
        return lambda obj, a: f(a, obj)
    if form == 'getitem':
        return operator.getitem
    if form == 'round':
        return round
    if form == 'round0':
        return lambda v: round(v, 0)
    if form == 'len':
        return len
    if form == 'bool':
        return bool
    if form == 'not_':
        return operator.not_
    if form == 'in_':
        return lambda obj, a: obj in a
    if form == 'is_':
        return operator.is_
    if form == 'is_not':
        return operator.is_not
    if form == 'rx_and':
        return lambda a, b: a and b
    if form == 'rx_or':
        return lambda a, b: a or b
    if form.startswith('pipe:'):
        return _user_fn(form[5:])
    if form.startswith('map:'):
        f = _user_fn(form[4:])
        return lambda vs, *a: [f(v, *a) for v in vs]
    raise KeyError(form)


def _apply_shadow(sh, st):
    """extend the shadow with a creation statement (mirrors the id allocation of the model)"""
    s = st['s']
    if s == 'lit':
        p = len(sh.vals)
        sh.vals.append(dec(st['v']))
        sh.kind.append('lit')
        sh.lit_root[p] = len(sh.nodes)
        sh.nodes.append(lambda p=p: sh.vals[p])
        sh.user.append(len(sh.nodes) - 1)
    elif s == 'obj':
        for v in st['vs']:
            sh.vals.append(dec(v))
            sh.kind.append('obj')
    elif s == 'rootp':
        sh.nodes.append(lambda p=st['p']: sh.vals[p])
        sh.user.append(len(sh.nodes) - 1)
    elif s == 'rootm':
        sh.nodes.append(lambda p=st['p'], k=st['k']: [sh.vals[p + i] for i in range(k)])
        sh.user.append(len(sh.nodes) - 1)
    elif s == 'attr':
        subj = sh.nodes[st['n']]
        sh.nodes += [subj, subj]
        sh.nodes.append(lambda subj=subj, name=st['op']: getattr(subj(), name))
        sh.user.append(len(sh.nodes) - 1)
    elif s == 'meth2':
        subj = sh.nodes[st['n']]
        for key in ('args', 'args2'):
            afs = [sh.arg_fn(a) for a in st[key]]
            sh.nodes += [subj, subj] if key == 'args' else [subj]
            sh.nodes.append(lambda subj=subj, afs=afs, name=st['op']: getattr(subj(), name)(*[a() for a in afs]))
            sh.user.append(len(sh.nodes) - 1)
    elif s in ('op', 'meth'):
        subj = sh.nodes[st['n']]
        afs = [sh.arg_fn(a) for a in st['args']]
        if s == 'op':
            f = _sem(st['op'])
            sh.nodes.append(subj)
        else:
            f = lambda obj, *a, name=st['op']: getattr(obj, name)(*a)
            sh.nodes += [subj, subj]

        kfs = [(k, sh.arg_fn(a)) for k, a in st.get('kw', [])]

        def node(subj=subj, afs=afs, f=f, kfs=kfs):
            obj = subj()
            return f(obj, *[a() for a in afs], **{k: a() for k, a in kfs})
        sh.nodes.append(node)
        sh.user.append(len(sh.nodes) - 1)
    elif s == 'bind':
        afs = [sh.arg_fn(a) for a in st['args']]
        kfs = [(k, sh.arg_fn(a)) for k, a in st.get('kw', [])]
        f = _user_fn(st['f'])
        sh.nodes.append(lambda afs=afs, kfs=kfs, f=f: f(*[a() for a in afs], **{k: a() for k, a in kfs}))
        sh.user.append(len(sh.nodes) - 1)
    elif s == 'where':
        c, x, y = sh.arg_fn(st['c']), sh.arg_fn(st['x']), sh.arg_fn(st['y'])
        sh.vals.append(None)
        sh.kind.append('trig')
        sh.nodes.append(lambda c=c, x=x, y=y: x() if c() else y())
        sh.user.append(len(sh.nodes) - 1)
    elif s == 'set':
        sh.vals[st['p']] = dec(st['v'])


# ---------------------------------------------------------------- random programs

INTS = [-3, -1, 0, 0, 1, 1, 2, 3, 5, 9]


def _value(rng, t):
    if t == 'int':
        return rng.choice(INTS)
    if t == 'bool':
        return rng.random() < 0.5
    if t == 'str':
        return ''.join(rng.choice('abc') for _ in range(rng.randint(0, 3)))
    if t == 'ilist':
        return [rng.choice(INTS) for _ in range(rng.randint(0, 3))]
    if t == 'float':
        return enc(rng.choice([0.5, 1.5, 2.5, 3.0, 7.5, -1.5, 2.0, 0.0, 3.5]))
    return rng.choice([None, 0, 'a', [1]])


# subject type -> [(form, [operand types], result type)]; operand type 'k' = small literal count, 'L:<x>' = that literal
_I = 'int'
TABLE = {
    'int': [(f, [_I], _I) for f in ('add', 'sub', 'mul', 'floordiv', 'mod', 'and_', 'or_', 'xor')] +
           [('r' + f, ['!int'], _I) for f in ('add', 'sub', 'mul', 'floordiv', 'mod', 'and_', 'or_', 'xor')] +
           [('lshift', ['k'], _I), ('rshift', ['k'], _I), ('rlshift', ['!int'], _I), ('rrshift', ['!int'], _I)] +
           [(f, [_I], 'bool') for f in COMPARE] + [(f, [], _I) for f in UNARY] +
           [('pipe:str', [], 'str'), ('bool', [], 'bool'), ('not_', [], 'bool'), ('is_', ['id'], 'bool'),
            ('is_not', ['id'], 'bool'), ('in_', ['ilist'], 'bool'), ('rx_and', [_I], _I), ('rx_or', [_I], _I),
            ('pipe:add', [_I], _I), ('pipe:kwsub', ['kw'], _I), ('pipe:kwpair', ['kw'], 'ilist'),
            ('m:bit_length', [], _I), ('round', [], _I), ('round0', [], _I),
            ('a:imag', [], _I), ('a:real', [], _I), ('a:numerator', [], _I), ('a:denominator', [], _I)],
    'bool': [(f, ['bool'], 'bool') for f in ('and_', 'or_', 'xor', 'rx_and', 'rx_or', 'eq', 'ne')] +
            [('not_', [], 'bool'), ('bool', [], 'bool'), ('pipe:str', [], 'str'), ('is_', ['id'], 'bool'),
             ('add', [_I], _I), ('inv', [], _I), ('a:imag', [], _I), ('round0', [], _I)],
    'float': [('round', [], _I), ('round0', [], 'float'), ('round0', [], 'float'), ('bool', [], 'bool'), ('not_', [], 'bool'),
              ('pipe:str', [], 'str'), ('eq', ['float'], 'bool'), ('ne', [_I], 'bool'), ('is_', ['id'], 'bool'),
              ('a:real', [], 'float'), ('a:imag', [], 'float')],
    'str': [('add', ['str'], 'str'), ('radd', ['!str'], 'str'), ('mul', ['k'], 'str'), ('rmul', ['k'], 'str'),
            ('getitem', [_I], 'str'), ('getitem', ['slice'], 'str'), ('len', [], _I), ('m:upper', [], 'str'), ('m:count', ['str'], _I),
            ('m:index', ['str'], _I), ('in_', ['str'], 'bool'), ('eq', ['str'], 'bool'), ('lt', ['str'], 'bool'),
            ('map:add', ['L:z'], 'any'), ('bool', [], 'bool'), ('rx_or', ['str'], 'str'), ('not_', [], 'bool')],
    'ilist': [('add', ['ilist'], 'ilist'), ('mul', ['k'], 'ilist'), ('getitem', [_I], _I), ('getitem', ['slice'], 'ilist'), ('pipe:add', ['ilist'], 'ilist'), ('len', [], _I),
              ('pipe:sum', [], _I), ('map:add', [_I], 'ilist'), ('map:neg', [], 'ilist'), ('m:count', [_I], _I),
              ('m:index', [_I], _I), ('eq', ['ilist'], 'bool'), ('lt', ['ilist'], 'bool'), ('bool', [], 'bool'),
              ('not_', [], 'bool'), ('radd', ['!ilist'], 'ilist')],
    'any': [('pipe:str', [], 'str'), ('bool', [], 'bool'), ('not_', [], 'bool'), ('eq', ['L:a'], 'bool'), ('len', [], _I)],
}
ALL_FORMS = sorted({f for rows in TABLE.values() for f, _, _ in rows})


class _Gen:
    def __init__(self, rng, allow_where_ref, cross):
        self.rng, self.allow_where_ref, self.cross = rng, allow_where_ref, cross
        self.sh = _Shadow()
        self.prog = []
        self.ptype = []
        self.ntype = {}
        self.fam = set()
        self.nwatch = 0
        self.nref = 0
        self.acc = set()      # attribute accessor nodes
        self.objs = []        # (first parameter id, number of parameters) of every Parameterized object
        self.supp = {}        # node id -> inputs the expression mentions (static)
        self.prog_allow_ref = rng.random() < 0.35

    # -- operands
    def operand(self, t, container=False):
        rng = self.rng
        if t == 'k':
            return {'l': rng.choice([0, 1, 2, 2, 3])}
        if t == 'id':
            return {'l': rng.choice([None, True, False, 0, 1])}
        if t.startswith('L:'):
            return {'l': t[2:]}
        if t == 'slice':
            bound = lambda: ({'l': None} if rng.random() < 0.25 else self.operand('int'))
            return {'S': [bound(), bound()]}
        only_plain = t.startswith('!')          # reflected forms: the left operand must not be an rx
        t = t.lstrip('!')
        if t == 'ilist' and container and not only_plain and rng.random() < 0.35:
            return {'L': [self.operand('int') for _ in range(rng.randint(1, 3))]}
        r = rng.random()
        nodes = [n for n in self.sh.user if self.ntype[n] == t and (self.allow_where_ref or n not in self.fam)]
        params = [p for p, pt in enumerate(self.ptype) if pt == t and self.sh.kind[p] == 'obj']
        if r < 0.35 and nodes and not only_plain:
            return {'n': rng.choice(nodes)}
        if r < 0.6 and params:
            return {'p': rng.choice(params)}
        return {'l': _value(rng, t)}

    def push(self, st, rtype=None):
        """append a statement if the plain evaluation stays small; keep the shadow in step"""
        sh = self.sh
        mark = (len(sh.nodes), len(sh.user), len(sh.vals), len(sh.kind))
        old = sh.vals[st['p']] if st['s'] == 'set' else None
        _apply_shadow(sh, st)
        if not sh.ok():
            del sh.nodes[mark[0]:], sh.user[mark[1]:], sh.vals[mark[2]:], sh.kind[mark[3]:]
            if st['s'] == 'set':
                sh.vals[st['p']] = old
            return False
        k, _ = _allocs(st)
        if k:
            new = len(sh.nodes) - 1
            self.ntype[new] = rtype
            sup = set()
            if st['s'] == 'lit':
                sup = {len(sh.vals) - 1}
            elif st['s'] == 'rootp':
                sup = {st['p']}
            elif st['s'] == 'rootm':
                sup = set(range(st['p'], st['p'] + st['k']))
            else:
                if 'n' in st:
                    sup |= self.supp.get(st['n'], set())
                for a in _args_of(st):
                    sup |= self.supp.get(a['n'], set()) if 'n' in a else ({a['p']} if 'p' in a else set())
            self.supp[new] = sup
            if st['s'] == 'meth2':               # the first call's expression
                self.ntype[new - 2] = rtype
                self.supp[new - 2] = sup
            if st['s'] == 'where' or (st['s'] in ('op', 'meth', 'meth2', 'attr') and st['n'] in self.fam):
                self.fam.update(range(mark[0], len(sh.nodes)))
        if st['s'] == 'lit':
            self.ptype.append(rtype)
        elif st['s'] == 'obj':
            self.objs.append((len(self.ptype), len(rtype)))
            self.ptype.extend(rtype)
        elif st['s'] == 'where':
            self.ptype.append('trig')
        self.prog.append(st)
        return True

    def has_float(self, nid):
        """the value contains a float: only the operations listed for floats are in the oracle's semantics"""
        def walk(v):
            return isinstance(v, float) or (isinstance(v, list) and any(walk(x) for x in v))
        try:
            return walk(self.sh.ev(nid))
        except Exception:
            return False

    def raises_now(self, nid):
        try:
            self.sh.ev(nid)
            return False
        except Exception:
            return True

    def create(self):
        rng, sh = self.rng, self.sh
        r = rng.random()
        if r < 0.03 and self.objs:
            p0, k = rng.choice(self.objs)
            ts = self.ptype[p0:p0 + k]
            return self.push({'s': 'rootm', 'p': p0, 'k': k}, 'ilist' if all(t == 'int' for t in ts) else 'any')
        if r < 0.08:
            objs = [p for p, k in enumerate(sh.kind) if k == 'obj']
            if objs:
                p = rng.choice(objs)
                return self.push({'s': 'rootp', 'p': p}, self.ptype[p])
        if r < 0.18:
            t = rng.choice(['int', 'int', 'str', 'ilist'])
            if rng.random() < 0.5:
                k = rng.randint(1, 3)
                return self.push({'s': 'bind', 'f': 'mklist', 'args': [self.operand('int') for _ in range(k)]}, 'ilist')
            if rng.random() < 0.45:
                # keyword arguments, mostly reactive ones, in either order / one positional
                f, rt = rng.choice([('kwpair', 'ilist'), ('kwsub', 'int')])
                a, b = self.operand('int'), self.operand('int')
                shape = rng.random()
                if shape < 0.4:
                    return self.push({'s': 'bind', 'f': f, 'args': [], 'kw': [['x', a], ['y', b]]}, rt)
                if shape < 0.8:
                    return self.push({'s': 'bind', 'f': f, 'args': [], 'kw': [['y', b], ['x', a]]}, rt)
                return self.push({'s': 'bind', 'f': f, 'args': [a], 'kw': [['y', b]]}, rt)
            return self.push({'s': 'bind', 'f': 'add', 'args': [self.operand(t), self.operand(t)]}, t)
        if r < 0.32:
            t = rng.choice(['int', 'int', 'str', 'bool', 'ilist'])
            c = self.operand(rng.choice(['bool', 'bool', 'int']))
            if 'l' in c:
                conds = [n for n in sh.user if self.allow_where_ref or n not in self.fam]
                c = {'n': rng.choice(conds)}
            return self.push({'s': 'where', 'c': c, 'x': self.operand(t), 'y': self.operand(t)}, t)
        subj = rng.choice(sh.user)
        if self.raises_now(subj) and rng.random() > 0.05:
            return False
        t = self.ntype[subj]
        if subj in self.acc:
            # an operator on an accessor records the attribute access on a private copy; chained attribute / method
            # access on an accessor is not generated
            rows = [r for r in TABLE[t] if not r[0].startswith(('m:', 'a:'))]
            if not rows:
                return False
            form, ots, rt = rng.choice(rows)
            return self.push({'s': 'op', 'n': subj, 'op': form, 'args': [self.operand(o, container=True) for o in ots]}, rt)
        if t != 'float' and not self.has_float(subj) and rng.random() < 0.06:     # deliberately ill-typed
            form, ots, rt = rng.choice(TABLE[rng.choice(list(TABLE))])
            rt = 'any'
        else:
            form, ots, rt = rng.choice(TABLE[t])
        if form.startswith('a:'):
            ok = self.push({'s': 'attr', 'n': subj, 'op': form[2:]}, rt)
            if ok:
                self.acc.add(len(sh.nodes) - 1)
            return ok
        if form in ('pipe:kwsub', 'pipe:kwpair'):
            # obj is the first parameter (x); the second one is passed by keyword or positionally
            b = self.operand('int')
            if rng.random() < 0.75:
                return self.push({'s': 'op', 'n': subj, 'op': form, 'args': [], 'kw': [['y', b]]}, rt)
            return self.push({'s': 'op', 'n': subj, 'op': form, 'args': [b]}, rt)
        args = [self.operand(o, container=not form.startswith('m:')) for o in ots]
        if form.startswith('m:'):
            if rng.random() < 0.3:               # acc = expr.method; acc(...); acc(...)
                args2 = [self.operand(o) for o in ots]
                return self.push({'s': 'meth2', 'n': subj, 'op': form[2:], 'args': args, 'args2': args2}, rt)
            return self.push({'s': 'meth', 'n': subj, 'op': form[2:], 'args': args}, rt)
        return self.push({'s': 'op', 'n': subj, 'op': form, 'args': args}, rt)

    def update(self):
        rng, sh = self.rng, self.sh
        ps = [p for p, k in enumerate(sh.kind) if k != 'trig']
        p = rng.choice(ps)
        t = self.ptype[p]
        v = _value(rng, t)
        if self.cross and t in ('int', 'bool') and rng.random() < 0.4:
            cur = sh.vals[p]
            v = (bool(cur) if t == 'int' and cur in (0, 1) else int(cur) if t == 'bool' else v)
        elif rng.random() < 0.15:
            v = sh.vals[p]                                # identical value: nothing may happen
        return self.push({'s': 'set', 'p': p, 'v': enc(v)})

    def build(self):
        rng = self.rng
        # inputs
        for _ in range(rng.randint(1, 3)):
            t = rng.choice(['int', 'int', 'bool', 'str', 'ilist', 'float'])
            self.push({'s': 'lit', 'v': _value(rng, t)}, t)
        if rng.random() < 0.6:
            ts = [rng.choice(['int', 'int', 'bool', 'str', 'ilist', 'float']) for _ in range(rng.randint(1, 3))]
            self.push({'s': 'obj', 'vs': [_value(rng, t) for t in ts]}, ts)
        target = rng.randint(2, 9)
        steps = rng.randint(6, 28)
        for i in range(steps):
            made = len(self.sh.user)
            r = rng.random()
            if made < target and r < (0.75 if i < target + 2 else 0.3):
                self.create()
            elif r < 0.5:
                self.update()
            elif r < 0.56 and self.nwatch < 3:
                nodes = [n for n in self.sh.user if self.allow_where_ref or n not in self.fam]
                self.push({'s': 'watch', 'n': rng.choice(nodes)})
                self.nwatch += 1
            elif r < 0.62 and self.prog_allow_ref and self.nref < 2:
                # a Parameter holding an expression as a reference; the expression must evaluate now
                nodes = [n for n in self.sh.user if self.supp.get(n) and (self.allow_where_ref or n not in self.fam)
                         and not self.raises_now(n)]
                if nodes:
                    self.push({'s': 'ref', 'n': rng.choice(nodes)})
                    self.nref += 1
            elif r < 0.70 and self.nref:
                self.push({'s': 'readref', 'h': rng.randrange(self.nref)})
            else:
                self.push({'s': 'read', 'n': rng.choice(self.sh.user)})
        # always end with a read of everything a user holds
        for h in range(self.nref):
            self.prog.append({'s': 'readref', 'h': h})
        for n in self.sh.user[-4:]:
            self.prog.append({'s': 'read', 'n': n})
        if rng.random() < 0.05:
            # the plain `in` operator: must be the plain result or a refusal
            n = rng.choice(self.sh.user)
            self.prog.append({'s': 'isin', 'n': n, 'v': enc(_value(rng, 'str' if self.ntype.get(n) == 'str' else 'int'))})
        return {'prog': self.prog}


def _random_case(rng):
    return _Gen(rng, allow_where_ref=rng.random() < 0.15, cross=rng.random() < 0.04).build()


# ---------------------------------------------------------------- directed prefix

def L(v):
    return {'l': v}


def N(n):
    return {'n': n}


def P(p):
    return {'p': p}


def lit(v):
    return {'s': 'lit', 'v': v}


def op(n, form, *args):
    if form.startswith('m:'):
        return {'s': 'meth', 'n': n, 'op': form[2:], 'args': list(args)}
    if form.startswith('a:'):
        return {'s': 'attr', 'n': n, 'op': form[2:]}
    return {'s': 'op', 'n': n, 'op': form, 'args': list(args)}


def rd(n):
    return {'s': 'read', 'n': n}


def st(p, v):
    return {'s': 'set', 'p': p, 'v': v}


def _directed():
    out = []
    # every API form once on a fresh root of the right type, read, update the root, read again
    F = lambda x: enc(float(x))
    sample = {'int': (5, 2), 'bool': (True, False), 'str': ('abc', 'ca'), 'ilist': ([1, 2, 3], [0]), 'any': ('a', None),
              'float': (F(2.5), F(3.5))}
    argval = {'int': 2, 'bool': True, 'str': 'a', 'ilist': [2], 'k': 2, 'id': True, '!int': 7, '!str': 'b', '!ilist': [9], 'float': F(2.5),
              'L:z': 'z', 'L:a': 'a'}
    for t, rows in TABLE.items():
        for form, ots, _ in rows:
            v0, v1 = sample[t]
            if ots == ['kw']:
                prog = [lit(v0), {'s': 'op', 'n': 0, 'op': form, 'args': [], 'kw': [['y', L(2)]]}]
            else:
                prog = [lit(v0), op(0, form, *[({'S': [L(0), L(2)]} if o == 'slice' else L(argval[o])) for o in ots])]
            new = 3 if form.startswith(('m:', 'a:')) else 2
            prog += [rd(new), st(0, v1), rd(new), rd(new), st(0, v0), rd(new)]
            out.append({'prog': prog})
            if ots and not ots[0].startswith('!') and ots[0] in sample:
                # the same with the operand being another root and a Parameter: update the operand
                a0, a1 = sample[ots[0]]
                out.append({'prog': [lit(v0), lit(a0), op(0, form, N(1)), rd(new + 1), st(1, a1), rd(new + 1), st(0, v1), rd(new + 1)]})
                out.append({'prog': [lit(v0), {'s': 'obj', 'vs': [a0]}, op(0, form, P(1)), rd(new), st(1, a1), rd(new), st(0, v1), rd(new)]})
    # references nested in a container operand: list operand, slice bounds (resolve_ref(arg, recursive=True))
    out.append({'prog': [lit([1]), lit(5), {'s': 'obj', 'vs': [7]}, op(0, 'add', {'L': [N(1), L(10), P(2)]}), rd(3), st(1, 6), rd(3),
                         st(2, 8), rd(3), {'s': 'watch', 'n': 3}, st(1, 0), st(0, [2]), rd(3)]})
    out.append({'prog': [lit('abcabc'), lit(1), lit(4), op(0, 'getitem', {'S': [N(1), N(2)]}), rd(4), st(2, 2), rd(4), st(1, 0), rd(4),
                         st(1, 'x'), rd(4), st(1, None), rd(4), st(0, 'cc'), rd(4)]})
    out.append({'prog': [lit(3), lit(1), lit(2), op(0, 'in_', {'L': [N(1), N(2)]}), rd(4), st(2, 3), rd(4), st(2, 0), rd(4), st(0, 0), rd(4)]})
    out.append({'prog': [lit([0, 1, 2, 3]), {'s': 'obj', 'vs': [1]}, op(0, 'getitem', {'S': [P(1), L(None)]}), op(2, 'pipe:add', {'L': [P(1)]}),
                         rd(4), st(1, 3), rd(4), rd(2)]})
    # a Parameter holding an expression as a reference mirrors it: operand input, root input, read-populated cache
    out.append({'prog': [lit('id-'), lit('a'), op(0, 'add', N(1)), rd(3), {'s': 'ref', 'n': 3}, {'s': 'readref', 'h': 0}, st(1, 'b'),
                         {'s': 'readref', 'h': 0}, rd(3), st(0, 'no-'), {'s': 'readref', 'h': 0}, st(1, 'b'), {'s': 'readref', 'h': 0}]})
    out.append({'prog': [lit(2), lit(10), op(0, 'mul', N(1)), op(3, 'add', L(1)), rd(5), {'s': 'ref', 'n': 5}, {'s': 'ref', 'n': 3},
                         {'s': 'watch', 'n': 5}, st(1, 5), {'s': 'readref', 'h': 0}, {'s': 'readref', 'h': 1}, st(0, 3),
                         {'s': 'readref', 'h': 0}, {'s': 'readref', 'h': 1}, rd(5)]})
    out.append({'prog': [{'s': 'obj', 'vs': [1, 2]}, {'s': 'bind', 'f': 'add', 'args': [P(0), P(1)]}, {'s': 'ref', 'n': 0},
                         st(1, 5), {'s': 'readref', 'h': 0}, op(0, 'mul', P(0)), {'s': 'ref', 'n': 2}, st(0, 3),
                         {'s': 'readref', 'h': 0}, {'s': 'readref', 'h': 1}]})
    # bind with keyword arguments: two reactive ones (update the first, then the second), mixed with a Parameter / positional
    for kws in ([['x', N(0)], ['y', N(1)]], [['y', N(1)], ['x', N(0)]]):
        out.append({'prog': [lit(10), lit(3), {'s': 'bind', 'f': 'kwsub', 'args': [], 'kw': kws}, rd(2), st(0, 20), rd(2), st(1, 5), rd(2),
                             {'s': 'watch', 'n': 2}, st(0, 30), st(1, 6), op(2, 'mul', L(2)), rd(4), st(0, 1), rd(4), rd(2)]})
    out.append({'prog': [lit(10), lit(3), op(0, 'add', L(1)), op(1, 'mul', L(2)), {'s': 'obj', 'vs': [7]},
                         {'s': 'bind', 'f': 'kwpair', 'args': [], 'kw': [['x', N(3)], ['y', N(5)]]}, rd(6), st(0, 0), rd(6), st(1, 1), rd(6),
                         {'s': 'bind', 'f': 'kwsub', 'args': [N(3)], 'kw': [['y', P(2)]]}, rd(7), st(2, 1), rd(7), st(0, 5), rd(7),
                         {'s': 'bind', 'f': 'kwpair', 'args': [], 'kw': [['x', N(6)], ['y', N(7)]]}, rd(8), st(1, 9), rd(8), st(2, 0), rd(8)]})
    # a where with reactive branches in pipeline position, a shared prefix and two readers downstream of it
    for c0 in (True, False):
        out.append({'prog': [lit(c0), lit(1), lit(2), {'s': 'where', 'c': N(0), 'x': N(1), 'y': N(2)}, op(3, 'add', L(100)),
                             op(5, 'mul', L(2)), op(5, 'mul', L(3)), rd(7), rd(9), rd(5), st(1, 10), rd(7), rd(9), rd(5),
                             st(2, 20), rd(9), rd(7), rd(5), rd(3), st(0, not c0), rd(5), st(1, 11), st(2, 21), rd(9), rd(5), rd(7)]})
    # one method accessor object called twice (`acc = s.count; acc('a'); acc(b)`), before and after updates
    out.append({'prog': [lit('abcab'), lit('b'), {'s': 'meth2', 'n': 0, 'op': 'count', 'args': [L('a')], 'args2': [N(1)]}, rd(4), rd(6),
                         st(0, 'bbb'), rd(6), rd(4), st(1, 'bb'), rd(6), st(0, 5), rd(4), rd(6), st(0, 'a'), rd(4), rd(6)]})
    out.append({'prog': [lit([1, 2, 1]), {'s': 'meth2', 'n': 0, 'op': 'index', 'args': [L(2)], 'args2': [L(7)]}, rd(3), rd(5),
                         st(0, [7]), rd(3), rd(5), {'s': 'meth2', 'n': 0, 'op': 'count', 'args': [L(7)], 'args2': [L(1)]}, rd(8), rd(10)]})
    out.append({'prog': [lit('ab'), {'s': 'meth2', 'n': 0, 'op': 'upper', 'args': [], 'args2': []}, rd(3), rd(5), st(0, 'c'), rd(5), rd(3)]})
    # the plain `in` operator on an expression: refused with TypeError (fixed in /repo c09ac3d), never a wrong bool
    out.append({'prog': [lit([1, 2, 3]), {'s': 'isin', 'n': 0, 'v': 3}, {'s': 'isin', 'n': 0, 'v': 9}, st(0, []), {'s': 'isin', 'n': 0, 'v': 9},
                         st(0, 5), {'s': 'isin', 'n': 0, 'v': 5}, lit('abc'), op(1, 'add', L('d')), {'s': 'isin', 'n': 3, 'v': 'z'}]})
    # plain attribute access used on the argument side: right operand, pipe argument, bind input, where branch, watch, ref
    out.append({'prog': [lit(7), lit(1), op(0, 'a:imag'), op(1, 'add', N(4)), rd(6), st(0, 9), rd(6), rd(4), op(1, 'pipe:add', N(4)), rd(8),
                         {'s': 'bind', 'f': 'mklist', 'args': [N(4), N(1)]}, rd(9), {'s': 'watch', 'n': 4}, {'s': 'ref', 'n': 4},
                         st(0, 3), {'s': 'readref', 'h': 0}, lit(True), {'s': 'where', 'c': N(10), 'x': N(4), 'y': N(1)}, rd(11), rd(9), rd(8)]})
    out.append({'prog': [lit(7), op(0, 'a:denominator'), lit(10), op(4, 'mul', N(3)), rd(6), op(0, 'a:numerator'), op(4, 'sub', N(9)), rd(11),
                         st(0, 2), rd(11), rd(6), rd(3), rd(9)]})
    out.append({'prog': [lit(F(2.5)), op(0, 'a:imag'), op(0, 'a:real'), lit(F(0.0)), op(7, 'eq', N(3)), op(7, 'eq', N(6)), rd(9), rd(11),
                         st(0, F(0.0)), rd(9), rd(11), rd(3), rd(6)]})
    # an operator on an accessor turns it into a getattr operation on a private copy
    out.append({'prog': [lit(7), op(0, 'a:imag'), op(3, 'add', L(5)), rd(5), st(0, 9), rd(5)]})
    # ... and the accessor keeps standing for the attribute (fixed in /repo 2dee7d8)
    out.append({'prog': [lit(7), op(0, 'a:imag'), rd(3), op(3, 'add', L(5)), rd(5), rd(3)]})
    # round(): result type (int / float) and ties to even; round(expr, 0) keeps the operand's type
    out.append({'prog': [lit(F(2.5)), op(0, 'round'), op(0, 'round0'), rd(2), rd(4), st(0, F(3.5)), rd(2), rd(4), st(0, F(-1.5)), rd(2), rd(4),
                         st(0, F(3.0)), rd(2), rd(4), op(4, 'pipe:str'), rd(6), lit(5), op(7, 'round0'), op(7, 'round'), rd(9), rd(11)]})
    # keyword arguments of an operation (`expr.rx.pipe(f, y=b)`): reactive, Parameter and literal
    out.append({'prog': [lit(10), lit(3), {'s': 'obj', 'vs': [4]}, {'s': 'op', 'n': 0, 'op': 'pipe:kwsub', 'args': [], 'kw': [['y', N(1)]]},
                         rd(3), st(1, 5), rd(3), st(0, 20), rd(3), {'s': 'op', 'n': 0, 'op': 'pipe:kwpair', 'args': [], 'kw': [['y', P(2)]]},
                         rd(5), st(2, 6), rd(5), {'s': 'watch', 'n': 3}, st(1, 7)]})
    # a @depends method of a Parameterized object as root: rx(obj.m)
    out.append({'prog': [{'s': 'obj', 'vs': [1, 2]}, {'s': 'rootm', 'p': 0, 'k': 2}, rd(0), st(1, 5), rd(0), op(0, 'pipe:sum'), rd(2),
                         st(0, 7), rd(2), rd(0), {'s': 'watch', 'n': 2}, st(1, 0), {'s': 'ref', 'n': 0}, st(0, 1), {'s': 'readref', 'h': 0}]})
    # error, cached error, recovery; an error below a derived node
    out.append({'prog': [lit(0), op(0, 'rfloordiv', L(10)), rd(2), rd(2), st(0, 5), rd(2), st(0, 0), rd(2), st(0, 2),
                         op(2, 'add', L(1)), rd(4), st(0, 0), rd(4), rd(2), st(0, 1), rd(4)]})
    out.append({'prog': [lit([1, 2]), lit(1), op(0, 'getitem', N(1)), rd(3), st(1, 5), rd(3), rd(3), st(0, [0, 1, 2, 3, 4, 5]), rd(3),
                         st(1, 'a'), rd(3), st(1, -1), rd(3)]})
    # building on a failing expression
    out.append({'prog': [lit(0), op(0, 'rmod', L(7)), op(2, 'add', L(1))]})
    # shared sub-expression; an input that is pipeline root and operand
    out.append({'prog': [lit(1), op(0, 'add', N(0)), rd(2), st(0, 2), rd(2), op(0, 'mul', L(10)), op(4, 'pipe:add', N(0)), rd(6),
                         st(0, 3), rd(6), rd(2), op(2, 'sub', N(6)), rd(8), st(0, 4), rd(8), rd(6)]})
    # Parameter as root and as operand, two parameters of one object
    out.append({'prog': [{'s': 'obj', 'vs': [1, 10]}, {'s': 'rootp', 'p': 0}, op(0, 'add', P(1)), rd(2), st(1, 20), rd(2), st(0, 2), rd(2),
                         op(2, 'mul', P(0)), rd(4), st(0, 3), rd(4), {'s': 'watch', 'n': 4}, st(1, 0), st(0, 3), st(0, 5)]})
    # bind: arguments are an rx, a Parameter and a literal; nested bind
    out.append({'prog': [lit(1), {'s': 'obj', 'vs': [2]}, {'s': 'bind', 'f': 'mklist', 'args': [N(0), P(1), L(3)]}, rd(1), st(0, 5), rd(1),
                         st(1, 6), rd(1), op(1, 'pipe:sum'), rd(3), {'s': 'bind', 'f': 'add', 'args': [N(3), N(0)]}, rd(4), st(0, 7), rd(4),
                         rd(3), rd(1)]})
    # where in pipeline position: both branches, condition change, branch inputs, derived node
    for c0 in (True, False):
        out.append({'prog': [lit(c0), lit(1), lit(2), {'s': 'where', 'c': N(0), 'x': N(1), 'y': N(2)}, rd(3), st(1, 10), rd(3), st(2, 20),
                             rd(3), st(0, not c0), rd(3), st(1, 11), rd(3), st(2, 21), rd(3), op(3, 'mul', L(2)), rd(5), st(1, 12),
                             st(2, 22), rd(5), st(0, c0), rd(5), rd(3)]})
    out.append({'prog': [{'s': 'obj', 'vs': [True, 1, 2]}, {'s': 'where', 'c': P(0), 'x': P(1), 'y': P(2)}, rd(0), st(1, 5), rd(0),
                         st(0, False), rd(0), st(2, 7), rd(0), st(1, 6), rd(0)]})
    # where with literal branches / same input in both branches / condition derived from the branch input
    out.append({'prog': [lit(3), op(0, 'gt', L(2)), {'s': 'where', 'c': N(2), 'x': N(0), 'y': L(0)}, rd(3), st(0, 9), rd(3), st(0, 1), rd(3),
                         st(0, 5), rd(3)]})
    out.append({'prog': [lit(True), lit(4), {'s': 'where', 'c': N(0), 'x': N(1), 'y': N(1)}, rd(2), st(1, 5), rd(2), st(0, False), st(1, 6), rd(2)]})
    # watch: called on change, with the fresh value; not required when the value stays
    out.append({'prog': [lit(1), op(0, 'add', L(1)), {'s': 'watch', 'n': 2}, st(0, 2), st(0, 2), st(0, 3), op(0, 'floordiv', L(10)),
                         {'s': 'watch', 'n': 4}, st(0, 4), st(0, 14), rd(4), rd(2)]})
    # None as a root value (`_shared_obj is None`) and as a result
    out.append({'prog': [lit(None), rd(0), op(0, 'is_', L(None)), rd(2), st(0, 3), rd(2), rd(0), st(0, None), rd(0), rd(2),
                         op(0, 'rx_or', L(7)), rd(4), st(0, 2), rd(4)]})
    # identical update: nothing happens
    out.append({'prog': [lit([1, 2]), op(0, 'len'), rd(2), st(0, [1, 2]), rd(2), st(0, [1]), rd(2)]})
    # known findings, minimal forms (see KNOWN_FINDINGS.txt)
    out.append({'prog': [lit(True), lit(1), lit(2), {'s': 'where', 'c': N(0), 'x': N(1), 'y': N(2)}, lit(100), op(4, 'add', N(3)),
                         rd(6), st(1, 10), rd(6)]})
    out.append({'prog': [lit(True), lit(1), lit(2), {'s': 'where', 'c': N(0), 'x': N(1), 'y': N(2)}, {'s': 'watch', 'n': 3}, st(1, 10)]})
    out.append({'prog': [lit(1), op(0, 'is_', L(True)), rd(2), st(0, True), rd(2), rd(0)]})
    out.append({'prog': [lit(1), lit(1), op(0, 'rfloordiv', L(10)), {'s': 'where', 'c': N(3), 'x': N(1), 'y': L(5)}, lit(True),
                         {'s': 'where', 'c': N(5), 'x': N(1), 'y': L(6)}, rd(6), st(0, 0), st(1, 2), rd(6)]})
    out.append({'prog': [lit(1), op(0, 'rfloordiv', L(10)), op(0, 'add', L(1)), {'s': 'watch', 'n': 2}, {'s': 'watch', 'n': 4}, st(0, 0), st(0, 2)]})
    return out


def _small_scope(tier):
    """all histories of length <= 3 (4 in thorough) over a fixed alphabet, for a few fixed expression shapes"""
    import itertools
    shapes = [
        # (creation statements, alphabet of history actions)
        ([lit(1), lit(0), op(0, 'floordiv', N(1))], [st(0, 6), st(1, 2), st(1, 0), rd(3), rd(0)]),
        ([lit(True), lit(1), lit(2), {'s': 'where', 'c': N(0), 'x': N(1), 'y': N(2)}, op(3, 'add', L(100))],
         [st(0, False), st(0, True), st(1, 5), st(2, 7), rd(3), rd(5)]),
        ([lit(1), op(0, 'add', N(0)), op(2, 'mul', N(0)), {'s': 'watch', 'n': 4}], [st(0, 2), st(0, 3), rd(2), rd(4), rd(0)]),
        ([lit(True), lit(1), lit(2), {'s': 'where', 'c': N(0), 'x': N(1), 'y': N(2)}, op(3, 'add', L(100)), op(5, 'mul', L(2)),
          op(5, 'mul', L(3)), rd(7), rd(9), rd(5)],
         [st(1, 5), st(2, 7), st(0, False), rd(7), rd(9), rd(5)]),
        ([{'s': 'obj', 'vs': [2, 3]}, {'s': 'bind', 'f': 'add', 'args': [P(0), P(1)]}, op(0, 'rsub', P(0))],
         [st(0, 5), st(1, 7), st(1, 'x'), rd(0), rd(2)]),
        ([lit('abc'), lit(1), op(0, 'getitem', N(1)), op(3, 'm:upper')], [st(0, 'b'), st(1, 2), st(1, 0), rd(3), rd(6)]),
    ]
    depth = 3 if tier == 'quick' else 4
    for create, alpha in shapes:
        for n in range(1, depth + 1):
            for combo in itertools.product(alpha, repeat=n):
                yield {'prog': [dict(s) for s in create] + [dict(s) for s in combo]}


def cases(rng, tier, worker, nworkers):
    import glob
    if worker == 0:
        for f in sorted(glob.glob(os.path.join(os.path.dirname(__file__), '..', '..', 'corpus', 'C09', '*.json'))):
            yield json.load(open(f))['case']
        for c in _directed():
            yield c
    i = 0
    for c in _small_scope(tier):
        i += 1
        if i % nworkers == worker:
            yield c
    n_random = 6000 if tier == 'quick' else 240000 // nworkers
    for _ in range(n_random):
        yield _random_case(rng)


# ---------------------------------------------------------------- reporting

COVERAGE_TARGETS = ['form:' + f for f in ALL_FORMS] + [
    'resolve:cache-hit', 'resolve:dirty', 'resolve:dirty+dirty_obj', 'resolve:error-cached', 'read:raises', 'read:value',
    'set:changed', 'set:identical', 'set:equal-not-identical', 'set:callbacks', 'set:raises',
    'consumer:trigger_x', 'consumer:trigger_y', 'consumer:watch', 'consumer:sync_refs', 'ref:created', 'readref:value', 'isin:raises', 'op:reverse', 'arg:rx', 'arg:parameter', 'arg:literal', 'bind:keyword-arguments', 'arg:list-of-references', 'arg:slice-of-references',
    'op:on-where', 'op:on-bind', 'op:on-root', 'op:on-derived', 'op:createErr', 'meth:created', 'meth:accessor-called-twice', 'form:a:imag', 'form:round0', 'attr:as-operand', 'bind:created', 'where:created', 'rootm:created', 'op:keyword-argument',
    'rootp:created', 'read:where-family', 'read:bind-family', 'recovered-after-error', 'where-ref-free', 'where-referenced']


def tags(case, impl):
    prog = case['prog']
    t = ['where-referenced' if where_refs(prog) else 'where-ref-free', f'len={min(len(prog) // 10 * 10, 30)}+']
    nid, accs = 0, set()
    for s in prog:
        if accs & {a['n'] for a in _args_of(s) if 'n' in a}:
            t.append('attr:as-operand')
        if s['s'] == 'attr':
            accs.add(nid + 2)
        nid += _allocs(s)[0]
    for s in prog:
        for a in s.get('args', []):
            if 'L' in a:
                t.append('arg:list-of-references' if any('l' not in x for x in a['L']) else 'arg:list-of-literals')
            elif 'S' in a:
                t.append('arg:slice-of-references' if any('l' not in x for x in a['S']) else 'arg:slice-of-literals')
        if s['s'] == 'bind' and s.get('kw'):
            t.append('bind:keyword-arguments')
        if s['s'] == 'op' and s.get('kw'):
            t.append('op:keyword-argument')
        if s['s'] == 'rootm':
            t.append('rootm:created')
        if s['s'] == 'op':
            t.append('form:' + s['op'])
        elif s['s'] == 'attr':
            t.append('form:a:' + s['op'])
        elif s['s'] in ('meth', 'meth2'):
            t.append('form:m:' + s['op'])
            if s['s'] == 'meth2':
                t.append('meth:accessor-called-twice')
    if isinstance(impl, dict) and 'steps' in impl:
        failed = set()
        for s, o in zip(prog, impl['steps']):
            if s['s'] == 'read':
                if o['k'] == 'readErr':
                    failed.add(s['n'])
                elif s['n'] in failed:
                    failed.discard(s['n'])
                    t.append('recovered-after-error')
    return t


def nontrivial(case, impl, resp):
    if not isinstance(impl, dict) or 'steps' not in impl:
        return False
    seen_set, ok = False, False
    for s, o in zip(case['prog'], impl['steps']):
        if s['s'] == 'set':
            seen_set = True
        elif s['s'] == 'read' and seen_set and o['k'] == 'read':
            ok = True
    return ok and resp.get('checked_steps', 0) >= 3 and resp.get('applicable', True)


# ---------------------------------------------------------------- shrinking

def _renumber(st, n0, nk, p0, pk):
    """statement after removal of node ids [n0, n0+nk) and parameter ids [p0, p0+pk); None if it refers to them"""
    def node(n):
        if n0 <= n < n0 + nk:
            raise KeyError
        return n - nk if n >= n0 + nk else n

    def par(p):
        if p0 <= p < p0 + pk:
            raise KeyError
        return p - pk if p >= p0 + pk else p

    def arg(a):
        if 'L' in a:
            return {'L': [arg(x) for x in a['L']]}
        if 'S' in a:
            return {'S': [arg(x) for x in a['S']]}
        if 'n' in a:
            return {'n': node(a['n'])}
        if 'p' in a:
            return {'p': par(a['p'])}
        return a
    try:
        st = dict(st)
        if 'n' in st:
            st['n'] = node(st['n'])
        if 'p' in st:
            st['p'] = par(st['p'])
        if 'args' in st:
            st['args'] = [arg(a) for a in st['args']]
        if 'kw' in st:
            st['kw'] = [[k, arg(a)] for k, a in st['kw']]
        if 'args2' in st:
            st['args2'] = [arg(a) for a in st['args2']]
        for k in ('c', 'x', 'y'):
            if k in st:
                st[k] = arg(st[k])
        return st
    except KeyError:
        return None


def _drop(prog, i):
    nid = sum(_allocs(s)[0] for s in prog[:i])
    pid = sum(_allocs(s)[1] for s in prog[:i])
    nk, pk = _allocs(prog[i])
    rest = [_renumber(s, nid, nk, pid, pk) for s in prog[i + 1:]]
    if any(r is None for r in rest):
        return None
    if prog[i]['s'] == 'ref':                 # holder numbers shift
        h = sum(1 for s in prog[:i] if s['s'] == 'ref')
        if any(s['s'] == 'readref' and s['h'] == h for s in rest):
            return None
        rest = [dict(s, h=s['h'] - 1) if s['s'] == 'readref' and s['h'] > h else s for s in rest]
    return prog[:i] + rest


def shrink(case):
    prog = case['prog']
    # cut the tail first (largest steps), then single statements, then values
    for cut in (len(prog) // 2, len(prog) * 3 // 4, len(prog) - 1):
        if 0 < cut < len(prog):
            yield {'prog': prog[:cut]}
    for i in reversed(range(len(prog))):
        p = _drop(prog, i)
        if p is not None:
            yield {'prog': p}
    for i, s in enumerate(prog):
        # replace an operand that is an expression / parameter by a literal
        for j, a in enumerate(s.get('args', [])):
            if 'L' in a:       # flatten a container operand step by step
                for k2 in range(len(a['L'])):
                    if 'l' not in a['L'][k2]:
                        a2 = {'L': [L(1) if q == k2 else x for q, x in enumerate(a['L'])]}
                        yield {'prog': prog[:i] + [dict(s, args=[a2 if k == j else x for k, x in enumerate(s['args'])])] + prog[i + 1:]}
                continue
            if 'S' in a:
                continue
            if 'l' not in a and s['s'] in ('op', 'meth', 'bind'):
                for v in (1, 'a', [1]):
                    s2 = dict(s, args=[L(v) if k == j else x for k, x in enumerate(s['args'])])
                    yield {'prog': prog[:i] + [s2] + prog[i + 1:]}
        if s['s'] == 'obj' and len(s['vs']) > 1:
            for j in range(len(s['vs'])):
                pid = sum(_allocs(x)[1] for x in prog[:i]) + j
                rest = [_renumber(x, 0, 0, pid, 1) for x in prog[i + 1:]]
                if all(r is not None for r in rest):
                    yield {'prog': prog[:i] + [dict(s, vs=s['vs'][:j] + s['vs'][j + 1:])] + rest}


# ---------------------------------------------------------------- known findings

def _failing_index(fail):
    import re
    m = re.match(r'statement (\d+):', str(fail.get('why', '')))
    return int(m.group(1)) if m else None


def _explained_raise(prog, idx, cls):
    """is the exception escaping the assignment `prog[idx]` the failure of a where-condition, of a watched
    expression or of an expression held as a reference, evaluated on the inputs after that assignment?"""
    sh = _Shadow()
    conds, watched = [], []
    for s in prog[:idx + 1]:
        if s['s'] == 'where':
            conds.append(sh.arg_fn(s['c']))
        elif s['s'] in ('watch', 'ref'):
            watched.append(sh.nodes[s['n']])
        _apply_shadow(sh, s)
    for f in conds + watched:
        try:
            f()
        except Exception as e:
            if exc_name(e) == cls:
                return True
    return False


def classify(case, impl, fail):
    if fail.get('kind') != 'counterexample' or not isinstance(impl, dict) or 'steps' not in impl:
        return None
    prog = case['prog']
    at = _failing_index(fail)
    if at is None:
        return None
    raised = [i for i, o in enumerate(impl['steps']) if o['k'] == 'set' and o.get('e')]
    if raised and raised[0] <= at:
        i = raised[0]
        if impl['steps'][i]['e'] in EXC and _explained_raise(prog, i, impl['steps'][i]['e']):
            return 'update-raises-aborts-dispatch'
        return None
    if [i for i in where_refs(prog) if i <= at]:
        return 'where-trigger-hidden-from-consumers'
    if [i for i in equal_updates(prog) if i <= at]:
        return 'equal-but-not-identical-update-ignored'
    return None


# ---------------------------------------------------------------- generated fragment: the operator table of `class rx`

GENERATED = os.path.join(os.path.dirname(__file__), '..', '..', 'lean', 'ParamVerif', 'Generated', 'RxOps.lean')


def _dotted(node):
    if isinstance(node, ast.Name):
        return node.id
    if isinstance(node, ast.Attribute):
        base = _dotted(node.value)
        return None if base is None else base + '.' + node.attr
    return None


def _resolves(dotted):
    import builtins
    import importlib
    parts = dotted.split('.')
    if len(parts) == 1:
        return hasattr(builtins, parts[0])
    if parts[0] not in ('operator', 'math'):
        return False
    obj = importlib.import_module(parts[0])
    for p in parts[1:]:
        if not hasattr(obj, p):
            return False
        obj = getattr(obj, p)
    return True


def _shape(fn):
    """(function dotted name, reverse, unary) if the method body is
    `return self._apply_operator(F[, other][, reverse=<bool>])`, else None"""
    body = list(fn.body)
    if body and isinstance(body[0], ast.Expr) and isinstance(getattr(body[0], 'value', None), ast.Constant) \
            and isinstance(body[0].value.value, str):
        body = body[1:]
    if len(body) != 1 or not isinstance(body[0], ast.Return) or not isinstance(body[0].value, ast.Call):
        return None
    call = body[0].value
    params = [a.arg for a in fn.args.args]
    if fn.args.vararg or fn.args.kwarg or fn.args.kwonlyargs or fn.args.defaults or len(params) not in (1, 2):
        return None
    if _dotted(call.func) != params[0] + '._apply_operator' or not call.args:
        return None
    f = _dotted(call.args[0])
    if f is None:
        return None
    rest = call.args[1:]
    if len(params) == 1:
        if rest:
            return None
    elif len(rest) != 1 or not isinstance(rest[0], ast.Name) or rest[0].id != params[1]:
        return None
    reverse = False
    for kw in call.keywords:
        if kw.arg != 'reverse' or not isinstance(kw.value, ast.Constant) or not isinstance(kw.value.value, bool):
            return None
        reverse = kw.value.value
    return f, reverse, len(params) == 1


def _helper_shape(fn):
    """(applied function, reverse) of a `reactive_ops` helper whose last statement is
    `return self._as_rx()._apply_operator(F, ...)`; F is rendered as
      dotted name                     operator.contains / bool / len
      lambda:<source>                 lambda obj, other: obj and other
      param:<name>                    the helper's own parameter (pipe)
      local:<returned expression>     a nested def (map: `[func(v, *args, **kwargs) for v in vs]`)"""
    body = [b for b in fn.body]
    if not body or not isinstance(body[-1], ast.Return) or not isinstance(body[-1].value, ast.Call):
        return None
    call = body[-1].value
    if not (isinstance(call.func, ast.Attribute) and call.func.attr == '_apply_operator'
            and isinstance(call.func.value, ast.Call) and _dotted(call.func.value.func) == 'self._as_rx') or not call.args:
        return None
    f = call.args[0]
    params = [a.arg for a in fn.args.posonlyargs + fn.args.args]
    if isinstance(f, ast.Lambda):
        name = 'lambda:' + ast.unparse(f)
    else:
        d = _dotted(f)
        if d is None:
            return None
        local = [n for n in ast.walk(fn) if isinstance(n, ast.FunctionDef) and n is not fn and n.name == d]
        if d in params:
            name = 'param:' + d
        elif local:
            ret = [n for n in ast.walk(local[-1]) if isinstance(n, ast.Return)]
            name = 'local:' + (ast.unparse(ret[-1].value) if ret and ret[-1].value is not None else '?')
        else:
            name = d
    reverse = False
    for kw in call.keywords:
        if kw.arg == 'reverse':
            if not isinstance(kw.value, ast.Constant) or not isinstance(kw.value.value, bool):
                return None
            reverse = kw.value.value
    return name, reverse


def _lean_str(s):
    return '"' + s.replace('\\', '\\\\').replace('"', '\\"') + '"'


def extract():
    """regenerate lean/ParamVerif/Generated/RxOps.lean from the current param/reactive.py"""
    from .. import common
    src = open(os.path.join(common.REPO, 'param', 'reactive.py')).read()
    tree = ast.parse(src)
    cls = next((n for n in tree.body if isinstance(n, ast.ClassDef) and n.name == 'rx'), None)
    entries = {}
    if cls is not None:
        for fn in cls.body:
            if not isinstance(fn, ast.FunctionDef) or not (fn.name.startswith('__') and fn.name.endswith('__')):
                continue
            uses = any(isinstance(n, ast.Attribute) and n.attr == '_apply_operator' for n in ast.walk(fn))
            if not uses:
                continue
            sh = _shape(fn)
            if sh is None:
                entries[fn.name] = (fn.name, '', False, False, False, False)
            else:
                f, rev, unary = sh
                entries[fn.name] = (fn.name, f, rev, unary, _resolves(f), True)
    rows = [entries[k] for k in sorted(entries)]
    # the stateless helpers of `reactive_ops`
    ops = next((n for n in tree.body if isinstance(n, ast.ClassDef) and n.name == 'reactive_ops'), None)
    helpers = []
    if ops is not None:
        for fn in ops.body:
            if isinstance(fn, ast.FunctionDef) and not fn.name.startswith('_') and \
                    any(isinstance(n, ast.Attribute) and n.attr == '_apply_operator' for n in ast.walk(fn)):
                sh = _helper_shape(fn)
                helpers.append((fn.name, sh[0], sh[1], True) if sh else (fn.name, '', False, False))
    helpers.sort()
    b = lambda x: 'true' if x else 'false'
    lines = ['/- GENERATED by harness/props/c09.py extract() from param/reactive.py (class rx) — do not edit.',
             '   One entry per dunder method of `class rx` that calls `self._apply_operator`:',
             '   (dunder, dotted name of the function, reverse flag, unary?, does the name resolve in',
             '   operator / math / builtins?, was the method body of the recognised shape',
             '   `return self._apply_operator(F[, other][, reverse=<bool>])`?) -/',
             'namespace ParamVerif.Generated.RxOps',
             '',
             'structure Entry where',
             '  dunder : String',
             '  fn : String',
             '  reverse : Bool',
             '  unary : Bool',
             '  resolves : Bool',
             '  recognised : Bool',
             '  deriving DecidableEq, Repr',
             '',
             'def classFound : Bool := ' + b(cls is not None),
             '',
             'def table : List Entry := [']
    lines += ['  ' + ',\n  '.join(
        f'⟨{_lean_str(d)}, {_lean_str(f)}, {b(r)}, {b(u)}, {b(e)}, {b(k)}⟩' for d, f, r, u, e, k in rows)] if rows else []
    lines += [']', '',
              '/-- one entry per public method of `reactive_ops` that calls `_apply_operator`:',
              '    (helper, the function it applies, reverse flag, was the body of the recognised shape?) -/',
              'structure Helper where',
              '  name : String',
              '  fn : String',
              '  reverse : Bool',
              '  recognised : Bool',
              '  deriving DecidableEq, Repr',
              '',
              'def helpers : List Helper := [']
    lines += ['  ' + ',\n  '.join(f'⟨{_lean_str(n)}, {_lean_str(f)}, {b(r)}, {b(k)}⟩' for n, f, r, k in helpers)] if helpers else []
    lines += [']', '', 'end ParamVerif.Generated.RxOps', '']
    text = '\n'.join(lines)
    path = os.path.abspath(GENERATED)
    os.makedirs(os.path.dirname(path), exist_ok=True)
    if not os.path.exists(path) or open(path).read() != text:
        tmp = path + '.tmp'
        open(tmp, 'w').write(text)
        os.replace(tmp, path)
    return {'file': 'lean/ParamVerif/Generated/RxOps.lean', 'entries': len(rows), 'helpers': [h[0] for h in helpers],
            'unrecognised': [r[0] for r in rows if not r[5]], 'unresolved_function': [r[0] for r in rows if r[5] and not r[4]]}
