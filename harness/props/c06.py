"""C06 — `depends(watch=True)` methods run exactly once per change of a dependency.
Correspondence: Lean `ParamVerif.Depends.{dependsTable, instantiate, runOp, runC}` vs classes built with
`type(...)` on the real `param`; oracle: `ParamVerif.Depends.specAll` (counts) and `specTraces` (units of change)."""
import glob
import json
import os
import re

ID = 'C06'
PROPS_FILE = 'ParamVerif/Props/C06.lean'
DRIVER = 'Driver/C06.lean'
SOURCES = [('param/depends.py', 'depends'), ('param/parameterized.py', 'ParameterizedMetaclass.__init__'),
           ('param/parameterized.py', '_parse_dependency_spec'), ('param/parameterized.py', '_params_depended_on'),
           ('param/parameterized.py', 'Parameters._spec_to_obj'), ('param/parameterized.py', '_resolve_mcs_deps'),
           ('param/parameterized.py', 'Parameters._update_deps'), ('param/parameterized.py', 'Parameters._watch_group'),
           ('param/parameterized.py', '_m_caller'), ('param/parameterized.py', '_sync_caller'),
           ('param/parameterized.py', '_skip_event'), ('param/parameterized.py', 'Parameters.method_dependencies'),
           ('param/parameterized.py', 'Parameters._register_watcher'), ('param/parameterized.py', 'Parameters._watch'),
           ('param/parameterized.py', 'Parameter.__set__'), ('param/parameterized.py', 'Parameter.__setattr__'),
           ('param/parameterized.py', 'Parameter._trigger_event'), ('param/parameterized.py', 'Parameters._call_watcher'),
           ('param/parameterized.py', 'Parameters._batch_call_watchers'), ('param/parameterized.py', 'Parameters._update'),
           ('param/parameterized.py', 'Parameters._cls_parameters'), ('param/parameterized.py', 'classlist')]
BUDGET_S = {'quick': 50, 'thorough': 400}
TRUSTED = [
    'statements in lean/ParamVerif/Props/C06.lean',
    'spec-side oracle lean/ParamVerif/Depends/Spec.lean (expected number of calls = 1 iff a dependency of the method AS RESOLVED ON THE INSTANTIATED CLASS was assigned a different value, else 0; one table entry per watching method; on_init once) and lean/ParamVerif/Depends/CascadeSpec.lean (the same count for every unit of change of the trace: a statement not inside another statement, its direct invocations, the keys its assignments changed)',
    'harness/props/c06.py adapter (classes built with type(); generated methods append "name@definingClass" to a log and to the trace tree, then perform their assignments; assignments are bracketed by the harness, which reads the value held before and obj.param._BATCH_WATCH; the nodes of the keys of param.update are written by the harness from the values held before the call; reads cls.param._depends["watch"] and param.method_dependencies for observation)',
    'CPython computes __mro__ (sent with the case and asserted equal to the real one); attribute lookup along the MRO',
    'the cascade interpreter of Depends/Cascade.lean is cross-checked per case against the compact dispatcher of Depends/Instance.lean (log-only methods) and against Dispatch.Model.run by the driver',
    'correspondence is differential testing: model = code only on the hierarchies and programs executed',
]
ASSUMPTIONS = [
    'classes that are not Parameterized (plain mix-ins) declare no Parameters and only undecorated methods; Parameter names and method names are disjoint; methods log; an on_init method may assign one parameter on its first invocation (i.e. during construction; no queued watchers in those cases); watch=True methods may assign parameters at every invocation (constant values, only parameters of higher index than every dependency of the method, so cascades end; watch="queued" methods and decorated functions only log; method bodies neither batch nor raise); Number parameters holding integers',
    'Parameter attributes exercised: bounds (only the upper bound varies, never rejecting a value) and step',
    'dotted (sub-object) dependencies are C07; async / generator methods, class-level assignment and param.trigger are outside',
    'function form: all Parameter objects belong to the one instance',
]
RULE = ('directed prefix (single/multiple inheritance overrides: decorated, undecorated, watch=False, different dependency '
        'sets, method-name dependencies, value+slot dependencies, on_init, function form, unresolvable and cyclic specs) + random '
        'hierarchies of 1-5 classes (chains, diamonds, random bases with a consistent MRO, plain non-Parameterized mix-ins among the roots), 2-4 Parameters, 1-3 methods with '
        'random dependency sets over visible parameters / p:bounds / p:step / other methods; in 3 of 10 cases instead one or two '
        'classes whose watch=True methods assign 1-3 parameters; then 3-8 operations (assignment, slot assignment, param.update, '
        'batch_call_watchers blocks nested up to depth 3).  Compared with the model: the class table, method_dependencies of every '
        'method, the constructor log, the log and the trace tree (assignments with old/new value and batching flag, invocations, '
        'blocks) of every operation.  non-trivial = at least '
        'one method was invoked by an operation and the oracle judged >=1 step; distinct = distinct canonical case')
COVERAGE_TARGETS = ['shape:plain-mixin', 'op:nested-batch', 'method:assigning', 'cascade:nested-call', 'init:assigning-on_init', 'table:inherited-entry', 'table:own-entry', 'method:not-watched', 'install:several-groups',
                    'install:one-group', 'install:on_init', 'install:function-form', 'op:set', 'op:setslot', 'op:update',
                    'op:batch', 'dispatch-model:agrees', 'create:AttributeError', 'create:RecursionError',
                    'shape:diamond', 'shape:chain', 'override:undecorated', 'override:decorated', 'override:watch-false']

WHATS = ('value', 'bounds', 'step')
LOG = []


# ------------------------------------------------------------------ implementation side

def _spec_str(attr, what):
    return attr if what == 'value' else f'{attr}:{what}'


TR = [[]]       # stack of children lists: the trace node under construction is TR[-1]


def _cur(o, name, what):
    if what == 'value':
        return getattr(o, name)
    if what == 'bounds':
        return o.param[name].bounds[1] - 1000
    return o.param[name].step - 1


def _traced_set(o, name, what, v):
    """one assignment, as a trace node: ["asg", name, what, old, new, batching, children]"""
    node = ['asg', name, what, _cur(o, name, what), v, bool(o.param._BATCH_WATCH), []]
    TR[-1].append(node)
    TR.append(node[6])
    try:
        if what == 'value':
            setattr(o, name, v)
        elif what == 'bounds':
            o.param[name].bounds = (-1000, 1000 + v)
        elif what == 'step':
            o.param[name].step = v + 1
        else:
            raise RuntimeError(what)
    finally:
        TR.pop()


def _mk_method(name, k, assign=None, body=()):
    done = set()

    def f(self):
        LOG.append(f'{name}@{k}')
        node = ['call', f'{name}@{k}', []]
        TR[-1].append(node)
        TR.append(node[2])
        try:
            if assign is not None and id(self) not in done:
                done.add(id(self))          # an assigning on_init method assigns on its first invocation only
                setattr(self, assign[0], assign[1])
            for p, v in body:               # a relay method assigns at every invocation
                _traced_set(self, p, 'value', v)
        finally:
            TR.pop()
    f.__name__ = name
    return f


def _run_stmt(param, o, s):
    if s['op'] == 'set':
        _traced_set(o, s['name'], s['what'], s['v'])
    elif s['op'] == 'update':
        # the keys are assigned inside param.update: their nodes are written here, from the values held before
        node = ['block', 'update', [['asg', k, 'value', getattr(o, k), v, True, []] for k, v in s['kvs']]]
        TR[-1].append(node)
        TR.append(node[2])
        try:
            o.param.update(**{k: v for k, v in s['kvs']})
        finally:
            TR.pop()
    elif s['op'] == 'batch':
        node = ['block', 'batch', []]
        TR[-1].append(node)
        TR.append(node[2])
        try:
            with param.parameterized.batch_call_watchers(o):
                for x in s['body']:
                    _run_stmt(param, o, x)
        finally:
            TR.pop()
    else:
        raise RuntimeError(s['op'])


def run_impl(case):
    import param
    K = []
    try:
        for i, d in enumerate(case['classes']):
            ns = {}
            for p in d['params']:
                ns[p] = param.Number(default=0, bounds=(-1000, 1000), step=1)
            for m in d['methods']:
                asg = next(((a[2], a[3]) for a in case.get('assigns', []) if a[0] == m['name'] and a[1] == i), None)
                body = next((b[2] for b in case.get('bodies', []) if b[0] == m['name'] and b[1] == i), ())
                f = _mk_method(m['name'], i, asg, [tuple(kv) for kv in body])
                di = m['dinfo']
                if di is not None:
                    f = param.depends(*[_spec_str(a, w) for a, w in di['specs']],
                                      watch=('queued' if di['queued'] else di['watch']), on_init=di['on_init'])(f)
                ns[m['name']] = f
            if d.get('plain'):
                # a class that is not a Parameterized (a mix-in): undecorated methods only, no Parameters
                bases = tuple(K[b] for b in d['bases']) or (object,)
            else:
                bases = tuple(K[b] for b in d['bases'])
                if not any(issubclass(b, param.Parameterized) for b in bases):
                    bases = bases + (param.Parameterized,)
            try:
                K.append(type(f'K{i}', bases, ns))
            except (AttributeError, RecursionError) as e:
                return {'create': type(e).__name__}
            mro = [K.index(k) for k in K[i].__mro__ if k in K]
            if mro != d['mro']:
                return {'crash': f'MRO of class {i} is {mro}, case says {d["mro"]}'}
        c = case['inst']
        del LOG[:]
        del TR[:]
        TR.append([])
        o = K[c]()
        out = {'create': None, 'init': list(LOG)}
        for label, names in case['fns']:
            def fn(*a, _l=label):
                LOG.append(_l)
                TR[-1].append(['call', _l, []])
            param.depends(*[o.param[n] for n in names], watch=True)(fn)
        out['table'] = [{'name': e[0], 'queued': bool(e[1]), 'on_init': bool(e[2]),
                         'deps': [[K.index(x.cls), x.name, x.what] for x in e[3]]}
                        for e in K[c].param._depends['watch']]
        mnames = sorted({m['name'] for k in case['classes'][c]['mro'] for m in case['classes'][k]['methods']})
        out['mdeps'] = [[n, [[x.name, x.what] for x in o.param.method_dependencies(n)]] for n in mnames]
        steps = []
        for op in case['ops']:
            del LOG[:]
            del TR[:]
            TR.append([])
            ok = True
            try:
                _run_stmt(param, o, op)
            except (ValueError, TypeError, KeyError, AttributeError):
                ok = False
            steps.append({'ok': ok, 'log': list(LOG), 'trace': json.loads(json.dumps(TR[0]))})
            del TR[:]
            TR.append([])
        out['steps'] = steps
        return out
    except Exception as e:
        return {'crash': f'{type(e).__name__}: {e}'[:300]}


# ------------------------------------------------------------------ generation

def _mro_of(bases_list):
    """CPython's linearisation for every class of the hierarchy (plain classes), or None if inconsistent"""
    X = []
    try:
        for i, bs in enumerate(bases_list):
            X.append(type(f'X{i}', tuple(X[b] for b in bs) or (object,), {}))
    except TypeError:
        return None
    return [[X.index(k) for k in x.__mro__ if k in X] for x in X]


def _visible(classes, mros, i, key):
    out = []
    for k in reversed(mros[i]):
        for n in (classes[k][key] if key == 'params' else [m['name'] for m in classes[k]['methods']]):
            if n not in out:
                out.append(n)
    return out


def _init_vals(case):
    c = case['inst']
    mro = case['classes'][c]['mro']
    ps = []
    for k in reversed(mro):
        for p in case['classes'][k]['params']:
            if p not in ps:
                ps.append(p)
    return [[p, w, 0] for p in ps for w in WHATS]


def _finish(classes, inst, fns, ops, assigns=None, bodies=None):
    case = {'classes': classes, 'inst': inst, 'fns': fns, 'ops': ops}
    if assigns:
        case['assigns'] = assigns
    if bodies:
        case['bodies'] = bodies
    case['init'] = _init_vals(case)
    return case


def _gen_simple(rng, ps, allow_update=True):
    r = rng.random()
    if r < 0.55 or not allow_update:
        w = 'value' if rng.random() < 0.65 else rng.choice(['bounds', 'step'])
        return {'op': 'set', 'name': rng.choice(ps), 'what': w, 'v': rng.choice([0, 0, 1, 1, 2, 3])}
    ks = rng.sample(ps, rng.randint(1, min(3, len(ps))))
    return {'op': 'update', 'kvs': [[k, rng.choice([0, 1, 1, 2, 3])] for k in ks]}


def _gen_batch(rng, ps, depth=0):
    """a batch_call_watchers block; a helper that batches its own assignments may be called inside a batch: blocks nest"""
    body = []
    for _ in range(rng.randint(1, 4)):
        if depth < 2 and rng.random() < 0.25:
            body.append(_gen_batch(rng, ps, depth + 1))
        else:
            body.append(_gen_simple(rng, ps))
    return {'op': 'batch', 'body': body}


def _gen_ops(rng, ps):
    ops = []
    for _ in range(rng.randint(3, 8)):
        ops.append(_gen_batch(rng, ps) if rng.random() < 0.3 else _gen_simple(rng, ps))
    return ops


def _gen_cascade(rng):
    """methods that ASSIGN: one or two classes (a chain), parameters p0..p3, methods depending on parameters (values and
    attributes) whose bodies assign parameters of HIGHER index than everything they depend on (so every cascade ends);
    queued methods and decorated functions only log.  Programs as in the other cases (assignments, updates, nested batches)."""
    npar = rng.randint(3, 4)
    pnames = [f'p{i}' for i in range(npar)]
    n = rng.choice([1, 1, 2])
    classes = [_cls([], [0], pnames, [])]
    if n == 2:
        classes.append(_cls([0], [1, 0], [], []))
    bodies = []
    for j, m in enumerate(['m0', 'm1', 'm2', 'm3'][:rng.randint(2, 4)]):
        for k in range(n):
            if k == 1 and rng.random() < 0.6:
                continue
            if k == 0 and n == 2 and rng.random() < 0.15:
                continue
            deps = rng.sample(range(npar), rng.randint(1, 2))
            specs = [[f'p{i}', 'value' if rng.random() < 0.8 else rng.choice(['bounds', 'step'])] for i in deps]
            queued = rng.random() < 0.12
            classes[k]['methods'].append({'name': m, 'dinfo': {'specs': specs, 'watch': True, 'queued': queued, 'on_init': False}})
            higher = [i for i in range(npar) if i > max(deps)]
            if higher and not queued and rng.random() < 0.75:
                body = []
                for _ in range(rng.randint(1, 3)):
                    body.append([f'p{rng.choice(higher)}', rng.choice([1, 2, 3])])
                bodies.append([m, k, body])
    inst = n - 1
    case = _finish(classes, inst, [], [])
    fns = [['f0', rng.sample(pnames, rng.randint(1, 2))]] if rng.random() < 0.2 else []
    return _finish(classes, inst, fns, _gen_ops(rng, pnames), None, bodies)


def _gen_case(rng):
    n = rng.choice([1, 2, 2, 3, 3, 3, 4, 4, 5])
    shape = rng.choice(['chain', 'random', 'random', 'diamond'])
    bases_list = []
    for i in range(n):
        if i == 0:
            bs = []
        elif shape == 'chain':
            bs = [i - 1]
        elif shape == 'diamond' and n >= 4:
            bs = {1: [0], 2: [0], 3: rng.choice([[1, 2], [2, 1]])}.get(i, [i - 1])
        else:
            bs = rng.sample(range(i), rng.randint(1, min(2, i)))
            if rng.random() < 0.15:
                bs = []
        if _mro_of(bases_list + [bs]) is None:
            bs = [i - 1]
        bases_list.append(bs)
    mros = _mro_of(bases_list)
    pnames = ['p0', 'p1', 'p2', 'p3'][:rng.randint(2, 4)]
    mnames = ['m0', 'm1', 'm2'][:rng.randint(1, 3)]
    # some of the root classes (never the last one) are plain mix-ins: not Parameterized, no Parameters, undecorated
    # methods only; a class all of whose ancestors are plain is a Parameterized of its own
    plain = set()
    if n >= 2 and rng.random() < 0.3:
        plain = {i for i in range(n - 1) if not bases_list[i] and rng.random() < 0.6}
    classes = []
    for i in range(n):
        d = {'bases': bases_list[i], 'mro': mros[i], 'params': [], 'methods': []}
        classes.append(d)
        if i in plain:
            d['plain'] = True
            for m in mnames:
                if rng.random() < 0.4:
                    d['methods'].append({'name': m, 'dinfo': None})
            continue
        roots = all(b in plain for b in mros[i][1:])
        for p in pnames:
            if rng.random() < (0.8 if roots else 0.2):
                d['params'].append(p)
        vis_p = _visible(classes, mros, i, 'params')
        for j, m in enumerate(mnames):
            vis_m = _visible(classes, mros, i, 'methods')
            if rng.random() > (0.75 if roots else 0.45):
                continue
            if rng.random() < 0.2:
                d['methods'].append({'name': m, 'dinfo': None})
                continue
            specs = []
            for _ in range(rng.randint(1, 3)):
                earlier = [x for x in vis_m if x in mnames[:j]]
                if earlier and rng.random() < 0.35:
                    specs.append([rng.choice(earlier), 'value'])
                elif vis_p:
                    specs.append([rng.choice(vis_p), 'value' if rng.random() < 0.7 else rng.choice(['bounds', 'step'])])
            r = rng.random()
            d['methods'].append({'name': m, 'dinfo': {'specs': specs, 'watch': r < 0.85, 'queued': r < 0.1,
                                                      'on_init': rng.random() < 0.25}})
    inst = n - 1 if rng.random() < 0.6 else rng.choice([i for i in range(n) if i not in plain])
    case = _finish(classes, inst, [], [])
    ps = sorted({p for p, _, _ in case['init']})
    fns = []
    if ps and rng.random() < 0.2:
        names = rng.sample(ps, rng.randint(1, min(2, len(ps))))
        if rng.random() < 0.15:
            names.append(names[0])
        fns.append(['f0', names])
    ops = _gen_ops(rng, ps) if ps else []
    assigns = []
    if ps and rng.random() < 0.3:
        # on_init methods that assign a parameter while the object is constructed (no queued watchers then)
        free = list(ps)
        rng.shuffle(free)
        for i, d in enumerate(classes):
            for m in d['methods']:
                di = m['dinfo']
                if di and di['watch'] and di['on_init'] and free and rng.random() < 0.7:
                    vis = _visible(classes, [c['mro'] for c in classes], i, 'params')
                    cand = [p for p in free if p in vis]
                    if cand:
                        assigns.append([m['name'], i, cand[0], rng.choice([5, 6, 7])])
                        free.remove(cand[0])
        if assigns:
            for d in classes:
                for m in d['methods']:
                    if m['dinfo']:
                        m['dinfo']['queued'] = False
    return _finish(classes, inst, fns, ops, assigns)


def _cls(bases, mro, params, methods):
    return {'bases': bases, 'mro': mro, 'params': params, 'methods': methods}


def _dm(name, specs, watch=True, queued=False, on_init=False):
    return {'name': name, 'dinfo': {'specs': [[s.split(':')[0], (s.split(':') + ['value'])[1]] for s in specs],
                                    'watch': watch, 'queued': queued, 'on_init': on_init}}


def _um(name):
    return {'name': name, 'dinfo': None}


def _S(name, v, what='value'):
    return {'op': 'set', 'name': name, 'what': what, 'v': v}


_PROG = [_S('p0', 1), _S('p1', 1), _S('p1', 1), {'op': 'update', 'kvs': [['p0', 2], ['p1', 2]]}, _S('p0', 1, 'bounds'),
         {'op': 'batch', 'body': [_S('p0', 3), _S('p0', 2, 'bounds'), _S('p1', 3), _S('p1', 1, 'step')]},
         {'op': 'batch', 'body': [_S('p0', 3), {'op': 'update', 'kvs': [['p1', 3]]}]}]


def _directed():
    A = _cls([], [0], ['p0', 'p1'], [_dm('m0', ['p0']), _dm('m1', ['m0', 'p1']), _dm('m2', ['p0:bounds'])])
    # p6: overrides decorated / undecorated / diamond / on_init
    B = _cls([0], [1, 0], [], [_dm('m0', ['p0', 'p1'])])
    C = _cls([0], [2, 0], [], [_um('m0')])
    D = _cls([1, 2], [3, 1, 2, 0], [], [])
    E = _cls([0], [1, 0], [], [_dm('m0', ['p1'], on_init=True)])
    W = _cls([0], [1, 0], [], [_dm('m0', ['p0'], watch=False)])
    Q = _cls([0], [1, 0], ['p2'], [_dm('m0', ['p2', 'p0:step'], queued=True)])
    for hier, inst in (([A], 0), ([A, B], 1), ([A, B, C], 2), ([A, B, C, D], 3), ([A, E], 1), ([A, W], 1), ([A, Q], 1),
                       ([A, _cls([0], [1, 0], [], [])], 1)):
        yield _finish(hier, inst, [], list(_PROG))
    # p21: value + slot
    V = _cls([], [0], ['p0', 'p1'], [_dm('m0', ['p0', 'p1:bounds']), _dm('m1', ['p0', 'p1'])])
    yield _finish([V], 0, [], list(_PROG))
    # diamond whose nearest ancestor's table holds an older entry than the resolved method
    A2 = _cls([], [0], ['p0', 'p1'], [_dm('m0', ['p0'])])
    yield _finish([A2, _cls([0], [1, 0], [], []), _cls([0], [2, 0], [], [_dm('m0', ['p1'], on_init=True)]),
                   _cls([1, 2], [3, 1, 2, 0], [], [])], 3, [], list(_PROG))
    # subclass adds a parameter; an undecorated method named as a dependency depends on every parameter
    U = _cls([], [0], ['p0'], [_um('m0'), _dm('m1', ['m0'])])
    yield _finish([U, _cls([0], [1, 0], ['p1'], [])], 1, [], list(_PROG))
    yield _finish([U], 0, [], [_S('p0', 1), _S('p0', 1)])
    # an on_init method assigns a parameter that later-registered methods (same class, subclass) depend on
    I = _cls([], [0], ['p0', 'p1', 'p2'], [_dm('m0', ['p0'], on_init=True), _dm('m1', ['p1'])])
    J = _cls([0], [1, 0], [], [_dm('m2', ['p1'], on_init=True)])
    yield _finish([I], 0, [], list(_PROG), [['m0', 0, 'p1', 5]])
    yield _finish([I, J], 1, [], list(_PROG), [['m0', 0, 'p1', 5], ['m2', 1, 'p2', 6]])
    # function form
    yield _finish([A], 0, [['f0', ['p0', 'p1']]], list(_PROG))
    yield _finish([A], 0, [['f0', ['p0', 'p0']]], list(_PROG))
    # nested batch blocks: a helper batching its own assignments, called inside a batch (one unit, delivered at the outer exit)
    NB = {'op': 'batch', 'body': [_S('p0', 1), {'op': 'batch', 'body': [_S('p1', 10)]}, _S('p0', 2)]}
    NB2 = {'op': 'batch', 'body': [{'op': 'batch', 'body': [_S('p0', 5), {'op': 'batch', 'body': [_S('p1', 1, 'bounds')]}]},
                                   {'op': 'update', 'kvs': [['p1', 4]]}]}
    yield _finish([A], 0, [], [NB, NB2, _S('p0', 2), NB])
    yield _finish([A, B], 1, [['f0', ['p0', 'p1']]], [NB, NB2, NB])
    # methods that assign: `relay` (on p0) assigns p1 then p2, `sink` watches p1 and p2: one call per assignment,
    # whichever way p0 was changed (assignment, update, batch, nested batch); a relay of a relay; a queued sink
    R = _cls([], [0], ['p0', 'p1', 'p2', 'p3'], [_dm('m0', ['p0']), _dm('m1', ['p1', 'p2']), _dm('m2', ['p2']), _dm('m3', ['p3'], queued=True)])
    RP = [_S('p0', 1), {'op': 'update', 'kvs': [['p0', 2]]}, {'op': 'batch', 'body': [_S('p0', 3)]},
          {'op': 'batch', 'body': [_S('p0', 4), {'op': 'batch', 'body': [_S('p1', 9)]}, _S('p0', 5)]}, _S('p0', 5),
          {'op': 'update', 'kvs': [['p0', 6], ['p1', 6]]}]
    yield _finish([R], 0, [], list(RP), None, [['m0', 0, [['p1', 1], ['p2', 1]]]])
    yield _finish([R], 0, [], list(RP), None, [['m0', 0, [['p1', 1], ['p1', 2]]], ['m2', 0, [['p3', 7]]]])
    yield _finish([R], 0, [['f0', ['p2', 'p3']]], list(RP), None, [['m0', 0, [['p2', 1], ['p1', 1]]], ['m1', 0, [['p3', 1], ['p3', 2]]]])
    # the relay is inherited / overridden by a method with another body
    yield _finish([R, _cls([0], [1, 0], [], [])], 1, [], list(RP), None, [['m0', 0, [['p1', 1], ['p2', 1]]]])
    yield _finish([R, _cls([0], [1, 0], [], [_dm('m0', ['p0', 'p1'])])], 1, [], list(RP), None,
                  [['m0', 0, [['p1', 1], ['p2', 1]]], ['m0', 1, [['p2', 3], ['p3', 3]]]])
    # a plain (non-Parameterized) mix-in in front of / behind the Parameterized base: the inherited registrations stay;
    # an undecorated method of the mix-in that comes first in the MRO removes the registration
    MX = dict(_cls([], [0], [], []), plain=True)
    MXm = dict(_cls([], [0], [], [_um('m0')]), plain=True)
    A1 = _cls([], [1], ['p0', 'p1'], [_dm('m0', ['p0']), _dm('m1', ['m0', 'p1']), _dm('m2', ['p0:bounds'])])
    yield _finish([MX, A1, _cls([0, 1], [2, 0, 1], [], [])], 2, [], list(_PROG))
    yield _finish([MX, A1, _cls([1, 0], [2, 1, 0], [], [_dm('m2', ['p1'])])], 2, [], list(_PROG))
    yield _finish([MXm, A1, _cls([0, 1], [2, 0, 1], [], [])], 2, [], list(_PROG))
    yield _finish([MXm, A1, _cls([1, 0], [2, 1, 0], [], [])], 2, [], list(_PROG))
    yield _finish([MX, _cls([0], [1, 0], ['p0', 'p1'], [_dm('m0', ['p0', 'p1'])]), _cls([1], [2, 1, 0], [], [])], 2, [], list(_PROG))
    # class statements that raise
    yield _finish([_cls([], [0], ['p0'], [_dm('m0', ['zz'], watch=False)])], 0, [], [])
    yield _finish([_cls([], [0], ['p0'], [_dm('m0', ['m1']), _dm('m1', ['m0'])])], 0, [], [])
    yield _finish([A, _cls([0], [1, 0], [], [_dm('m1', ['m1'])])], 1, [], [])
    # no dependency at all; duplicates in the dependency list; same key value and slot
    yield _finish([_cls([], [0], ['p0', 'p1'], [_dm('m0', []), _dm('m1', ['p0', 'p0', 'p0:value', 'p1'])])], 0, [], list(_PROG))


def cases(rng, tier, worker, nworkers):
    if worker == 0:
        for f in sorted(glob.glob(os.path.join(os.path.dirname(__file__), '..', '..', 'corpus', 'C06', '*.json'))):
            yield json.load(open(f))['case']
        for c in _directed():
            yield c
    n = 1500 if tier == 'quick' else 32000 // nworkers
    for _ in range(n):
        yield _gen_cascade(rng) if rng.random() < 0.3 else _gen_case(rng)


# ------------------------------------------------------------------ reporting

def _definer(case, c, name):
    for k in case['classes'][c]['mro']:
        for m in case['classes'][k]['methods']:
            if m['name'] == name:
                return k, m
    return None, None


def tags(case, impl):
    t = [f'classes={len(case["classes"])}', f'ops={min(len(case["ops"]), 8)}']
    multi = any(len(d['bases']) > 1 for d in case['classes'])
    c0 = case['inst']
    if any(case['classes'][k].get('plain') for k in case['classes'][c0]['mro']):
        t.append('shape:plain-mixin')
    t.append('shape:diamond' if multi else 'shape:chain')
    c = case['inst']
    seen = set()
    for k in case['classes'][c]['mro']:
        for m in case['classes'][k]['methods']:
            if m['name'] in seen:
                continue
            seen.add(m['name'])
            overrides = any(m2['name'] == m['name'] for k2 in case['classes'][k]['mro'][1:] for m2 in case['classes'][k2]['methods'])
            if overrides:
                t.append('override:undecorated' if m['dinfo'] is None else
                         ('override:decorated' if m['dinfo']['watch'] else 'override:watch-false'))
    if isinstance(impl, dict) and impl.get('create'):
        t.append('create:' + impl['create'])
    return t


def nontrivial(case, impl, resp):
    if not isinstance(impl, dict) or 'steps' not in impl:
        return False
    return resp.get('checked_steps', 0) >= 1 and any(st['log'] for st in impl['steps'])


_finish0 = _finish


def shrink(case):
    cl, inst, fns, ops = case['classes'], case['inst'], case['fns'], case['ops']
    asg = case.get('assigns')
    if asg:
        for i in range(len(asg)):
            yield _finish0(cl, inst, fns, ops, asg[:i] + asg[i + 1:])

    bod = case.get('bodies')
    if bod:
        for i in range(len(bod)):
            yield _finish0(cl, inst, fns, ops, asg, bod[:i] + bod[i + 1:])
            if len(bod[i][2]) > 1:
                for j in range(len(bod[i][2])):
                    yield _finish0(cl, inst, fns, ops, asg, bod[:i] + [[bod[i][0], bod[i][1], bod[i][2][:j] + bod[i][2][j + 1:]]] + bod[i + 1:])

    def _finish(a, b, c, d):          # every candidate keeps the assignments made by methods
        return _finish0(a, b, c, d, asg, bod)
    for i in range(len(ops)):
        yield _finish(cl, inst, fns, ops[:i] + ops[i + 1:])
    for i, op in enumerate(ops):
        if op['op'] == 'batch':
            for j in range(len(op['body'])):
                if len(op['body']) > 1:
                    yield _finish(cl, inst, fns, ops[:i] + [dict(op, body=op['body'][:j] + op['body'][j + 1:])] + ops[i + 1:])
                if op['body'][j]['op'] == 'batch':
                    # dissolve a nested block / shrink inside it
                    inner = op['body'][j]['body']
                    yield _finish(cl, inst, fns, ops[:i] + [dict(op, body=op['body'][:j] + inner + op['body'][j + 1:])] + ops[i + 1:])
                    for q in range(len(inner)):
                        if len(inner) > 1:
                            nb = dict(op['body'][j], body=inner[:q] + inner[q + 1:])
                            yield _finish(cl, inst, fns, ops[:i] + [dict(op, body=op['body'][:j] + [nb] + op['body'][j + 1:])] + ops[i + 1:])
        if op['op'] == 'update' and len(op['kvs']) > 1:
            for j in range(len(op['kvs'])):
                yield _finish(cl, inst, fns, ops[:i] + [dict(op, kvs=op['kvs'][:j] + op['kvs'][j + 1:])] + ops[i + 1:])
    if fns:
        yield _finish(cl, inst, [], ops)
    if inst != len(cl) - 1:
        yield _finish(cl[:-1], inst, fns, ops)
    for i, d in enumerate(cl):
        for j, m in enumerate(d['methods']):
            yield _finish(cl[:i] + [dict(d, methods=d['methods'][:j] + d['methods'][j + 1:])] + cl[i + 1:], inst, fns, ops)
            if m['dinfo'] is not None:
                for s in range(len(m['dinfo']['specs'])):
                    m2 = dict(m, dinfo=dict(m['dinfo'], specs=m['dinfo']['specs'][:s] + m['dinfo']['specs'][s + 1:]))
                    yield _finish(cl[:i] + [dict(d, methods=d['methods'][:j] + [m2] + d['methods'][j + 1:])] + cl[i + 1:], inst, fns, ops)
                if m['dinfo']['on_init'] or m['dinfo']['queued']:
                    m2 = dict(m, dinfo=dict(m['dinfo'], on_init=False, queued=False))
                    yield _finish(cl[:i] + [dict(d, methods=d['methods'][:j] + [m2] + d['methods'][j + 1:])] + cl[i + 1:], inst, fns, ops)


_CALLS = re.compile(r'calls step=(\d+) method=(\S+) expected=(\d+) got=(\d+)')
_INIT = re.compile(r'init: method=(\S+) expected=(\d+) got=(\d+)')


def classify(case, impl, fail):
    """one finding is left: a method depending on a value AND a Parameter attribute has one watcher per
    kind, so a batch that changes both kinds calls it once per kind (the fixed defects — stale inherited
    entries, function form with a duplicated Parameter — classify to None: regressions are violations)"""
    if fail.get('kind') != 'counterexample' or not isinstance(impl, dict):
        return None
    why = str(fail.get('why', ''))
    if 'model differs from implementation' in why:
        return None         # not the known behaviour (the model reproduces the known finding exactly)
    m = _CALLS.search(why)
    if m:
        step, name, exp, got = int(m.group(1)), m.group(2), int(m.group(3)), int(m.group(4))
        if any(f[0] == name for f in case['fns']):
            return None
        mdeps = dict((n, d) for n, d in impl.get('mdeps', []))
        entry = next((e for e in impl.get('table', []) if e['name'] == name), None)
        if entry is None or sorted({(d[1], d[2]) for d in entry['deps']}) != sorted({(d[0], d[1]) for d in mdeps.get(name, [])}):
            return None     # registered dependencies differ from those of the resolved method: not this finding
        whats = {d[1] for d in mdeps.get(name, [])}
        op = case['ops'][step] if step < len(case['ops']) else {}
        if op.get('op') == 'batch' and exp == 1 and 1 < got <= len(whats):
            return 'value-and-slot-two-groups'
    return None
