"""C02 — a rejected assignment has no observable effect (shared model lean/ParamVerif/Refs,
shared driver Driver/Refs.lean, shared runner harness/refs_impl.py)."""
import glob
import itertools
import json
import os

from .. import refs_impl as R

ID = 'C02'
PROPS_FILE = 'ParamVerif/Props/C02.lean'
DRIVER = 'Driver/Refs.lean'
SOURCES = [('param/parameterized.py', 'Parameter.__set__'), ('param/parameterized.py', 'Parameters._resolve_ref'),
           ('param/parameterized.py', 'Parameters._update_ref'), ('param/parameterized.py', 'Parameters._setup_refs'),
           ('param/parameterized.py', 'Parameters._setup_params'), ('param/parameterized.py', 'Parameters._sync_refs'),
           ('param/parameterized.py', 'Parameters.update'), ('param/parameterized.py', 'Parameters._update'),
           ('param/parameterized.py', '_ParametersRestorer'), ('param/parameterized.py', 'resolve_ref'),
           ('param/parameterized.py', 'resolve_value'), ('param/parameterized.py', '_syncing'),
           ('param/parameterized.py', 'edit_constant'), ('param/reactive.py', '_rx_transform'), ('param/reactive.py', 'bind')]
BUDGET_S = {'quick': 50, 'thorough': 420}
TRUSTED = [
    'statements in lean/ParamVerif/Props/C02.lean',
    'spec-side oracle lean/ParamVerif/Refs/Spec.lean (specC02: state before = state after a rejected assignment, empty watcher log, and step-by-step '
    'equality with the observed run of the twin history in which the rejected assignment never happened)',
    'harness/refs_impl.py (runs the history on real Parameterized objects; reads values, _param__private.refs, the _sync_refs watchers in '
    '_param__private.watchers of every source, the log of a universal watcher on every object; references are reported by the case '
    'description they were built from)',
    'correspondence is differential testing: model = code only on the histories executed',
    'CPython: dict order, small-int identity (the constant guard compares with `is`; all integers stay within the small-int cache), try/finally',
]
ASSUMPTIONS = [
    'references point at parameters of source objects that are not themselves linked (no chains); sources are unconstrained Integers; targets '
    'are Integer / Range parameters with hard bounds; one class per target object; per_instance=True',
    'outside the model (refused by harness and model alike): a dependency-free bound function, a reference assigned at class level or to a '
    'parameter without allow_refs (a callable is then a Dynamic value; `T.p = <Parameter>` redefines the parameter); async references (C10)',
    'a source update that makes a linked value invalid raises from inside the source setter: a watcher failure, not a rejected assignment '
    '(C02 judges assignments to the target only); histories with rx references are cut at the first such step because the aborted dispatch '
    'also skipped the invalidation watchers of the rx expression (C09 finding update-raises-aborts-dispatch)',
    'a rejected ctxExit (restoring an `update` context fails) is executed and compared with the model but not judged by the C02 oracle',
    'the universal watcher logs (parameter, new value); event.old is the business of C03',
    'per-object state that every code path restores is not in the model world but observed and required to be exactly as at the start '
    'after every step (`aux`): the Event parameter e_ of every target (value False, mode set-reset, also when a rejected update named it), '
    'the `syncing` set (empty, also after a source update whose write into a linked parameter was rejected), and the value of a witness '
    'parameter that holds the shared number generator (under Dynamic.time_dependent); the generator itself is only ever assigned to a '
    'readonly Integer (callables bypass Number validation, the guard raises TypeError) — the driver gives the model a valid literal there',
    'in half of the cases every target class is an empty subclass of the class declaring the parameters (class-level assignments meet an '
    'inherited Parameter); whether the subclass itself holds the Parameter (`own`) is judged by the oracle only',
]
RULE = ('histories of 0-10 mostly successful operations (construction with links of every kind; late link with Parameter / bind / rx / nested '
        'container; relink; plain override; update; update contexts; source updates; class-level assignment) followed by a rejected assignment '
        '(invalid plain value / reference whose current value is invalid / nested container with an invalid item / constant / readonly) on the '
        'instance, class, update (first or later key) and update-context routes, then a probe suffix that updates every source parameter; '
        'directed grid = every (prior link kind x ctor|late) x (rejection kind x route); observations after every step: all values, class '
        'defaults, refs tables, _sync_refs watchers per source parameter, universal watcher log, exception class; the implementation is run a '
        'second time on the twin history without the rejected assignments. non-trivial = at least one rejected assignment was judged and a '
        'link was alive at that moment; distinct = distinct canonical case')
COVERAGE_TARGETS = [f'rej:{k}:{r}:{e}' for k, e in (('plain', 'ValueError'), ('ref', 'ValueError'), ('nested', 'ValueError'),
                                                      ('const', 'TypeError'), ('readonly', 'TypeError'))
                    for r in ('set', 'update', 'ctxEnter')] + \
                   ['rej:gen:set:TypeError', 'rej:gen:setCls:TypeError', 'rej:gen:update:TypeError', 'rej:gen:ctxEnter:TypeError',
                    'update:ev:first:ValueError', 'update:ev:last:ValueError', 'update:ev:first:TypeError', 'update:ev:first:ok',
                    'ctxEnter:ev:first:ok', 'srcSet:rejected-sync', 'setClsX:ValueError', 'trigger:ok', 'event-watchers', 'rej:locked:set:TypeError', 'rej:locked:update:TypeError', 'lock:ok', 'nsread-validators', 'falsy-sources', 'hooks',
                    'shared:set:ref:ok', 'shared:set:plain:ValueError', 'shared:set:ref:ValueError',
                    'rej:plain:setCls:ValueError', 'rej:readonly:setCls:TypeError', 'rej:plain:later:update:ValueError',
                    'rej:ref:later:update:ValueError', 'set:plain:linked:ValueError', 'set:ref:linked:ValueError', 'set:ref:free:ValueError',
                    'set:plain:linked:TypeError', 'set:ref:linked:TypeError']
PROP = 'C02'

run_impl = R.run_impl
compare = R.compare
tags = R.tags
shrink = R.shrink


def nontrivial(case, impl, resp):
    if not isinstance(impl, dict) or not impl.get('steps') or not resp.get('applicable', False):
        return False
    if resp.get('checked_steps', 0) < 1:
        return False
    prev = impl['init']
    for op, st in zip(case['ops'], impl['steps']):
        if st['err'] in ('ValueError', 'TypeError') and op['op'] in R.ASSIGN_OPS and any(prev['refs']):
            return True
        prev = st
    return False


def directed():
    """every prior link kind (constructor or late) x every rejection kind x every route"""
    import random
    rng = random.Random('C02-directed')
    src0 = [[1, 2], [3, 4]]
    links = {
        'none': None,
        'par': R.par(0, 0),
        'fn': R.fn([[0, 0], [1, 1]], 1),
        'rx': R.fn([[0, 1]], 2, True),
        'nested': R.cont(R.par(0, 0), R.fn([[1, 0]], 0, True)),
    }
    for (lk, ref), late, kind, route in itertools.product(links.items(), (False, True), R.REJ_KINDS, R.REJ_ROUTES):
        src = [list(r) for r in src0]
        pds = R.shared_params(R.STD) if (late and route in ('set', 'update', 'ctxEnter') and lk in ('par', 'rx')) else [dict(p) for p in R.STD]
        # the prior link sits on the parameter that will be attacked whenever that is possible
        slot = {'plain': 0, 'ref': 0, 'nested': 2, 'const': 3, 'readonly': 0, 'gen': 0, 'locked': 5}[kind]
        if lk == 'nested':
            slot = 2
        elif slot == 2:
            ref2 = R.cont(R.par(1, 1), R.lit(3)) if ref is not None else None
            ref = ref2
        ctor, ops = [], []
        if kind == 'locked':
            ref = None          # p5 takes no references: the attacked parameter holds no value of its own
        if ref is not None:
            if late and slot != 3:
                ops.append({'op': 'set', 't': 0, 'p': slot, 'rhs': ref})
            else:
                ctor.append([slot, ref])
        ctor.append([1, R.par(1, 0)])          # a second link that must keep working
        targets = [{'params': pds, 'ctor': ctor}]
        ops.append({'op': 'srcSet', 's': 0, 'i': 0, 'v': 2})
        src[0][0] = 2
        rj = R.rejected_op(rng, targets, src, 2, 2, kind, route, t=0, prefer=slot)
        if rj is None:
            continue
        if kind == 'locked':
            # the parameter is made constant on the instance only; it may hold no value of its own (p5 is never
            # assigned before), so what the setter reads as the old value is the class default
            for q in ([rj['p']] if 'p' in rj else [k for k, _ in rj['kvs'][-1:]]):
                ops.append({'op': 'lock', 't': 0, 'p': q})
        ops.append(rj)
        ops += R.probe_suffix(rng, src, 2, 2, rounds=2)
        ops += R.cls_probe(rng, targets)
        yield R.mk_case(PROP, src0, targets, ops, sub=(route == 'setCls' and late), nsread=(route == 'setCls'),
                        falsy_src=(lk == 'fn' and not late))
    # a source update whose write into a linked parameter is rejected (the rejected assignment happens under
    # `_syncing`, inside `_sync_refs`), then the link is overridden / relinked and every source probed
    for (lk, ref), late, after in itertools.product(list(links.items())[1:4], (False, True), ('override', 'relink', 'update')):
        src = [list(r) for r in src0]
        ctor, ops = [[1, R.par(1, 0)]], []
        if late:
            ops.append({'op': 'set', 't': 0, 'p': 0, 'rhs': ref})
        else:
            ctor.append([0, ref])
        ops.append({'op': 'srcSet', 's': 0, 'i': 0 if lk != 'rx' else 1, 'v': 40, 'note': 'rejected-sync'})
        ops.append({'op': 'srcSet', 's': 0, 'i': 0 if lk != 'rx' else 1, 'v': 3})
        src[0][0 if lk != 'rx' else 1] = 3
        ops.append({'override': {'op': 'set', 't': 0, 'p': 0, 'rhs': R.lit(7)},
                    'relink': {'op': 'set', 't': 0, 'p': 0, 'rhs': R.par(1, 1)},
                    'update': {'op': 'update', 't': 0, 'kvs': [[0, R.lit(6)]], 'form': 'kw', 'ev': 'first'}}[after])
        ops += R.probe_suffix(rng, src, 2, 2, rounds=1)
        yield R.mk_case(PROP, src0, [{'params': [dict(p) for p in R.STD], 'ctor': ctor}], ops)
    # the rejected write goes into a *constant* linked parameter (written under edit_constant): afterwards the
    # constant is as locked as before
    for ref, bad in itertools.product((R.par(0, 0), R.fn([[0, 0], [1, 0]], 0)), (40, -7)):
        src = [list(r) for r in src0]
        ops = [{'op': 'srcSet', 's': 0, 'i': 0, 'v': bad, 'note': 'rejected-sync'},
               {'op': 'set', 't': 0, 'p': 3, 'rhs': R.lit(9), 'note': 'rej:const'},
               {'op': 'update', 't': 0, 'kvs': [[1, R.lit(2)], [3, R.lit(8)]], 'form': 'dict', 'note': 'rej:const:later'}]
        src[0][0] = bad
        ops += R.probe_suffix(rng, src, 2, 2, rounds=1)
        yield R.mk_case(PROP, src0, [{'params': [dict(p) for p in R.STD], 'ctor': [[3, ref], [1, R.par(1, 0)]]}], ops)
    # rejected class-level assignments to parameters whose class-level state is delicate: an inherited default that is
    # not equal to itself (NaN), a callable default (the class Parameter's `instantiate` flag)
    for sub, which in itertools.product((False, True), ('nan', 'gen')):
        yield R.mk_case(PROP, src0, [{'params': [dict(p) for p in R.STD], 'ctor': [[1, R.par(1, 0)]]}],
                        [{'op': 'setClsX', 't': 0, 'which': which}, {'op': 'setCls', 't': 0, 'p': 0, 'rhs': R.lit(6), 'note': 'probe'},
                         {'op': 'srcSet', 's': 1, 'i': 0, 'v': 2, 'note': 'probe'}, {'op': 'setClsX', 't': 0, 'which': which}], sub=sub)
    # a rejected assignment to the Event parameter made by one of its own watchers while it is dispatched (9d1d30e)
    for pre in ([], [{'op': 'set', 't': 0, 'p': 0, 'rhs': R.lit(50), 'note': 'rej:plain'}]):
        yield R.mk_case(PROP, src0, [{'params': [dict(p) for p in R.STD], 'ctor': [[1, R.par(1, 0)]]}],
                        pre + [{'op': 'trigger', 't': 0}, {'op': 'update', 't': 0, 'kvs': [[0, R.lit(3)]], 'form': 'kw', 'ev': 'last'},
                               {'op': 'trigger', 't': 0}], ev_watch=True)


def cases(rng, tier, worker, nworkers):
    if worker == 0:
        for f in sorted(glob.glob(os.path.join(os.path.dirname(__file__), '..', '..', 'corpus', 'C02', '*.json'))):
            yield dict(json.load(open(f))['case'], prop=PROP)
    for i, c in enumerate(directed()):
        if i % nworkers == worker:
            yield c
    n = 1100 if tier == 'quick' else 40000 // nworkers
    for _ in range(n):
        yield R.gen_case(rng, PROP)


def classify(case, impl, fail):
    return None
