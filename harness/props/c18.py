"""C18 — Selector objects / names / get_range stay consistent under mutation.
Correspondence: Lean `ParamVerif.Selector.step` vs the real ListProxy/Selector."""
import itertools

ID = 'C18'
PROPS_FILE = 'ParamVerif/Props/C18.lean'
DRIVER = 'Driver/C18.lean'
SOURCES = [('param/parameters.py', 'ListProxy'), ('param/parameters.py', 'Selector'),
           ('param/parameters.py', 'ListSelector'), ('param/_utils.py', '_named_objs'),
           ('param/parameterized.py', 'Parameter.__setattr__'), ('param/parameterized.py', 'Parameter._trigger_event')]
BUDGET_S = {'quick': 45, 'thorough': 420}
EXHAUSTIVE = {'quick': False, 'thorough': False}
TRUSTED = [
    'statements in lean/ParamVerif/Props/C18.lean (Inv, Op.ok = "style-consistent, unique objects")',
    'spec-side oracle lean/ParamVerif/Selector/Spec.lean (decidable restatement of the theorem conclusions)',
    'harness/props/c18.py adapter (reports list(objects), objects.items(), names, get_range(), return value, objects-watcher log, accept/reject of probe assignments)',
    'correspondence is differential testing: model = code only on the operation sequences executed',
    'CPython list/dict semantics; objects are distinct integers or None (the model\'s 0) so `is` and `==` coincide; Python `str` is injective on them (a hypothesis `hstr` of the theorems; the driver uses `pyStr`)',
]
ASSUMPTIONS = [
    'objects are unique integers, keys are strings; style-consistent operations as defined by Op.ok',
    'slices, update() with malformed pairs are outside the model',
    'list mutators ListProxy inherits without overriding (reverse, sort, del, +=, *=) are modelled as acting on '
    'the throw-away proxy only (op `inherited`)',
]
RULE = ('directed prefix (every mutator in both styles, error paths) + all operation sequences of length <=2 '
        '(<=3 in thorough) over a fixed alphabet for list- and dict-declared Selector/ListSelector + random '
        'sequences of length <=25 (85% style-consistent, 15% malformed stream); after every call all four views, '
        'return value, notification payloads and accept/reject of every probe value are compared with the model '
        'and checked by the oracle. non-trivial = at least one successful mutation and >=1 oracle-checked step; '
        'distinct = distinct canonical case')
COVERAGE_TARGETS = [f'{op}:ok:{st}' for st in ('list', 'dict') for op in
                    ('popIdx', 'remove', 'clear', 'replaceList', 'replaceDict', 'assign')] + \
                   [f'{op}:ok:list' for op in ('setIdx', 'append', 'insert', 'extend')] + \
                   [f'{op}:ok:dict' for op in ('setKey', 'update', 'popKey')] + ['inherited:ok:list', 'inherited:ok:dict'] + \
                   ['popIdx:err:list', 'popKey:err:dict', 'remove:err:list', 'assign:err:list', 'assign:err:dict']


class _Named:
    """an object that `_named_objs` labels by its `name` attribute (hashable by identity, equal only to itself)"""
    def __init__(self, k):
        self.k = k
        self.name = f'n{k}'

    def __repr__(self):
        return f'<named {self.k}>'


_NAMED = {}          # model object -> the one Python object standing for it in the running case


def _o(v):
    """model object -> Python object: 0 stands for None; object k > 0 for the integer 1000*k, handed over as a
    *fresh* Python int every time (outside CPython's small-int cache): equal to but not identical with the
    ones handed over before - the model's objects are compared with `==`, as `list.index/remove/in` do;
    object -k for the *string* str(1000*k): a different object with the same `str` (a name collision);
    900..909: the set {1000*k}, fresh each time - an *unhashable* object (`_named_objs` finds its name by
    identity); 910..919: an object with a `name` attribute, 920..929: a function (labelled by `__name__`) - one
    Python object per case each (equal only to itself)"""
    if v == 0:
        return None
    if 900 <= v < 910:
        return {int(str(1000 * v))}
    if 910 <= v < 920:
        if v not in _NAMED:
            _NAMED[v] = _Named(v)
        return _NAMED[v]
    if 920 <= v < 930:
        if v not in _NAMED:
            def fn():
                return None
            fn.__name__ = f'f{v}'
            fn.k = v
            _NAMED[v] = fn
        return _NAMED[v]
    return int(str(1000 * v)) if v > 0 else str(1000 * -v)


def _i(v):
    if v is None:
        return 0
    if isinstance(v, _Named) or (callable(v) and hasattr(v, 'k')):
        return v.k
    if isinstance(v, (set, frozenset)):
        (x,) = tuple(v)
        assert x % 1000 == 0 and 900 <= x // 1000 < 910, v
        return x // 1000
    if isinstance(v, str):
        assert v.isdigit() and int(v) % 1000 == 0, v
        return -(int(v) // 1000)
    assert isinstance(v, int) and v % 1000 == 0, v
    return v // 1000


def _payload(x):
    import collections.abc
    if isinstance(x, collections.abc.Mapping):
        return {'d': [[k, _i(v)] for k, v in x.items()]}
    return {'l': [_i(v) for v in list.__iter__(x)]}


def _views(p, inst, log, ret, err, universe, check, kind, chg=True, held=True):
    obs = {'list': [_i(v) for v in list.__iter__(p.objects)], 'items': [[k, _i(v)] for k, v in p.objects.items()],
           'names': [[k, _i(v)] for k, v in p.names.items()], 'range': [[k, _i(v)] for k, v in p.get_range().items()],
           'ret': ret, 'err': err, 'notifs': [list(x) for x in log], 'accepts': [], 'chg': chg, 'held': held}
    if check:
        acc = []
        for v in universe:
            try:
                setattr(inst, 's', _o(v) if kind == 'Selector' else [_o(v)])
                acc.append(True)
            except ValueError:
                acc.append(False)
        obs['accepts'] = acc
    return obs


def run_impl(case):
    import param
    _NAMED.clear()
    kind, decl = case['kind'], case['decl']
    objs = {k: _o(v) for k, v in decl['names']} if decl['names'] is not None else [_o(v) for v in decl['objs']]
    if decl['names'] is not None and decl.get('mapping') == 'proxy':
        import collections
        objs = collections.UserDict(objs)         # any Mapping is dictionary-style, not only dict
    P = param.Selector if kind == 'Selector' else param.ListSelector
    try:
        cls = type('S', (param.Parameterized,), {'s': P(objects=objs, check_on_set=decl['check_on_set'])})
        inst = cls()
        p = inst.param.s
        log, raw, nchanged = [], [], [0]

        def on_any(e):
            log.append((_payload(e.old), _payload(e.new)))
            raw.append((e.old, e.new))
        inst.param.watch(on_any, 's', what='objects', onlychanged=False)
        # the default kind of watcher: only told about changes (Comparator.is_equal on the old and new payload)
        inst.param.watch(lambda e: nchanged.__setitem__(0, nchanged[0] + 1), 's', what='objects')

        def chg_ok():
            """one call of the changes-only watcher per notification whose payload differs: containers of the same
            type compared item by item, the items by `==` - except objects of a class `Comparator` has no rule for
            (here: the named objects), which it never finds equal, not even to themselves"""
            def same(a, b):
                if type(a) is not type(b):
                    return False
                if isinstance(a, (list, tuple)):
                    return len(a) == len(b) and all(same(x, y) for x, y in zip(list.__iter__(a) if isinstance(a, list) else a, list.__iter__(b) if isinstance(b, list) else b))
                if isinstance(a, dict):
                    return len(a) == len(b) and all(k in b and same(v, b[k]) for k, v in a.items())
                if isinstance(a, _Named) or callable(a):
                    return False
                return a == b
            want = sum(0 if same(a, b) else 1 for a, b in raw)
            return nchanged[0] == want
        check, U = decl['check_on_set'], case['universe']
        out = {'init': _views(p, inst, log, None, None, U, check, kind), 'steps': []}
        hold = bool(case.get('hold'))
        view = p.objects
        for op in case['ops']:
            del log[:]
            del raw[:]
            nchanged[0] = 0
            ret = err = None
            o = op['op']
            if not hold:
                view = p.objects      # a fresh view per call; otherwise one view object serves all the calls
            try:
                if o == 'setIdx':
                    view[op['i']] = _o(op['o'])
                elif o == 'setKey':
                    view[op['k']] = _o(op['o'])
                elif o == 'append':
                    view.append(_o(op['o']))
                elif o == 'insert':
                    view.insert(op['i'], _o(op['o']))
                elif o == 'extend':
                    os_ = [_o(v) for v in op['os']]
                    view.extend(iter(os_) if op.get('iter') else os_)      # any iterable, as list.extend
                elif o == 'update':
                    nkw = op.get('nkw', 0)        # the last nkw pairs are passed as keyword items
                    pos, kw = op['kvs'][:len(op['kvs']) - nkw], op['kvs'][len(op['kvs']) - nkw:]
                    if len({k for k, _ in kw}) != len(kw) or any(not k.isidentifier() for k, _ in kw):
                        pos, kw = op['kvs'], []
                    arg = [(k, _o(v)) for k, v in pos]
                    if op.get('mapping') and len({k for k, _ in pos}) == len(pos):
                        # any Mapping is a mapping (dict.update's contract), not only dict
                        import collections
                        arg = dict(arg) if op['mapping'] == 'dict' else collections.UserDict(dict(arg))
                    view.update(arg, **{k: _o(v) for k, v in kw})
                elif o == 'popIdx':
                    ret = view.pop(op['i']) if not op.get('default') else view.pop()
                elif o == 'popKey':
                    ret = view.pop(op['k'])
                elif o == 'popKeyD':
                    ret = view.pop(op['k'], _o(op['d']))
                elif o == 'remove':
                    view.remove(_o(op['o']))
                elif o == 'clear':
                    view.clear()
                elif o == 'replaceList':
                    p.objects = [_o(v) for v in op['os']]
                elif o == 'replaceDict':
                    d = {k: _o(v) for k, v in op['kvs']}
                    if op.get('mapping') == 'proxy':
                        import collections
                        d = collections.UserDict(d)
                    p.objects = d
                elif o == 'assign':
                    if kind == 'Selector':
                        setattr(inst, 's', _o(op['v']))
                    else:
                        # a ListSelector value is a list: the same item once or (`dup`) twice - a non-checking
                        # ListSelector must add a new item to its objects once
                        item = _o(op['v'])
                        setattr(inst, 's', [item, item] if op.get('dup') else [item])
                elif o == 'inherited':
                    # a `list` mutator ListProxy does not override, on a proxy of its own (never the held view):
                    # the model says the Parameter is untouched and nobody is notified
                    tmp, m = p.objects, op.get('m', 'reverse')
                    if m == 'reverse':
                        tmp.reverse()
                    elif m == 'sort':
                        tmp.sort(key=id, reverse=True)
                    elif m == 'del':
                        if len(tmp):
                            del tmp[0]
                    elif m == 'iadd':
                        tmp += [_o(99)]
                    elif m == 'imul':
                        tmp *= 2
                    else:
                        raise RuntimeError(m)
                else:
                    raise RuntimeError(o)
            except (IndexError, ValueError, KeyError) as e:
                err = type(e).__name__
            if o in ('popIdx', 'popKey', 'popKeyD') and err is None:
                ret = _i(ret)        # a popped None object is the model's 0
            elif ret is not None:
                return {'crash': f'{o} returned {ret!r}'}
            ok = chg_ok()           # before the probe assignments of _views
            if o in ('replaceList', 'replaceDict', 'assign') or err is not None:
                # a wholesale replacement leaves older views behind, so does a value assignment that extends the
                # objects of a non-checking Selector (neither goes through the view); a failed call may too
                view = p.objects
            held_ok = [v for v in list.__iter__(view)] == [v for v in list.__iter__(p.objects)] and \
                all(a is b for a, b in zip(list.__iter__(view), list.__iter__(p.objects)))
            out['steps'].append(_views(p, inst, list(log), ret, err, U, check, kind, chg=ok, held=held_ok))
        return out
    except Exception as e:  # the views themselves blew up: report, do not hide
        return {'crash': f'{type(e).__name__}: {e}'[:300]}


# ---------------------------------------------------------------- generation

def _decls():
    for kind in ('Selector', 'ListSelector'):
        yield kind, {'objs': [1, 2, 3], 'names': None, 'check_on_set': True}
        yield kind, {'objs': [1, 2, 3], 'names': [['a', 1], ['b', 2], ['c', 3]], 'check_on_set': True}
    yield 'Selector', {'objs': [1, 2, 3], 'names': [['a', 1], ['b', 2], ['c', 3]], 'check_on_set': True, 'mapping': 'proxy'}
    yield 'Selector', {'objs': [], 'names': None, 'check_on_set': True}
    # a None object (the model's 0) and the empty string as a key
    yield 'Selector', {'objs': [0, 1, 2], 'names': [['a', 0], ['', 1], ['c', 2]], 'check_on_set': True}
    yield 'Selector', {'objs': [0, 1], 'names': None, 'check_on_set': True}
    yield 'Selector', {'objs': [1, 2], 'names': None, 'check_on_set': False}
    yield 'ListSelector', {'objs': [1, 2], 'names': None, 'check_on_set': False}
    yield 'Selector', {'objs': [1, 2], 'names': [['a', 1], ['b', 2]], 'check_on_set': False}
    # an unhashable object (a set) and an object labelled by its `name` attribute (`_named_objs`)
    yield 'Selector', {'objs': [900, 910, 2], 'names': None, 'check_on_set': True}
    yield 'Selector', {'objs': [920, 2], 'names': None, 'check_on_set': True}
    yield 'Selector', {'objs': [900, 910, 2], 'names': [['a', 900], ['b', 910], ['c', 2]], 'check_on_set': True}
    # two unique objects with the same str(): the integer 1000 and the string '1000'
    yield 'Selector', {'objs': [1, -1, 2], 'names': None, 'check_on_set': True}
    yield 'Selector', {'objs': [1, -1], 'names': [['a', 1], ['b', -1]], 'check_on_set': True}


def _alphabet(style, pos):
    """ops offered at sequence position `pos`; new objects are fresh per position"""
    n1, n2 = 10 + 2 * pos, 11 + 2 * pos
    common_ops = [{'op': 'popIdx', 'i': 0}, {'op': 'popIdx', 'i': -1, 'default': True}, {'op': 'popIdx', 'i': 1},
                  {'op': 'popIdx', 'i': 7}, {'op': 'remove', 'o': 2}, {'op': 'remove', 'o': 99}, {'op': 'clear'},
                  {'op': 'assign', 'v': 1}, {'op': 'assign', 'v': n1}, {'op': 'assign', 'v': 10}, {'op': 'assign', 'v': n2, 'dup': True},
                  {'op': 'inherited', 'm': ('reverse', 'del', 'iadd')[pos % 3]}]
    if style == 'list':
        return common_ops + [{'op': 'setIdx', 'i': 0, 'o': n1}, {'op': 'setIdx', 'i': -1, 'o': n1},
                             {'op': 'setIdx', 'i': 5, 'o': n1}, {'op': 'append', 'o': n1},
                             {'op': 'insert', 'i': 1, 'o': n1}, {'op': 'insert', 'i': -9, 'o': n1},
                             {'op': 'insert', 'i': 9, 'o': n1}, {'op': 'extend', 'os': [n1, n2]}, {'op': 'extend', 'os': [n1, n2], 'iter': True},
                             {'op': 'replaceList', 'os': [n1, 2, n2]}, {'op': 'replaceList', 'os': []}]
    return common_ops + [{'op': 'setKey', 'k': 'a', 'o': n1}, {'op': 'setKey', 'k': 'z', 'o': n1},
                         {'op': 'update', 'kvs': [['b', n1], ['y', n2]]}, {'op': 'update', 'kvs': []},
                         {'op': 'update', 'kvs': [['b', n1], ['y', n2]], 'nkw': 2},
                         {'op': 'replaceDict', 'kvs': [['p', n1], ['q', n2]], 'mapping': 'proxy'},
                         {'op': 'popKey', 'k': 'a'}, {'op': 'popKey', 'k': 'c'}, {'op': 'popKey', 'k': 'q'},
                         {'op': 'popKeyD', 'k': 'a', 'd': 0}, {'op': 'popKeyD', 'k': 'q', 'd': 0}, {'op': 'popKeyD', 'k': 'q', 'd': 2},
                         {'op': 'update', 'kvs': [['b', n1], ['y', n2]], 'mapping': 'userdict'},
                         {'op': 'update', 'kvs': [['xy', n1]], 'mapping': 'userdict'},
                         {'op': 'setKey', 'k': '', 'o': n1}, {'op': 'popKey', 'k': ''},
                         {'op': 'replaceDict', 'kvs': [['p', n1], ['a', 2], ['q', n2]]},
                         {'op': 'replaceDict', 'kvs': []}]


def _universe(decl, ops):
    u = set(decl['objs']) | {99}
    for op in ops:
        for k in ('o', 'v'):
            if k in op:
                u.add(op[k])
        for o in op.get('os', []):
            u.add(o)
        for _, v in op.get('kvs', []):
            u.add(v)
    return sorted(u)


def _mk(kind, decl, ops):
    return {'kind': kind, 'decl': decl, 'ops': ops, 'universe': _universe(decl, ops)}


def _random_case(rng):
    kind = rng.choice(['Selector', 'ListSelector'])
    style = rng.choice(['list', 'dict'])
    n = rng.randint(0, 4)
    objs = rng.sample(range(0, 9) if rng.random() < 0.85 else range(-3, 6), n)          # 0 = None, -k = the string str(1000*k)
    special = rng.random() < 0.2         # sets (unhashable) and objects with a `name` among the objects
    if special and n:
        for j, sp in zip(rng.sample(range(n), min(n, 2)), rng.sample([900, 901, 910, 911, 920], 2)):
            objs[j] = sp
    keys = rng.sample(['a', 'b', 'c', 'd', 'e', 'f', 'g', ''], n)
    decl = {'objs': objs, 'names': [[k, v] for k, v in zip(keys, objs)] if style == 'dict' else None,
            'check_on_set': rng.random() < 0.8}
    # generator-side shadow of the current contents, only used to draw mostly valid ops
    cur, names = list(objs), (dict(zip(keys, objs)) if style == 'dict' else {})
    fresh = itertools.count(20)
    used_special = set()
    ops = []
    malformed = rng.random() < 0.15
    for _ in range(rng.randint(1, 25)):
        st = style
        if malformed and rng.random() < 0.3:
            st = 'dict' if style == 'list' else 'list'
        # (a malformed history may hand over an object equal to one already there - but never one of the special
        # objects: sets are found by identity in `_named_objs`, which the `==`-based model cannot follow even for
        # the first such operation)
        newo = (lambda: next(fresh)) if not (malformed and rng.random() < 0.3) else (lambda: rng.choice([x for x in cur if x < 900] or [1]))
        if special and rng.random() < 0.25:
            cands = [x for x in (900, 901, 902, 910, 911, 912, 920, 921) if x not in used_special and x not in objs]
            if cands:
                # each special object is put in at most once per case (then fresh integers)
                c = rng.choice(cands)
                used_special.add(c)
                newo = (lambda it=iter([c]): next(it, None) or next(fresh))
        idx = lambda: rng.choice([0, -1, 1, 2, -2, rng.randint(-6, 6)])
        existing = lambda: (rng.choice(cur) if cur and rng.random() < 0.85 else rng.choice([99, 0]))
        ekey = lambda: (rng.choice(list(names)) if names and rng.random() < 0.8 else rng.choice(['a', 'b', 'c', 'x', 'y', 'z', '']))
        r = rng.random()
        if r < 0.12:
            op = {'op': 'popIdx', 'i': idx()}
            if op['i'] == -1 and rng.random() < 0.5:
                op['default'] = True
        elif r < 0.2:
            op = {'op': 'remove', 'o': existing()}
        elif r < 0.23:
            op = {'op': 'clear'}
        elif r < 0.33:
            op = {'op': 'assign', 'v': existing() if rng.random() < 0.7 else next(fresh)}
            if kind == 'ListSelector' and rng.random() < 0.4:
                op['dup'] = True
        elif r < 0.36:
            op = {'op': 'inherited', 'm': rng.choice(['reverse', 'sort', 'del', 'iadd', 'imul'])}
        elif r < 0.41:
            if st == 'list':
                op = {'op': 'replaceList', 'os': [newo() for _ in range(rng.randint(0, 4))]}
            else:
                op = {'op': 'replaceDict', 'kvs': [[rng.choice('abcdxyz'), newo()] for _ in range(rng.randint(0, 4))]}
                if rng.random() < 0.3:
                    op['mapping'] = 'proxy'
        elif st == 'list':
            k = rng.choice(['setIdx', 'append', 'insert', 'extend'])
            op = {'setIdx': lambda: {'op': 'setIdx', 'i': idx(), 'o': newo()},
                  'append': lambda: {'op': 'append', 'o': newo()},
                  'insert': lambda: {'op': 'insert', 'i': idx(), 'o': newo()},
                  'extend': lambda: {'op': 'extend', 'os': [newo() for _ in range(rng.randint(0, 3))],
                                     'iter': rng.random() < 0.4}}[k]()
        else:
            k = rng.choice(['setKey', 'setKey', 'update', 'popKey', 'popKeyD'])
            op = {'setKey': lambda: {'op': 'setKey', 'k': ekey(), 'o': newo()},
                  'update': lambda: (lambda kvs: {'op': 'update', 'kvs': kvs, 'nkw': rng.randint(0, len(kvs)),
                                                  'mapping': rng.choice([None, None, 'dict', 'userdict'])})(
                      [[ekey(), newo()] for _ in range(rng.randint(0, 3))]),
                  'popKeyD': lambda: {'op': 'popKeyD', 'k': ekey(), 'd': rng.choice([0, existing(), next(fresh)])},
                  'popKey': lambda: {'op': 'popKey', 'k': ekey()}}[k]()
        ops.append(op)
        # keep the shadow roughly in step by asking nothing of the implementation: approximate
        o = op['op']
        if o == 'append':
            cur.append(op['o'])
        elif o == 'extend':
            cur.extend(op['os'])
        elif o == 'clear':
            cur, names = [], {}
        elif o == 'replaceList':
            cur, names = list(op['os']), {}
        elif o == 'replaceDict':
            names = {k: v for k, v in op['kvs']}
            cur = list(names.values())
        elif o == 'setKey':
            if op['k'] in names and names[op['k']] in cur:
                cur[cur.index(names[op['k']])] = op['o']
            else:
                cur.append(op['o'])
            names[op['k']] = op['o']
        elif o == 'remove' and op['o'] in cur:
            cur.remove(op['o'])
            names = {k: v for k, v in names.items() if v != op['o']}
        elif o == 'popKey' and op['k'] in names:
            v = names.pop(op['k'])
            if v in cur:
                cur.remove(v)
        elif o == 'popIdx' and cur and -len(cur) <= op['i'] < len(cur):
            v = cur.pop(op['i'])
            names = {k: x for k, x in names.items() if x != v}
    return _mk(kind, decl, ops)


def cases(rng, tier, worker, nworkers):
    import glob
    import json
    import os
    if worker == 0:
        for f in sorted(glob.glob(os.path.join(os.path.dirname(__file__), '..', '..', 'corpus', 'C18', '*.json'))):
            yield json.load(open(f))['case']
    depth = 2 if tier == 'quick' else 3
    i = 0
    for kind, decl in _decls():
        style = 'dict' if decl['names'] is not None else 'list'
        for n in range(1, depth + 1):
            for combo in itertools.product(*[_alphabet(style, pos) for pos in range(n)]):
                i += 1
                if i % nworkers == worker:
                    c = _mk(kind, decl, [dict(o) for o in combo])
                    # every second sequence of two or more calls goes through one and the same view object
                    yield dict(c, hold=True) if n > 1 and i % 2 else c
    n_random = 1500 if tier == 'quick' else 200000 // nworkers
    for j in range(n_random):
        c = _random_case(rng)
        yield dict(c, hold=True) if j % 2 else c


def compare(impl, model):
    """The model has no notion of object identity: its objects are compared with `==`, while the library's
    `pop`/`remove` pick the name to drop with `is`.  The two agree as long as every operation was style-consistent
    and put in only objects not equal to one already there (`Op.ok`, the property's own domain).  After the first
    operation outside it, equal objects handed over later are different Python objects and the model cannot follow:
    the driver says how many steps are comparable (up to and including that operation); the rest is not compared."""
    from ..run import first_diff
    if not (isinstance(impl, dict) and isinstance(model, dict) and 'steps' in impl and 'steps' in model):
        return first_diff(impl, model)
    k = model.get('comparable', len(model['steps']))
    cut = lambda o: {'init': o.get('init'), 'steps': o['steps'][:k]}
    return first_diff(cut(impl), cut(model))


def tags(case, impl):
    t = [case['kind'], 'dict-declared' if case['decl']['names'] is not None else 'list-declared',
         'view:held' if case.get('hold') else 'view:fresh',
         f'len={min(len(case["ops"]), 10)}' + ('+' if len(case['ops']) >= 10 else '')]
    if isinstance(impl, dict) and 'steps' in impl:
        for op, st in zip(case['ops'], impl['steps']):
            t.append(f'{op["op"]}:{"err" if st["err"] else "ok"}')
    return t


def nontrivial(case, impl, resp):
    if 'steps' not in impl:
        return False
    return resp.get('checked_steps', 0) >= 1 and any(
        st['err'] is None and op['op'] != 'assign' for op, st in zip(case['ops'], impl['steps']))


def shrink(case):
    ops = case['ops']
    for i in range(len(ops)):
        yield _mk(case['kind'], case['decl'], ops[:i] + ops[i + 1:])
    if case['kind'] != 'Selector':
        yield _mk('Selector', case['decl'], ops)
    d = case['decl']
    if len(d['objs']) > 1:
        for i in range(len(d['objs'])):
            nd = dict(d, objs=d['objs'][:i] + d['objs'][i + 1:],
                      names=(d['names'][:i] + d['names'][i + 1:]) if d['names'] is not None else None)
            yield _mk(case['kind'], nd, ops)


def classify(case, impl, fail):
    """the one recorded finding, and nothing that merely looks like it: the failing step is a value assignment
    to a non-checking Selector *with names*, the value was not among the objects, and all that happened is that
    it was appended to the objects without a name (no duplicate, nothing else moved)"""
    import re
    why = str(fail.get('why', ''))
    # the other recorded finding: a list-declared Selector (names computed with str()) holding two objects with
    # the same str(): a view keyed by name lists one object fewer.  Only that shape: the failing observation's
    # list holds such a pair, and the names in force before were computed, not given
    if fail.get('kind') == 'counterexample' and isinstance(impl, dict) and 'steps' in impl:
        md = re.match(r'(declaration|after step (\d+)|step (\d+))', why)
        if md:
            n = -1 if md.group(1) == 'declaration' else int(md.group(2) or md.group(3))
            cur = impl['init'] if n < 0 else (impl['steps'][n] if n < len(impl['steps']) else None)
            prev = impl['init'] if n <= 0 else impl['steps'][n - 1]
            if cur is not None:
                l = cur['list']
                collide = any(a != 0 and -a in l for a in l)
                computed = (not prev['names']) or n < 0
                if collide and computed and len(set(l)) == len(l) and (
                        'lists other objects than the list view' in why or 'objects/names inconsistent' in why):
                    return 'str-collision-drops-object'
    m = re.match(r'after step (\d+) \(ParamVerif\.Selector\.Op\.assign', why)
    if fail.get('kind') != 'counterexample' or case['decl']['check_on_set'] or not m \
            or 'objects/names inconsistent' not in why or not (isinstance(impl, dict) and 'steps' in impl):
        return None
    n = int(m.group(1))
    if n >= len(impl['steps']) or n >= len(case['ops']) or case['ops'][n]['op'] != 'assign':
        return None
    cur = impl['steps'][n]
    prev = impl['steps'][n - 1] if n else impl['init']
    v = case['ops'][n]['v']
    if (prev['names'] and cur['names'] == prev['names'] and v not in prev['list'] and cur['list'] == prev['list'] + [v]
            and [o for _, o in cur['names']] == prev['list'] and len(set(cur['list'])) == len(cur['list'])):
        return 'nonchecking-assign-leaves-object-unnamed'
    return None
