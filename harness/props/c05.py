"""C05 — watcher dispatch (shared model lean/ParamVerif/Dispatch, shared driver Driver/Dispatch.lean)."""
import glob
import json
import os

from .. import dispatch_impl as D

ID = 'C05'
PROPS_FILE = 'ParamVerif/Props/C05.lean'
DRIVER = 'Driver/Dispatch.lean'
SOURCES = [('param/parameterized.py', 'Parameter.__set__'), ('param/parameterized.py', 'Parameter._trigger_event'), ('param/parameterized.py', 'Parameter._held_value'), ('param/parameterized.py', 'Parameters._call_watcher'),
           ('param/parameterized.py', 'Parameters._batch_call_watchers'), ('param/parameterized.py', 'Parameters._execute_watcher'),
           ('param/parameterized.py', 'Parameters._update'), ('param/parameterized.py', 'Parameters.trigger'),
           ('param/parameterized.py', 'Parameters._update_event_type'), ('param/parameterized.py', 'batch_call_watchers'),
           ('param/parameterized.py', '_batch_call_watchers'), ('param/parameterized.py', 'discard_events'),
           ('param/parameterized.py', '_ParametersRestorer'), ('param/parameterized.py', 'Comparator')]
BUDGET_S = {'quick': 50, 'thorough': 420}
TRUSTED = [
    'statements in lean/ParamVerif/Props/C05.lean',
    'spec-side oracle lean/ParamVerif/Dispatch/Spec.lean (decidable node-local restatement of the theorem conclusions over the observation tree)',
    'harness/dispatch_impl.py (statement interpreter on the real library; callbacks log enter/exit, events, snapshot; reads _BATCH_WATCH/_TRIGGER/_events/_state_watchers and the per-parameter watcher lists for observation only; caller frame name distinguishes direct dispatch from flush)',
    'correspondence is differential testing: model = code only on the programs executed',
    'CPython: sorted() stability, try/finally, generator-based context managers',
]
ASSUMPTIONS = [
    'one Parameterized object (an instance or the class itself), Integer and Event parameters (equality = integer equality; the Comparator is modelled separately in C03); value watchers in args and kwargs mode, watchers of the Parameter attributes precedence/step',
    'several objects at once (a callback assigning to another object), async callbacks, Skip, depends() and references are outside this model (C06-C10 have their own)',
    'callback cascades are acyclic (a body assigns only parameters of lower index than those its watchers watch); callbacks may (un)register watchers, the watchers they register have empty callbacks',
    'a Watcher object is identified by the order of its creation (uid): the model and the harness both count registrations',
    'values are integers, plus (on parameters without bounds) callables held by the Dynamic numeric parameter: one fixed function object per model value 100+k producing k; Comparator.is_equal has no rule for functions, so they never compare equal (Dispatch.same)',
    'class-level assignment of a default while the program works on an instance (clsSet) only for ordinary parameters and only when the case has one object; the instance follows the class default until it is assigned itself (World.owned)',
]
RULE = ('fault sequences: programs as for C03/C04 with raise statements and rejected values planted in callback bodies, update keys, '
        'context bodies at every nesting depth; every top-level statement runs under try/except and afterwards the dispatcher must be '
        'idle (flags off, queues empty, Event parameters False); sibling statements must see identical flags; every second case ends '
        'with the probe of the property text (fresh changes-only watcher per parameter, changing / same-value / batched assignments, '
        'Event trigger), judged like the rest of the program. non-trivial = at least one callback ran')
COVERAGE_TARGETS = ['call:raised', 'stmt:update:raised', 'stmt:batch:raised', 'stmt:discard:raised', 'stmt:trigger:raised',
                    'stmt:set:raised', 'top:Boom', 'top:ValueError', 'stmt:updateCtx:raised']
PROP = 'C05'
FAULTS = True

run_impl = D.run_impl
compare = D.compare
crash_excused = D.crash_excused
tags = D.tags
nontrivial = D.nontrivial
shrink = D.shrink


def cases(rng, tier, worker, nworkers):
    if worker == 0:
        for f in sorted(glob.glob(os.path.join(os.path.dirname(__file__), '..', '..', 'corpus', 'dispatch', '*.json'))):
            yield dict(json.load(open(f))['case'], prop=PROP)
    n = 1200 if tier == 'quick' else 240000 // nworkers
    for i in range(n):
        c = D.gen_case(rng, PROP, faults=FAULTS or (i % 5 == 0), size=8 if i % 3 else 14)
        yield with_probe(c) if i % 2 else c


def with_probe(case):
    """the property's own observation: after the faults of the program, the object must dispatch like a freshly
    built one - a fresh changes-only watcher per parameter (empty callback), a changing assignment (one call,
    true old/new), the same value again (no call), the same inside a batch (deferred, delivered once), an Event
    parameter set to True (one call, reads False again).  Appended as ordinary statements, so model and oracle
    judge them like the rest of the program."""
    n = len(case['bounds'])
    nb = len(case['bodies'])             # an index without a body: the callback does nothing
    prog = list(case['program'])
    for p in range(n):
        w = {'id': 900 + p, 'cb': 900 + p, 'params': [p], 'onlychanged': True, 'queued': False, 'precedence': 0, 'body': nb + 50}
        prog.append({'s': 'watch', 'w': w})
        if p in case.get('events', []):
            prog += [{'s': 'set', 'p': p, 'v': 1}, {'s': 'batch', 'body': [{'s': 'set', 'p': p, 'v': 1}]}]
        else:
            prog += [{'s': 'set', 'p': p, 'v': 4}, {'s': 'set', 'p': p, 'v': 5}, {'s': 'set', 'p': p, 'v': 5},
                     {'s': 'batch', 'body': [{'s': 'set', 'p': p, 'v': 6}, {'s': 'set', 'p': p, 'v': 7}]}]
    return dict(case, program=prog)


def classify(case, impl, fail):
    why = str(fail.get('why', ''))
    if 'also received the unchanged event' in why and 'queued on behalf of another watcher' in why:
        return 'flush-foreign-same-value-event'
    return None
