"""C11 — Parameter attributes inherit along the MRO; merged defaults are re-validated.

Correspondence: Lean `ParamVerif.Inherit.run` (model of `__param_inheritance`, the
constructors and `add_parameter`) vs real class hierarchies built with
`type(name, bases, {...})` and `Cls.param.add_parameter`.  Oracle: the declarative
resolver of `Store/InheritSpec.lean` evaluated on what the real code held."""
import itertools
import json
import os

ID = 'C11'
PROPS_FILE = 'ParamVerif/Props/C11.lean'
DRIVER = 'Driver/C11.lean'
SOURCES = [('param/parameterized.py', 'ParameterizedMetaclass.__init__'),
           ('param/parameterized.py', 'ParameterizedMetaclass.__param_inheritance'),
           ('param/parameterized.py', 'ParameterizedMetaclass._initialize_parameter'),
           ('param/parameterized.py', 'Parameter.__init__'), ('param/parameterized.py', 'Parameter._set_allow_None'),
           ('param/parameterized.py', 'Parameter._set_instantiate'), ('param/parameterized.py', 'Parameter.__getattribute__'),
           ('param/parameterized.py', 'Parameter._update_state'), ('param/parameterized.py', 'Parameters.add_parameter'),
           ('param/parameterized.py', 'classlist'), ('param/parameterized.py', 'String'),
           ('param/parameters.py', 'Number'), ('param/parameters.py', 'Integer'), ('param/parameters.py', 'Tuple'),
           ('param/parameters.py', 'List'), ('param/parameters.py', 'Selector')]
BUDGET_S = {'quick': 50, 'thorough': 420}
EXHAUSTIVE = {'quick': False, 'thorough': False}
TRUSTED = [
    'statements in lean/ParamVerif/Props/C11.lean',
    'spec-side resolver lean/ParamVerif/Store/InheritSpec.lean (own / nearest holder / type default; Sat = the model validator of Store/Inherit.lean)',
    'harness/props/c11.py adapter: raw slots of every constructed Parameter before the class exists, of every merged Parameter '
    '(also when creation raised), of Cls.param[name] of every class at the end; object identity reported as labels of a table, never id()',
    'MRO of every class is data: CPython __mro__ of a mirror hierarchy of plain classes, re-checked against the real __mro__',
    're.match is an oracle bit per (regex, string); CPython identity of None/bool/small ints/interned strings/() equals equality',
    'correspondence is differential testing: model = code only on the hierarchies executed',
]
ASSUMPTIONS = [
    'covered Parameter types: Parameter, Number, Integer, String, Tuple, List, Selector; values None/bool/int/half-integer floats/str and flat tuples/lists/dicts of them',
    'not modelled: Dynamic (callable) defaults, set_hook, compute_default_fn, is_instance, the explicit_no_refs bookkeeping of allow_refs, '
    'the deprecated List.class_ alias is modelled as written but outside the oracle; Selector object lists are not shared between declarations',
    'creation_fails_iff is conditioned on every declaration\'s own constructor having succeeded (constructor-time validation is C01)',
]
RULE = ('corpus + directed prefix (probes p14/p25, diamonds, skipped levels, every type change, identity-vs-equality, add_parameter) + '
        'small-scope grids (two-level Number chain x subsets of 5 slots at each level x conflicting/compatible values; diamond x which of the 4 classes '
        'specify default/bounds) + random hierarchies of 2-6 classes (chains, diamonds, multiple roots, skipped levels), 1-2 parameter names, random '
        'slot subsets per level, type changes inside and across families, add_parameter; every raw/merged/final slot compared with the model and '
        'checked by the oracle. non-trivial = at least one merge below a declaring ancestor was checked by the oracle; distinct = distinct canonical case')

SLOTS = [('default', 'default'), ('doc', 'doc'), ('precedence', 'precedence'), ('constant', 'constant'),
         ('readonly', 'readonly'), ('pickle_default_value', 'pickle_default_value'), ('allow_None', 'allow_None'),
         ('per_instance', 'per_instance'), ('allow_refs', 'allow_refs'), ('nested_refs', 'nested_refs'),
         ('label', '_label'), ('bounds', 'bounds'),
         ('softbounds', 'softbounds'), ('inclusive_bounds', 'inclusive_bounds'), ('step', 'step'), ('regex', 'regex'),
         ('length', 'length'), ('item_type', 'item_type'), ('class_', 'class_'), ('objects', '_objects'),
         ('check_on_set', 'check_on_set'), ('names', 'names')]
SLOT_INDEX = {n: i for i, (n, _) in enumerate(SLOTS)}
PTYPES = ['Parameter', 'Number', 'Integer', 'String', 'Tuple', 'List', 'Selector']
TYPE_SLOTS = {'Parameter': [], 'Number': ['bounds', 'softbounds', 'inclusive_bounds', 'step'],
              'Integer': ['bounds', 'softbounds', 'inclusive_bounds', 'step'], 'String': ['regex'],
              'Tuple': ['length'], 'List': ['bounds', 'item_type'], 'Selector': ['objects', 'check_on_set']}
BASE_ARGS = ['default', 'doc', 'precedence', 'constant', 'readonly', 'allow_None', 'label',
             'pickle_default_value', 'per_instance', 'allow_refs', 'nested_refs']
CLS_TAGS = {'int': int, 'float': float, 'str': str}

COVERAGE_TARGETS = (
    ['declare:ok', 'declare:invalid:ValueError', 'declare:invalid:TypeError', 'declare:callableError', 'declare:ctorError',
     'declare:skipped', 'add:ok', 'add:invalid:ValueError', 'type_change', 'same_type', 'slot_overridden', 'not_overridden',
     'revalidated', 'not_revalidated', 'revalidated:ok', 'overridden_but_None_default', 'shape:diamond', 'shape:skip-level',
     'shape:multi-root', 'identity:shared-object', 'instantiate:inherited', 'allow_None:own-differs-from-parent']
    + [f'merge:{t}' for t in PTYPES]
    + [f'tc:{a}->{b}' for a, b in (('Parameter', 'Number'), ('Number', 'Integer'), ('Integer', 'Number'), ('Parameter', 'String'),
                                    ('Parameter', 'Tuple'), ('Parameter', 'List'), ('Parameter', 'Selector'), ('Number', 'Parameter'))]
    + [f'depth:{d}' for d in (2, 3, 4, 5)]
    + [f'arg:{a}' for a in ('pickle_default_value', 'per_instance', 'allow_refs', 'nested_refs')])


# ------------------------------------------------------------------ values

def _atomic(o):
    return o is None or isinstance(o, (bool, int, str, type)) or (isinstance(o, tuple) and len(o) == 0)


def enc(o):
    """python value -> canonical JSON"""
    if o is None or isinstance(o, (bool, str)):
        return o
    if isinstance(o, int):
        if not -5 <= o <= 256:
            raise ValueError(f'int outside the identity-safe range: {o}')
        return o
    if isinstance(o, float):
        t = o * 2
        if t != int(t):
            raise ValueError(f'float not a half: {o}')
        return {'f': int(t)}
    if isinstance(o, type):
        for k, v in CLS_TAGS.items():
            if v is o:
                return {'c': k}
        raise ValueError(f'class {o}')
    if isinstance(o, tuple):
        return {'t': [_enc_atom(x) for x in o]}
    if isinstance(o, dict):
        return {'d': [[k, _enc_atom(v)] for k, v in o.items()]}
    if isinstance(o, list):
        return {'l': [_enc_atom(x) for x in list.__iter__(o)]}
    raise ValueError(f'unencodable {type(o).__name__}')


def _enc_atom(o):
    if isinstance(o, (tuple, list, dict)):
        raise ValueError('nested container')
    return enc(o)


def dec(j):
    import sys
    if j is None or isinstance(j, (bool, int)):
        return j
    if isinstance(j, str):
        return sys.intern(j)
    if 'f' in j:
        return j['f'] / 2.0
    if 'c' in j:
        return CLS_TAGS[j['c']]
    if 't' in j:
        return tuple(dec(x) for x in j['t'])
    if 'l' in j:
        return [dec(x) for x in j['l']]
    if 'd' in j:
        return {sys.intern(k): dec(v) for k, v in j['d']}
    raise ValueError(j)


class _Table:
    """objects of the case by id, identity labels for everything observed"""

    def __init__(self):
        import param
        self.objs = {}
        self.labels = {}
        self.keep = []
        tds = [param.Number._slot_defaults['default'], param.Number._slot_defaults['inclusive_bounds'],
               param.Tuple._slot_defaults['default'], param.List._slot_defaults['default'],
               param.List._slot_defaults['bounds']]
        if param.Integer._slot_defaults['inclusive_bounds'] is not tds[1]:
            raise RuntimeError('Integer._slot_defaults no longer shares inclusive_bounds with Number')
        if enc(tds[3]) != {'l': []}:
            raise RuntimeError('List._slot_defaults["default"] was mutated')
        for i, o in enumerate(tds):
            self.labels[id(o)] = f't{i}'
            self.keep.append(o)

    def arg(self, j):
        if j['id'] == 0:
            o = dec(j['v'])
            if not _atomic(o):
                raise RuntimeError(f'id 0 on a non-atomic value {j}')
            return o
        if j['id'] not in self.objs:
            o = dec(j['v'])
            if _atomic(o):
                raise RuntimeError(f'atomic value with an identity of its own {j}')
            if id(o) in self.labels:
                raise RuntimeError('fresh object aliases a known one')
            self.objs[j['id']] = o
            self.labels[id(o)] = f'o{j["id"]}'
            self.keep.append(o)
        return self.objs[j['id']]

    def label(self, o, stage, op, name, slot):
        if _atomic(o):
            return 'a'
        k = id(o)
        if k not in self.labels:
            self.labels[k] = f'f{stage}.{op}.{name}.{slot}'
            self.keep.append(o)
        return self.labels[k]


def _snapshot(tbl, p, stage, op, name, extra=None):
    from param.parameterized import Undefined
    T = type(p).__name__
    if T not in PTYPES:
        raise RuntimeError(f'unexpected Parameter type {T}')
    slots = []
    allslots = type(p)._all_slots_
    for i, (_, attr) in enumerate(SLOTS):
        if attr not in allslots:
            slots.append(None)
            continue
        try:
            v = object.__getattribute__(p, attr)
        except AttributeError:
            slots.append(None)
            continue
        if v is Undefined:
            slots.append(None)
        else:
            slots.append({'v': enc(v), 'i': tbl.label(v, stage, op, name, i)})
    inst = object.__getattribute__(p, 'instantiate')
    if not isinstance(inst, bool):
        raise RuntimeError(f'instantiate is {inst!r}')
    out = {'name': name, 'ptype': T, 'inst': inst, 'slots': slots}
    if extra:
        out.update(extra)
    return out


# attribute names a Parameter may be given; the model is name-blind, so any name-dependent behaviour of the
# code shows as a mismatch.  The second group are the names of Parameter slots (`_non_validated_slots` first).
PLAIN_NAMES = ['p0', 'p1']
SLOT_LIKE_NAMES = ['precedence', 'doc', 'constant', 'owner', 'watchers', '_label', 'pickle_default_value',
                   'readonly', 'default', 'bounds', 'allow_None', 'instantiate', 'per_instance', 'objects', 'label']


def _pn(case, n):
    pn = case.get('pnames')
    return pn[n] if pn else f'p{n}'


def _kind(e):
    n = type(e).__name__
    return n if n in ('ValueError', 'TypeError', 'KeyError') else f'other:{n}'


def _merge_kind(e):
    if type(e).__name__ == 'RuntimeError' and e.__cause__ is not None:
        return 'RuntimeError/' + _kind(e.__cause__)
    return _kind(e)


def _construct(param, tbl, d):
    kw = {}
    for k, j in d['args'].items():
        kw[k] = tbl.arg(j)
    if d.get('instantiate') is not None:
        kw['instantiate'] = d['instantiate']
    return getattr(param, d['ptype'])(**kw)


def run_impl(case):
    import param
    try:
        tbl = _Table()
        classes = {}
        steps = []
        for k, op in enumerate(case['ops']):
            st = {'outcome': 'ok', 'mro': None, 'installed': None, 'raws': [], 'held': []}
            steps.append(st)
            if op['op'] == 'declare':
                bases = [classes.get(b) for b in op['bases']]
                if any(b is None for b in bases) or op['cls'] in classes:
                    st['outcome'] = 'skipped'
                    continue
                ps = []
                for i, d in enumerate(op['decls']):
                    try:
                        p = _construct(param, tbl, d)
                    except (ValueError, TypeError) as e:
                        st['outcome'] = f'ctor:{i}:{_kind(e)}'
                        break
                    ps.append((d['name'], p))
                    st['raws'].append(_snapshot(tbl, p, 0, k, d['name']))
                if st['outcome'] != 'ok':
                    continue
                body = {_pn(case, n): p for n, p in ps}
                if len(body) != len(ps):
                    raise RuntimeError('duplicate parameter name in one class body')
                try:
                    cls = type(f'C{op["cls"]}', tuple(bases) or (param.Parameterized,), body)
                except Exception as e:
                    owned = [i for i, (_, p) in enumerate(ps) if p.owner is not None]
                    if not owned or owned != list(range(len(owned))):
                        return {'crash': f'class creation raised outside a merge: {type(e).__name__}: {e}'[:300]}
                    st['outcome'] = f'merge:{owned[-1]}:{_merge_kind(e)}'
                    st['held'] = [_snapshot(tbl, p, 1, k, n) for n, p in ps[:len(owned)]]
                    continue
                classes[op['cls']] = cls
                rev = {v: i for i, v in classes.items()}
                st['mro'] = [rev[c] for c in cls.__mro__ if c in rev]
                for n, p in ps:
                    if cls.__dict__.get(_pn(case, n)) is not p:
                        raise RuntimeError('declared Parameter is not the one in the class __dict__')
                st['held'] = [_snapshot(tbl, p, 1, k, n) for n, p in ps]
            else:
                cls = classes.get(op['cls'])
                if cls is None:
                    st['outcome'] = 'skipped'
                    continue
                d = op['decl']
                try:
                    p = _construct(param, tbl, d)
                except (ValueError, TypeError) as e:
                    st['outcome'] = f'ctor:0:{_kind(e)}'
                    continue
                st['raws'].append(_snapshot(tbl, p, 0, k, d['name']))
                try:
                    cls.param.add_parameter(_pn(case, d['name']), p)
                except Exception as e:
                    st['outcome'] = f'merge:0:{_merge_kind(e)}'
                st['installed'] = cls.__dict__.get(_pn(case, d['name'])) is p
                st['held'] = [_snapshot(tbl, p, 1, k, d['name'])]
        final = []
        rev = {v: i for i, v in classes.items()}
        for idx in sorted(classes):
            cls = classes[idx]
            row = []
            for n in range(case['names']):
                if _pn(case, n) in cls.param:
                    p = cls.param[_pn(case, n)]
                    row.append(_snapshot(tbl, p, 2, len(case['ops']), n, {'owner': rev.get(p.owner, -1)}))
                else:
                    row.append(None)
            final.append({'cls': idx, 'params': row})
        return {'steps': steps, 'final': final}
    except Exception as e:  # the adapter itself blew up: report, do not hide
        return {'crash': f'{type(e).__name__}: {e}'[:300]}


# ---------------------------------------------------------------- generation

class _Ids:
    """identity bookkeeping of the generator: atomic values share id 0, every other
    value gets a fresh id unless an existing object is reused on purpose"""

    def __init__(self):
        self.n = 0
        self.pool = []          # (id, encoded value) of non-atomic objects already created

    def new(self, v):
        j = enc(v)
        if _atomic(v):
            return {'id': 0, 'v': j}
        self.n += 1
        self.pool.append((self.n, j))
        return {'id': self.n, 'v': j}

    def reuse_or_new(self, rng, v, p_reuse=0.25):
        j = enc(v)
        if not _atomic(v) and not isinstance(v, (list, dict)) and rng.random() < p_reuse:
            same = [i for i, jj in self.pool if json.dumps(jj) == json.dumps(j)]      # 1 == True in Python, not here
            if same:
                return {'id': rng.choice(same), 'v': j}
        return self.new(v)


def _mirror_mros(bases_list):
    """MRO (hierarchy indices, class itself first) of every class from CPython, on plain mirror classes;
    None for a class whose bases admit no consistent MRO"""
    mirror, out = {}, {}
    for i, bases in bases_list:
        try:
            mirror[i] = type(f'M{i}', tuple(mirror[b] for b in bases) or (object,), {})
        except (TypeError, KeyError):
            out[i] = None
            continue
        rev = {v: k for k, v in mirror.items()}
        out[i] = [rev[c] for c in mirror[i].__mro__ if c in rev]
    return out


def _rx_table(case_ops):
    import re
    regexes, strings = set(), set()

    def walk(d):
        for k, j in d['args'].items():
            v = j['v']
            if isinstance(v, str):
                (regexes if k == 'regex' else strings).add(v)
                if k == 'default':
                    strings.add(v)
    for op in case_ops:
        for d in (op['decls'] if op['op'] == 'declare' else [op['decl']]):
            walk(d)
    strings.add('')
    return [[r, s, re.match(r, s) is not None] for r in sorted(regexes) for s in sorted(strings)]


def _mk(ops, names, pnames=None):
    """finish a case: MROs from the mirror hierarchy, regex oracle table; `pnames` = attribute names (default p0, p1)"""
    mros = _mirror_mros([(op['cls'], op['bases']) for op in ops if op['op'] == 'declare'])
    out = []
    for op in ops:
        if op['op'] == 'declare':
            if mros.get(op['cls']) is None:
                continue
            op = dict(op, mro=mros[op['cls']])
        out.append(op)
    case = {'names': names, 'rx': _rx_table(out), 'ops': out}
    if pnames:
        case['pnames'] = list(pnames)[:names]
    return case


def D(ids, name, ptype, instantiate=None, **kw):
    """a declaration; values are plain python objects or ready-made {'id','v'} dicts (to share an object)"""
    args = {}
    for k, v in kw.items():
        args[k] = v if (isinstance(v, dict) and 'id' in v and 'v' in v) else ids.new(v)
    return {'name': name, 'ptype': ptype, 'args': args, 'instantiate': instantiate}


def C(cls, bases, *decls):
    return {'op': 'declare', 'cls': cls, 'bases': list(bases), 'decls': list(decls)}


def A(cls, decl):
    return {'op': 'add', 'cls': cls, 'name': decl['name'], 'decl': decl}


def _directed():
    out = []

    def case(f, names=1, pnames=None):
        ids = _Ids()
        out.append(_mk(f(ids), names, pnames))
    N, I, P, S, T, L, Sel = 'Number', 'Integer', 'Parameter', 'String', 'Tuple', 'List', 'Selector'
    # p14: diamond D(B, C) over A
    case(lambda i: [C(0, [], D(i, 0, N, default=5, bounds=(0, 10), doc='A doc', step=1)),
                    C(1, [0], D(i, 0, N, bounds=(0, 20))), C(2, [0], D(i, 0, N, default=7, doc='C doc')),
                    C(3, [1, 2], D(i, 0, N, softbounds=(1, 2)))])
    # skipped level, then redeclared
    case(lambda i: [C(0, [], D(i, 0, N, default=5, bounds=(0, 10), doc='A doc')), C(1, [0], D(i, 1, N, default=1)),
                    C(2, [1], D(i, 0, N, default=9)), C(3, [1], D(i, 0, N, default=11))], names=2)
    # conflicts and constructor-time failure
    case(lambda i: [C(0, [], D(i, 0, N, default=5, bounds=(0, 10))), C(1, [0], D(i, 0, N, default=11)),
                    C(2, [0], D(i, 0, N, bounds=(6, 10))), C(3, [0], D(i, 0, N, default=7, bounds=(6, 10))),
                    C(4, [0], D(i, 0, N, bounds=(6, 10), default=5))])
    # type changes
    case(lambda i: [C(0, [], D(i, 0, N, default=5.5)), C(1, [0], D(i, 0, I)), C(2, [0], D(i, 0, I, default=3)),
                    C(3, [2], D(i, 0, N)), C(4, [3], D(i, 0, I, step=1))])
    case(lambda i: [C(0, [], D(i, 0, P)), C(1, [0], D(i, 0, S)), C(2, [0], D(i, 0, S, default='a')),
                    C(3, [0], D(i, 0, N)), C(4, [0], D(i, 0, T)), C(5, [0], D(i, 0, T, allow_None=True)),
                    C(6, [0], D(i, 0, L)), C(7, [0], D(i, 0, Sel)), C(8, [0], D(i, 0, Sel, objects=[1, 2]))])
    case(lambda i: [C(0, [], D(i, 0, P, default='ab')), C(1, [0], D(i, 0, S)), C(2, [0], D(i, 0, S, regex='^b')),
                    C(3, [0], D(i, 0, N)), C(4, [0], D(i, 0, T)), C(5, [1], D(i, 0, P, doc='d'))])
    case(lambda i: [C(0, [], D(i, 0, P, default=(1, 2, 3))), C(1, [0], D(i, 0, T)), C(2, [0], D(i, 0, T, length=2)),
                    C(3, [1], D(i, 0, T, default=(1, 2)))])
    case(lambda i: [C(0, [], D(i, 0, N, default=1, bounds=(0, 5))), C(1, [0], D(i, 0, L)),
                    C(2, [], D(i, 0, L, default=[1, 2], bounds=(1, 3))), C(3, [2], D(i, 0, N)), C(4, [2], D(i, 0, I, default=4))])
    # same-type None default, allow_None recomputed
    case(lambda i: [C(0, [], D(i, 0, S, default=None)), C(1, [0], D(i, 0, S)), C(2, [1], D(i, 0, S, default='x')),
                    C(3, [1], D(i, 0, S, regex='^a'))])
    case(lambda i: [C(0, [], D(i, 0, N, default=None, allow_None=True)), C(1, [0], D(i, 0, N, default=3)),
                    C(2, [0], D(i, 0, N, bounds=(0, 1))), C(3, [2], D(i, 0, N, default=5)), C(4, [2], D(i, 0, N, step=1))])
    # instantiate from any ancestor, readonly forces own instantiate False
    case(lambda i: [C(0, [], D(i, 0, P, default=[1], instantiate=True)), C(1, [0], D(i, 0, P, default=[2])),
                    C(2, [1], D(i, 0, P, readonly=True)), C(3, [], D(i, 0, P, instantiate=False)),
                    C(4, [3, 0], D(i, 0, P, doc='d')), C(5, [3], D(i, 0, P, instantiate=False, constant=True))])
    # constant / readonly
    case(lambda i: [C(0, [], D(i, 0, N, default=1, constant=True, readonly=False)), C(1, [0], D(i, 0, N, default=2)),
                    C(2, [], D(i, 0, N, readonly=True)), C(3, [2], D(i, 0, N, constant=False)), C(4, [3], D(i, 0, N))])
    # add_parameter: new name, override on subclass (ok / conflicting: must leave the class unchanged, fixed in 9350ff5),
    # on an ancestor afterwards
    case(lambda i: [C(0, [], D(i, 0, N, default=5, bounds=(0, 10))), C(1, [0]), A(1, D(i, 0, N, default=50)),
                    A(0, D(i, 1, N, default=5, bounds=(0, 1))), A(0, D(i, 1, N, default=1, bounds=(0, 1))),
                    C(2, [0], D(i, 1, N, default=2)), A(1, D(i, 0, N, default=6)), A(0, D(i, 0, N, default=8, bounds=(0, 8))),
                    C(3, [1], D(i, 0, N, bounds=(7, 9), default=7))], names=2)
    case(lambda i: [C(0, [], D(i, 0, P)), C(1, [0]), A(1, D(i, 0, T)), A(1, D(i, 0, S)), A(1, D(i, 0, S, default='q'))])
    # inclusive bounds
    case(lambda i: [C(0, [], D(i, 0, N, default=0.5, bounds=(0, 1), inclusive_bounds=(True, False))),
                    C(1, [0], D(i, 0, N, default=1)), C(2, [0], D(i, 0, N, default=0)),
                    C(3, [], D(i, 0, N, default=10, bounds=(0, 10))), C(4, [3], D(i, 0, N, inclusive_bounds=(True, False))),
                    C(5, [3], D(i, 0, N, inclusive_bounds=(False, True)))])
    # p25: Tuple, Selector, String, List
    case(lambda i: [C(0, [], D(i, 0, T, default=(1, 2, 3))), C(1, [0], D(i, 0, T, doc='d')),
                    C(2, [0], D(i, 0, T, default=(1, 2))), C(3, [0], D(i, 0, T, length=2)),
                    C(4, [], D(i, 0, T, default=None, length=2)), C(5, [4], D(i, 0, T, allow_None=True)), C(6, [4], D(i, 0, T))])
    case(lambda i: [C(0, [], D(i, 0, Sel, objects=[1, 2, 3], default=2)), C(1, [0], D(i, 0, Sel, default=3)),
                    C(2, [0], D(i, 0, Sel, default=9)), C(3, [0], D(i, 0, Sel, objects=[7, 8])), C(4, [1], D(i, 0, Sel)),
                    C(5, [4], D(i, 0, Sel, allow_None=True, default=None))])
    case(lambda i: [C(0, [], D(i, 0, Sel, objects=[1, 2], check_on_set=False)), C(1, [0], D(i, 0, Sel, default=5)),
                    C(2, [1], D(i, 0, Sel, default=6)), C(3, [0], D(i, 0, Sel, check_on_set=True)),
                    C(4, [0], D(i, 0, Sel, check_on_set=True, default=5)), C(5, [], D(i, 0, Sel, default=3)), C(6, [5], D(i, 0, Sel))])
    case(lambda i: [C(0, [], D(i, 0, S, default='ab', regex='^a')), C(1, [0], D(i, 0, S, default='zz')),
                    C(2, [0], D(i, 0, S, regex='^z')), C(3, [0], D(i, 0, S, default='a')), C(4, [3], D(i, 0, S, regex='^ab'))])
    case(lambda i: [C(0, [], D(i, 0, L, default=[1], item_type=int)), C(1, [0], D(i, 0, L, default=['a'])),
                    C(2, [0], D(i, 0, L)), C(3, [0], D(i, 0, L, bounds=(2, 3))), C(4, [0], D(i, 0, L, default=[1, 2], bounds=(2, 3))),
                    C(5, [0], D(i, 0, L, item_type=None)), C(6, [0], D(i, 0, L, item_type=str, default=['a']))])
    # identity vs equality: the very same bounds object at two levels is not an override; an equal copy is
    def ident(i):
        b = i.new((0, 10))
        return [C(0, [], D(i, 0, N, default=5, bounds=b)), C(1, [0], D(i, 0, N, bounds=b)),
                C(2, [0], D(i, 0, N, bounds=(0, 10))), C(3, [1], D(i, 0, N, bounds=b, doc='x')), C(4, [2, 1], D(i, 0, N))]
    case(ident)

    # search continues past an identical value: own bounds is the parent's object, the grandparent's differs
    # (overridden by identity three levels up; the merged configuration is the parent's, so creation succeeds)
    def ident3(i):
        b = i.new((0, 10))
        d = i.new(2.5)
        return [C(0, [], D(i, 0, N, default=d, bounds=(0, 20))), C(1, [0], D(i, 0, N, bounds=b)),
                C(2, [1], D(i, 0, N, bounds=b)), C(3, [1], D(i, 0, N, bounds=b, default=d)),
                C(4, [], D(i, 0, N, default=d, bounds=b)), C(5, [2, 4], D(i, 0, N, default=d)), C(6, [3, 0], D(i, 0, N, doc='x'))]
    case(ident3)
    # identity vs equality again: (1, 1) == (True, True), yet `incmax is True` is False, so the bound turns exclusive
    case(lambda i: [C(0, [], D(i, 0, N, default=10, bounds=(0, 10))), C(1, [0], D(i, 0, N, inclusive_bounds=(1, 1))),
                    C(2, [0], D(i, 0, N, inclusive_bounds=(True, True))), C(3, [0], D(i, 0, N, inclusive_bounds=(1, 1), default=9))])
    # the four plain Parameter slots: inherited like any other; pickle_default_value is in _non_validated_slots,
    # a changed allow_refs / nested_refs / per_instance forces re-validation of the inherited default
    case(lambda i: [C(0, [], D(i, 0, N, default=5, bounds=(0, 10), allow_refs=True, per_instance=False, pickle_default_value=False)),
                    C(1, [0], D(i, 0, N, doc='d')), C(2, [0], D(i, 0, N, allow_refs=False)), C(3, [1], D(i, 0, N, nested_refs=True)),
                    C(4, [2, 3], D(i, 0, N, pickle_default_value=True)), C(5, [0], D(i, 0, I, per_instance=True)),
                    C(6, [], D(i, 0, S, default=None)), C(7, [6], D(i, 0, S, pickle_default_value=False)),
                    C(8, [6], D(i, 0, S, allow_refs=True)), C(9, [6], D(i, 0, Sel, allow_refs=True, objects=[1, 2]))])
    # multiple roots joined
    case(lambda i: [C(0, [], D(i, 0, I)), C(1, [], D(i, 0, N)), C(2, [0, 1], D(i, 0, I)), C(3, [1, 0], D(i, 0, N)),
                    C(4, [0, 1], D(i, 0, N)), C(5, [0, 1])])
    # a Parameter named like a Parameter slot merges like any other (the name must not be mistaken for a slot name)
    for nm in SLOT_LIKE_NAMES[:8]:
        case(lambda i: [C(0, [], D(i, 0, N, default=5, bounds=(0, 10))), C(1, [0], D(i, 0, N, default=20)),
                        C(2, [0], D(i, 0, N, default=7, doc='d')), C(3, [0]), A(3, D(i, 0, N, bounds=(6, 8)))], pnames=[nm])
    case(lambda i: [C(0, [], D(i, 0, S, default='ab', regex='^a')), C(1, [0], D(i, 0, S, default='zz'))], pnames=['doc'])
    # a failing add_parameter on a class that OWNS the Parameter must put the class's own Parameter back
    case(lambda i: [C(0, [], D(i, 0, N, default=5, bounds=(0, 10))), C(1, [0], D(i, 0, N, default=6)),
                    A(1, D(i, 0, N, default=50)), C(2, [1], D(i, 0, N, doc='d')), A(1, D(i, 0, S)),
                    C(3, [1], D(i, 0, N, default=7)), A(1, D(i, 0, N, default=8)), C(4, [1], D(i, 0, N))])
    # names of a dict-declared Selector are inherited together with the objects (fixed in 4c8b6fe); a list gives {}
    case(lambda i: [C(0, [], D(i, 0, Sel, objects={'a': 1, 'b': 2})), C(1, [0], D(i, 0, Sel, default=2)),
                    C(2, [1], D(i, 0, Sel, objects=[7, 8])), C(3, [1]), A(3, D(i, 0, Sel, default=1)), C(4, [2, 3], D(i, 0, Sel))])
    return out


def _grid_number(tier):
    """two-level Number chain: every subset of 5 slots at each level x compatible / conflicting child values"""
    slots = ['default', 'bounds', 'inclusive_bounds', 'allow_None', 'doc']
    parent = {'default': 5, 'bounds': (0, 10), 'inclusive_bounds': (True, True), 'allow_None': False, 'doc': 'pd'}
    variants = [{'default': 7, 'bounds': (0, 20), 'inclusive_bounds': (True, True), 'allow_None': True, 'doc': 'cd'},
                {'default': 10, 'bounds': (6, 10), 'inclusive_bounds': (True, False), 'allow_None': False, 'doc': 'pd'}]
    if tier != 'quick':
        variants.append({'default': None, 'bounds': (0, 3), 'inclusive_bounds': (False, False), 'allow_None': True, 'doc': None})
    for var in variants:
        for pm in range(32):
            for cm in range(32):
                ids = _Ids()
                pa = {s: parent[s] for k, s in enumerate(slots) if pm >> k & 1}
                ca = {s: var[s] for k, s in enumerate(slots) if cm >> k & 1}
                yield _mk([C(0, [], D(ids, 0, 'Number', **pa)), C(1, [0], D(ids, 0, 'Number', **ca))], 1)


def _grid_diamond():
    """A; B(A); C(A); D(B, C): which classes specify default / bounds"""
    dv = [3, 4, 5, 6]
    bv = [(0, 10), (0, 4), (5, 10), (0, 20)]
    for dm in range(16):
        for bm in range(16):
            ids = _Ids()
            decls = []
            for k in range(4):
                kw = {}
                if dm >> k & 1:
                    kw['default'] = dv[k]
                if bm >> k & 1:
                    kw['bounds'] = bv[k]
                decls.append(D(ids, 0, 'Number', **kw))
            yield _mk([C(0, [], decls[0]), C(1, [0], decls[1]), C(2, [0], decls[2]), C(3, [1, 2], decls[3])], 1)


FAMILIES = [
    (['Parameter', 'Number', 'Integer'], 'num', 5), (['Number', 'Integer'], 'num', 3), (['Number'], 'num', 3),
    (['Parameter', 'String'], 'str', 3), (['Parameter', 'Tuple'], 'tup', 3), (['Parameter', 'List'], 'list', 3),
    (['Parameter', 'Selector'], 'sel', 3), (['Selector'], 'sel', 2),
    (['Parameter', 'Number', 'Integer', 'String', 'Tuple', 'List'], 'mixA', 2),
    (['Parameter', 'Number', 'Integer', 'String', 'Selector'], 'mixB', 1),
]


def _rand_value(rng, slot, ptype, pool):
    """a value for one constructor argument; mostly mutually compatible, sometimes conflicting"""
    r = rng.random
    if slot == 'default':
        if ptype in ('Number', 'Integer') or (ptype == 'Parameter' and pool in ('num', 'mixA', 'mixB')):
            c = [1, 2, 3, 4, 5, 5, 6, 7] if r() < 0.7 else [0, 10, 11, 20, -1, 2.5, 5.0, 7.5, 0.5, None, True]
            if ptype == 'Integer' and r() < 0.9:
                c = [x for x in c if isinstance(x, int) or x is None]
            if ptype == 'Parameter' and r() < 0.15:
                c = ['ab', None, (1, 2)] if pool == 'mixA' else ['ab', None]
            return rng.choice(c)
        if ptype == 'String' or (ptype == 'Parameter' and pool == 'str'):
            return rng.choice(['', 'a', 'ab', 'ab', 'b1', 'zz', None, 5] if ptype == 'Parameter' else ['', 'a', 'ab', 'ab', 'b1', 'zz', None])
        if ptype == 'Tuple' or (ptype == 'Parameter' and pool == 'tup'):
            return rng.choice([(1, 2), (1, 2), (3, 4), (1, 2, 3), (), (5,), None] + ([[1, 2], 'ab', 5] if ptype == 'Parameter' else []))
        if ptype == 'List' or (ptype == 'Parameter' and pool == 'list'):
            return rng.choice([[], [1], [1, 2], [1, 2], ['a'], [1, 'a'], [1, 2, 3], None] + ([(1, 2), 'ab'] if ptype == 'Parameter' else []))
        if ptype == 'Selector' or (ptype == 'Parameter' and pool == 'sel'):
            return rng.choice([1, 2, 2, 3, 'a', 9, None])
        return rng.choice([None, 1, 'ab'])
    if slot in ('bounds', 'softbounds'):
        if ptype == 'List':
            return rng.choice([(0, None), (0, 2), (1, 3), (None, 2), (0, 5), None])
        return rng.choice([(0, 10), (0, 10), (0, 20), (0, 5), (1, 7), (6, 10), (None, 5), (2, None), (0.5, 7.5), (0, 3), None])
    if slot == 'inclusive_bounds':
        # (1, 1) == (True, True) but `inc is True` fails: equal-not-identical values that validate differently
        return rng.choice([(True, True), (True, False), (False, True), (False, False), (True, True), (1, 1), (1, 0)])
    if slot == 'step':
        return rng.choice([None, 1, 2, 0.5])
    if slot == 'doc':
        return rng.choice(['d1', 'd2', None])
    if slot == 'label':
        return rng.choice(['L1', 'L2', None])
    if slot == 'precedence':
        return rng.choice([None, 1, 2, -1, 0.5])
    if slot in ('constant', 'readonly', 'pickle_default_value', 'per_instance', 'allow_refs', 'nested_refs'):
        return r() < 0.5
    if slot == 'allow_None':
        return rng.choice([True, False, False])
    if slot == 'regex':
        return rng.choice(['^a', '^[ab]+$', 'b', None])
    if slot == 'length':
        return rng.choice([0, 1, 2, 2, 3])
    if slot == 'item_type':
        return rng.choice([int, int, str, None])
    if slot == 'objects':
        return rng.choice([[1, 2, 3], [1, 2, 3], [2, 3], ['a', 'b'], [], [1, 'a'], [9, 2], {'a': 1, 'b': 2}])
    if slot == 'check_on_set':
        return r() < 0.5
    raise ValueError(slot)


def _rand_decl(rng, ids, name, ptype, pool, first):
    avail = BASE_ARGS + TYPE_SLOTS[ptype]
    weights = {'default': 0.45, 'doc': 0.2, 'precedence': 0.1, 'constant': 0.12, 'readonly': 0.08, 'allow_None': 0.15,
               'label': 0.1, 'pickle_default_value': 0.05, 'per_instance': 0.05, 'allow_refs': 0.07, 'nested_refs': 0.05,
               'bounds': 0.4, 'softbounds': 0.08, 'inclusive_bounds': 0.15, 'step': 0.12, 'regex': 0.35,
               'length': 0.2, 'item_type': 0.3, 'objects': 0.6 if first else 0.25, 'check_on_set': 0.2}
    scale = rng.choice([0.5, 1.0, 1.0, 1.6])
    args = {}
    for s in avail:
        if rng.random() < weights[s] * scale:
            args[s] = ids.reuse_or_new(rng, _rand_value(rng, s, ptype, pool))
    inst = rng.choice([True, False]) if rng.random() < 0.15 else None
    return {'name': name, 'ptype': ptype, 'args': args, 'instantiate': inst}


def _rand_bases(rng, i, shape):
    if i == 0:
        return []
    if shape == 'chain':
        return [i - 1] if rng.random() < 0.9 else [rng.randrange(i)]
    if shape == 'diamond':
        # 0; 1(0); 2(0); 3(1,2); later classes hang below
        return {1: [0], 2: [0], 3: rng.choice([[1, 2], [2, 1]])}.get(i) or [rng.randrange(max(1, i - 2), i)]
    r = rng.random()
    if r < 0.15:
        return []
    if r < 0.65 or i < 2:
        return [rng.randrange(i)]
    k = 2 if r < 0.93 or i < 3 else 3
    return rng.sample(range(i), k)


def _random_case(rng):
    ids = _Ids()
    names = 1 if rng.random() < 0.75 else 2
    fam = []
    for _ in range(names):
        fams, w = [f[:2] for f in FAMILIES], [f[2] for f in FAMILIES]
        fam.append(rng.choices(fams, weights=w)[0])
    shape = rng.choice(['chain', 'chain', 'diamond', 'free', 'free'])
    n = rng.randint(2, 6) if shape != 'diamond' else rng.randint(4, 6)
    bases_list = []
    for i in range(n):
        for _ in range(6):
            b = _rand_bases(rng, i, shape)
            if _mirror_mros(bases_list + [(i, b)])[i] is not None:
                break
        else:
            b = [i - 1] if i else []
        bases_list.append((i, b))
    ops = []
    declared = [set() for _ in range(names)]
    pending_adds = []
    for i, b in bases_list:
        decls = []
        for nm in range(names):
            if rng.random() < (0.22 if i else 0.08):
                continue                                     # this class skips the declaration
            types, pool = fam[nm]
            ptype = rng.choice(types) if (i and rng.random() < 0.6) else types[-1] if rng.random() < 0.5 else rng.choice(types)
            d = _rand_decl(rng, ids, nm, ptype, pool, first=not declared[nm])
            declared[nm].add(i)
            if rng.random() < 0.08:
                pending_adds.append((i, d))                  # add it with add_parameter instead of declaring it
            else:
                decls.append(d)
        ops.append(C(i, b, *decls))
        if pending_adds and rng.random() < 0.6:
            c, d = pending_adds.pop(0)
            ops.append(A(c, d))
    for c, d in pending_adds:
        ops.append(A(c, d))
    if rng.random() < 0.2:
        nm = rng.randrange(names)
        types, pool = fam[nm]
        ops.append(A(rng.randrange(n), _rand_decl(rng, ids, nm, rng.choice(types), pool, first=False)))
    pnames = rng.sample(SLOT_LIKE_NAMES, names) if rng.random() < 0.15 else None
    return _mk(ops, names, pnames)


def cases(rng, tier, worker, nworkers):
    import glob
    if worker == 0:
        for f in sorted(glob.glob(os.path.join(os.path.dirname(__file__), '..', '..', 'corpus', 'C11', '*.json'))):
            yield json.load(open(f))['case']
    i = 0
    for c in itertools.chain(_directed(), _grid_number(tier), _grid_diamond()):
        i += 1
        if i % nworkers == worker:
            yield c
    n_random = 4000 if tier == 'quick' else 200000 // nworkers
    for _ in range(n_random):
        yield _random_case(rng)


# ---------------------------------------------------------------- reporting

def _decl_map(case):
    """(cls, name) -> ptype of the declarations, in op order"""
    out = []
    for op in case['ops']:
        for d in (op['decls'] if op['op'] == 'declare' else [op['decl']]):
            out.append((op, d))
    return out


def tags(case, impl):
    t = []
    decl_ops = [op for op in case['ops'] if op['op'] == 'declare']
    if any(len(op['bases']) >= 2 for op in decl_ops):
        t.append('shape:diamond')
    if sum(1 for op in decl_ops if not op['bases']) >= 2 and any(len(op['bases']) >= 2 for op in decl_ops):
        t.append('shape:multi-root')
    if any(op['op'] == 'add' for op in case['ops']):
        t.append('shape:add_parameter')
    depth = {}
    own = {}
    for op in decl_ops:
        depth[op['cls']] = 1 + max([depth.get(b, 0) for b in op['bases']] or [0])
        own[op['cls']] = {d['name'] for d in op['decls']}
    if depth:
        t.append(f'depth:{min(max(depth.values()), 5)}')
    # a class that skips a name an ancestor declares, with a descendant that redeclares it
    for op in decl_ops:
        for d in op['decls']:
            par = [b for b in op['bases']]
            if any(d['name'] not in own.get(b, set()) and any(d['name'] in own.get(a, set()) for a in (next(
                    (o['mro'] for o in decl_ops if o['cls'] == b), []))[1:]) for b in par):
                t.append('shape:skip-level')
                break
    for _, d in _decl_map(case):
        for a in ('pickle_default_value', 'per_instance', 'allow_refs', 'nested_refs'):
            if a in d['args']:
                t.append(f'arg:{a}')
    if not isinstance(impl, dict) or 'steps' not in impl:
        return t + ['impl:crash']
    ids_seen = {}
    for op, st in zip(case['ops'], impl['steps']):
        decls = op['decls'] if op['op'] == 'declare' else [op['decl']]
        for d in decls:
            for k, j in d['args'].items():
                if j['id']:
                    if j['id'] in ids_seen and ids_seen[j['id']] != (op.get('cls'), d['name']):
                        t.append('identity:shared-object')
                    ids_seen.setdefault(j['id'], (op.get('cls'), d['name']))
        if st['outcome'].startswith('ctor') or st['outcome'] == 'skipped' or op['op'] != 'declare':
            continue
        mro = op['mro'][1:]
        for raw, held in zip(st['raws'], st['held']):
            anc = [(o, dd) for o in decl_ops if o['cls'] in mro for dd in o['decls'] if dd['name'] == raw['name']]
            for o, dd in anc:
                if dd['ptype'] != raw['ptype']:
                    t.append(f'tc:{dd["ptype"]}->{raw["ptype"]}')
            if anc and held['inst'] and not raw['inst']:
                t.append('instantiate:inherited')
            if anc:
                near = min(anc, key=lambda x: mro.index(x[0]['cls']))
                ps = next((s for s in impl['steps'][case['ops'].index(near[0])]['held'] if s['name'] == raw['name']), None)
                a, b = held['slots'][SLOT_INDEX['allow_None']], ps and ps['slots'][SLOT_INDEX['allow_None']]
                if ps and a and b and a['v'] != b['v']:
                    t.append('allow_None:own-differs-from-parent')
    return sorted(set(t))


def nontrivial(case, impl, resp):
    if not isinstance(impl, dict) or 'steps' not in impl:
        return False
    declared = set()
    below = False
    for op, st in zip(case['ops'], impl['steps']):
        if st['outcome'] == 'skipped' or st['outcome'].startswith('ctor'):
            continue
        if op['op'] == 'declare':
            for h in st['held']:
                if any((a, h['name']) in declared for a in op['mro'][1:]):
                    below = True
            if st['outcome'] == 'ok':
                for h in st['held']:
                    declared.add((op['cls'], h['name']))
        else:
            below = True
    return below and resp.get('checked_steps', 0) >= 2


def shrink(case):
    ops, names = case['ops'], case['names']
    def mk(o, n):
        return _mk(o, n, case.get('pnames'))

    def strip(op):
        return {k: v for k, v in op.items() if k != 'mro'}
    base = [strip(o) for o in ops]
    for i in reversed(range(len(base))):
        yield mk(base[:i] + base[i + 1:], names)
    for i, op in enumerate(base):
        decls = op['decls'] if op['op'] == 'declare' else None
        if decls:
            for k in range(len(decls)):
                yield mk(base[:i] + [dict(op, decls=decls[:k] + decls[k + 1:])] + base[i + 1:], names)
        for k, d in enumerate(decls if decls is not None else [op['decl']]):
            for a in list(d['args']):
                nd = dict(d, args={x: y for x, y in d['args'].items() if x != a})
                if decls is not None:
                    yield mk(base[:i] + [dict(op, decls=decls[:k] + [nd] + decls[k + 1:])] + base[i + 1:], names)
                else:
                    yield mk(base[:i] + [dict(op, decl=nd)] + base[i + 1:], names)
            if d.get('instantiate') is not None:
                nd = dict(d, instantiate=None)
                if decls is not None:
                    yield mk(base[:i] + [dict(op, decls=decls[:k] + [nd] + decls[k + 1:])] + base[i + 1:], names)
                else:
                    yield mk(base[:i] + [dict(op, decl=nd)] + base[i + 1:], names)


def classify(case, impl, fail):
    import re
    why = str(fail.get('why') or '')
    if fail.get('kind') != 'counterexample':
        return None
    return None
