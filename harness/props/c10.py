"""C10 — the latest assignment wins under every asynchronous completion order.

Correspondence: Lean `ParamVerif.Async` (Model.lean / Rx.lean) vs the real library driven on a REAL
asyncio event loop: a driver coroutine performs exactly the schedule's events — assignments of
coroutine functions / async generator functions built over hand-made `loop.create_future()` futures
(and plain values), `await asyncio.sleep(0)` rounds until the ready queue is empty, `fut.set_result`.
After every event it records parameter values, `async_refs` keys, `syncing`, `refs` keys and what a
value watcher (onlychanged=False) was told."""
import ast
import glob
import itertools
import json
import os

ID = 'C10'
PROPS_FILE = 'ParamVerif/Props/C10.lean'
DRIVER = 'Driver/C10.lean'
SOURCES = [('param/parameterized.py', 'Parameter.__set__'), ('param/parameterized.py', 'Parameters._resolve_ref'),
           ('param/parameterized.py', 'Parameters._update_ref'), ('param/parameterized.py', 'Parameters._async_ref'),
           ('param/parameterized.py', 'Parameters._sync_refs'), ('param/parameterized.py', '_syncing'),
           ('param/_utils.py', 'async_executor'), ('param/_utils.py', '_to_async_gen'),
           ('param/reactive.py', 'rx._resolve'), ('param/reactive.py', 'rx._resolve_async'),
           ('param/reactive.py', 'rx._lazy_resolve'), ('param/reactive.py', 'rx._invalidate_current')]
BUDGET_S = {'quick': 70, 'thorough': 450}
EXHAUSTIVE = {'quick': True, 'thorough': True}
THOROUGH_WORKERS = 8
TRUSTED = [
    'statements in lean/ParamVerif/Props/C10.lean (C10_full = LatestWins / SupersededNeverApplied / PlainCancelsForGood / SyncingEmptyWhenQuiescent of Cfg.repo; '
    'ghost field St.last = most recent assignment, proved equal to the schedule\'s lastOf; settled / allSettled / fromLatest / HazardFree '
    'are the decidable functions of Async/Spec.lean)',
    'spec-side oracle lean/ParamVerif/Async/Spec.lean (checkStep) and Async/Rx.lean (checkStep): decidable checks over the schedule '
    'and the observations only, never the model',
    'harness/props/c10.py adapter: drives a real asyncio loop; reads parameter values, _param__private.async_refs / syncing / refs and a '
    'value watcher\'s log after every event; uses loop._ready only to detect that the loop is idle',
    'asyncio semantics reproduced by the model, NOT verified: one FIFO ready queue, create_task starts the coroutine at a later iteration, '
    'Task.cancel() on a suspended task delivers CancelledError at the await at a later iteration (on a running / not yet started / '
    'already woken task via _must_cancel), awaiting a done future does not suspend, Future.set_result wakes the waiter through call_soon',
    'correspondence is differential testing: model = code only on the schedules executed',
    'EXTENSIONS: the watcher hook (a callback on one parameter assigning a plain value to the other) is covered by the hook_* theorems '
    '(plain-cancels-for-good, latest-wins, syncing-empty; not the per-write statement); references with a dependency re-evaluated by '
    'source changes (bump -> _sync_refs) and results the parameter rejects (the write raises ValueError inside the task; the harness '
    'parameters reject negative integers) are NOT covered by any theorem. All three exist only in lean/ParamVerif/Async/ModelExt.lean '
    '(proved equal to the core model when absent: driver_model_is_core_model); for them the verdict rests on model = code on the '
    'schedules executed plus the oracle lean/ParamVerif/Async/SpecExt.lean',
    'harness numbering of tasks: param.parameterized.async_executor is wrapped (delegating to the original) to number the _async_ref '
    'tasks in scheduling order and to tell each coroutine body which task runs it (contextvar); hand-made future (t, k) = k-th await of task t',
    'source facts read by harness/props/c10.py:_facts (is the coroutine awaited inside `with _syncing`; is there a stale-reference return '
    'in _async_ref; is the registration unconditional) select the model variant Cfg reported in the observation; a wrong choice shows up '
    'as a correspondence mismatch',
]
ASSUMPTIONS = [
    'the headline theorems (C10_full_holds and its four parts) are about Cfg.repo, the variant of the anchored code with the fixes '
    '08165dc and 0c5ea5c; the harness checks on every run, from the source of _async_ref, that this is the variant installed (a tree '
    'without one of the fixes is run against the corresponding pre-fix variant of the model and its violations are reported). The '
    'old_code_* theorems are regression theorems about the pre-fix configuration only.',
    'one Parameterized instance with 2 allow_refs Parameters, initialised before the first event; integer results, pairwise distinct',
    'hand-made futures are never shared between tasks (the k-th await of the t-th scheduled _async_ref task has id (t,k)); dependencies: '
    'only param.bind(async_fn, src.param.x) on ONE source parameter of another object (every source change re-evaluates every async '
    'reference of the target, as _sync_refs does); ONE kind of synchronous reference: to the parameter x of a second source object '
    'that never changes (so _sync_refs has something to step over; what a synchronous reference does when ITS source changes is C08), '
    'directly or through a bound function that raises param.Skip (no value yet: the assignment still supersedes a pending task)',
    'NOT modelled: real timing; sync generator functions (_to_async_gen runs next() in a thread pool via asyncio.to_thread); event loops '
    'other than asyncio\'s FIFO loop and user-supplied async_executor; the no-running-loop path of async_executor (run_until_complete); the '
    're-scheduling of _async_ref while the instance is uninitialised (unreachable on a running loop: the constructor finishes before the '
    'task starts); exceptions raised by the awaitables (Skip included)',
    'the extended model also has obj.param.trigger (of an ordinary parameter whose watcher assigns a plain value; of a linked parameter) '
    'and the re-assignment of the SAME function object (Python compares `refs.get(pname) is not ref`): correspondence + oracle, no '
    'theorem; constructor-time references '
    '(initialized=False branches of _async_ref / _resolve_ref) are not modelled; awaitables that raise, Future.set_exception and '
    'user-side cancellation of the awaited future are not modelled',
    'rx pipelines: one input, one `.rx.pipe(async def)` node with a `.rx.watch` callback (watcher deliveries of the unchanged old value on '
    'every input change are modelled, Undefined/None deliveries are not recorded); a plain function returning a coroutine is NOT supported '
    'by rx (no Trigger is created: _resolve_async stores the value and then fails on self._trigger.param), and `param.rx(async_fn)` wraps the '
    'function object without calling it, so neither is a pipeline through a coroutine; async generator functions with 1-3 yields are '
    'piped too (rx theorems cover them); sync generator functions are not',
]
RULE = ('quick: corpus (the witness schedules of the repaired defects) + directed prefix; EVERY schedule of <=2 assignments (coroutine / '
        'async generator with 2 awaits / plain, on 1-2 parameters; completions also before the assignment), a 3-await generator against '
        'every other kind in both orders, every schedule of 3 coroutine-or-plain assignments on 1-2 parameters and of 3 assignments with one '
        '2-await generator: every order of the completions relative to the assignments and to each other x a tick or not between any two '
        'events (so: plain assignments at every interleaving point, re-assignments with and without a loop iteration in between); bursts of '
        '2-3 assignments of every mix with no tick in between x every completion order; one plain assignment inserted at every position of '
        'four fully ticked / unticked generator schedules; references WITH A DEPENDENCY (coroutine / 2-await generator bound to a source '
        'parameter, alone or next to a second linked parameter) x 1-2 source changes x an optional plain assignment in every order, ticks in '
        'between, then the futures of all tasks (re-evaluations included) completed in several orders, plus one early completion at every '
        'point; REJECTED RESULTS (one completion of every schedule of <=2 assignments carries a value the parameter rejects; a first reference '
        'whose result is rejected followed by every schedule of two more assignments); the dependency schedules again NEXT TO A SYNCHRONOUS '
        'REFERENCE on the other parameter (assigned before / after the asynchronous one; replaced by / replacing one in thorough); a WATCHER HOOK (on write of a: b = plain) in both directions x every schedule of <=2 assignments (3 in thorough); 24 rx '
        'schedules; 600 random schedules of <=5 assignments (generators with 1-3 '
        'awaits). thorough: the same with 3 assignments in EVERY mix of coroutine / 2-await generator / plain on 1-2 parameters, bursts of 4, '
        'completions before the assignment everywhere, 60000 random schedules, and every rx schedule of <=3 input changes. After every event '
        'the observation is compared with the model and checked by the oracle. non-trivial = at least one result of an awaitable was '
        'applied; distinct = distinct canonical case')
COVERAGE_TARGETS = ['bump:steps-over-sync-reference-first-in-refs', 'bump:steps-over-sync-reference', 'assign:sync-reference:cancels-registered',
                    'assign:skipping-reference:cancels-registered',
                    'again:while-linked', 'again:after-unlink', 'again:earlier-task-of-same-function-not-started',
                    'rx:complete:superseded-generator-between-yields', 'rx:set:generator', 'trigger:watcher-assigns:cancels-registered', 'trigger:watcher-assigns:unlinks',
                    'trigger:linked-parameter:cancels-registered', 'trigger:plain-parameter', 'step:result-rejected', 'complete:rejected-value', 'bump:while-task-registered', 'bump:also-reschedules-independent-reference', 'bump:no-dependent-reference',
                    'start:cancel-registered-older-evaluation', 'wake:cancelled-future:newer-task-registered',
                    'hook:in-step:cancels-registered', 'hook:in-step:unlinks', 'hook:in-step:not-linked', 'hook:on-driver-assignment',
                    'assign:coro', 'assign:agen', 'assign:plain:unlink-and-cancel', 'assign:plain:not-linked',
                    'assign:coro:cancels-registered', 'assign:agen:cancels-registered',
                    'start:register', 'start:ran-to-end', 'start:suspend-generator',
                    'wake:result:generator', 'wake:cancelled-future', 'wake:must-cancel',
                    'complete:wakes-task', 'complete:not-awaited-yet', 'complete:cancelled-future']

NP = 2
SYNC_VALUE = 900        # what the source of the synchronous reference holds
NAMES = ['a', 'b']


# ------------------------------------------------------------------ source facts -> model variant

def _facts():
    from .. import common
    src = open(os.path.join(common.REPO, 'param', 'parameterized.py')).read()
    tree = ast.parse(src)
    fn = next(n for n in ast.walk(tree) if isinstance(n, ast.AsyncFunctionDef) and n.name == '_async_ref')

    def awaits_inside_syncing(node, inside):
        if isinstance(node, ast.With):
            here = inside or any(isinstance(i.context_expr, ast.Call) and getattr(i.context_expr.func, 'id', '') == '_syncing'
                                 for i in node.items)
            return any(awaits_inside_syncing(c, here) for c in node.body)
        if isinstance(node, ast.Await) and inside:
            return True
        return any(awaits_inside_syncing(c, inside) for c in ast.iter_child_nodes(node))

    await_inside = awaits_inside_syncing(fn, False)
    # a top-level `if ... refs ...: return` in front of the registration
    start_check = any(isinstance(n, ast.If) and 'refs' in ast.unparse(n.test) and 'async_refs' not in ast.unparse(n.test)
                      and any(isinstance(b, ast.Return) for b in n.body) for n in fn.body)
    # `async_refs[pname] = current_task` as a statement of the function body itself (not under `if running_task is None`)
    register_always = any(isinstance(n, ast.Assign) and 'async_refs[pname]' in ast.unparse(n.targets[0]) for n in fn.body)
    return {'awaitInside': bool(await_inside), 'startCheck': bool(start_check), 'registerAlways': bool(register_always)}


_FACTS = None


def facts():
    global _FACTS
    if _FACTS is None:
        _FACTS = _facts()
    return _FACTS


def extract():
    return {'c10_async_ref_shape': facts()}


# ------------------------------------------------------------------ execution on the real library

_CLS = None


def _cls():
    global _CLS
    if _CLS is None:
        import param

        class NonNegative(param.Parameter):
            """accepts everything but negative integers: a result the parameter REJECTS (the write raises
            ValueError inside the task, as a String parameter does for 42)"""
            __slots__ = []

            def _validate_value(self, val, allow_None):
                if isinstance(val, int) and not isinstance(val, bool) and val < 0:
                    raise ValueError(f'{self.name}: negative value {val}')
        ns = {n: NonNegative(default=0, allow_refs=True) for n in NAMES}
        ns['c'] = param.Parameter(default=0)      # an ordinary parameter: only ever triggered
        _CLS = type('T', (param.Parameterized,), ns)
    return _CLS


async def _idle(loop):
    """yield to the loop until nothing is queued (the driver itself is not in the queue while it runs)"""
    import asyncio
    for _ in range(64):
        await asyncio.sleep(0)
        if not loop._ready:
            return True
    return False


def fut_value(tid, k):
    """result of the k-th hand-made future of task `tid` (the driver uses the same formula)"""
    return 10 * (tid + 1) + k


def _snapshot(t, log, spawns, errs=None):
    pp = t._param__private
    o = {'vals': [getattr(t, n) for n in NAMES],
         'async': sorted(NAMES.index(k) for k in pp.async_refs),
         'sync': sorted(NAMES.index(k) for k in pp.syncing),
         'refs': sorted(NAMES.index(k) for k in pp.refs),
         'log': [list(x) for x in log],
         'spawns': [list(x) for x in spawns],
         # class names of the exceptions `_async_ref` tasks ended with (cancellation apart)
         'errs': list(errs or [])}
    del log[:]
    del spawns[:]
    if errs:
        del errs[:]
    for v in o['vals']:
        if not isinstance(v, int) or isinstance(v, bool):
            raise RuntimeError(f'non-integer value {v!r}')
    return o


_SRC = None


def _src_cls():
    global _SRC
    if _SRC is None:
        import param
        _SRC = type('Src', (param.Parameterized,), {'x': param.Integer(default=0)})
    return _SRC


async def _drive_param(case, loop):
    import asyncio
    import contextvars
    import param
    import param.parameterized as pz
    t = _cls()()
    src = _src_cls()()
    src2 = _src_cls()(x=SYNC_VALUE)        # never changes: the source of the synchronous reference
    log, spawns, errs = [], [], []

    def cb(*events):
        for e in events:
            log.append((NAMES.index(e.name), e.new))
    t.param.watch(cb, NAMES, onlychanged=False)
    hook = case.get('hook')
    if hook:
        a, b, w = hook
        t.param.watch(lambda e: setattr(t, NAMES[b], w), [NAMES[a]], onlychanged=False)
    thook = case.get('thook')
    if thook:
        # a watcher of the ordinary parameter `c`; it only runs when the driver calls param.trigger('c')
        t.param.watch(lambda e: setattr(t, NAMES[thook[0]], thook[1]), ['c'], onlychanged=False)
    futs = {}

    def fut(tid, k):
        if (tid, k) not in futs:
            futs[(tid, k)] = loop.create_future()
        return futs[(tid, k)]
    # every `_async_ref` goes through `async_executor`: number the tasks in the order they are
    # scheduled (= task ids of the model) and let the coroutine bodies know which task runs them
    cur = contextvars.ContextVar('c10_task')
    ref_ids = {}                       # id(reference function) -> id of its first task
    keep = []
    orig = pz.async_executor
    counter = [0]

    def executor(func):
        args = getattr(func, 'args', ())
        if getattr(getattr(func, 'func', None), '__name__', '') != '_async_ref':
            return orig(func)
        tid = counter[0]
        counter[0] += 1
        ref = args[2] if len(args) > 2 else None
        keep.append(ref)
        rid = ref_ids.setdefault(id(ref), tid) if ref is not None else tid
        spawns.append((tid, NAMES.index(args[0]), rid))

        async def tagged():
            cur.set(tid)
            try:
                return await func()
            except asyncio.CancelledError:
                raise
            except BaseException as ex:
                errs.append(type(ex).__name__)
                raise
        return orig(tagged)

    def coro_fn(dep):
        if dep:
            async def f(x):
                return await fut(cur.get(), 0)
            return param.bind(f, src.param.x)

        async def f():
            return await fut(cur.get(), 0)
        return f

    def agen_fn(n, dep):
        if dep:
            async def g(x):
                tid = cur.get()
                for k in range(n):
                    yield await fut(tid, k)
            return param.bind(g, src.param.x)

        async def g():
            tid = cur.get()
            for k in range(n):
                yield await fut(tid, k)
        return g
    last_fn = {}
    pz.async_executor = executor
    try:
        # `cfg`: which variant of the anchored code is installed (read from the source, see _facts);
        # the driver replays the schedule on the model of that variant
        out = {'cfg': facts(), 'init': _snapshot(t, log, spawns, errs), 'steps': []}
        for e in case['events']:
            kind = e['e']
            if kind == 'assign':
                name = NAMES[e['p']]
                if e['src'] == 'coro':
                    last_fn[e['p']] = coro_fn(e.get('dep', False))
                    setattr(t, name, last_fn[e['p']])
                elif e['src'] == 'agen':
                    last_fn[e['p']] = agen_fn(len(e['v']), e.get('dep', False))
                    setattr(t, name, last_fn[e['p']])
                elif e['src'] == 'skip':
                    # a synchronous reference (it has a dependency) whose evaluation raises param.Skip: no value yet
                    def skipper(x):
                        raise param.Skip
                    setattr(t, name, param.bind(skipper, src2.param.x))
                elif e['src'] == 'sync':
                    # a synchronous reference to the second source object (`x` there is e['v'][0] for good)
                    setattr(t, name, src2.param.x)
                else:
                    setattr(t, name, e['v'][0])
            elif kind == 'tick':
                if not await _idle(loop):
                    return {'crash': 'the loop did not become idle within 64 iterations'}
            elif kind == 'complete':
                f = fut(e['t'], e['k'])
                if not f.done():
                    # `bad`: a result the parameter rejects
                    f.set_result(-fut_value(e['t'], e['k']) if e.get('bad') else fut_value(e['t'], e['k']))
            elif kind == 'bump':
                src.x += 1
            elif kind == 'again':
                # the SAME function object as the last one assigned to this parameter
                if e['p'] in last_fn:
                    setattr(t, NAMES[e['p']], last_fn[e['p']])
            elif kind == 'trigger':
                t.param.trigger('c' if e.get('p') is None else NAMES[e['p']])
            else:
                raise RuntimeError(kind)
            out['steps'].append(_snapshot(t, log, spawns, errs))
        return out
    finally:
        pz.async_executor = orig


async def _drive_rx(case, loop):
    import asyncio
    import param
    nf = case.get('nf', 1)
    gen = case.get('gen', False)
    futs = {}
    ncalls = [0]

    def fut(t, k):
        if (t, k) not in futs:
            futs[(t, k)] = loop.create_future()
        return futs[(t, k)]
    # evaluation number = the input value the function was called with
    if gen:
        async def slow(v):
            ncalls[0] += 1
            for k in range(nf):
                yield await fut(v, k)
    else:
        async def slow(v):
            ncalls[0] += 1
            return await fut(v, 0)
    r = param.rx(0)
    e = r.rx.pipe(slow)
    log = []
    e.rx.watch(lambda v: log.append(v))

    def snap():
        v = e.rx.value
        o = {'value': None if v is param.Undefined else v,
             'log': [x for x in log if x is not param.Undefined and x is not None], 'calls': ncalls[0]}
        del log[:]
        return o
    out = {'steps': []}
    first = snap()                        # the first read evaluates: evaluation 0
    if first['value'] is not None or first['log']:
        return {'crash': f'unexpected initial state {first}'}
    nset = 0
    for ev in case['events']:
        if ev['e'] == 'set':
            nset += 1
            r.rx.value = nset
        elif ev['e'] == 'tick':
            if not await _idle(loop):
                return {'crash': 'the loop did not become idle within 64 iterations'}
        elif ev['e'] == 'complete':
            f = fut(ev['t'], ev.get('k', 0))
            if not f.done():
                f.set_result(fut_value(ev['t'], ev.get('k', 0)))
        out['steps'].append(snap())
    return out


def run_impl(case):
    import asyncio
    import warnings
    warnings.simplefilter('ignore')
    loop = asyncio.new_event_loop()
    loop.set_exception_handler(lambda lp, ctx: None)      # tasks ending with a rejected result are expected
    try:
        drive = _drive_rx if case['kind'] == 'rx' else _drive_param
        return loop.run_until_complete(drive(case, loop))
    except Exception as e:
        return {'crash': f'{type(e).__name__}: {e}'[:300]}
    finally:
        try:
            pending = [t for t in asyncio.all_tasks(loop) if not t.done()]
            for t in pending:
                t.cancel()
            if pending:
                loop.run_until_complete(asyncio.gather(*pending, return_exceptions=True))
            loop.run_until_complete(loop.shutdown_asyncgens())
        except Exception:
            pass
        loop.close()
        try:
            import param._utils as pu
            pu._running_tasks.clear()
        except Exception:
            pass


def compare(impl, model):
    from ..run import first_diff
    m = {k: v for k, v in model.items() if k != 'hazards'}

    def strip(o):
        # `errs` (exceptions tasks ended with) is judged by the oracle only, the model does not produce it
        if isinstance(o, dict) and 'steps' in o and 'init' in o:
            return dict(o, init={k: v for k, v in o['init'].items() if k != 'errs'},
                        steps=[{k: v for k, v in st.items() if k != 'errs'} for st in o['steps']])
        return o
    return first_diff(strip(impl), strip(m))


# ------------------------------------------------------------------ generation

def _mk(events, hook=None, thook=None):
    return {'kind': 'param', 'np': NP, 'hook': hook, 'thook': thook, 'events': events}


def _values(tid, n):
    return [10 * (tid + 1) + k for k in range(n)]


def _is_async(e):
    return e['e'] == 'assign' and e['src'] in ('coro', 'agen')


def _assign(p, src, tid, plain_idx):
    if src == 'plain':
        return {'e': 'assign', 'p': p, 'src': 'plain', 'v': [100 + plain_idx]}
    if src == 'sync':
        return {'e': 'assign', 'p': p, 'src': 'sync', 'v': [SYNC_VALUE]}
    if src == 'skip':
        return {'e': 'assign', 'p': p, 'src': 'skip', 'v': []}
    n = 1 if src == 'coro' else int(src[4:] or 2)
    return {'e': 'assign', 'p': p, 'src': 'coro' if src == 'coro' else 'agen', 'v': _values(tid, n)}


def _orders(chains):
    """all interleavings of the chains (each chain keeps its own order)"""
    chains = [c for c in chains if c]
    if not chains:
        yield []
        return
    for i, c in enumerate(chains):
        rest = chains[:i] + [c[1:]] + chains[i + 1:]
        for tail in _orders(rest):
            yield [c[0]] + tail


def _schedules(srcs, params, pre_complete=False):
    """every schedule for the given assignments: completions in every order after (or, with
    pre_complete, also before) their assignment, generator futures in yield order, tick or not
    between any two events, final tick"""
    assigns, comps = [], []
    tid = plain = 0
    for p, s in zip(params, srcs):
        a = _assign(p, s, tid, plain)
        assigns.append(a)
        if s == 'plain':
            plain += 1
        else:
            comps.append((len(assigns) - 1, [{'e': 'complete', 't': tid, 'k': k} for k in range(len(a['v']))]))
            tid += 1
    # a completion chain is ordered after its assignment: encode by merging chains with markers
    A = [('A', i) for i in range(len(assigns))]
    chains = [A] + [[('C', ai, k) for k in range(len(c))] for ai, c in comps]
    cmap = {(ai, k): c[k] for ai, c in comps for k in range(len(c))}
    for order in _orders(chains):
        if not pre_complete:
            seen, ok = set(), True
            for x in order:
                if x[0] == 'A':
                    seen.add(x[1])
                elif x[1] not in seen:
                    ok = False
                    break
            if not ok:
                continue
        evs = [assigns[x[1]] if x[0] == 'A' else cmap[(x[1], x[2])] for x in order]
        n = len(evs)
        for mask in range(1 << (n - 1)):
            out = []
            for i, e in enumerate(evs):
                out.append(dict(e))
                if i == n - 1 or (mask >> i) & 1:
                    out.append({'e': 'tick'})
            yield out


def _param_choices(n):
    # the first assignment goes to parameter 0 (the two parameters are interchangeable)
    for rest in itertools.product(range(NP), repeat=n - 1):
        yield (0,) + rest


WITNESSES = {
    # (a) plain value while the coroutine is suspended inside `with _syncing`
    'plain-while-suspended': [('assign', 0, 'coro'), 'tick', ('assign', 0, 'plain'), ('complete', 0, 0), 'tick'],
    # (b) two overlapping coroutine tasks on two parameters, completed in start order
    'overlap-two-params': [('assign', 0, 'coro'), ('assign', 1, 'coro'), 'tick', ('complete', 0, 0), 'tick', ('complete', 1, 0), 'tick'],
    # (b) re-assignment while the first coroutine is pending: the new result unlinks its own reference
    'overlap-reassign': [('assign', 0, 'coro'), 'tick', ('assign', 0, 'coro'), 'tick', ('complete', 1, 0), ('complete', 0, 0), 'tick'],
    # (c) second task never registers: a third assignment cannot cancel it
    'unregistered-second-task': [('assign', 0, 'agen1'), ('assign', 0, 'agen1'), 'tick', ('assign', 0, 'agen1'), 'tick',
                                 ('complete', 2, 0), 'tick', ('complete', 1, 0), ('complete', 0, 0), 'tick'],
    # (d) plain value before the scheduled task has started
    'plain-before-start': [('assign', 0, 'coro'), ('assign', 0, 'plain'), 'tick', ('complete', 0, 0), 'tick'],
    # (d) with generators only (no syncing scope involved)
    'plain-before-start-generator': [('assign', 0, 'agen'), ('assign', 0, 'plain'), 'tick', ('complete', 0, 0), 'tick',
                                     ('complete', 0, 1), 'tick'],
    # superseded result already complete when the stale task starts
    'stale-result-ready-at-start': [('assign', 0, 'agen1'), ('assign', 0, 'agen1'), ('complete', 0, 0), 'tick', ('complete', 1, 0), 'tick'],
    # healthy paths
    'completion-before-await': [('complete', 0, 0), ('assign', 0, 'coro'), 'tick'],
    'generator-out-of-order': [('assign', 0, 'agen'), 'tick', ('complete', 0, 1), 'tick', ('complete', 0, 0), 'tick'],
    'generator-then-plain': [('assign', 0, 'agen'), 'tick', ('complete', 0, 0), ('assign', 0, 'plain'), 'tick', ('complete', 0, 1), 'tick'],
    'generator-superseded-by-generator': [('assign', 0, 'agen'), 'tick', ('assign', 0, 'agen'), 'tick', ('complete', 0, 0), ('complete', 1, 0),
                                          'tick', ('complete', 1, 1), ('complete', 0, 1), 'tick'],
    'woken-then-cancelled': [('assign', 0, 'agen'), 'tick', ('complete', 0, 0), ('assign', 0, 'agen'), 'tick', ('complete', 1, 0),
                             ('complete', 1, 1), 'tick'],
    'coroutine-then-generator-other-param': [('assign', 0, 'coro'), 'tick', ('assign', 1, 'agen'), 'tick', ('complete', 1, 0), 'tick',
                                             ('complete', 0, 0), 'tick', ('complete', 1, 1), 'tick'],
}


def _from_spec(spec):
    evs, tid, plain = [], 0, 0
    for x in spec:
        if x == 'tick':
            evs.append({'e': 'tick'})
        elif x[0] == 'assign':
            evs.append(_assign(x[1], x[2], tid, plain))
            if x[2] == 'plain':
                plain += 1
            else:
                tid += 1
        else:
            evs.append({'e': 'complete', 't': x[1], 'k': x[2]})
    return _mk(evs)


def _shadow_tasks(events):
    """the tasks a correct library schedules for these events: [(tid, n_futs)].  (Generator-side
    only, to know which completions make sense; a completion of a future nobody awaits is harmless.)"""
    links = {}                      # p -> (n_futs, dep), insertion-ordered
    fns = {}                        # p -> the function last assigned
    out = []
    for e in events:
        if e['e'] == 'assign':
            links.pop(e['p'], None)
            if _is_async(e):
                links[e['p']] = fns[e['p']] = (len(e['v']), bool(e.get('dep')))
                out.append((len(out), len(e['v'])))
            elif e['src'] in ('sync', 'skip'):
                links[e['p']] = (0, False)          # linked, never re-evaluated by a change of `src`
        elif e['e'] == 'bump' and any(d for _, d in links.values()):
            for n, _ in list(links.values()):
                if n:
                    out.append((len(out), n))
        elif e['e'] == 'again' and e['p'] in fns:
            links.pop(e['p'], None)
            links[e['p']] = fns[e['p']]
            out.append((len(out), fns[e['p']][0]))
    return out


def _dep_schedules(tier, mover=None, sync=False):
    """(`sync`: the second parameter holds a SYNCHRONOUS reference to another source, assigned before or
    after the dependent asynchronous one — `_sync_refs` has to step over it —, the movable extra may also be
    a synchronous reference replacing the asynchronous one or an asynchronous one replacing it)
    references with a dependency: one or two linked parameters, 1-2 source changes, optionally a plain
    assignment, in every order, ticks in between; then the futures of every task (those scheduled by
    the source changes included) completed in several orders, ticking after each completion or once
    at the end; and the same with ONE early completion placed at every later point of the prefix"""
    quick = tier == 'quick'
    firsts = ['coro', 'agen2']
    seconds = [None, ('coro', False)] + ([] if quick else [('coro', True), ('agen2', True)])
    if sync:
        seconds = [('sync', True), ('sync', False)]         # (…, assigned first?)
    for k0 in firsts:
        for second in seconds:
            for nb in (1, 2):
                if second is not None and nb == 2 and quick:
                    continue
                extras = (None, 0) + ((1,) if second is not None and not quick else ())
                if sync:
                    extras = (None, 1, 'K0') if quick else (None, 0, 1, 'S0', 'C1', 'K0', 'K1')
                for plain_p in extras:
                    base = [dict(_assign(0, k0, 0, 0), dep=(mover is None))]
                    if sync:
                        base = [_assign(1, 'sync', 0, 0)] + base if second[1] else base + [_assign(1, 'sync', 0, 0)]
                    elif second is not None:
                        base.append(dict(_assign(1, second[0], 1, 0), dep=second[1]))
                    extra = {None: [], 'S0': [_assign(0, 'sync', 0, 0)], 'C1': [_assign(1, 'coro', 1, 0)],
                             'K0': [_assign(0, 'skip', 0, 0)], 'K1': [_assign(1, 'skip', 0, 0)]}.get(plain_p)
                    if extra is None:
                        extra = [_assign(plain_p, 'plain', 0, 0)]
                    movable = [mover or {'e': 'bump'}] * nb + extra
                    seen = set()
                    for perm in itertools.permutations(range(len(movable))):
                        seq = [movable[i] for i in perm]
                        key = json.dumps(seq)
                        if key in seen:
                            continue
                        seen.add(key)
                        prefix = base + seq
                        n = len(prefix)
                        full = (1 << n) - 1
                        if n <= (3 if quick else 4):
                            masks = range(1 << n)
                        else:
                            masks = sorted({0, full, 0b10101 & full, 0b01010 & full, 1, 1 << (n - 1), full ^ 1, full >> 1})
                        for mask in masks:
                            pre = []
                            for i, e in enumerate(prefix):
                                pre.append(dict(e))
                                if (mask >> i) & 1:
                                    pre.append({'e': 'tick'})
                            tasks = _shadow_tasks(pre)
                            chains = [[{'e': 'complete', 't': t, 'k': k} for k in range(nf)] for t, nf in tasks]
                            if len(tasks) <= (2 if quick else 3):
                                orders = list(_orders(chains))
                            else:
                                fwd, rev = sum(chains, []), sum(reversed(chains), [])
                                rot = sum(chains[1:] + chains[:1], [])
                                orders = [fwd, rev] + ([] if quick else [rot])
                            for order in orders:
                                for each in ((True, False) if not quick or len(order) <= 3 else (True,)):
                                    out = list(pre)
                                    for cev in order:
                                        out.append(cev)
                                        if each:
                                            out.append({'e': 'tick'})
                                    out.append({'e': 'tick'})
                                    yield out
                            # one early completion: a result that is ready while the re-evaluation is under way
                            for t, nf in tasks[:(1 if quick else 2)]:
                                for pos in range(1, len(pre) + 1):
                                    if len(_shadow_tasks(pre[:pos])) <= t:
                                        continue
                                    out = pre[:pos] + [{'e': 'complete', 't': t, 'k': 0}] + pre[pos:] + [{'e': 'tick'}]
                                    for t2, nf2 in reversed(tasks):
                                        for k in range(nf2):
                                            if (t2, k) != (t, 0):
                                                out.append({'e': 'complete', 't': t2, 'k': k})
                                    out.append({'e': 'tick'})
                                    yield out


def _fault_schedules(tier):
    """results the parameter rejects: (i) every schedule of <=2 assignments with ONE completion marked
    bad; (ii) a first reference whose (first or second) result is rejected, then every schedule of two
    more assignments — the parameter must behave as if the failed write had never been attempted"""
    quick = tier == 'quick'
    kinds = ['coro', 'agen2', 'plain']
    for n in (1, 2):
        for srcs in itertools.product(kinds, repeat=n):
            if all(x == 'plain' for x in srcs):
                continue
            for params in _param_choices(n):
                if quick and n == 2 and (params != (0, 0) or srcs.count('agen2') == 2):
                    continue
                for evs in _schedules(srcs, params):
                    idx = [i for i, e in enumerate(evs) if e['e'] == 'complete']
                    for i in (idx if not quick else idx[:1] + idx[-1:]):
                        out = [dict(e) for e in evs]
                        out[i]['bad'] = True
                        yield out
                        if quick and len(idx) == 1:
                            break
    for k0, badk in (('coro', 0), ('agen2', 0), ('agen2', 1)) if not quick else (('coro', 0), ('agen2', 1)):
        for early_tick in (True, False) if not quick or k0 == 'coro' else (True,):
            a0 = _assign(0, k0, 0, 0)
            pre = [a0] + ([{'e': 'tick'}] if early_tick else [])
            for k in range(len(a0['v'])):
                pre.append(dict({'e': 'complete', 't': 0, 'k': k}, **({'bad': True} if k == badk else {})))
                if k == badk:
                    break
            pre.append({'e': 'tick'})
            for srcs in itertools.product(kinds, repeat=2):
                if srcs[0] == 'plain' and srcs[1] == 'plain':
                    continue
                for params in ((0, 0), (0, 1), (1, 0)) if not quick else ((0, 0),):
                    if quick and ('agen2' in srcs) and (k0 == 'agen2' or not early_tick):
                        continue
                    for evs in _schedules(srcs, params):
                        out = [dict(e) for e in pre]
                        for e in evs:
                            e = dict(e)
                            if e['e'] == 'complete':
                                e['t'] += 1
                            out.append(e)
                        yield out


def _trigger_schedules(tier):
    """obj.param.trigger at every point of every schedule of <=2 assignments: of the ordinary parameter `c`
    whose watcher assigns a plain value to parameter 0 / 1, and of a (possibly linked) parameter itself"""
    quick = tier == 'quick'
    for n in (1, 2):
        firsts = ['coro', 'agen2']
        for srcs in itertools.product(['coro', 'agen2', 'plain'], repeat=n):
            if srcs[0] == 'plain' or (quick and srcs.count('agen2') == 2):
                continue
            for params in _param_choices(n):
                for evs in _schedules(srcs, params):
                    if quick and n == 2 and sum(1 for e in evs if e['e'] == 'tick') not in (1, len(evs) // 2 + 1, len([e for e in evs if e['e'] != 'tick'])):
                        continue
                    for pos in range(1, len(evs) + 1):
                        for trig, thook in (({'e': 'trigger'}, [0, 700]), ({'e': 'trigger'}, [1, 700]),
                                            ({'e': 'trigger', 'p': 0}, None), ({'e': 'trigger', 'p': 1}, None)):
                            if quick and (thook == [1, 700] or trig.get('p') == 1) and 1 not in params:
                                continue
                            out = [dict(e) for e in evs[:pos]] + [dict(trig)] + [dict(e) for e in evs[pos:]]
                            if out[-1]['e'] != 'tick':
                                out.append({'e': 'tick'})
                            yield out, thook


def _hook_schedules(tier):
    """a watcher on one parameter that assigns a plain value to the other one: every schedule of two
    assignments (three in thorough) with the hook in both directions"""
    for hook in ([0, 1, 500], [1, 0, 500]):
        for n in ((1, 2) if tier == 'quick' else (1, 2, 3)):
            kinds = ['coro', 'agen2', 'plain'] if n < 3 else ['coro', 'agen2', 'plain']
            for srcs in itertools.product(kinds, repeat=n):
                for params in itertools.product(range(NP), repeat=n):
                    if hook[0] not in params:
                        continue            # the hooked parameter is never written
                    if n == 3 and 'agen2' in srcs:
                        continue
                    if tier == 'quick' and srcs.count('agen2') == 2:
                        continue
                    for evs in _schedules(srcs, params):
                        yield evs, hook


def _random_param_case(rng, max_assign):
    n = rng.randint(1, max_assign)
    pool = ['coro', 'coro', 'agen1', 'agen2', 'agen3', 'plain'] + (['sync', 'sync', 'skip'] if rng.random() < 0.3 else [])
    srcs = [rng.choice(pool) for _ in range(n)]
    params = [rng.randrange(NP) for _ in range(n)]
    items, tid, plain = [], 0, 0
    chains = [[]]
    for p, s in zip(params, srcs):
        a = _assign(p, s, tid, plain)
        chains[0].append(a)
        if s == 'plain':
            plain += 1
        elif s not in ('sync', 'skip'):
            ks = list(range(len(a['v'])))
            if rng.random() < 0.2:
                rng.shuffle(ks)
            chains.append([{'e': 'complete', 't': tid, 'k': k} for k in ks if rng.random() < 0.93])
            tid += 1
    # random merge; a completion may come before its assignment with small probability
    pre = rng.random() < 0.15
    assigned = set()
    order = []
    live = [list(c) for c in chains]
    while any(live):
        cand = [i for i, c in enumerate(live) if c and (i == 0 or pre or (i - 1) in assigned)]
        i = rng.choice(cand) if cand else 0
        ev = live[i].pop(0)
        if i == 0 and _is_async(ev):
            assigned.add(len(assigned))
        order.append(ev)
    ptick = rng.choice([0.3, 0.5, 0.8])
    mode = rng.random()
    use_dep = mode < 0.4
    hook = [rng.randrange(NP), 0, 500] if 0.3 < mode < 0.6 else None
    if hook:
        hook[1] = 1 - hook[0]
    out = []
    for ev in order:
        if use_dep and _is_async(ev) and rng.random() < 0.6:
            ev = dict(ev, dep=True)
        out.append(ev)
        if use_dep and rng.random() < 0.25:
            out.append({'e': 'bump'})
        if rng.random() < ptick:
            out.append({'e': 'tick'})
    if use_dep:
        # completions of the tasks scheduled by the source changes
        extra = [{'e': 'complete', 't': t, 'k': k} for t, nf in _shadow_tasks(out) for k in range(nf)
                 if not any(x['e'] == 'complete' and x['t'] == t and x['k'] == k for x in out)]
        rng.shuffle(extra)
        for ev in extra:
            if rng.random() < 0.9:
                out.insert(rng.randint(max(0, len(out) - 6), len(out)), ev)
    if rng.random() < 0.2:
        for _ in range(rng.randint(1, 2)):
            out.insert(rng.randint(1, len(out)), {'e': 'again', 'p': rng.randrange(NP)})
    thook = None
    if rng.random() < 0.3:
        thook = [rng.randrange(NP), 700]
        for _ in range(rng.randint(1, 2)):
            ev = {'e': 'trigger'} if rng.random() < 0.6 else {'e': 'trigger', 'p': rng.randrange(NP)}
            out.insert(rng.randint(0, len(out)), ev)
    if rng.random() < 0.35:
        out = [dict(e, bad=True) if e['e'] == 'complete' and rng.random() < 0.25 else e for e in out]
    if rng.random() < 0.9 and (not out or out[-1]['e'] != 'tick'):
        out.append({'e': 'tick'})
    return _mk(out, hook, thook)


def _rx_schedules(nset, nf=1, gen=False, full_ticks=True):
    """every schedule of an rx pipeline with `nset` input changes: the awaitables of evaluations 0..nset
    (nf each, in yield order) completed in every order relative to the sets and to each other (after
    their evaluation was requested), ticks anywhere"""
    S = [('S', i) for i in range(1, nset + 1)]
    chains = [S] + [[('C', t, k) for k in range(nf)] for t in range(nset + 1)]
    for order in _orders(chains):
        seen, ok = {0}, True
        for x in order:
            if x[0] == 'S':
                seen.add(x[1])
            elif x[1] not in seen:
                ok = False
                break
        if not ok:
            continue
        evs = [{'e': 'set'} if x[0] == 'S' else {'e': 'complete', 't': x[1], 'k': x[2]} for x in order]
        n = len(evs)
        masks = range(1 << n) if full_ticks else sorted({(1 << n) - 1, (1 << n) - 2, 0, 1, 0x5555 & ((1 << n) - 1),
                                                           0xAAAA & ((1 << n) - 1)})
        for mask in masks:
            out = [{'e': 'tick'}] if mask & 1 else []
            for i, e in enumerate(evs):
                out.append(dict(e))
                if i == n - 1 or (mask >> (i + 1)) & 1:
                    out.append({'e': 'tick'})
            yield {'kind': 'rx', 'nf': nf, 'gen': gen, 'events': out}


def _burst(srcs, params):
    """k assignments with no loop iteration in between, tick, then the completions in every order
    (generator futures in yield order), ticking after each completion / only once at the end"""
    assigns, chains = [], []
    tid = plain = 0
    for p, s in zip(params, srcs):
        a = _assign(p, s, tid, plain)
        assigns.append(a)
        if s == 'plain':
            plain += 1
        else:
            chains.append([{'e': 'complete', 't': tid, 'k': k} for k in range(len(a['v']))])
            tid += 1
    for first_tick in (True, False):
        for order in _orders(chains):
            for each in (True, False):
                out = [dict(a) for a in assigns]
                if first_tick:
                    out.append({'e': 'tick'})
                for c in order:
                    out.append(dict(c))
                    if each:
                        out.append({'e': 'tick'})
                if not each or not order:
                    out.append({'e': 'tick'})
                yield out


def _plain_everywhere(tier):
    bases = [[('assign', 0, 'agen3'), ('complete', 0, 0), ('complete', 0, 1), ('complete', 0, 2)],
             [('assign', 0, 'agen2'), ('assign', 1, 'coro'), ('complete', 0, 0), ('complete', 1, 0), ('complete', 0, 1)],
             [('assign', 0, 'coro'), ('assign', 0, 'agen2'), ('complete', 1, 0), ('complete', 0, 0), ('complete', 1, 1)],
             [('assign', 0, 'agen2'), ('assign', 0, 'agen2'), ('complete', 1, 0), ('complete', 0, 0), ('complete', 0, 1),
              ('complete', 1, 1)]]
    for base in bases:
        for ticked in (True, False):
            spec = []
            for x in base:
                spec.append(x)
                if ticked:
                    spec.append('tick')
            for pos in range(len(spec) + 1):
                for p in (0, 1):
                    for tick_after in (True, False):
                        sp = spec[:pos] + [('assign', p, 'plain')] + (['tick'] if tick_after else []) + spec[pos:] + ['tick']
                        yield _from_spec(sp)['events']
                        if tier == 'thorough':
                            # ... and a second plain assignment right behind it on the other parameter
                            sp2 = spec[:pos] + [('assign', p, 'plain'), ('assign', 1 - p, 'plain')] + spec[pos:] + ['tick']
                            yield _from_spec(sp2)['events']


def cases(rng, tier, worker, nworkers):
    if worker == 0:
        for f in sorted(glob.glob(os.path.join(os.path.dirname(__file__), '..', '..', 'corpus', 'C10', '*.json'))):
            yield json.load(open(f))['case']
        for name in sorted(WITNESSES):
            yield _from_spec(WITNESSES[name])
    i = 0

    def mine():
        nonlocal i
        i += 1
        return i % nworkers == worker
    kinds2 = ['coro', 'agen2', 'plain']
    # <= 2 assignments: everything, completions also before their assignment
    for n in (1, 2):
        for srcs in itertools.product(kinds2, repeat=n):
            for params in _param_choices(n):
                pre = tier == 'thorough' or n == 1 or 'agen2' not in srcs
                for evs in _schedules(srcs, params, pre_complete=pre):
                    if mine():
                        yield _mk(evs)
    # a generator with THREE awaits against every other kind (both orders, 1-2 parameters)
    for other in ('coro', 'agen2', 'plain') + (('agen3',) if tier == 'thorough' else ()):
        for srcs in (('agen3', other), (other, 'agen3')):
            for params in _param_choices(2):
                if tier == 'quick' and other == 'agen2' and params != (0, 0):
                    continue
                for evs in _schedules(srcs, params, pre_complete=(tier == 'thorough' and other in ('coro', 'plain'))):
                    if mine():
                        yield _mk(evs)
    # 3 assignments. quick: coroutine / plain on 1-2 parameters, and every pattern with one two-await
    # generator on one parameter; thorough: coroutine / two-await generator / plain in every mix, 1-2 parameters
    if tier == 'quick':
        for srcs in itertools.product(['coro', 'plain'], repeat=3):
            for params in _param_choices(3):
                for evs in _schedules(srcs, params):
                    if mine():
                        yield _mk(evs)
        for pos in range(3):
            for others in itertools.product(['coro', 'plain'], repeat=2):
                if others == ('coro', 'coro'):
                    continue            # (thorough has them)
                srcs = list(others)
                srcs.insert(pos, 'agen2')
                for evs in _schedules(srcs, (0, 0, 0)):
                    if mine():
                        yield _mk(evs)
    else:
        for srcs in itertools.product(['coro', 'agen2', 'plain'], repeat=3):
            for params in _param_choices(3):
                if srcs.count('agen2') == 3 and params not in ((0, 0, 0), (0, 1, 0)):
                    continue
                for evs in _schedules(srcs, params):
                    if mine():
                        yield _mk(evs)
    # re-assignments before the first tick: k assignments back to back (every mix, generators with
    # several awaits included), then every completion order, with a tick after every completion or
    # only at the end
    for k in (2, 3) if tier == 'quick' else (2, 3, 4):
        kinds = ['coro', 'agen2', 'plain'] if k < 4 else ['coro', 'agen2', 'plain']
        for srcs in itertools.product(kinds, repeat=k):
            if k == 4 and sum(1 for x in srcs if x != 'plain') > 3:
                continue
            for params in _param_choices(k):
                if k >= 3 and tier == 'quick' and sum(params) > 1:
                    continue
                for evs in _burst(srcs, params):
                    if mine():
                        yield _mk(evs)
    # a plain assignment dropped at EVERY point of a fully ticked asynchronous schedule
    for evs in _plain_everywhere(tier):
        if mine():
            yield _mk(evs)
    # references with a dependency, re-evaluated through _sync_refs when the source changes
    for evs in _dep_schedules(tier):
        if mine():
            yield _mk(evs)
    # ... next to a synchronous reference on the other parameter, which _sync_refs has to step over
    for evs in _dep_schedules(tier, sync=True):
        if mine():
            yield _mk(evs)
    # results the parameter rejects: the write raises inside the task
    for evs in _fault_schedules(tier):
        if mine():
            yield _mk(evs)
    # the SAME function object assigned again (Python compares references by identity)
    for evs in _dep_schedules(tier, mover={'e': 'again', 'p': 0}):
        if mine():
            yield _mk(evs)
    # obj.param.trigger: a watcher run by it assigns a plain value; triggering a linked parameter
    for evs, thook in _trigger_schedules(tier):
        if mine():
            yield _mk(evs, None, thook)
    # a watcher that overrides the other parameter with a plain value
    for evs, hook in _hook_schedules(tier):
        if mine():
            yield _mk(evs, hook)
    # expression pipelines: coroutine function, async generator function with 1 and 2 yields
    if tier == 'thorough':
        fams = [(1, 1, False, True), (2, 1, False, True), (3, 1, False, True), (1, 1, True, True), (2, 1, True, True),
                (1, 2, True, True), (2, 2, True, False), (1, 3, True, False)]
    else:
        fams = [(1, 1, False, True), (1, 1, True, True), (1, 2, True, False), (2, 2, True, False)]
    for nset, nf, gen, full in fams:
        for c in _rx_schedules(nset, nf, gen, full):
            if mine():
                yield c
    n_random = 600 if tier == 'quick' else 60000 // nworkers
    for _ in range(n_random):
        yield _random_param_case(rng, 5)


# ------------------------------------------------------------------ bookkeeping

def tags(case, impl):
    if case['kind'] == 'rx':
        return ['kind:rx', f'rx:sets={sum(1 for e in case["events"] if e["e"] == "set")}',
                'rx:async-generator:yields=%d' % case.get('nf', 1) if case.get('gen') else 'rx:coroutine']
    evs = case['events']
    na = sum(1 for e in evs if e['e'] == 'assign')
    t = ['kind:param', f'assignments={na}',
         'params=' + str(len({e['p'] for e in evs if e['e'] == 'assign'}))]
    for e in evs:
        if e['e'] == 'assign':
            t.append('src:' + e['src'] + (':dependent' if e.get('dep') else ''))
    if case.get('hook'):
        t.append('hook')
    nb = sum(1 for e in evs if e['e'] == 'bump')
    if nb:
        t.append(f'bumps={min(nb, 3)}')
    if any(e.get('bad') for e in evs):
        t.append('rejected-result')
    if any(e['e'] == 'trigger' for e in evs):
        t.append('trigger')
    return t


def nontrivial(case, impl, resp):
    if not isinstance(impl, dict) or 'steps' not in impl:
        return False
    if case['kind'] == 'rx':
        return resp.get('checked_steps', 0) >= 1 and any(s['value'] is not None for s in impl['steps'])
    plain = {e['v'][0] for e in case['events'] if e['e'] == 'assign' and e['src'] in ('plain', 'sync')}
    if case.get('hook'):
        plain.add(case['hook'][2])
    if case.get('thook'):
        plain.add(case['thook'][1])
    return resp.get('checked_steps', 0) >= 1 and any(v not in plain for s in impl['steps'] for _, v in s['log'])


def shrink(case):
    evs = case['events']
    if case['kind'] == 'rx':
        for i, e in enumerate(evs):
            if e['e'] != 'set':
                yield dict(case, events=evs[:i] + evs[i + 1:])
        return
    if case.get('hook'):
        yield dict(case, hook=None)
    if case.get('thook') and not any(e['e'] == 'trigger' and e.get('p') is None for e in evs):
        yield dict(case, thook=None)
    # remove one event; removing an asynchronous assignment removes its completions and renumbers later tasks
    tid_of = {}
    tid = 0
    for i, e in enumerate(evs):
        if _is_async(e):
            tid_of[i] = tid
            tid += 1
    for i, e in enumerate(evs):
        if _is_async(e):
            gone = tid_of[i]
            out = []
            for j, x in enumerate(evs):
                if j == i or (x['e'] == 'complete' and x['t'] == gone):
                    continue
                if x['e'] == 'complete' and x['t'] > gone:
                    x = dict(x, t=x['t'] - 1)
                out.append(x)
            yield dict(case, events=out)
        else:
            yield dict(case, events=evs[:i] + evs[i + 1:])
    # a generator with fewer awaits
    for i, e in enumerate(evs):
        if e['e'] == 'assign' and e['src'] == 'agen' and len(e['v']) > 1:
            k = len(e['v']) - 1
            out = [dict(x) for j, x in enumerate(evs)
                   if not (x['e'] == 'complete' and x['t'] == tid_of[i] and x['k'] == k)]
            out[i] = dict(e, v=e['v'][:-1])
            yield dict(case, events=out)
    # everything on one parameter
    if any(e['e'] == 'assign' and e['p'] != 0 for e in evs):
        yield dict(case, events=[dict(e, p=0) if e['e'] == 'assign' else e for e in evs])


def classify(case, impl, fail):
    """No known finding is left for C10: the four defects of the pre-fix code (hazard names in the
    driver's `model.hazards`, witness schedules in corpus/C10) were repaired in /repo by commits
    08165dc and 0c5ea5c, so every failure is a violation."""
    return None
